"""Per-property configuration of bin/check."""

COMMON_MODEL = "Go runtime, reflect, sync and the standard library are not modelled"

PROPS = {
    "C14": dict(
        quick_n=450, thorough_n=12000, shard=60,
        assumptions=[
            "Go float ==,<,> on non-NaN operands is the order of the (sign, magnitude) key of the bit pattern (IEEE-754)",
            "little-endian 64-bit platform (hash bytes of integers come from unsafe pointers)",
        ],
        trusted_base=["pkg/types Equal/Compare/Hash transcribed by hand into theories/Value/Value.v", COMMON_MODEL],
    ),
}
