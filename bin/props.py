"""Per-property configuration of bin/check."""

COMMON_MODEL = "Go runtime, reflect, sync and the standard library are not modelled"

PROPS = {
    "C17": dict(
        level_text="Coq theorem about DecoderGroup.Decode with its success cache as explicit state: for members whose rejection is determined by the source type and leaves the target untouched, the result after any warm-up history equals the cold result (first member that handles the source type decides); plus a refutation witness for the pinned algorithm. The group algorithm is tied to group.go exactly (a real encoding.DecoderGroup over synthetic members, including hypothesis-violating ones, vs. the model). PARTIAL: the composite decoders of pkg/types do not satisfy the hypothesis (measured on every run: hyp_* counters); for the real codec purity is checked directly (same outcome on a cold decoder, after warm-up histories, and from 8 goroutines), not proved.",
        level_note="Partial proof: theorem conditional on kind-determined rejection, which holds for primitive decoders only; real-codec purity is differential testing. Trusted: Coq kernel + vm_compute; transcription of group.go; verif hooks listing group members and building a fresh decoder.",
        technique="Coq proof (cache invariant: cached member = first supporting member) + exact correspondence of the group algorithm on synthetic members + direct purity oracle on the real codec",
        quick_n=300, thorough_n=6000, shard=60, mismatch_is_failure=True,
        assumptions=["reflect.TypeOf(source) is the cache key (sources of one Go type share an entry)"],
        trusted_base=["pkg/encoding/group.go transcribed by hand into theories/Codec/Group.v", COMMON_MODEL, "verif hooks: DecoderGroup.VerifDecoders, types.VerifNewDecoder"],
    ),
    "C18": dict(
        level_text="Coq theorems by structural induction over JSON-like documents of any nesting, for every text/template engine that renders action-free text to itself: fields without a template action come back equal from Build whatever the environment; execution changes nothing but the text of strings and keys (same shape); an identified variable without a value is rejected by Bind. The engine assumption is proved for the Gallina engine of the {{ . }} / {{ .NAME }} fragment used in the correspondence run, which executes Bind+Build on the real spec.Unstructured for generated specs/values and compares result, error class and panics with the model.",
        level_note="Trusted: Coq kernel + vm_compute; hand transcription of template.go/node.go and Meta.Bind/Unstructured.Build; Go's text/template is a Section variable constrained only by render_plain (recorded assumption) and modelled for the generated fragment; nil and empty containers are identified (JSON view).",
        technique="Coq structural induction (nested document type) with the template engine as a Section variable + vm_compute correspondence",
        quick_n=500, thorough_n=15000, shard=40, mismatch_is_failure=True,
        assumptions=["text/template renders text without '{{' unchanged (render_plain)"],
        trusted_base=["pkg/template, pkg/spec (Bind/Build), pkg/value (Is) transcribed by hand into theories/Template/Template.v", COMMON_MODEL],
    ),
    "C04": dict(
        level_text="Coq theorems for every history/interleaving (granularity: the status flip is atomic, threads are held at user-hook entries): termination is permanent and the exit error is the first Exit's; the flip takes all hooks (a terminated process holds none in any reachable state, a second Exit takes nothing - no hook can run twice), clears the values and hooks run as the reversed registration list. Tied to pkg/process by driving real processes from 2-3 worker goroutines with parking hooks so that Fork/AddExitHook/Exit of other threads land between the flip and any hook; hook log, Status/Err/Done/keys after every step and Join at the end are compared with the model; on complete states a Go oracle evaluates the property directly (each hook exactly once with the process's error, reverse order, cascade to descendants, Join iff children terminated).",
        level_note="Trusted: Coq kernel + vm_compute; hand transcription of process.go; the exactly-once / cascade / Join clauses at log level are checked on generated histories (model and implementation), not proved in Coq; WaitGroup and channels are Go runtime.",
        technique="Coq invariant proofs (sticky termination, hooks taken once) + vm_compute correspondence under forced interleavings + direct property oracle",
        quick_n=250, thorough_n=6000, shard=25, mismatch_is_failure=True,
        assumptions=["hooks supplied by the user return when released (they are functions of the harness)", "Join is probed after the last Fork (documented usage)"],
        trusted_base=["pkg/process/process.go, exithook.go transcribed by hand into theories/Process/Process.v", COMMON_MODEL],
    ),
    "C01": dict(
        level_text="Coq theorems for every history over the property's alphabet (any number of readers, any order): the serials of the responses emitted so far followed by the serials of the writes still pending are exactly 0..accepted-1 - each accepted write is answered at most once, in write order, none lost; a write that reports zero accepting readers gets no response; responses are joins (errors dominate, empty answers vanish, payloads in link order); positional lookups stay in range. Tied to pkg/packet by driving one real Writer and real Readers through generated histories (the goroutines Reader.Close spawns are parked in a build-tagged gate and delivered as explicit steps) and comparing every return value, the response stream and the requests seen by each reader with the model, plus an identity-based request/response ledger in Go as failing-input oracle for attribution.",
        level_note="Trusted: Coq kernel + vm_compute; hand transcription of writer.go/reader.go/packet.go; steps are the code's critical sections (their atomicity is C20). Attribution of answers to writes (positional matching) is checked against the ledger on generated histories, not proved in Coq; known finding F-C01-d (stale re-link).",
        technique="Coq invariant proof over histories (ledger of serials) + vm_compute correspondence + identity-based ledger oracle in Go",
        quick_n=400, thorough_n=12000, shard=40, mismatch_is_failure=True,
        assumptions=["one writer; operations of the alphabet are atomic (each is a critical section of the code)"],
        trusted_base=["pkg/packet writer.go/reader.go/packet.go transcribed by hand into theories/Packet/Writer.v", COMMON_MODEL, "verif hook at the top of Writer.receive (gate for deferred drop notices)"],
    ),
    "C10": dict(
        level_text="Coq theorems on the store model: a map filter is the conjunction of its entries (per-operator meaning m_entry), a find returns in id order exactly the stored documents the reference evaluation accepts whatever indexes exist (via C11), find(nil) lists everything, stored documents are read back as written, $set/$unset act as Map.Set/Delete (dictionary semantics = C15). Tied to pkg/store by replaying generated histories (inserts, updates incl. upsert and malformed updates, deletes, finds with sort/skip/limit, malformed filters) on the real store and comparing every returned document list, count and error class with the model evaluated in Coq, plus a Go reference evaluator over the documents stored before each step as failing-input oracle.",
        level_note="Trusted: Coq kernel + vm_compute; hand transcription of pkg/store into theories/Store (B-trees abstracted to sorted lists / tuple sets); theorems cover filters whose evaluation raises no error on the stored documents, ill-formed filters only by the differential run; sort is modelled as a stable insertion sort (Go's slices.SortFunc for at most 12 elements).",
        technique="Coq proofs (filter unfolding, index invariant, plan soundness) + vm_compute correspondence with the Go store",
        quick_n=220, thorough_n=6000, shard=14, mismatch_is_failure=True,
        assumptions=["one operation at a time (the store serialises them under its mutex; C20)", "result sets of at most 12 documents when sorted"],
        trusted_base=["pkg/store helper.go/store.go/segment.go/executionplan.go/stream.go transcribed by hand into theories/Store (B-trees abstracted: sorted list of documents, flat set of (key path, id) tuples per index)", COMMON_MODEL],
    ),
    "C11": dict(
        level_text="Coq theorem for every reachable state (any history of data and index operations): a find through execution plan and index scans equals the full-scan evaluation, for every filter whose evaluation raises no error; hence stores with the same documents answer alike whatever their indexes. Proved from plan soundness (bounds contain every matching document's key; induction over the filter incl. $and/$or) and an index completeness/soundness invariant over histories. Tied to the code by running each generated data history under three index configurations on the real store, comparing all results with each other and with the model. Partial indexes are outside the theorem: known finding F-C11-b.",
        level_note="Trusted: as C10. Scope of the theorem: non-partial indexes, index keys that are field names; unique indexes legitimately reject mutations, so configurations are compared until the first such rejection.",
        technique="Coq proof of plan soundness + index invariant (find via indexes = full scan) + differential runs over index configurations",
        quick_n=240, thorough_n=6000, shard=14, mismatch_is_failure=True,
        assumptions=["one operation at a time (C20)"],
        trusted_base=["pkg/store helper.go/store.go/segment.go/executionplan.go/stream.go transcribed by hand into theories/Store (B-trees abstracted: sorted list of documents, flat set of (key path, id) tuples per index)", COMMON_MODEL],
    ),
    "C12": dict(
        level_text="Coq theorems over all histories: a rejected Store/Swap (duplicate id, duplicate unique key, missing id, unknown id) returns the state unchanged (documents, every index, streams, log); a rejected index build leaves documents and all other indexes intact; in every reachable state no two documents share an id or a key of a unique index. Tied to the code by histories rich in failing mutations with a full scan and one query through every available index after each step.",
        level_note="Trusted: as C10. Multi-document Insert/Update calls are sequential in code and model: documents before the rejected one stay applied (the property speaks of the rejected document).",
        technique="Coq invariant proof (sorted unique ids, index completeness/soundness/uniqueness; conflict check makes index insertion infallible) + vm_compute correspondence",
        quick_n=120, thorough_n=3000, shard=8, mismatch_is_failure=True,
        assumptions=["one operation at a time (C20)"],
        trusted_base=["pkg/store helper.go/store.go/segment.go/executionplan.go/stream.go transcribed by hand into theories/Store (B-trees abstracted: sorted list of documents, flat set of (key path, id) tuples per index)", COMMON_MODEL],
    ),
    "C13": dict(
        level_text="Coq theorems: for every history, the events an open watcher has pending are exactly the (operation, id) of the successful mutations since it was opened whose document matches its filter, in order, minus those already read; rejected mutations log nothing; reading/closing/opening one watcher leaves the others alone; the pump is a FIFO queue (delivered ++ buffered = accepted). Tied to the code by histories with watchers opened, read and closed at random points (consumers that read eagerly, late or never) compared with the model.",
        level_note="Trusted: as C10; the mutation log is a ghost field appended where the code calls emit. Runtime part not provable in the model and only measured: writers are not blocked by an absent consumer (every history completes under a deadline), promptness of Close.",
        technique="Coq invariant over histories (ghost mutation log) + queue-machine proof for the pump + vm_compute correspondence",
        quick_n=200, thorough_n=5000, shard=14, mismatch_is_failure=True,
        assumptions=["events ready when the consumer reads are delivered within 40 ms (harness drain timeout)"],
        trusted_base=["pkg/store helper.go/store.go/segment.go/executionplan.go/stream.go transcribed by hand into theories/Store (B-trees abstracted: sorted list of documents, flat set of (key path, id) tuples per index)", COMMON_MODEL],
    ),
    "C15": dict(
        level_text="Coq theorems over all operation histories: every live map object agrees with a reference dictionary keyed by value equality on Has/Get/Len and listings (bindings, distinct keys, count, iteration order), operations return the same object as the reference, the representation invariant holds in every reachable state, the code's binary search equals a linear scan, and no operation changes any object but the mutable map it targets (snapshots are frames). Tied to pkg/types/map.go by replaying generated histories (colliding keys, overwrites, snapshots) on real maps, re-reading every live object after every step, and evaluating the model on the same history in Coq.",
        level_note="Trusted: Coq kernel + vm_compute; hand transcription of map.go into VMap.v; Go's map[uint64] modelled as an association list; the tie is differential on generated histories only; single-goroutine use.",
        technique="Coq refinement proof (sorted-bucket invariant, binary-search correctness, simulation to an association list) + vm_compute correspondence with the Go implementation",
        quick_n=240, thorough_n=6000, shard=15, mismatch_is_failure=True,
        assumptions=[
            "operations on one map are applied one at a time (concurrent use is C20's concern)",
            "Go's built-in map[uint64] behaves as a finite map (modelled as a hash-ordered association list)",
        ],
        trusted_base=["pkg/types/map.go transcribed by hand into theories/Value/VMap.v (table, buckets, binary search, object identity)", COMMON_MODEL],
    ),
    "C14": dict(
        level_text="Coq theorems: Equal is an equivalence, Compare a total preorder consistent with it (antisymmetric sign, transitive, zero on equal values), equal values hash alike - for every term of the value model (all kinds, widths, bit patterns incl. NaN/+-0/Inf, any nesting, nil). Tied to pkg/types by a differential run (Equal/Compare/Hash of generated pairs evaluated in Coq by vm_compute, 64-bit hashes compared exactly) plus a direct law checker on triples and a purity probe used to exhibit a failing input.",
        level_note="Trusted: Coq kernel + vm_compute; hand transcription of pkg/types into Value.v; IEEE comparison modelled by a (sign, magnitude) key; the tie is differential on generated cases only. Purity over a value's lifetime is probed on the implementation and true by construction in the model.",
        technique="Coq proof by nested structural induction (comparator combinators) + vm_compute correspondence with the Go implementation",
        quick_n=450, thorough_n=12000, shard=60,
        assumptions=[
            "Go float ==,<,> on non-NaN operands is the order of the (sign, magnitude) key of the bit pattern (IEEE-754)",
            "little-endian 64-bit platform (hash bytes of integers come from unsafe pointers)",
        ],
        trusted_base=["pkg/types Equal/Compare/Hash transcribed by hand into theories/Value/Value.v", COMMON_MODEL],
    ),
}
