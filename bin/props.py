"""Per-property configuration of bin/check."""

COMMON_MODEL = "Go runtime, reflect, sync and the standard library are not modelled"

import os, re, json, glob, collections


def c20_pre_build(ROOT, REPO, BUILD, sh, GOENV, tier, seed):
    """Regenerate the synchronisation skeleton from /repo's current source and compile it."""
    info = {"coverage": {}}
    tdir = os.path.join(ROOT, "translator")
    rc, out = sh(["go", "build", "-o", os.path.join(BUILD, "translate"), "."], cwd=tdir, timeout=600, env=GOENV)
    if rc != 0:
        return False, dict(kind="tie", what="the translator does not build", detail=out[-3000:])
    gen = os.path.join(ROOT, "coq", "theories", "Lockset", "generated")
    os.makedirs(gen, exist_ok=True)
    rc, out = sh([os.path.join(BUILD, "translate"), REPO, os.path.join(gen, "Skeleton.v")], cwd=REPO, timeout=900, env=GOENV)
    if rc != 0:
        return False, dict(kind="tie", what="the translator cannot read the current source of /repo", detail=out[-3000:])
    m = re.search(r"skeleton: (\d+) units, (\d+) paths, (\d+) events, (\d+) guarded fields", out)
    if m:
        info["coverage"].update(skeleton_units=int(m.group(1)), skeleton_paths=int(m.group(2)), skeleton_events=int(m.group(3)), guarded_fields=int(m.group(4)),
                                evaluations=int(m.group(2)), distinct_nontrivial=int(m.group(1)),
                                rule="evaluations = control-flow paths of the regenerated skeleton checked by lockset_ok / order_ok; distinct_nontrivial = function units with at least one lock operation or guarded access; race workloads: see race_workload_ops",
                                samples=[{"exemptions": ["store.segment.Scan/segment.indexes", "store.stream.Next,Decode/stream.doc"], "allowed_self_edge": "process.Process.mu"}])
    coq = os.path.join(ROOT, "coq")
    for f in ("theories/Lockset/Sync.v", "theories/Lockset/Soundness.v", "theories/Lockset/generated/Skeleton.v"):
        rc, out = sh(["coqc", "-Q", "theories", "Uf", f], cwd=coq, timeout=1200)
        if rc != 0:
            return False, dict(kind="proof", what="coqc failed on " + f, detail=out[-3000:])
    return True, info


def c20_diagnose(ROOT):
    """Evaluate the lockset and lock-order checks on the skeleton's JSON twin, to name the sites that break them."""
    try:
        m = json.load(open(os.path.join(ROOT, "coq", "theories", "Lockset", "generated", "Skeleton.json")))
    except OSError:
        return []
    written = set(m["guarded_fields"])
    exempt = {("store.segment.Scan", "store.segment.indexes"), ("store.stream.Next", "store.stream.doc"), ("store.stream.Decode", "store.stream.doc")}
    out = []
    for u in m["dump"]:
        for p in (u["paths"] or []):
            held = []
            for e in (p or []):
                if e["k"] == "acq":
                    if any(b == e["b"] and n == e["n"] for (b, n, mo) in held):
                        out.append("%s takes %s on %s while holding it (%s)" % (u["unit"], e["n"], e["b"], e["w"]))
                    held.append((e["b"], e["n"], e["m"]))
                elif e["k"] == "rel":
                    t = (e["b"], e["n"], e["m"])
                    if t in held:
                        held.remove(t)
                    else:
                        out.append("%s releases %s on %s without holding it (%s)" % (u["unit"], e["n"], e["b"], e["w"]))
                elif e["n"] in written and (u["unit"], e["n"]) not in exempt:
                    cls = e["n"].rsplit(".", 1)[0]
                    if not any(b == e["b"] and n.startswith(cls + ".") and (mo == "W" or e["m"] == "r") for (b, n, mo) in held):
                        out.append("%s %s %s of %s at %s without %s's lock held%s" % (
                            u["unit"], "writes" if e["m"] == "w" else "reads", e["n"], e["b"], e["w"], e["b"],
                            " exclusively" if e["m"] == "w" else ""))
            if held:
                out.append("%s can return still holding %s" % (u["unit"], held))
    if m.get("lock_order_cycle"):
        out.append("lock order: " + m["lock_order_cycle"] + ": " + "; ".join("%s -> %s (%s)" % (e["from"], e["to"], e["at"][0]) for e in m["lock_order_edges"] if e["from"] != e["to"]))
    seen, res = set(), []
    for x in out:
        if x not in seen:
            seen.add(x); res.append(x)
    return res


def c20_pre(ROOT, REPO, BUILD, sh, GOENV, tier, seed):
    """Race-detector workloads on the real objects (the search for a failing schedule, and the part the lock protocol does not cover)."""
    info = {"coverage": {}}
    h = os.path.join(ROOT, "harness")
    env = dict(GOENV, CGO_ENABLED="1")
    rc, out = sh(["go", "build", "-race", "-tags", "verif", "-o", os.path.join(BUILD, "vr"), "./cmd/vr"], cwd=h, timeout=1200, env=env)
    if rc != 0:
        return False, dict(kind="tie", what="the race workloads do not build against /repo", detail=out[-3000:])
    rdir = os.path.join(BUILD, "race")
    os.makedirs(rdir, exist_ok=True)
    for f in glob.glob(os.path.join(rdir, "r.*")):
        os.remove(f)
    seeds = [seed, seed + 1] if tier == "quick" else [seed + k for k in range(8)]
    secs = "1.0" if tier == "quick" else "4.0"
    ops = collections.Counter()
    problems = []
    for sd in seeds:
        for gmp in (["8"] if tier == "quick" else ["2", "8", "16"]):
            env2 = dict(env, GORACE="log_path=%s halt_on_error=0" % os.path.join(rdir, "r"), GOMAXPROCS=gmp)
            rc, out = sh([os.path.join(BUILD, "vr"), str(sd), secs], cwd=ROOT, timeout=900, env=env2)
            for line in out.splitlines():
                try:
                    r = json.loads(line)
                except ValueError:
                    continue
                ops[r["workload"]] += r.get("ops", 0)
                if r.get("panic"):
                    problems.append(dict(workload=r["workload"], seed=sd, gomaxprocs=gmp, panic=r["panic"]))
                if r.get("stuck"):
                    problems.append(dict(workload=r["workload"], seed=sd, gomaxprocs=gmp, stuck=r["stuck"]))
            if rc != 0 and not problems:
                problems.append(dict(seed=sd, gomaxprocs=gmp, crashed=out[-1500:]))
    races = []
    for f in sorted(glob.glob(os.path.join(rdir, "r.*"))):
        txt = open(f, errors="replace").read()
        for rep in txt.split("=================="):
            if "DATA RACE" in rep:
                tops = re.findall(r"^(?:Write|Read|Previous write|Previous read)[^\n]*\n\s+(\S+)\(\)\n\s+(\S+:\d+)", rep, re.M)
                sig = " <-> ".join(sorted("%s %s" % (a.split("/")[-1], b.split("/repo/")[-1]) for a, b in tops))
                if sig not in [r["signature"] for r in races]:
                    races.append(dict(signature=sig, report=rep.strip()[:2500]))
    info["coverage"].update(race_workload_ops=dict(ops), race_reports=len(races), race_seeds=seeds, race_seconds_per_workload=float(secs))
    if races or problems:
        what = ("the race detector reports %d distinct data race(s) under the contended workloads, e.g. %s" % (len(races), races[0]["signature"])) if races else \
               ("a contended workload %s" % ("panicked: " + problems[0].get("panic", "") if problems[0].get("panic") else "wedged: " + str(problems[0].get("stuck") or problems[0].get("crashed"))))
        info.update(kind="tie", what=what, detail=json.dumps(dict(races=races[:3], problems=problems[:3]))[:6000],
                    failing_input=dict(workloads="harness/cmd/vr (go build -race)", seeds=seeds, races=races[:5], problems=problems[:5]))
        return False, info
    return True, info

PROPS = {
    "C08": dict(
        level_text="Coq theorems. For every table state and start symbol: (1) DEPENDENCIES FIRST - the list one operation walks (Table.linked: breadth-first in-degree count, then Kahn's algorithm; the model's fuel is shown sufficient) holds, when the references are acyclic, exactly the symbols that reach the start symbol through references, once each, and every symbol in it comes after all the symbols of the list it refers to; the load notifications of one load are a subsequence of it (dependencies first), the unload notifications of one unload a subsequence of its reverse (dependents first); without acyclicity the part Kahn's loop produced is still ordered. (2) WRAPPING - one activation notifies the init flow, then (only if it did not fail) the load hooks once and the begin flow; symmetrically term/unload/final. (3) ABORT - after the first failing flow nothing more is notified and the error an Insert returns is a flow's error. Tied to pkg/symbol by correspondence: generated histories (acyclic universes, lifecycle ports attached to responder nodes that succeed or fail, all insertion/removal orders the generator draws) on a real Table; per-symbol notification sequences and results compared with the model up to the first aborted operation, and a Go oracle evaluates the order, wrapping and abort clauses on the notifications of every operation.",
        level_note="Proved about the hand-written model of table.go; the model fixes Go's map iteration order, which the theorems do not depend on (they hold for the list order the model picks, and the implementation's notification order is compared per symbol and checked by the oracle across symbols). After an aborted operation the set of already-notified independent dependents depends on Go map order, so the model comparison stops there (the oracle continues). Trusted as C06.",
        technique="Coq proofs (Kahn ordering with fuel sufficiency, shape of activation/deactivation, abort) + vm_compute correspondence + direct ordering oracle",
        quick_n=500, thorough_n=8000, shard=20, mismatch_is_failure=True,
        assumptions=["one table operation at a time (C20)", "at most one responder per lifecycle port"],
        trusted_base=["pkg/symbol/table.go, symbol.go and the Link/Unlink/close-hook behaviour of pkg/port transcribed by hand into theories/Table/Table.v (Go map iteration order fixed; observables compared as sets / per-symbol sequences)", COMMON_MODEL],
    ),
    "C06": dict(
        level_text="Coq theorems for every history of Insert/Free/Close with fresh instances: at most one symbol per id and per instance; every port link joins existing ports of two PRESENT symbol instances of ONE namespace (no link to a removed or replaced symbol, none across namespaces); lookup returns the inserted symbol after Insert and nothing after Free. REFERENCE INDEX EXACT: along every history whose references carry an id or a name (not both) and in which a name is used by one symbol of a namespace at a time, Table.references holds exactly the resolved port references of the present symbols, reversed (nothing stale, nothing missing), and the name map resolves exactly to the present symbol of that namespace and name. WIRING EXACT: along the same histories (every inserted symbol a new instance; lifecycle flows may fail) the port links are exactly the resolved references of the present symbols between ports their nodes offer - every such reference is linked and nothing else is. Tied to pkg/symbol by exact comparison with the implementation: generated universes (ids, names, two namespaces, cycles, self and dangling references, missing ports) and histories on a real symbol.Table with real nodes, with Keys and the wiring of every out-port (resolved by pointer identity to instances) after every operation.",
        level_note="Trusted: Coq kernel + vm_compute; hand transcription of table.go / symbol.go / port linking. The history condition is computable (wf_from_b / wf3_from_b) and all generated histories meet it; histories outside it (two symbols of one name in a namespace, references with both id and name, reused instances) are outside the theorems.",
        technique="Coq invariant proof over histories (links sound, ids unique) + vm_compute correspondence of exact wiring sets",
        quick_n=500, thorough_n=8000, shard=20, mismatch_is_failure=True,
        assumptions=["one table operation at a time (Table serialises them under its mutex; C20)", "hooks succeed"],
        trusted_base=["pkg/symbol/table.go, symbol.go and the Link/Unlink/close-hook behaviour of pkg/port transcribed by hand into theories/Table/Table.v (Go map iteration order fixed; observables compared as sets / per-symbol sequences)", COMMON_MODEL],
    ),
    "C07": dict(
        level_text="Coq theorems. ACTIVE = CLOSURE PRESENT, over histories: along every history of Insert/Free/Close in which references carry an id or a name (not both), a name is used by one symbol of a namespace at a time, every inserted symbol is a new instance and the lifecycle flows succeed, the instances with a load notification and no later unload are, after every operation, exactly the present symbols whose whole reference closure is present, and nothing else; after Close no symbol is left and none is active. Ingredients, each a theorem for every table state: the activation test (isActivated: depth-first walk with a visited set; fuel shown sufficient) decides 'the reference closure is present'; the list a load/unload walks (Table.linked) holds exactly the symbols that reach the start symbol through the reference index, cycles included; the reference index is exactly the reverse of the resolved references (C06); a load (unload) whose flows succeed notifies exactly the walked symbols whose closure is present; adding a symbol completes exactly the closures of the symbols that reach it, removing it breaks exactly those; within one removal the unload notifications precede the node close. ALTERNATION: along the same histories every load notification finds its instance inactive and every unload notification finds it active, so the notifications of an instance strictly alternate, starting with a load (the walk never lists a symbol twice, cycles included). Tied to pkg/symbol by correspondence: after every operation of every generated history (shared targets, chains, cycles, dangling references, replacements) active sets and per-instance notification sequences of a real Table must coincide with the model's, and a Go oracle recomputes the closure from the specs.",
        level_note="The history condition is computable (wf2_from_b) and every generated history of the correspondence run meets it; histories with two symbols of one name in a namespace, references carrying both id and name, reused instances or failing lifecycle flows (C08) are outside the theorems (the implementation does not reject them). Proved about the hand-written model; trusted as C06.",
        technique="Coq proofs (invariant over histories: reference index exact, active set = closed symbols; DFS closure test; Kahn walk membership; exact notification set of one operation) + vm_compute correspondence + direct closure/alternation oracle",
        quick_n=500, thorough_n=8000, shard=20, mismatch_is_failure=True,
        assumptions=["one table operation at a time (C20)", "hooks succeed (failing lifecycle flows are C08)"],
        trusted_base=["pkg/symbol/table.go, symbol.go and the Link/Unlink/close-hook behaviour of pkg/port transcribed by hand into theories/Table/Table.v (Go map iteration order fixed; observables compared as sets / per-symbol sequences)", COMMON_MODEL],
    ),
    "C09": dict(
        level_text="Coq theorems about Runtime.Load and the two Reconcile handlers over abstract stores: after Load(nil) the table maps each id to exactly the binding of the spec stored under it in the runtime's namespace against the current values and to nothing otherwise; a filtered Load does this for the covered ids and leaves the rest alone; a repeated Load returns the same table and emits no notification; along any history of insert/update/delete on both stores in which each change is followed by the handling of its event the table is, at every quiet point, exactly what the stores prescribe. And for backlogs: along ANY history in which changes to the two stores, explicit Loads and the handling of pending events interleave arbitrarily (several changes pile up before an event is handled; the spec handler and the value handler take turns in any order, each on the oldest event of its stream) the table is, whenever both streams have run dry, exactly what the stores prescribe - by an invariant over snapshots of the value store (every id is waiting in the spec stream or bound against a snapshot that differs from the present store only under ids still waiting in the value stream). PARTIAL: handlers interleave at the granularity of whole events (each Load atomic); the real goroutines are exercised on the implementation (bursts, then the quiescent table is compared with the model's, which by the theorem does not depend on the handling order). Correspondence: a real Runtime over real stores, scheme and hooks; the table through a verif accessor and the load/unload hook log after every Load / settled change; a scripted overlap of two Loads.",
        level_note="Partial as stated. Trusted: Coq kernel + vm_compute; hand transcription of runtime.go, Meta.Bind/IsBound and Unstructured.Build at the granularity of (id, namespace, kind, body version, environment references, one templated field). Symbols whose Bind failed are compared without their environment (Go map order). Namespaces of specs and values are fixed for life; value names are unique per namespace in generated histories.",
        technique="Coq proof (finite-map refinement of Load to the stores' prescription, idempotence, inductive convergence invariant for Reconcile, snapshot invariant for arbitrary backlogs and handler interleavings) + vm_compute correspondence against a real Runtime + scripted Load overlap",
        quick_n=500, thorough_n=6000, shard=50, mismatch_is_failure=True,
        assumptions=["spec and value ids are unique (the store's id index)", "a spec and a value keep their namespace for life", "each Load is atomic (the repaired Runtime serialises Loads)", "hooks and codecs do not call back into the runtime"],
        trusted_base=["pkg/runtime/runtime.go (Load, Reconcile handlers), pkg/spec/spec.go (Bind, IsBound), pkg/spec/unstructured.go (Build) transcribed by hand into theories/Runtime/Load.v", COMMON_MODEL],
    ),
    "C16": dict(
        level_text="Coq theorem about the reflective codec over a universe of Go types (scalars of every width, string, []byte, time.Time, time.Duration, pointers, slices, arrays, string-keyed maps, structs with named and omitempty fields, open any fields), of any nesting depth: for every well-formed value Marshal succeeds, Unmarshal of the result into a fresh value succeeds, the decoded value encodes to the same engine value, and for types without open fields it is the canonical form of the original (nil/empty containers identified, whole UTC milliseconds); and for open fields: the generic view of ANY well-formed engine value (nulls anywhere, empty containers, mixed lists) encodes back to it. PARTIAL: inline fields are modelled and correspondence-checked but outside the general theorem; the JSON form and the typed spec -> Unstructured -> typed path are direct oracles on the implementation. Correspondence: reflectively built Go types and values, types.Marshal / types.Unmarshal on the real codec, engine value and decoded value compared exactly with the model's.",
        level_note="Partial as stated. Well-formed excludes pointer-to-null (finding F-C16-b), sub-millisecond non-zero durations (F-C16-d), times within a millisecond of the zero time, duplicate struct keys. Deep equality holds only up to the canonical form (F-C16-a). Trusted: Coq kernel + vm_compute; hand transcription of pkg/types encoders/decoders; field aliases (snake case / tags) are computed by the harness, not the model; *time.Time (a text marshaler) and named scalar types are outside the universe.",
        technique="Coq proof by nested structural induction (round trip, canonical form, generic-view lemma over sorted association lists) + vm_compute correspondence on reflectively generated types + direct round-trip / JSON / spec-path oracles",
        quick_n=1500, thorough_n=30000, shard=100, mismatch_is_failure=True,
        assumptions=["values are trees (no shared or cyclic pointers)", "struct keys are distinct after flattening; at most one inline map per flattened struct"],
        trusted_base=["pkg/types/encoding.go, map.go, slice.go, binary.go, integer.go, uinteger.go, float.go, string.go, boolean.go, time.go (Marshal/Unmarshal paths for the universe) transcribed by hand into theories/Codec/Codec.v", COMMON_MODEL],
    ),
    "C17": dict(
        level_text="Coq theorem about DecoderGroup.Decode with its success cache as explicit state: for members whose rejection is determined by the source type and leaves the target untouched, the result after any warm-up history equals the cold result (first member that handles the source type decides); plus a refutation witness for the pinned algorithm. The group algorithm is tied to group.go exactly (a real encoding.DecoderGroup over synthetic members, including hypothesis-violating ones, vs. the model). PARTIAL: the composite decoders of pkg/types do not satisfy the hypothesis (measured on every run: hyp_* counters); for the real codec purity is checked directly (same outcome on a cold decoder, after warm-up histories, and from 8 goroutines), not proved.",
        level_note="Partial proof: theorem conditional on kind-determined rejection, which holds for primitive decoders only; real-codec purity is differential testing. Trusted: Coq kernel + vm_compute; transcription of group.go; verif hooks listing group members and building a fresh decoder.",
        technique="Coq proof (cache invariant: cached member = first supporting member) + exact correspondence of the group algorithm on synthetic members + direct purity oracle on the real codec",
        quick_n=600, thorough_n=6000, shard=60, mismatch_is_failure=True,
        assumptions=["reflect.TypeOf(source) is the cache key (sources of one Go type share an entry)"],
        trusted_base=["pkg/encoding/group.go transcribed by hand into theories/Codec/Group.v", COMMON_MODEL, "verif hooks: DecoderGroup.VerifDecoders, types.VerifNewDecoder"],
    ),
    "C18": dict(
        level_text="Coq theorems by structural induction over JSON-like documents of any nesting, for every text/template engine that renders action-free text to itself: fields without a template action come back equal from Build whatever the environment; execution changes nothing but the text of strings and keys (same shape); an identified variable without a value is rejected by Bind. The engine assumption is proved for the Gallina engine of the {{ . }} / {{ .NAME }} fragment used in the correspondence run, which executes Bind+Build on the real spec.Unstructured for generated specs/values and compares result, error class and panics with the model.",
        level_note="Trusted: Coq kernel + vm_compute; hand transcription of template.go/node.go and Meta.Bind/Unstructured.Build; Go's text/template is a Section variable constrained only by render_plain (recorded assumption) and modelled for the generated fragment; nil and empty containers are identified (JSON view).",
        technique="Coq structural induction (nested document type) with the template engine as a Section variable + vm_compute correspondence",
        quick_n=900, thorough_n=15000, shard=40, mismatch_is_failure=True,
        assumptions=["text/template renders text without '{{' unchanged (render_plain)"],
        trusted_base=["pkg/template, pkg/spec (Bind/Build), pkg/value (Is) transcribed by hand into theories/Template/Template.v", COMMON_MODEL],
    ),
    "C02": dict(
        level_text="Coq theorems about the Tracer every node owns, as a state machine over its method calls (any schedule of the forward/backward loops of all processes is a sequence of calls): for EVERY call sequence, per reader, answered requests followed by pending requests are exactly the requests read, in order (each request answered at most once, none overtaking, none lost); the reader branch answers exactly the longest prefix of the queue whose slots are recorded and completely filled, each with the join of its slots (the repaired defect: a request between Read and Link was answered with the empty packet); the answer of a derived packet is filed in exactly that packet's slot whatever the answer order, never out of range. END TO END FOR ONE NODE (refinement): a specification machine keeps for every unanswered request the row of the packets derived from it, in link order, with the answer each has received, and answers a request only when it is the oldest unanswered request of its reader and its row is non-empty and complete - with the join of the row; for EVERY call sequence that keeps the node discipline (fresh packets; a packet is linked only to unanswered requests and before it is written; all packets derived from a request are linked before the first of them is written; each derived packet written at most once; a request without derived packets answered directly; a packet may be derived from several requests) the tracer hands out exactly the specification's answers (same requests, readers, packets, order), holds the same pending requests and writes, and never indexes out of range; the discipline keeps the specification's invariant; and EVERY interleaving of the forward loops of the three node kinds (per request: Read, then Write(nil, request) or Link for every derived packet followed by Write for every one) with one another and with Receive calls, packets being fresh, keeps the discipline - so in every schedule of the node loops the tracer hands out the specification's answers. The discipline is computable: the correspondence run checks it on every call sequence it drives through the real Tracer (one-to-one, one-to-many, many-to-one and direct answers, random interleavings) and compares the real answers with the specification's and with the tracer model's. ACROSS NODES (Node/Network.v): for an acyclic network of such specification nodes (one model node per input; links in-order as C01 gives; any number of requests in flight; node steps interleaved arbitrarily) - at every node arrived = answered ++ pending without repetition in every reachable state; every answer is the node's own result or the join of the answers the derived packets received EARLIER (so answers are the schedule-independent recursive evaluation over the derivation tree); a network with anything pending can move (acyclicity), so a network that cannot move has answered everything exactly once and in order; when all outside requests enter at node 0 the answers delivered outside are, oldest first, exactly the requests node 0 has answered - a prefix of the injected requests in injection order; with packets and packet.Join an error among the answers to the derived packets makes the request's answer an error (so an error anywhere below reaches the source); a request's action finishes once and a packet has one recorded answer. PARTIAL: that real nodes joined by real ports form such a network is argued per component (tracer refines specification, loops keep the discipline, C01 for the links) and compared exactly with the implementation as a whole at node level (real OneToOne/OneToMany/ManyToOne nodes in chains, fan-out, diamonds, fan-in; actions held open and released in random order; several requests pipelined in one process; every source answer checked against the reference evaluation, AND against the network model: the harness supplies the derivations of the real run in creation order and the model - per-node FIFO, row-complete rule, join - must compute exactly the answers the real source received).",
        level_note="Partial as stated: the workflow-level theorem is about a network of specification nodes with in-order links (C01); the identification of the real workflow with that network is per component plus the node-level oracle. Trusted: Coq kernel + vm_compute; hand transcription of tracer.go (hooks/Dispatch left out: the three node kinds do not use them); the node loops (onetoone.go, onetomany.go, manytoone.go) enter the proof as lists of tracer calls per request read off their code (Node/Loops.v); that reading is checked on every run against the call sequences recorded from the real nodes. Node-level schedules are random (seeded) but not replayable exactly: the oracle is schedule-independent except for which input completes a many-to-one group, where both outcomes are accepted.",
        technique="Coq proof (ledger invariant over all call sequences; refinement of the tracer to a request/row specification by simulation, with the invariant of the node discipline; network of specification nodes: per-node ledger, justified answers, deadlock freedom by acyclicity) + vm_compute correspondence of a real Tracer against model and specification + vm_compute correspondence of the network model against real workflows + node-level reference-evaluation oracle under random schedules",
        quick_n=300, thorough_n=6000, shard=100, mismatch_is_failure=True,
        assumptions=["responses of a writer arrive in write order, exactly once (C01)", "one tracer call at a time (the tracer's mutex; C20)", "workflows are acyclic"],
        trusted_base=["pkg/packet/tracer.go transcribed by hand into theories/Node/Tracer.v; packet.Join as in theories/Packet/Writer.v", COMMON_MODEL],
    ),
    "C03": dict(
        level_text="Coq theorems about one writer, its readers, their closes (with the delayed drop notices of Reader.Close) and the requester that takes responses from Writer.Receive() at arbitrary points: once the writer is closed every write it ever accepted has exactly one response queued, in write order (joined answer or dropped-packet error); whatever the interleaving, what the requester has taken is a prefix of that queue - nothing lost, duplicated or reordered, whether or not it was already waiting when the writer closed (the repaired defect); a take with nothing left reports the closed channel or waits, never a nil packet for an owed answer. NODE CLOSE: when a node is closed (Tracer.Close) after any call sequence that keeps the node discipline (C02), every request the node has read is answered exactly once by the time the close returns - with its real answer before, or with a dropped-packet error at the close - and the tracer keeps nothing (the real Tracer.Close is compared with the model on sequences closed with requests still waiting, in C02's correspondence run). WORKFLOW TEARDOWN (Node/Network.v): in an acyclic network of specification nodes (C02) with any number of requests in flight, closing every node at ANY point of ANY run - each closed node answering what it holds with the dropped-packet error - leaves nothing pending anywhere and has answered every request that ever arrived at any node exactly once; every answer ever given is the dropped-packet error, the node's own result, or the join of earlier answers to the derived packets. PARTIAL: port and process teardown reduce to closes of readers and writers (covered per writer above) and node closes; that the real teardown is that composition is enumerated on the implementation (src -> A -> B -> sink, actions held open, the request at each point of its way, a pipelined second request and a request of another process on the same nodes, one or two of ten teardown actions): every requester returns within 1.5 s with its real answer or a dropped-packet error, no panic, unaffected requesters get their real answer.",
        level_note="Partial as stated. 'Promptly' is a deadline on the implementation (1.5 s), not a theorem. When the part downstream of a node is closed before the node writes, the node's own result is the answer (as for an unconnected port, C02) and is accepted as well-formed. Trusted: Coq kernel + vm_compute; hand transcription of writer.go / reader.go (Packet/Writer.v) and of the pump; the verif gate in Writer.receive to deliver Reader.Close's drop notices one by one.",
        technique="Coq proof (ledger of C01 extended over writer close; lossless-FIFO refinement of the pump and the requester) + vm_compute correspondence of a real writer under teardown + crash-point enumeration oracle on a real workflow",
        quick_n=500, thorough_n=5000, shard=100, mismatch_is_failure=True,
        assumptions=["a requester that was owed an answer keeps reading Writer.Receive() (a writer nobody reads keeps its pump goroutine: C05)"],
        trusted_base=["pkg/packet/writer.go, reader.go transcribed by hand into theories/Packet/Writer.v, the pump goroutine into theories/Packet/Teardown.v", COMMON_MODEL],
    ),
    "C04": dict(
        level_text="Coq theorems for every history/interleaving (granularity: the status flip is atomic, threads are held at user-hook entries; any number of threads and processes): termination is permanent and the exit error is the first Exit's; the flip takes all hooks (a terminated process holds none in any reachable state, a second Exit takes nothing), clears the values and hooks run as the reversed registration list; and the log-level clause C04_exactly_once, by a conservation argument (every hook an AddExitHook call brought in is registered, or waits in a frame of a thread running exit hooks, or is in the log - exactly one of the three): no hook is ever entered twice, a hook is entered only after its process terminated and with that process's exit error, and once no thread has anything left to run a hook has been entered exactly once if its process terminated and not at all (still registered, once) otherwise; C04_cascade: on such complete states every process forked from a terminated process is terminated; C04_join: the WaitGroup counter of a process is zero (Join returns) exactly when all its children have terminated. Tied to pkg/process by driving real processes from 2-3 worker goroutines with parking hooks so that Fork/AddExitHook/Exit of other threads land between the flip and any hook; hook log, Status/Err/Done/keys after every step and Join at the end are compared with the model; on complete states a Go oracle evaluates the property directly (each hook exactly once with the process's error, reverse order, cascade to descendants, Join iff children terminated).",
        level_note="Trusted: Coq kernel + vm_compute; hand transcription of process.go (a parked hook is the head HParked of its thread's top frame); C04_exactly_once assumes distinct hook objects; all three log-level theorems assume existing thread/process numbers (ok_from); the WaitGroup is its counter, channels are Go runtime.",
        technique="Coq invariant proofs (sticky termination, hooks taken once, token conservation + ownership invariant => exactly once with the right error; reachability invariant => cascade; WaitDone-token conservation => Join) + vm_compute correspondence under forced interleavings + direct property oracle",
        quick_n=250, thorough_n=6000, shard=25, mismatch_is_failure=True,
        assumptions=["hooks supplied by the user return when released (they are functions of the harness)", "Join is probed after the last Fork (documented usage)", "hooks are distinct objects (AddExitHook refuses one that is already registered)"],
        trusted_base=["pkg/process/process.go, exithook.go transcribed by hand into theories/Process/Process.v", COMMON_MODEL],
    ),
    "C05": dict(
        level_text="Coq theorems about process-local stores (pkg/process/local.go) and the per-process endpoint maps of ports, modelled at LOCK granularity (every Lock/RLock, critical section, Unlock and call of user code is one step of a thread; a history is any interleaving of any number of threads calling Store / Load / Delete / LoadOrStore / AddStoreHook / RemoveStoreHook / Keys / Close / port Open / port Close / AddExitHook / Exit): no reachable state is a deadlock (unless all threads have returned some thread can step); locks exclude; the initialiser of a lazy cell runs at most once and a process sees at most one run more than its entry was deleted; in every state where all threads have returned a terminated process has no value, lazy cell, waiter list or port endpoint left. The pinned Store (exit hook registered with the store's lock held) is kept in the model with the 3-step wedge as a theorem. Tied to the code by driving a real Local[int], real ports and processes from 2-3 worker goroutines that are held inside every user callback, so that other workers' operations and Exit land between any two critical sections; after each step worker states (returned / held / waiting for a mutex, read off the goroutine dump), map sizes, running processes and the workers' logs are compared with the model. PARTIAL: tracer tables, the debug agent and goroutines are not modelled; they are measured: workloads on a real workflow (with and without the agent, requests abandoned at random points) followed by the exit of every process must leave every port map, both tracers, the agent's process and frame lists empty and the engine's goroutine count back at its starting value within 3 s. Also proved: the tracer of a node holds nothing (no queue, slot or link) once every request it read is answered and no written packet is outstanding, for every disciplined call sequence (C02). And the debug agent across processes (Runtime/AgentProc.v): for every sequence of accepts, packet-hook firings and exits of any number of processes in any order - firings after the exit (drop notices of a closing reader) and accepts after the exit included - the agent lists no terminated process and holds no frames entry for one; the unguarded hooks of the pinned tree are refuted (they re-create the entry: fix b2cab63); that model is compared with a real Agent in C19's correspondence run.",
        level_note="Partial as stated. Trusted: Coq kernel + vm_compute; hand transcription of local.go, InPort.Open/Close, OutPort.Open/Close, Process.Exit/AddExitHook (flip and hook list only) into theories/Process/Local.v; critical sections are atomic steps between Lock and Unlock (the lock discipline itself is what the no-deadlock and exclusion theorems are about); user code is assumed to return and not to call back into the same store. The harness holds goroutines only inside user code, so finer interleavings are covered by the theorems, not by the correspondence.",
        technique="Coq invariant proofs over all interleavings at lock granularity (well-formed continuations => no deadlock; lock exclusion; single-flight counting; cleanup-coverage invariant => no residue) + vm_compute correspondence under forced interleavings + direct residue / goroutine oracle on real workflows",
        quick_n=250, thorough_n=1200, shard=50, mismatch_is_failure=True,
        assumptions=["user callbacks return and do not re-enter the same store", "critical sections of Process (status flip, hook registration) are atomic (C04, C20)", "process indices with store hooks never have two LoadOrStore calls waiting on one cell (which of them stores first is scheduler-dependent and not observable otherwise)"],
        trusted_base=["pkg/process/local.go, pkg/port/inport.go (Open, Close), pkg/port/outport.go (Open, Close), pkg/process/process.go (Exit, AddExitHook) transcribed by hand into theories/Process/Local.v", COMMON_MODEL, "verif hooks: VerifLen on Local, InPort, OutPort, Tracer; VerifTracer on the node kinds"],
    ),
    "C19": dict(
        level_text="Coq theorems about the agent's frame bookkeeping as a function of the sequence of packet-hook firings of a process (any number of ports, any interleaving): the frames held for a port are, in order, the k-th packet its inbound hook saw paired with the k-th packet its outbound hook saw, and firings on other ports never touch them - so with endpoints answering in request order (C01/C02) each complete frame pairs a packet that entered a port with the packet that answered it on that port; the pinned matching rule is refuted by a four-firing witness. About breakpoints (thread machine of OnFrame / Next / Done / Close): once a breakpoint is closed, a packet paused in OnFrame steps without a partner and leaves in two steps; done never reopens. PARTIAL: transparency (no response changes with the agent attached) and release by RemoveBreakpoint / Debugger.Close are differential measurements: the node-level workflows and schedules of C02 run from one seed without the agent, with the agent and no breakpoint, and with agent + debugger (random breakpoints, Pause / Step / Remove while packets are paused, then all removed or the debugger closed); every run must give every request its reference answer within the deadline; the hook firings recorded by the harness's own hooks and Agent.Frames are compared with the model per port. ACROSS PROCESSES: whether the agent lists a process and which frames it holds for it depend on that process's own accepts, firings and exit only (theorem); a real Agent driven by 2-3 processes that open a port of a loaded symbol, send and answer requests and exit with requests unanswered is compared with the model after every operation (process listed? frames held?).",
        level_note="Partial as stated. Trusted: Coq kernel + vm_compute; hand transcription of agent.go (hooks) and breakpoint.go; packet hooks are observers in the model by construction; Debugger (Pause/Step plumbing) is exercised, not modelled. Liveness after close is a deadline on the implementation.",
        technique="Coq proof (frames of a port = zip of its inbound and outbound hook sequences, by induction over firings; locality; refutation of the pinned rule; breakpoint release lemmas) + vm_compute correspondence of Agent.Frames + differential runs with / without agent and debugger against the C02 reference answers",
        quick_n=60, thorough_n=1200, shard=100, mismatch_is_failure=True,
        assumptions=["an endpoint answers its requests in order, exactly once (C01, C02)", "one process per workflow run (a.frames is keyed by process)"],
        trusted_base=["pkg/runtime/agent.go (hooks), pkg/runtime/breakpoint.go transcribed by hand into theories/Runtime/Agent.v, Breakpoint.v", COMMON_MODEL],
    ),
    "C20": dict(
        level_text="The locking protocol of the shared objects, extracted from /repo's current source on every run by a translator (go/parser + go/types): every root of execution (exported API, methods reached through interfaces, goroutine bodies, deferred closures) of the packages process, packet, port, types, encoding, store, symbol, runtime as control-flow paths of lock operations and accesses to the mutable fields of mutex-owning structs, callees inlined (within a package; across packages into pkg/process, whose exit hooks and process-local stores every other package runs into), a hook handed to a registrar that may call it before returning (Process.AddExitHook on a terminated process, Local.AddStoreHook when the value exists) also taken as a synchronous callback under the caller's locks. Coq checks on that skeleton by computation: every such access holds the field's guard on the same object (exclusively for writes), no path re-takes, leaks or wrongly releases a lock, and the lock order between lock classes is acyclic; and a theorem proved once for any skeleton: in the interleaving semantics of any number of threads each running a checked path, no reachable state has two threads at conflicting accesses of one field, and no thread waits for a lock it holds. PARTIAL: what the lock protocol cannot see - data handed out of critical sections (slice and map contents, public fields of plain structs), channels, atomics, the Go memory model itself - is searched, not proved: contended workloads on one shared instance of each object (process-local store, processes, ports, writer/readers/tracer, node workflows with and without the agent and a frame watcher, store, symbol table, value maps and codec registries) run under the Go race detector with panic recovery and a watchdog.",
        level_note="Partial as stated. Trusted: the translator (what it recognises as lock operation, field access, synchronous callback vs. deferred closure, constructor context; `base` expression text as object identity; loops as zero-or-one iteration; 3 documented exemptions; the allowed self-edge of Process) - a translator bug can hide a violation; Coq kernel + vm_compute; Go's race detector and the schedules it happens to see.",
        technique="Go-AST translator (regenerated every run) -> Coq lockset / lock-order obligations by vm_compute + Coq soundness theorem for the interleaving semantics (lock exclusion invariant) + race-detector workloads as search",
        quick_n=0, thorough_n=0, shard=1, harness=False, pre_build=c20_pre_build, pre=c20_pre, diagnose=c20_diagnose, standalone_props=True,
        assumptions=["equal base expression text = same object (aliases under other names are not related)", "critical sections are what the translator sees between Lock and Unlock of the structs' own mutexes", "hooks, listeners and callbacks supplied by users are outside the protocol"],
        trusted_base=["/verif/translator (go/ast, go/types) and its exemption list", "pkg/* source as parsed from /repo on this run", COMMON_MODEL, "Go race detector (runtime/race) for the search"],
    ),
    "C01": dict(
        level_text="Coq theorems for every history over the property's alphabet (any number of readers, any order): the serials of the responses emitted so far followed by the serials of the writes still pending are exactly 0..accepted-1 - each accepted write is answered at most once, in write order, none lost; a write that reports zero accepting readers gets no response; responses are joins (errors dominate, empty answers vanish, payloads in link order); positional lookups stay in range; ATTRIBUTION: for every history in which no reader is linked again while it still owes answers, the rows pending in a linked reader's column are exactly, oldest first, the writes it still owes, so the row Writer.receive picks for an answer (indexOfHead) is the row of the oldest owed write; the excluded stale re-link is refuted by a six-step witness (finding F-C01-d). Tied to pkg/packet by driving one real Writer and real Readers through generated histories (the goroutines Reader.Close spawns are parked in a build-tagged gate and delivered as explicit steps) and comparing every return value, the response stream and the requests seen by each reader with the model, plus an identity-based request/response ledger in Go as failing-input oracle for attribution.",
        level_note="Trusted: Coq kernel + vm_compute; hand transcription of writer.go/reader.go/packet.go; steps are the code's critical sections (their atomicity is C20). Attribution of an answer to its ROW is proved (C01_pending_is_owed, C01_answer_attribution); that the emitted response is the join of exactly that row's cells is by construction of flush; drop notices of one reader are interchangeable (any of them fills the oldest pending row of the column). Known finding F-C01-d (stale re-link) is outside ok_hist and refuted by C01_stale_relink_misattributes.",
        technique="Coq invariant proofs over histories (ledger of serials; pending-column = owed-queue invariant for attribution) + vm_compute correspondence + identity-based ledger oracle in Go",
        quick_n=800, thorough_n=12000, shard=40, mismatch_is_failure=True,
        assumptions=["one writer; operations of the alphabet are atomic (each is a critical section of the code)"],
        trusted_base=["pkg/packet writer.go/reader.go/packet.go transcribed by hand into theories/Packet/Writer.v", COMMON_MODEL, "verif hook at the top of Writer.receive (gate for deferred drop notices)"],
    ),
    "C10": dict(
        level_text="Coq theorems on the store model: a map filter is the conjunction of its entries (per-operator meaning m_entry), a find returns in id order exactly the stored documents the reference evaluation accepts whatever indexes exist (via C11), find(nil) lists everything, stored documents are read back as written, $set/$unset act as Map.Set/Delete (dictionary semantics = C15). Tied to pkg/store by replaying generated histories (inserts, updates incl. upsert and malformed updates, deletes, finds with sort/skip/limit, malformed filters) on the real store and comparing every returned document list, count and error class with the model evaluated in Coq, plus a Go reference evaluator over the documents stored before each step as failing-input oracle.",
        level_note="Trusted: Coq kernel + vm_compute; hand transcription of pkg/store into theories/Store (B-trees abstracted to sorted lists / tuple sets); theorems cover filters whose evaluation raises no error on the stored documents, ill-formed filters only by the differential run; sort is modelled as a stable insertion sort (Go's slices.SortFunc for at most 12 elements).",
        technique="Coq proofs (filter unfolding, index invariant, plan soundness) + vm_compute correspondence with the Go store",
        quick_n=220, thorough_n=1500, shard=14, mismatch_is_failure=True,
        assumptions=["one operation at a time (the store serialises them under its mutex; C20)", "result sets of at most 12 documents when sorted"],
        trusted_base=["pkg/store helper.go/store.go/segment.go/executionplan.go/stream.go transcribed by hand into theories/Store (B-trees abstracted: sorted list of documents, flat set of (key path, id) tuples per index)", COMMON_MODEL],
    ),
    "C11": dict(
        level_text="Coq theorem for every reachable state (any history of data and index operations): a find through execution plan and index scans equals the full-scan evaluation, for every filter whose evaluation raises no error; hence stores with the same documents answer alike whatever their indexes. Proved from plan soundness (bounds contain every matching document's key; induction over the filter incl. $and/$or) and an index completeness/soundness invariant over histories. Tied to the code by running each generated data history under three index configurations on the real store, comparing all results with each other and with the model. Partial indexes are outside the theorem: known finding F-C11-b.",
        level_note="Trusted: as C10. Scope of the theorem: non-partial indexes, index keys that are field names; unique indexes legitimately reject mutations, so configurations are compared until the first such rejection.",
        technique="Coq proof of plan soundness + index invariant (find via indexes = full scan) + differential runs over index configurations",
        quick_n=240, thorough_n=1500, shard=14, mismatch_is_failure=True,
        assumptions=["one operation at a time (C20)"],
        trusted_base=["pkg/store helper.go/store.go/segment.go/executionplan.go/stream.go transcribed by hand into theories/Store (B-trees abstracted: sorted list of documents, flat set of (key path, id) tuples per index)", COMMON_MODEL],
    ),
    "C12": dict(
        level_text="Coq theorems over all histories: a rejected Store/Swap (duplicate id, duplicate unique key, missing id, unknown id) returns the state unchanged (documents, every index, streams, log); a rejected index build leaves documents and all other indexes intact; in every reachable state no two documents share an id or a key of a unique index. Tied to the code by histories rich in failing mutations with a full scan and one query through every available index after each step.",
        level_note="Trusted: as C10. Multi-document Insert/Update calls are sequential in code and model: documents before the rejected one stay applied (the property speaks of the rejected document).",
        technique="Coq invariant proof (sorted unique ids, index completeness/soundness/uniqueness; conflict check makes index insertion infallible) + vm_compute correspondence",
        quick_n=120, thorough_n=800, shard=8, mismatch_is_failure=True,
        assumptions=["one operation at a time (C20)"],
        trusted_base=["pkg/store helper.go/store.go/segment.go/executionplan.go/stream.go transcribed by hand into theories/Store (B-trees abstracted: sorted list of documents, flat set of (key path, id) tuples per index)", COMMON_MODEL],
    ),
    "C13": dict(
        level_text="Coq theorems: for every history, the events an open watcher has pending are exactly the (operation, id) of the successful mutations since it was opened whose document matches its filter, in order, minus those already read; rejected mutations log nothing; reading/closing/opening one watcher leaves the others alone; the pump is a FIFO queue (delivered ++ buffered = accepted). Tied to the code by histories with watchers opened, read and closed at random points (consumers that read eagerly, late or never) compared with the model.",
        level_note="Trusted: as C10; the mutation log is a ghost field appended where the code calls emit. Runtime part not provable in the model and only measured: writers are not blocked by an absent consumer (every history completes under a deadline), promptness of Close.",
        technique="Coq invariant over histories (ghost mutation log) + queue-machine proof for the pump + vm_compute correspondence",
        quick_n=200, thorough_n=1200, shard=14, mismatch_is_failure=True,
        assumptions=["events ready when the consumer reads are delivered within 40 ms (harness drain timeout)"],
        trusted_base=["pkg/store helper.go/store.go/segment.go/executionplan.go/stream.go transcribed by hand into theories/Store (B-trees abstracted: sorted list of documents, flat set of (key path, id) tuples per index)", COMMON_MODEL],
    ),
    "C15": dict(
        level_text="Coq theorems over all operation histories: every live map object agrees with a reference dictionary keyed by value equality on Has/Get/Len and listings (bindings, distinct keys, count, iteration order), operations return the same object as the reference, the representation invariant holds in every reachable state, the code's binary search equals a linear scan, and no operation changes any object but the mutable map it targets (snapshots are frames). Tied to pkg/types/map.go by replaying generated histories (colliding keys, overwrites, snapshots) on real maps, re-reading every live object after every step, and evaluating the model on the same history in Coq.",
        level_note="Trusted: Coq kernel + vm_compute; hand transcription of map.go into VMap.v; Go's map[uint64] modelled as an association list; the tie is differential on generated histories only; single-goroutine use.",
        technique="Coq refinement proof (sorted-bucket invariant, binary-search correctness, simulation to an association list) + vm_compute correspondence with the Go implementation",
        quick_n=400, thorough_n=6000, shard=15, mismatch_is_failure=True,
        assumptions=[
            "operations on one map are applied one at a time (concurrent use is C20's concern)",
            "Go's built-in map[uint64] behaves as a finite map (modelled as a hash-ordered association list)",
        ],
        trusted_base=["pkg/types/map.go transcribed by hand into theories/Value/VMap.v (table, buckets, binary search, object identity)", COMMON_MODEL],
    ),
    "C14": dict(
        level_text="Coq theorems: Equal is an equivalence, Compare a total preorder consistent with it (antisymmetric sign, transitive, zero on equal values), equal values hash alike - for every term of the value model (all kinds, widths, bit patterns incl. NaN/+-0/Inf, any nesting, nil). Tied to pkg/types by a differential run (Equal/Compare/Hash of generated pairs evaluated in Coq by vm_compute, 64-bit hashes compared exactly) plus a direct law checker on triples and a purity probe used to exhibit a failing input.",
        level_note="Trusted: Coq kernel + vm_compute; hand transcription of pkg/types into Value.v; IEEE comparison modelled by a (sign, magnitude) key; the tie is differential on generated cases only. Purity over a value's lifetime is probed on the implementation and true by construction in the model.",
        technique="Coq proof by nested structural induction (comparator combinators) + vm_compute correspondence with the Go implementation",
        quick_n=900, thorough_n=12000, shard=60,
        assumptions=[
            "Go float ==,<,> on non-NaN operands is the order of the (sign, magnitude) key of the bit pattern (IEEE-754)",
            "little-endian 64-bit platform (hash bytes of integers come from unsafe pointers)",
        ],
        trusted_base=["pkg/types Equal/Compare/Hash transcribed by hand into theories/Value/Value.v", COMMON_MODEL],
    ),
}
