"""Per-property configuration of bin/check."""

COMMON_MODEL = "Go runtime, reflect, sync and the standard library are not modelled"

PROPS = {
    "C15": dict(
        level_text="Coq theorems over all operation histories: every live map object agrees with a reference dictionary keyed by value equality on Has/Get/Len and listings (bindings, distinct keys, count, iteration order), operations return the same object as the reference, the representation invariant holds in every reachable state, the code's binary search equals a linear scan, and no operation changes any object but the mutable map it targets (snapshots are frames). Tied to pkg/types/map.go by replaying generated histories (colliding keys, overwrites, snapshots) on real maps, re-reading every live object after every step, and evaluating the model on the same history in Coq.",
        level_note="Trusted: Coq kernel + vm_compute; hand transcription of map.go into VMap.v; Go's map[uint64] modelled as an association list; the tie is differential on generated histories only; single-goroutine use.",
        technique="Coq refinement proof (sorted-bucket invariant, binary-search correctness, simulation to an association list) + vm_compute correspondence with the Go implementation",
        quick_n=240, thorough_n=6000, shard=15, mismatch_is_failure=True,
        assumptions=[
            "operations on one map are applied one at a time (concurrent use is C20's concern)",
            "Go's built-in map[uint64] behaves as a finite map (modelled as a hash-ordered association list)",
        ],
        trusted_base=["pkg/types/map.go transcribed by hand into theories/Value/VMap.v (table, buckets, binary search, object identity)", COMMON_MODEL],
    ),
    "C14": dict(
        level_text="Coq theorems: Equal is an equivalence, Compare a total preorder consistent with it (antisymmetric sign, transitive, zero on equal values), equal values hash alike - for every term of the value model (all kinds, widths, bit patterns incl. NaN/+-0/Inf, any nesting, nil). Tied to pkg/types by a differential run (Equal/Compare/Hash of generated pairs evaluated in Coq by vm_compute, 64-bit hashes compared exactly) plus a direct law checker on triples and a purity probe used to exhibit a failing input.",
        level_note="Trusted: Coq kernel + vm_compute; hand transcription of pkg/types into Value.v; IEEE comparison modelled by a (sign, magnitude) key; the tie is differential on generated cases only. Purity over a value's lifetime is probed on the implementation and true by construction in the model.",
        technique="Coq proof by nested structural induction (comparator combinators) + vm_compute correspondence with the Go implementation",
        quick_n=450, thorough_n=12000, shard=60,
        assumptions=[
            "Go float ==,<,> on non-NaN operands is the order of the (sign, magnitude) key of the bit pattern (IEEE-754)",
            "little-endian 64-bit platform (hash bytes of integers come from unsafe pointers)",
        ],
        trusted_base=["pkg/types Equal/Compare/Hash transcribed by hand into theories/Value/Value.v", COMMON_MODEL],
    ),
}
