// Package gen generates engine values from one PRNG.
package gen

import (
	"bytes"
	"errors"
	"fmt"
	"math"
	"math/rand"

	"github.com/siyul-park/uniflow/pkg/types"
)

type G struct {
	R       *rand.Rand
	Buffers []types.Buffer
	Errors  []error
	byHash  map[uint64][]types.Value
}

func New(seed int64) *G {
	g := &G{R: rand.New(rand.NewSource(seed))}
	for i := 0; i < 3; i++ {
		g.Buffers = append(g.Buffers, types.NewBuffer(bytes.NewBuffer([]byte{byte(i)})))
	}
	// errors: plain ones, and wrappers whose chain reaches a plain one (errors.Is relates them) with
	// a different or an identical message
	for _, s := range smallStrings {
		g.Errors = append(g.Errors, errors.New(s))
	}
	for i := 0; i < 4; i++ {
		g.Errors = append(g.Errors, fmt.Errorf("a%w", g.Errors[i]), fmt.Errorf("%w", g.Errors[i]), &wrapErr{msg: smallStrings[i+1], inner: g.Errors[i]})
	}
	// collision classes: scalars of different kinds whose hash bytes coincide
	g.byHash = map[uint64][]types.Value{}
	cands := []types.Value{
		types.NewBinary([]byte{1}), types.NewBoolean(true), types.NewError(errors.New("\x01")), types.NewInt8(1), types.NewUint8(1), types.NewString("\x01"),
		types.NewBinary([]byte{0}), types.NewBoolean(false), types.NewError(errors.New("\x00")), types.NewInt8(0), types.NewUint8(0), types.NewString("\x00"),
		types.NewInt(0), types.NewInt64(0), types.NewUint(0), types.NewUint64(0), types.NewFloat64(0), types.NewBinary(make([]byte, 8)), types.NewString(string(make([]byte, 8))),
		types.NewInt(1), types.NewInt64(1), types.NewUint(1), types.NewUint64(1),
		types.NewInt(2), types.NewInt64(2), types.NewUint(2), types.NewUint64(2),
		types.NewInt16(1), types.NewUint16(1), types.NewInt16(0), types.NewUint16(0), types.NewBinary([]byte{0, 0}),
		types.NewInt32(0), types.NewUint32(0), types.NewFloat32(0), types.NewInt32(1), types.NewUint32(1), types.NewInt32(3), types.NewUint32(3),
		types.NewString("a"), types.NewBinary([]byte("a")), types.NewError(errors.New("a")), types.NewInt8(97), types.NewUint8(97),
		types.NewString(""), types.NewBinary(nil), types.NewError(errors.New("")), types.NewSlice(), types.NewMap(),
	}
	for _, c := range cands {
		g.byHash[c.Hash()] = append(g.byHash[c.Hash()], c)
	}
	return g
}

type wrapErr struct {
	msg   string
	inner error
}

func (w *wrapErr) Error() string { return w.msg }
func (w *wrapErr) Unwrap() error { return w.inner }

// Collide returns a value of another kind with the same hash as v, or nil.
func (g *G) Collide(v types.Value) types.Value {
	if v == nil {
		return nil
	}
	var out []types.Value
	for _, c := range g.byHash[v.Hash()] {
		if c.Kind() != v.Kind() {
			out = append(out, c)
		}
	}
	if len(out) == 0 {
		return nil
	}
	return out[g.R.Intn(len(out))]
}

var smallStrings = []string{"", "\x01", "a", "b", "ab", "a\x00", "\x00", "\xff", "id", "é"}

var f64s = []float64{0, math.Copysign(0, -1), 1, -1, 2, 0.5, math.Inf(1), math.Inf(-1), math.NaN(),
	math.Float64frombits(0x7FF0000000000001), math.Float64frombits(0xFFF8000000000000),
	math.MaxFloat64, -math.MaxFloat64, math.SmallestNonzeroFloat64, -math.SmallestNonzeroFloat64, 3}
var f32s = []float32{0, float32(math.Copysign(0, -1)), 1, -1, 2, 0.5, float32(math.Inf(1)), float32(math.Inf(-1)),
	float32(math.NaN()), math.Float32frombits(0x7F800001), math.Float32frombits(0xFFC00000),
	math.MaxFloat32, -math.MaxFloat32, math.SmallestNonzeroFloat32, 3}

func (g *G) smallInt() int64 {
	switch g.R.Intn(10) {
	case 0:
		return -1
	case 1:
		return 0
	default:
		return int64(g.R.Intn(4))
	}
}

// Scalar returns a scalar value; the pool is chosen so that values of different kinds
// share hash bytes (Int8 1, Uint8 1, true, "\x01", Binary{1}) and boundaries occur.
func (g *G) Scalar() types.Value {
	r := g.R
	switch r.Intn(20) {
	case 0:
		return types.NewBinary([]byte(smallStrings[r.Intn(len(smallStrings))]))
	case 1:
		return g.Buffers[r.Intn(len(g.Buffers))]
	case 2:
		return types.NewBoolean(r.Intn(2) == 0)
	case 3:
		return types.NewError(g.Errors[r.Intn(len(g.Errors))])
	case 4:
		if r.Intn(6) == 0 {
			return types.NewInt([]int{math.MinInt64, math.MaxInt64}[r.Intn(2)])
		}
		return types.NewInt(int(g.smallInt()))
	case 5:
		if r.Intn(4) == 0 {
			return types.NewInt8([]int8{math.MinInt8, math.MaxInt8}[r.Intn(2)])
		}
		return types.NewInt8(int8(g.smallInt()))
	case 6:
		if r.Intn(4) == 0 {
			return types.NewInt16([]int16{math.MinInt16, math.MaxInt16}[r.Intn(2)])
		}
		return types.NewInt16(int16(g.smallInt()))
	case 7:
		if r.Intn(4) == 0 {
			return types.NewInt32([]int32{math.MinInt32, math.MaxInt32}[r.Intn(2)])
		}
		return types.NewInt32(int32(g.smallInt()))
	case 8:
		if r.Intn(6) == 0 {
			return types.NewInt64([]int64{math.MinInt64, math.MaxInt64}[r.Intn(2)])
		}
		return types.NewInt64(g.smallInt())
	case 9:
		if r.Intn(6) == 0 {
			return types.NewUint(math.MaxUint64)
		}
		return types.NewUint(uint(r.Intn(4)))
	case 10:
		if r.Intn(4) == 0 {
			return types.NewUint8(math.MaxUint8)
		}
		return types.NewUint8(uint8(r.Intn(4)))
	case 11:
		if r.Intn(4) == 0 {
			return types.NewUint16(math.MaxUint16)
		}
		return types.NewUint16(uint16(r.Intn(4)))
	case 12:
		if r.Intn(4) == 0 {
			return types.NewUint32(math.MaxUint32)
		}
		return types.NewUint32(uint32(r.Intn(4)))
	case 13:
		if r.Intn(6) == 0 {
			return types.NewUint64(math.MaxUint64)
		}
		return types.NewUint64(uint64(r.Intn(4)))
	case 14:
		return types.NewFloat32(f32s[r.Intn(len(f32s))])
	case 15, 16:
		return types.NewFloat64(f64s[r.Intn(len(f64s))])
	default:
		return types.NewString(smallStrings[r.Intn(len(smallStrings))])
	}
}

// Colliding keys: different kinds, identical hash bytes.
func (g *G) CollidingKey() types.Value {
	switch g.R.Intn(8) {
	case 0:
		return types.NewInt8(1)
	case 1:
		return types.NewUint8(1)
	case 2:
		return types.NewBoolean(true)
	case 3:
		return types.NewString("\x01")
	case 4:
		return types.NewBinary([]byte{1})
	case 5:
		return types.NewFloat64(0)
	case 6:
		return types.NewFloat64(math.Copysign(0, -1))
	default:
		return types.NewError(errors.New("\x01"))
	}
}

// Value returns a value (possibly nil) of nesting depth <= depth.
func (g *G) Value(depth int) types.Value {
	r := g.R
	if depth <= 0 {
		if r.Intn(12) == 0 {
			return nil
		}
		return g.Scalar()
	}
	switch r.Intn(10) {
	case 0, 1:
		return g.Slice(depth - 1)
	case 2, 3, 4:
		return g.Map(depth - 1)
	case 5:
		return nil
	default:
		return g.Scalar()
	}
}

func (g *G) Slice(depth int) types.Value {
	n := g.R.Intn(4)
	elems := make([]types.Value, n)
	for i := range elems {
		elems[i] = g.Value(depth)
	}
	return types.NewSlice(elems...)
}

func (g *G) Key(depth int) types.Value {
	r := g.R
	switch r.Intn(10) {
	case 0, 1, 2, 3:
		return g.CollidingKey()
	case 4:
		if depth > 0 {
			return g.Value(depth - 1)
		}
		return g.Scalar()
	default:
		return g.Scalar()
	}
}

// Map returns a mutable or immutable map.
func (g *G) Map(depth int) types.Value {
	n := g.R.Intn(4)
	m := types.NewMapWithSize(n)
	for i := 0; i < n; i++ {
		if g.R.Intn(5) == 0 {
			m.Set(g.Key(depth), nil)
		} else {
			m.Set(g.Key(depth), g.Value(depth))
		}
	}
	if g.R.Intn(3) == 0 {
		return m
	}
	return m.Immutable()
}

// Perturb returns a value close to v: same shape with one component changed, or v itself,
// or an equal copy built independently.
func (g *G) Perturb(v types.Value, depth int) types.Value {
	r := g.R
	switch x := v.(type) {
	case types.Slice:
		vals := x.Values()
		if len(vals) > 0 && r.Intn(3) > 0 {
			i := r.Intn(len(vals))
			vals[i] = g.Perturb(vals[i], depth-1)
		} else if r.Intn(2) == 0 {
			vals = append(vals, g.Value(0))
		}
		return types.NewSlice(vals...)
	case types.Map:
		m := types.NewMapWithSize(x.Len())
		for k, val := range x.Range() {
			m.Set(k, val)
		}
		keys := x.Keys()
		switch r.Intn(5) {
		case 0: // same content, other mutability
		case 1: // change a value
			if len(keys) > 0 {
				k := keys[r.Intn(len(keys))]
				m.Set(k, g.Perturb(x.Get(k), depth-1))
			}
		case 2: // replace a key by another one, preferably one with the same hash
			if len(keys) > 0 {
				k := keys[r.Intn(len(keys))]
				val := x.Get(k)
				m.Delete(k)
				if c := g.Collide(k); c != nil && r.Intn(4) > 0 {
					m.Set(c, val)
				} else {
					m.Set(g.Key(0), val)
				}
			}
		case 3:
			m.Set(g.Key(0), g.Value(0))
		case 4:
			if len(keys) > 0 {
				m.Delete(keys[r.Intn(len(keys))])
			}
		}
		if r.Intn(2) == 0 {
			return m
		}
		return m.Immutable()
	}
	if e, ok := v.(types.Error); ok && r.Intn(2) == 0 { // an error related to v by wrapping
		for _, i := range r.Perm(len(g.Errors)) {
			if c := g.Errors[i]; errors.Is(c, e.Unwrap()) || errors.Is(e.Unwrap(), c) {
				return types.NewError(c)
			}
		}
	}
	switch r.Intn(3) {
	case 0:
		return v
	case 1:
		if c := g.Collide(v); c != nil {
			return c
		}
	}
	return g.Value(0)
}
