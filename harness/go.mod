module verif/harness

go 1.23.4

require (
	github.com/gofrs/uuid v4.4.0+incompatible
	github.com/siyul-park/uniflow v0.0.0
)

require (
	github.com/gabriel-vasile/mimetype v1.4.8 // indirect
	github.com/go-playground/locales v0.14.1 // indirect
	github.com/go-playground/universal-translator v0.18.1 // indirect
	github.com/go-playground/validator/v10 v10.25.0 // indirect
	github.com/google/btree v1.1.3 // indirect
	github.com/iancoleman/strcase v0.3.0 // indirect
	github.com/leodido/go-urn v1.4.0 // indirect
	github.com/pkg/errors v0.9.1 // indirect
	golang.org/x/crypto v0.36.0 // indirect
	golang.org/x/exp v0.0.0-20250305212735-054e65f0b394 // indirect
	golang.org/x/net v0.37.0 // indirect
	golang.org/x/sync v0.12.0 // indirect
	golang.org/x/sys v0.31.0 // indirect
	golang.org/x/text v0.23.0 // indirect
)

replace github.com/siyul-park/uniflow => /repo
