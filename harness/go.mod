module verif/harness

go 1.23.4

require (
	github.com/gofrs/uuid v4.4.0+incompatible
	github.com/siyul-park/uniflow v0.0.0
)

require (
	github.com/google/btree v1.1.3 // indirect
	github.com/iancoleman/strcase v0.3.0 // indirect
	github.com/pkg/errors v0.9.1 // indirect
	golang.org/x/exp v0.0.0-20250305212735-054e65f0b394 // indirect
)

replace github.com/siyul-park/uniflow => /repo
