// Package gal renders Go data as Gallina terms for the Coq model.
package gal

import (
	"fmt"
	"strings"

	"github.com/siyul-park/uniflow/pkg/types"
)

func N(n uint64) string  { return fmt.Sprintf("%d%%N", n) }
func Z(z int64) string {
	if z < 0 {
		return fmt.Sprintf("(%d)%%Z", z)
	}
	return fmt.Sprintf("%d%%Z", z)
}
func Nat(n int) string   { return fmt.Sprintf("%d", n) }
func Bool(b bool) string {
	if b {
		return "true"
	}
	return "false"
}

func List(items []string) string { return "[" + strings.Join(items, "; ") + "]" }

func Bytes(b []byte) string {
	items := make([]string, len(b))
	for i, c := range b {
		items[i] = fmt.Sprintf("%d", c)
	}
	return "(" + List(items) + "%N : list N)"
}

func Option(s string, ok bool) string {
	if !ok {
		return "None"
	}
	return "(Some " + s + ")"
}

func Sign(c int) int64 {
	if c < 0 {
		return -1
	}
	if c > 0 {
		return 1
	}
	return 0
}

// BufferAddr returns the identity of a buffer as the model sees it (its Hash()).
func BufferAddr(b types.Buffer) uint64 { return b.Hash() }

// OValue renders a possibly nil value as an `option value` term.
func OValue(v types.Value) string {
	if v == nil {
		return "None"
	}
	return "(Some " + Value(v) + ")"
}

// Value renders a value as a `value` term (theories/Value/Value.v) using only the public API.
func Value(v types.Value) string {
	switch x := v.(type) {
	case types.Binary:
		return "(VBinary " + Bytes(x.Bytes()) + ")"
	case types.Buffer:
		return "(VBuffer " + N(x.Hash()) + ")"
	case types.Boolean:
		return "(VBool " + Bool(x.Bool()) + ")"
	case types.Error:
		return "(VError " + Bytes([]byte(x.Error())) + ")"
	case types.Int:
		return "(VInt W0 " + Z(x.Int()) + ")"
	case types.Int8:
		return "(VInt W8 " + Z(x.Int()) + ")"
	case types.Int16:
		return "(VInt W16 " + Z(x.Int()) + ")"
	case types.Int32:
		return "(VInt W32 " + Z(x.Int()) + ")"
	case types.Int64:
		return "(VInt W64 " + Z(x.Int()) + ")"
	case types.Uint:
		return "(VUint W0 " + N(x.Uint()) + ")"
	case types.Uint8:
		return "(VUint W8 " + N(x.Uint()) + ")"
	case types.Uint16:
		return "(VUint W16 " + N(x.Uint()) + ")"
	case types.Uint32:
		return "(VUint W32 " + N(x.Uint()) + ")"
	case types.Uint64:
		return "(VUint W64 " + N(x.Uint()) + ")"
	case types.Float32:
		return "(VF32 " + N(uint64(f32bits(x))) + ")"
	case types.Float64:
		return "(VF64 " + N(f64bits(x)) + ")"
	case types.String:
		return "(VString " + Bytes([]byte(x.String())) + ")"
	case types.Slice:
		items := make([]string, 0, x.Len())
		for _, e := range x.Values() {
			items = append(items, OValue(e))
		}
		return "(VSlice " + List(items) + ")"
	case types.Map:
		return "(VMap " + Table(x) + ")"
	}
	panic(fmt.Sprintf("gal.Value: unsupported %T", v))
}

// Table renders a map's contents as hash-ordered buckets, reconstructed from Range()
// (ascending hash, bucket order) and HashOf(key).
func Table(m types.Map) string {
	var buckets []string
	var cur []string
	var curHash uint64
	have := false
	flush := func() {
		if have {
			buckets = append(buckets, "("+N(curHash)+", "+List(cur)+")")
		}
	}
	for k, v := range m.Range() {
		h := types.HashOf(k)
		if !have || h != curHash {
			flush()
			cur = nil
			curHash = h
			have = true
		}
		cur = append(cur, "("+OValue(k)+", "+OValue(v)+")")
	}
	flush()
	return List(buckets)
}
