package gal

import (
	"math"

	"github.com/siyul-park/uniflow/pkg/types"
)

func f32bits(x types.Float32) uint32 { return math.Float32bits(x.Interface().(float32)) }
func f64bits(x types.Float64) uint64 { return math.Float64bits(x.Interface().(float64)) }
