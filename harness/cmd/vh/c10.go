package main

import (
	"fmt"
	"math/rand"
	"strings"

	"github.com/siyul-park/uniflow/pkg/types"
)

func init() {
	runners["C10"] = func(seed int64, n int, tier string) *Result { return runStore("C10", seed, n) }
	runners["C11"] = func(seed int64, n int, tier string) *Result { return runStore("C11", seed, n) }
	runners["C12"] = func(seed int64, n int, tier string) *Result { return runStore("C12", seed, n) }
	runners["C13"] = func(seed int64, n int, tier string) *Result { return runStore("C13", seed, n) }
}

// ---- reference evaluation on the Go side (the failing-input oracle) ----
func refGet(d types.Value, f string) types.Value {
	m, ok := d.(types.Map)
	if !ok {
		return nil
	}
	return m.Get(str(f))
}

// refMatch is a straightforward evaluation of the supported operators; ok=false when the filter is outside the
// supported grammar (the oracle then says nothing).
func refMatch(doc, filter types.Value) (res bool, ok bool) {
	f, isMap := filter.(types.Map)
	if !isMap {
		return types.Equal(doc, filter), true
	}
	res = true
	for k, v := range f.Range() {
		key, isStr := k.(types.String)
		if !isStr {
			return false, false
		}
		ks := key.String()
		var r bool
		switch {
		case !strings.HasPrefix(ks, "$"):
			var fv types.Value // a value that is not a map has no fields
			if d, isDoc := doc.(types.Map); isDoc {
				fv = d.Get(key)
			}
			var sub bool
			r, sub = refMatch(fv, v)
			if !sub {
				return false, false
			}
		case ks == "$exists":
			want := false
			switch x := v.(type) {
			case types.Boolean:
				want = x.Bool()
			case types.Int:
				want = x.Int() != 0
			default:
				return false, false
			}
			r = (doc != nil) == want
		case ks == "$eq":
			r = types.Equal(doc, v)
		case ks == "$ne":
			r = !types.Equal(doc, v)
		case ks == "$gt":
			r = types.Compare(doc, v) > 0
		case ks == "$gte":
			r = types.Compare(doc, v) >= 0
		case ks == "$lt":
			r = types.Compare(doc, v) < 0
		case ks == "$lte":
			r = types.Compare(doc, v) <= 0
		case ks == "$and" || ks == "$or":
			subs, isSl := v.(types.Slice)
			if !isSl {
				return false, false
			}
			r = ks == "$and"
			for _, sub := range subs.Values() {
				m, sok := refMatch(doc, sub)
				if !sok {
					return false, false
				}
				if ks == "$and" {
					r = r && m
				} else {
					r = r || m
				}
			}
		default:
			return false, false
		}
		res = res && r
	}
	return res, true
}

// refStore: documents by id, straightforward semantics for the operations the oracle understands.
type refStore struct {
	docs []types.Map // ascending id
}

func (s *refStore) find(f types.Map) ([]types.Map, bool) {
	var out []types.Map
	for _, d := range s.docs {
		if f == nil {
			out = append(out, d)
			continue
		}
		m, ok := refMatch(d, f)
		if !ok {
			return nil, false
		}
		if m {
			out = append(out, d)
		}
	}
	return out, true
}

func sameDocs(a, b []types.Map) bool {
	if len(a) != len(b) {
		return false
	}
	for i := range a {
		if !types.Equal(a[i], b[i]) {
			return false
		}
	}
	return true
}

// ---- history generation ----
type hcfg struct {
	prop     string
	indexes  bool
	watchers bool
	failing  bool // emphasise rejected mutations and probe after every step
}

func genHistory(g *sgen, c hcfg) []sop {
	r := g.r
	n := 5 + r.Intn(11)
	var ops []sop
	nwatch := 0
	var idxKeys [][]string
	probe := func() {
		ops = append(ops, sop{kind: opFind})
		for _, ks := range idxKeys { // one query through every available index
			f := types.NewMapWithSize(len(ks))
			for _, k := range ks {
				f.Set(str(k), g.scalar())
			}
			ops = append(ops, sop{kind: opFind, filter: f.Immutable()})
		}
	}
	var usedFilters []types.Map
	// a filter aimed at an existing index: conditions on a prefix of its keys (equalities, ranges) and
	// sometimes on a later key only
	var knownDocs []types.Map
	var targetedFor func(ks []string) types.Map
	targeted := func() types.Map { return targetedFor(idxKeys[r.Intn(len(idxKeys))]) }
	targetedFor = func(ks []string) types.Map {
		f := types.NewMapWithSize(len(ks))
		upto := 1 + r.Intn(len(ks))
		var like types.Map // build the conditions from the values of a document that was inserted
		if len(knownDocs) > 0 && r.Intn(3) > 0 {
			like = knownDocs[r.Intn(len(knownDocs))]
			if r.Intn(2) == 0 {
				upto = len(ks)
			}
		}
		for i, k := range ks[:upto] {
			if i > 0 && r.Intn(4) == 0 && like == nil {
				continue
			}
			if like != nil {
				if v := like.Get(str(k)); v != nil {
					if _, isMap := v.(types.Map); !isMap {
						switch r.Intn(4) {
						case 0:
							f.Set(str(k), types.NewMap(str("$eq"), v))
						case 1:
							f.Set(str(k), types.NewMap(str("$gte"), v, str("$lte"), v))
						default:
							f.Set(str(k), v)
						}
						continue
					}
				}
			}
			switch r.Intn(5) {
			case 0, 1:
				f.Set(str(k), g.scalar())
			case 2:
				f.Set(str(k), types.NewMap(str("$eq"), g.scalar()))
			case 3:
				lo := r.Intn(3)
				f.Set(str(k), types.NewMap(str("$gte"), types.NewInt(lo), str("$lte"), types.NewInt(lo+r.Intn(3))))
			default:
				f.Set(str(k), g.cond())
			}
		}
		if r.Intn(4) == 0 {
			f.Set(str("$or"), types.NewSlice(g.filter(0), g.filter(0)))
		}
		return f.Immutable()
	}
	flt0 := func() types.Map {
		if c.indexes && len(idxKeys) > 0 && r.Intn(2) == 0 {
			return targeted()
		}
		switch r.Intn(12) {
		case 0:
			return nil
		case 1:
			if c.prop == "C10" || c.prop == "C12" {
				return g.badFilter()
			}
		}
		return g.filter(r.Intn(3))
	}
	flt := func() types.Map {
		if len(usedFilters) > 0 && r.Intn(4) == 0 {
			return usedFilters[r.Intn(len(usedFilters))] // the same filter again, later in the history
		}
		f := flt0()
		if f != nil {
			usedFilters = append(usedFilters, f)
		}
		return f
	}
	if r.Intn(10) == 0 { // upsert into an empty store through a filter without an equality skeleton
		var f types.Map
		if r.Intn(2) == 0 {
			f = types.NewMap(str(fields[r.Intn(3)]), types.NewMap(str("$gt"), types.NewInt(1)))
		}
		ops = append(ops, sop{kind: opUpdate, filter: f, upd: g.update(), upsert: true})
	}
	for len(ops) < n {
		k := r.Intn(100)
		switch {
		case k < 30:
			nd := 1
			if r.Intn(5) == 0 {
				nd = 2
			}
			var docs []types.Map
			for i := 0; i < nd; i++ {
				id := r.Intn(5)
				if c.failing && r.Intn(8) == 0 {
					id = -1 // missing id
				}
				docs = append(docs, g.doc(id))
			}
			knownDocs = append(knownDocs, docs...)
			ops = append(ops, sop{kind: opInsert, docs: docs})
		case k < 48:
			o := sop{kind: opUpdate, filter: flt(), upd: g.update()}
			if r.Intn(4) == 0 { // upsert on an equality filter
				f := types.NewMapWithSize(2)
				f.Set(str("id"), types.NewInt(r.Intn(5)))
				if r.Intn(2) == 0 {
					f.Set(str(fields[r.Intn(3)]), g.scalar())
				}
				o.filter, o.upsert = f.Immutable(), true
			} else if r.Intn(8) == 0 { // upsert on whatever filter was drawn (nil, ranges, $or ...)
				o.upsert = true
			}
			ops = append(ops, o)
		case k < 56:
			ops = append(ops, sop{kind: opDelete, filter: flt()})
		case k < 80:
			o := sop{kind: opFind, filter: flt()}
			if r.Intn(3) == 0 {
				o.sortF = []string{"a", "b", "id"}[r.Intn(3)]
				o.sortO = []int{1, -1}[r.Intn(2)]
				o.skip, o.limit = r.Intn(3), r.Intn(4)
			}
			ops = append(ops, o)
		case k < 92 && c.indexes:
			keys := [][]string{{"a"}, {"b"}, {"a", "b"}, {"b", "a"}, {"c", "a"}, {"a", "b", "c"}, {"id", "a"}, {"a", "c"}}[r.Intn(8)]
			if len(idxKeys) > 0 && r.Intn(3) == 0 {
				keys = idxKeys[r.Intn(len(idxKeys))] // declare an index again on keys that already have one
			}
			if r.Intn(4) == 0 && len(idxKeys) > 0 {
				i := r.Intn(len(idxKeys))
				ops = append(ops, sop{kind: opUnindex, keys: idxKeys[i]})
				idxKeys = append(idxKeys[:i:i], idxKeys[i+1:]...)
			} else {
				o := sop{kind: opIndex, keys: keys, uniq: r.Intn(3) == 0 || (c.failing && r.Intn(2) == 0)}
				if r.Intn(3) == 0 && c.prop != "C11" {
					switch r.Intn(3) {
					case 0:
						o.filter = types.NewMap(str(keys[0]), types.NewMap(str("$exists"), types.NewBoolean(true)))
					case 1: // partial on a field that is not a key of the index
						o.filter = types.NewMap(str("c"), types.NewMap(str("$exists"), types.NewBoolean(true)))
					default:
						o.filter = types.NewMap(str("c"), g.scalar())
					}
				}
				ops = append(ops, o)
				idxKeys = append(idxKeys, keys)
			}
		case k >= 92 && c.watchers:
			switch {
			case nwatch == 0 || r.Intn(3) == 0:
				var f types.Map
				if r.Intn(3) > 0 {
					f = g.filter(r.Intn(2))
				}
				if r.Intn(6) == 0 {
					f = g.badFilter() // a watcher whose filter cannot be evaluated
				}
				ops = append(ops, sop{kind: opWatch, filter: f})
				nwatch++
			case r.Intn(3) == 0:
				ops = append(ops, sop{kind: opCloseWatch, widx: r.Intn(nwatch)})
			default:
				ops = append(ops, sop{kind: opDrain, widx: r.Intn(nwatch)})
			}
		default:
			continue
		}
		if c.failing {
			probe()
		}
	}
	if c.indexes && r.Intn(5) == 0 {
		// scenario: an index is declared, used, declared again as unique (which the data may violate), and the
		// same filters are asked again; then dropped and asked once more
		ks := [][]string{{"a"}, {"b"}, {"a", "b"}, {"c"}}[r.Intn(4)]
		f1, f2 := targetedFor(ks), targetedFor(ks)
		ops = append(ops, sop{kind: opIndex, keys: ks}, sop{kind: opFind, filter: f1}, sop{kind: opFind, filter: f2},
			sop{kind: opIndex, keys: ks, uniq: true}, sop{kind: opFind, filter: f1}, sop{kind: opFind, filter: f2},
			sop{kind: opUnindex, keys: ks}, sop{kind: opFind, filter: f1})
		if c.failing {
			probe()
		}
	}
	if c.failing && r.Intn(4) == 0 {
		// scenario: a unique index restricted by a partial filter on another field; documents that share the key
		// but not the filter; an update that moves a document under the filter (must be rejected and change
		// nothing); the same index declared again under a different filter that the data violates
		key, other := "a", "c"
		v := g.scalar()
		in, out := types.NewInt(1), types.NewInt(0)
		mk := func(id int, fv types.Value) types.Map {
			return types.NewMap(str("id"), types.NewInt(id), str(key), v, str(other), fv)
		}
		one := func(id int) types.Map { return types.NewMap(str("id"), types.NewInt(id)) }
		i1, i2, i3 := 5+r.Intn(3), 8+r.Intn(3), 11+r.Intn(3)
		ops = append(ops,
			sop{kind: opIndex, keys: []string{key}, uniq: true, filter: types.NewMap(str(other), in)},
			sop{kind: opInsert, docs: []types.Map{mk(i1, in)}},
			sop{kind: opInsert, docs: []types.Map{mk(i2, out)}},
			sop{kind: opInsert, docs: []types.Map{mk(i3, out)}},
			sop{kind: opUpdate, filter: one(i2), upd: types.NewMap(str("$set"), types.NewMap(str("b"), types.NewInt(2)))},
			sop{kind: opUpdate, filter: one(i2), upd: types.NewMap(str("$set"), types.NewMap(str(other), in))})
		probe()
		ops = append(ops, sop{kind: opFind, filter: one(i2)}, sop{kind: opFind, filter: types.NewMap(str(key), v)},
			sop{kind: opIndex, keys: []string{key}, uniq: true, filter: types.NewMap(str(other), out)})
		probe()
		ops = append(ops, sop{kind: opInsert, docs: []types.Map{mk(i1+20, in)}})
		probe()
	}
	if (c.failing || c.indexes) && r.Intn(4) == 0 {
		// scenario: a document enters the scope of a partial unique index by an update that does not touch the
		// indexed key (legal: nothing in scope holds the key yet); a second in-scope document with that key must
		// then be rejected; the first leaves the scope again the same way and the key is free again
		key, other := []string{"a", "b"}[r.Intn(2)], "c"
		v := g.scalar()
		in, out := types.NewInt(1), types.NewInt(0)
		mk := func(id int, fv types.Value) types.Map {
			return types.NewMap(str("id"), types.NewInt(id), str(key), v, str(other), fv)
		}
		one := func(id int) types.Map { return types.NewMap(str("id"), types.NewInt(id)) }
		j1, j2, j3 := 40+r.Intn(3), 44+r.Intn(3), 48+r.Intn(3)
		setOther := func(x types.Value) types.Map { return types.NewMap(str("$set"), types.NewMap(str(other), x)) }
		ops = append(ops,
			sop{kind: opIndex, keys: []string{key}, uniq: c.failing || r.Intn(2) == 0, filter: types.NewMap(str(other), in)},
			sop{kind: opInsert, docs: []types.Map{mk(j1, out)}},
			sop{kind: opUpdate, filter: one(j1), upd: setOther(in)},
			sop{kind: opInsert, docs: []types.Map{mk(j2, in)}},
			sop{kind: opFind, filter: types.NewMap(str(key), v, str(other), in)},
			sop{kind: opUpdate, filter: one(j1), upd: setOther(out)},
			sop{kind: opInsert, docs: []types.Map{mk(j3, in)}},
			sop{kind: opFind, filter: types.NewMap(str(key), v, str(other), in)})
		probe()
	}
	if c.prop == "C10" && r.Intn(3) == 0 {
		// scenario: sorted finds over fields that some documents lack (absent sorts before every value), with windows
		for _, f := range []string{"a", "b", "c"}[:1+r.Intn(3)] {
			o := sop{kind: opFind, sortF: f, sortO: []int{1, -1}[r.Intn(2)]}
			if r.Intn(2) == 0 {
				o.skip, o.limit = r.Intn(2), 1+r.Intn(3)
			}
			ops = append(ops, o)
		}
	}
	if c.indexes && len(idxKeys) > 0 && r.Intn(2) == 0 {
		// scenario: shapes of filters an index plan has to get right - a range given as two one-sided conditions in an
		// $and (either order, strict or not), an $or of equalities on one indexed key, and the SAME filter asked again
		// after a mutation and after the indexes changed
		ks := idxKeys[r.Intn(len(idxKeys))]
		k := ks[0]
		lo := r.Intn(3)
		hi := lo + r.Intn(3)
		lower := types.NewMap(str(k), types.NewMap(str([]string{"$gte", "$gt"}[r.Intn(2)]), types.NewInt(lo)))
		upper := types.NewMap(str(k), types.NewMap(str([]string{"$lte", "$lt"}[r.Intn(2)]), types.NewInt(hi)))
		both := []types.Value{lower, upper}
		if r.Intn(2) == 0 {
			both = []types.Value{upper, lower}
		}
		rangeF := types.NewMap(str("$and"), types.NewSlice(both...))
		v1, v2 := g.scalar(), g.scalar()
		if len(knownDocs) > 1 {
			if x := knownDocs[r.Intn(len(knownDocs))].Get(str(k)); x != nil {
				v1 = x
			}
			if x := knownDocs[r.Intn(len(knownDocs))].Get(str(k)); x != nil {
				v2 = x
			}
		}
		orF := types.NewMap(str("$or"), types.NewSlice(types.NewMap(str(k), v1), types.NewMap(str(k), v2)))
		again := targetedFor(ks)
		// an $or of two half-open ranges (the union is open on both sides), either order
		halves := []types.Value{upper, lower}
		if r.Intn(2) == 0 {
			halves = []types.Value{lower, upper}
		}
		orRangeF := types.NewMap(str("$or"), types.NewSlice(halves...))
		// an $or of equalities on a key with a unique single-key index (ids are always unique)
		orIdF := types.NewMap(str("$or"), types.NewSlice(types.NewMap(str("id"), types.NewInt(r.Intn(5))), types.NewMap(str("id"), types.NewInt(r.Intn(5))), types.NewMap(str("id"), types.NewInt(70+r.Intn(3)))))
		ops = append(ops, sop{kind: opFind, filter: orRangeF}, sop{kind: opIndex, keys: []string{"id"}, uniq: true}, sop{kind: opFind, filter: orIdF})
		ops = append(ops, sop{kind: opFind, filter: rangeF}, sop{kind: opFind, filter: orF}, sop{kind: opFind, filter: again},
			sop{kind: opIndex, keys: []string{k}, uniq: true}, sop{kind: opFind, filter: orF}, sop{kind: opFind, filter: rangeF},
			sop{kind: opInsert, docs: []types.Map{g.doc(70 + r.Intn(3))}},
			sop{kind: opUpdate, filter: types.NewMap(str("id"), types.NewInt(r.Intn(5))), upd: types.NewMap(str("$set"), types.NewMap(str(k), g.scalar()))},
			sop{kind: opFind, filter: again}, sop{kind: opFind, filter: orF}, sop{kind: opFind, filter: rangeF}, sop{kind: opFind, filter: orRangeF}, sop{kind: opFind, filter: orIdF},
			sop{kind: opUnindex, keys: ks}, sop{kind: opFind, filter: again}, sop{kind: opFind, filter: rangeF}, sop{kind: opFind, filter: orRangeF})
	}
	if c.watchers && r.Intn(3) == 0 {
		// scenario: a watcher that is not reading while one document is changed several times in a row: it must be
		// handed every one of those changes once it reads
		ops = append(ops, sop{kind: opWatch}, sop{kind: opInsert, docs: []types.Map{types.NewMap(str("id"), types.NewInt(80), str("a"), types.NewInt(0))}})
		nwatch++
		for i := 1; i <= 2+r.Intn(3); i++ {
			ops = append(ops, sop{kind: opUpdate, filter: types.NewMap(str("id"), types.NewInt(80)), upd: types.NewMap(str("$set"), types.NewMap(str("a"), types.NewInt(i)))})
		}
		ops = append(ops, sop{kind: opDelete, filter: types.NewMap(str("id"), types.NewInt(80))})
	}
	if c.watchers && r.Intn(3) == 0 {
		// scenario: several watchers are open, one that was opened EARLIER is closed while later ones stay open, and
		// the next mutations match all of them: the remaining watchers must see every one of those mutations
		first := nwatch
		k := 2 + r.Intn(2)
		for i := 0; i < k; i++ {
			var f types.Map
			if r.Intn(4) == 0 {
				f = types.NewMap(str("a"), types.NewMap(str("$exists"), types.NewBoolean(true)))
			}
			ops = append(ops, sop{kind: opWatch, filter: f})
			nwatch++
		}
		ops = append(ops, sop{kind: opCloseWatch, widx: first + r.Intn(k-1)})
		for i := 0; i < 2+r.Intn(2); i++ {
			ops = append(ops, sop{kind: opInsert, docs: []types.Map{types.NewMap(str("id"), types.NewInt(60+i), str("a"), types.NewInt(i))}})
		}
		ops = append(ops, sop{kind: opDrain, widx: nwatch - 1})
	}
	ops = append(ops, sop{kind: opFind})
	for i := 0; i < nwatch; i++ {
		ops = append(ops, sop{kind: opDrain, widx: i})
	}
	return ops
}

var storeIn = newIntern("sv")

func runStore(prop string, seed int64, n int) *Result {
	g := &sgen{r: rand.New(rand.NewSource(seed)), sparse: prop == "C12"}
	cfg := map[string]hcfg{
		"C10": {prop: "C10"},
		"C11": {prop: "C11", indexes: true},
		"C12": {prop: "C12", indexes: true, failing: true, watchers: true},
		"C13": {prop: "C13", watchers: true},
	}[prop]
	res := &Result{
		Prop:     prop,
		Requires: []string{"Value.Value", "Value.Check", "Value.VMap", "Store.Filter", "Store.StoreM", "Store.CheckStore"},
		CaseType: "c10case",
		OkFn:     "c10ok",
		Hist:     map[string]int{},
		Rule: "histories of 5-15 store operations over ids 0-4, fields a,b,c with values 0-3/\"x\"/\"y\"/missing/nested {x:n}; filters from the operator " +
			"grammar to depth 3 incl. sibling conditions next to $and/$or, ranges, $exists, nested fields, a malformed stream; updates $set/$unset/upsert " +
			"and malformed ones; finds with sort/skip/limit; every result (documents, counts, error class) is compared with the Coq model and with a " +
			"Go reference evaluation; non-trivial = the history has a find/update/delete that matched at least one and not all stored documents; distinct by operation list",
	}
	if prop == "C11" {
		// known finding F-C11-b: a partial index is admitted by evaluating its filter on the query's equality
		// skeleton; with an index filter that a document can fail while the skeleton passes, the scan loses it
		doc := types.NewMap(str("id"), types.NewInt(1), str("a"), types.NewInt(3), str("b"), types.NewInt(1))
		q := types.NewMap(str("b"), types.NewInt(1))
		part := types.NewMap(str("a"), types.NewMap(str("$ne"), types.NewInt(3)))
		with := []sop{{kind: opIndex, keys: []string{"b"}, filter: part}, {kind: opInsert, docs: []types.Map{doc}}, {kind: opFind, filter: q}}
		without := with[1:]
		g1, r1, _ := runHistory(storeIn, with)
		_, r0, _ := runHistory(storeIn, without)
		c := Case{Gallina: g1, Input: []string{with[0].String(), with[1].String(), with[2].String()}, Key: "F-C11-b", Known: "F-C11-b"}
		if !r1[2].same(r0[1]) {
			c.OracleFail = fmt.Sprintf("find {b:1} returns %d documents through the partial index and %d without it", len(r1[2].docs), len(r0[1].docs))
		}
		res.Cases = append(res.Cases, c)
	}
	for len(res.Cases) < n {
		ops := genHistory(g, cfg)
		variants := [][]sop{ops}
		if prop == "C11" { // the same data history under other index configurations
			var plain []sop
			for _, o := range ops {
				if o.kind != opIndex && o.kind != opUnindex {
					plain = append(plain, o)
				}
			}
			variants = [][]sop{plain, ops}
			alt := []sop{{kind: opIndex, keys: []string{"a", "b"}}, {kind: opIndex, keys: []string{"b"}, uniq: false}}
			variants = append(variants, append(alt, plain...))
		}
		var base []sresult
		for vi, v := range variants {
			gal, results, before := runHistory(storeIn, v)
			fail := ""
			nontrivial := false
			// oracle 1: reference evaluation of the filter over the documents stored before the step
			for i, o := range v {
				r := results[i]
				res.Hist[fmt.Sprintf("op_%d_%s", o.kind, r.kind)]++
				if r.kind == "RCrash" && fail == "" {
					fail = fmt.Sprintf("step %d (%s) panicked: %s", i, o, r.err)
				}
				if o.kind != opFind && o.kind != opDelete && (o.kind != opUpdate || o.upsert) {
					continue
				}
				ref := &refStore{docs: before[i]}
				exp, ok := ref.find(o.filter)
				if !ok {
					continue
				}
				if len(exp) > 0 && len(exp) < len(ref.docs) {
					nontrivial = true
				}
				switch {
				case o.kind == opFind && r.kind == "RDocs" && o.sortF == "" && o.skip == 0 && o.limit == 0:
					if !sameDocs(exp, r.docs) && fail == "" {
						fail = fmt.Sprintf("step %d (%s): returned %d documents, reference evaluation over the stored documents gives %d", i, o, len(r.docs), len(exp))
					}
				case o.kind == opFind && r.kind == "RDocs":
					n := len(exp) - o.skip
					if n < 0 {
						n = 0
					}
					if o.limit > 0 && n > o.limit {
						n = o.limit
					}
					if len(r.docs) != n && fail == "" {
						fail = fmt.Sprintf("step %d (%s): returned %d documents, reference evaluation gives %d after skip/limit", i, o, len(r.docs), n)
					}
				case r.kind == "RCount":
					if r.n != len(exp) && fail == "" {
						fail = fmt.Sprintf("step %d (%s): reported count %d, reference evaluation matches %d documents", i, o, r.n, len(exp))
					}
				case r.kind == "RErr" && o.kind == opFind:
					if fail == "" {
						fail = fmt.Sprintf("step %d (%s): error %s for a filter of the supported grammar", i, o, r.err)
					}
				}
			}
			// oracle 2 (C11): results of data operations must not depend on the index configuration
			if prop == "C11" {
				var data []sresult
				var dataOps []sop
				for i, o := range v {
					if o.kind == opCloseWatch {
						data = append(data, sresult{kind: "ROk"}) // how much a closing stream still hands over is up to Go's select
						dataOps = append(dataOps, o)
					} else if o.kind != opIndex && o.kind != opUnindex {
						data = append(data, results[i])
						dataOps = append(dataOps, o)
					}
				}
				if vi == 0 {
					base = data
				} else if fail == "" {
					for i := range data {
						if data[i].kind == "RErr" && data[i].err == "EDup" && i < len(base) && !data[i].same(base[i]) {
							break // a unique index legitimately rejected a mutation: the histories part ways here
						}
						if data[i].kind == "RErr" && data[i].err == "EDup" && !dataOps[i].singleInsert() {
							// both configurations report a duplicate, but a mutation of several documents stops at the
							// first offending one: with a unique index that can be an earlier document than the one the
							// primary key rejects, so the stored documents may legitimately differ from here on
							break
						}
						if i < len(base) && !data[i].same(base[i]) {
							fail = fmt.Sprintf("data operation %d returns a different result with indexes than without (variant %d)", i, vi)
							break
						}
					}
				}
			}
			var in []string
			for _, o := range v {
				in = append(in, o.String())
			}
			res.Cases = append(res.Cases, Case{Gallina: gal, Input: in, Nontrivial: nontrivial, Key: strings.Join(in, ";"), OracleFail: fail})
		}
	}
	res.Aux = strings.Join(storeIn.defs, "")
	return res
}

// singleInsert: an insert of one document either stores it or changes nothing, whichever check rejects it
func (o sop) singleInsert() bool { return o.kind == opInsert && len(o.docs) == 1 }
