package main

// C05, part 1: real process.Local[int], port.InPort / port.OutPort and process.Process objects driven
// through worker goroutines that the harness can hold inside user code only (store hooks, lazy
// initialisers, open hooks, user exit hooks).  After every macro step (a worker is started on a
// method, or the callback it is held in returns) the harness waits until every worker has
// returned, is held in a callback or waits for a mutex (read off the goroutine dump), and records
// the workers' states, the sizes of the store's and the ports' per-process maps, which processes
// are running and what the workers logged.  theories/Process/CheckLocal.v replays the macro steps
// on the lock-level model.

import (
	"bytes"
	"errors"
	"fmt"
	"math/rand"
	"regexp"
	"runtime"
	"sort"
	"strconv"
	"strings"
	"sync"
	"time"

	"github.com/siyul-park/uniflow/pkg/port"
	"github.com/siyul-park/uniflow/pkg/process"
	"verif/harness/gal"
)

func init() { runners["C05"] = runC05 }

type w05 struct {
	id        int
	gid       uint64
	cmd       chan func()
	state     int // 0 idle, 1 parked, 2 blocked, 3 running
	rel       chan struct{}
	inInit    int  // process whose initialiser this worker is held in (-1 none)
	inOutOpen bool // held in the open hook of an out-port
}

type ev05 struct {
	w      int
	parked bool
}

type world05 struct {
	local   *process.Local[int]
	ins     map[int]*port.InPort
	outs    map[int]*port.OutPort
	pcfg    []portCfg
	procs   []*process.Process
	workers []*w05
	byGid   sync.Map // gid -> *w05
	events  chan ev05
	mu      sync.Mutex
	log     []string // oev terms since the last observation
	fail    string
	hooks   map[int]process.StoreHook[int]
	nextK   int
	initRun map[int]int  // process -> initialiser runs
	touched map[int]bool // process had a Delete / Close / Exit (the once-oracle only looks at the others)
}

type portCfg struct {
	out bool
	ins []int
}

var gidRe = regexp.MustCompile(`^goroutine (\d+) \[`)

func curGid() uint64 {
	var buf [64]byte
	n := runtime.Stack(buf[:], false)
	m := gidRe.FindSubmatch(buf[:n])
	if m == nil {
		return 0
	}
	g, _ := strconv.ParseUint(string(m[1]), 10, 64)
	return g
}

func (w *world05) cur() *w05 {
	if v, ok := w.byGid.Load(curGid()); ok {
		return v.(*w05)
	}
	return nil
}

func (w *world05) emit(s string) {
	w.mu.Lock()
	w.log = append(w.log, s)
	w.mu.Unlock()
}

// park holds the calling worker inside a callback until the harness releases it; the callback is
// logged when it returns.
func (w *world05) park(kind int, payload ...int) {
	me := w.cur()
	if me == nil {
		return // not one of ours (e.g. a goroutine the engine spawned): do not hold it
	}
	rel := make(chan struct{})
	w.mu.Lock()
	me.rel = rel
	w.mu.Unlock()
	w.events <- ev05{w: me.id, parked: true}
	<-rel
	w.emit(oev(me.id, kind, payload...))
}

func oev(t, kind int, payload ...int) string {
	var ps []string
	for _, p := range payload {
		ps = append(ps, strconv.Itoa(p))
	}
	return fmt.Sprintf("(%d, %d, %s)", t, kind, gal.List(ps))
}

// goroutine states of our workers, from one dump
func (w *world05) lockWaiters() map[uint64]bool {
	buf := allStacks()
	n := len(buf)
	res := map[uint64]bool{}
	for _, blk := range bytes.Split(buf[:n], []byte("\n\n")) {
		m := regexp.MustCompile(`^goroutine (\d+) \[([^\],]+)`).FindSubmatch(blk)
		if m == nil {
			continue
		}
		g, _ := strconv.ParseUint(string(m[1]), 10, 64)
		st := string(m[2])
		if strings.HasPrefix(st, "sync.Mutex.Lock") || strings.HasPrefix(st, "sync.RWMutex.") || st == "semacquire" {
			res[g] = true
		}
	}
	return res
}

// settle waits until every worker has returned, is held in a callback or waits for a mutex.
func (w *world05) settle() {
	deadline := time.Now().Add(5 * time.Second)
	for _, x := range w.workers {
		if x.state == 2 {
			x.state = 3 // whoever waited for a lock may go on by itself
		}
	}
	stable := 0
	for {
		progressed := false
		for drained := false; !drained; {
			select {
			case e := <-w.events:
				x := w.workers[e.w]
				if e.parked {
					x.state = 1
				} else {
					x.state = 0
				}
				progressed = true
			default:
				drained = true
			}
		}
		running := 0
		for _, x := range w.workers {
			if x.state == 3 {
				running++
			}
		}
		if running == 0 {
			return
		}
		if progressed {
			stable = 0
			continue
		}
		lw := w.lockWaiters()
		all := true
		for _, x := range w.workers {
			if x.state == 3 && !lw[x.gid] {
				all = false
			}
		}
		if all {
			stable++
			if stable >= 3 {
				select {
				case e := <-w.events: // one last look
					x := w.workers[e.w]
					if e.parked {
						x.state = 1
					} else {
						x.state = 0
					}
					stable = 0
					continue
				default:
				}
				for _, x := range w.workers {
					if x.state == 3 {
						x.state = 2
					}
				}
				return
			}
		} else {
			stable = 0
		}
		if time.Now().After(deadline) {
			if w.fail == "" {
				w.fail = "a worker neither returned, nor entered user code, nor waits for a mutex within 5s"
			}
			for _, x := range w.workers {
				if x.state == 3 {
					x.state = 2
				}
			}
			return
		}
		time.Sleep(150 * time.Microsecond)
	}
}

func (w *world05) start(x *w05, f func()) {
	x.state = 3
	x.cmd <- func() { f(); w.events <- ev05{w: x.id} }
	w.settle()
}

func (w *world05) resume(x *w05) {
	w.mu.Lock()
	rel := x.rel
	x.rel = nil
	w.mu.Unlock()
	x.state = 3
	x.inInit = -1
	x.inOutOpen = false
	close(rel)
	w.settle()
}

// guarded runs f with a watchdog: a wedged store must not wedge the harness
func (w *world05) guarded(what string, f func()) bool {
	done := make(chan struct{})
	go func() { f(); close(done) }()
	select {
	case <-done:
		return true
	case <-time.After(3 * time.Second):
		if w.fail == "" {
			w.fail = what + " did not return within 3s (the object is wedged)"
		}
		return false
	}
}

func (w *world05) observe() (string, bool) {
	var sts []string
	for _, x := range w.workers {
		sts = append(sts, strconv.Itoa(x.state))
	}
	var e, l, s int
	if !w.guarded("reading the store's sizes", func() { e, l, s = w.local.VerifLen() }) {
		return "", false
	}
	var ps []string
	for i, c := range w.pcfg {
		n := 0
		ok := w.guarded("reading a port's size", func() {
			if c.out {
				n = w.outs[i].VerifLen()
			} else {
				n = w.ins[i].VerifLen()
			}
		})
		if !ok {
			return "", false
		}
		ps = append(ps, strconv.Itoa(n))
	}
	var al []string
	for _, p := range w.procs {
		al = append(al, gal.Bool(p.Status() != process.StatusTerminated))
	}
	w.mu.Lock()
	evs := w.log
	w.log = nil
	w.mu.Unlock()
	return fmt.Sprintf("mkobs05 %s (%d, %d, %d) %s %s %s", gal.List(sts), e, l, s, gal.List(ps), gal.List(al), gal.List(evs)), true
}

func history05(r *rand.Rand, hist map[string]int, tier string) (string, any, string, bool) {
	nw := 2 + r.Intn(2)
	w := &world05{local: process.NewLocal[int](), ins: map[int]*port.InPort{}, outs: map[int]*port.OutPort{},
		events: make(chan ev05, 64), hooks: map[int]process.StoreHook[int]{}, initRun: map[int]int{}, touched: map[int]bool{}}
	// ports: 0 in, 1 out -> [0], 2 in, 3 out -> [0, 2] (a prefix of these)
	all := []portCfg{{false, nil}, {true, []int{0}}, {false, nil}, {true, []int{0, 2}}}
	w.pcfg = all[:r.Intn(len(all)+1)]
	for i, c := range w.pcfg {
		i := i
		if c.out {
			w.outs[i] = port.NewOut()
		} else {
			w.ins[i] = port.NewIn()
		}
	}
	procIdx := func(p *process.Process) int {
		for i, q := range w.procs {
			if q == p {
				return i
			}
		}
		return -1
	}
	for i, c := range w.pcfg {
		i := i
		isOut := c.out
		hk := port.OpenHookFunc(func(p *process.Process) {
			if me := w.cur(); me != nil {
				me.inOutOpen = isOut
			}
			w.park(3, i, procIdx(p))
		})
		if c.out {
			w.outs[i].AddOpenHook(hk)
			for _, j := range c.ins {
				w.outs[i].Link(w.ins[j])
			}
		} else {
			w.ins[i].AddOpenHook(hk)
		}
	}
	ready := make(chan struct{})
	for i := 0; i < nw; i++ {
		x := &w05{id: i, cmd: make(chan func()), inInit: -1}
		w.workers = append(w.workers, x)
		go func() {
			x.gid = curGid()
			w.byGid.Store(x.gid, x)
			ready <- struct{}{}
			for f := range x.cmd {
				f()
			}
		}()
		<-ready
	}
	defer func() {
		// let everything go
		go func() {
			for range w.events {
			}
		}()
		for k := 0; k < 50; k++ {
			any := false
			w.mu.Lock()
			for _, x := range w.workers {
				if x.rel != nil {
					close(x.rel)
					x.rel = nil
					any = true
				}
			}
			w.mu.Unlock()
			if !any && k > 3 {
				break
			}
			time.Sleep(200 * time.Microsecond)
		}
		for _, x := range w.workers {
			x := x
			go func() {
				defer func() { recover() }()
				select {
				case x.cmd <- func() {}:
				case <-time.After(time.Second):
				}
				close(x.cmd)
			}()
		}
	}()

	var steps, input []string
	concurrentExit, blockedSeen, lateOp := false, false, false
	record := func(opG, opS string) bool {
		obs, ok := w.observe()
		if !ok {
			return false
		}
		steps = append(steps, fmt.Sprintf("(%s, %s)", opG, obs))
		input = append(input, opS)
		return true
	}
	storeHook := func(h int) process.StoreHook[int] {
		if hk, ok := w.hooks[h]; ok {
			return hk
		}
		hk := process.StoreFunc[int](func(v int) { w.park(1, h, v) })
		w.hooks[h] = hk
		return hk
	}
	// a process with an even index never gets store hooks (so that a LoadOrStore may wait for the cell's
	// mutex while another initialiser is held: who of the two then stores first is not observable)
	n := 5 + r.Intn(16)
	if tier == "thorough" {
		n += r.Intn(10)
	}
	for s := 0; s < n && w.fail == ""; s++ {
		var idle, parked []*w05
		blocked := 0
		for _, x := range w.workers {
			switch x.state {
			case 0:
				idle = append(idle, x)
			case 1:
				parked = append(parked, x)
			case 2:
				blocked++
			}
		}
		if blocked > 0 {
			blockedSeen = true
		}
		c := r.Intn(100)
		switch {
		case len(w.procs) == 0 || (c < 6 && len(w.procs) < 4):
			w.procs = append(w.procs, process.New())
			hist["new"]++
			if !record("MNew", "new") {
				break
			}
		case c < 30 && len(parked) > 0:
			x := parked[r.Intn(len(parked))]
			w.resume(x)
			hist["resume"]++
			if !record(fmt.Sprintf("MResume %d", x.id), fmt.Sprintf("resume w%d", x.id)) {
				break
			}
		case len(idle) > 0:
			x := idle[r.Intn(len(idle))]
			p := r.Intn(len(w.procs))
			proc := w.procs[p]
			term := proc.Status() == process.StatusTerminated
			var opG, opS string
			var f func()
			k := r.Intn(100)
			inInitFor := func(p int) bool {
				for _, y := range w.workers {
					if y.inInit == p && y.state == 1 {
						return true
					}
				}
				return false
			}
			switch {
			case k < 12:
				v := 1 + r.Intn(5)
				opG, opS = fmt.Sprintf("MStart %d (MStore %d %d)", x.id, p, v), fmt.Sprintf("w%d store p%d %d", x.id, p, v)
				f = func() { w.local.Store(proc, v); w.emit(oev(x.id, 10)) }
			case k < 20:
				opG, opS = fmt.Sprintf("MStart %d (MLoad %d)", x.id, p), fmt.Sprintf("w%d load p%d", x.id, p)
				f = func() {
					v, ok := w.local.Load(proc)
					if ok {
						w.emit(oev(x.id, 12, v))
					} else {
						w.emit(oev(x.id, 12))
					}
				}
			case k < 30:
				w.touched[p] = true
				opG, opS = fmt.Sprintf("MStart %d (MDelete %d)", x.id, p), fmt.Sprintf("w%d delete p%d", x.id, p)
				f = func() { ok := w.local.Delete(proc); w.emit(oev(x.id, 11, b2i(ok))) }
			case k < 52:
				if blocked > 0 || (p%2 == 1 && inInitFor(p)) {
					s--
					continue
				}
				fn := 10 + r.Intn(20)
				fails := r.Intn(6) == 0
				opG = fmt.Sprintf("MStart %d (MLoadOrStore %d %d %s)", x.id, p, fn, gal.Bool(fails))
				opS = fmt.Sprintf("w%d loadorstore p%d fn%d fails=%v", x.id, p, fn, fails)
				f = func() {
					v, err := w.local.LoadOrStore(proc, func() (int, error) {
						me := w.cur()
						if me != nil {
							me.inInit = p
						}
						w.mu.Lock()
						w.initRun[p]++
						w.mu.Unlock()
						w.park(2, p, fn)
						if fails {
							return 0, errors.New("init failed")
						}
						return fn, nil
					})
					w.emit(oev(x.id, 13, v, b2i(err != nil)))
				}
			case k < 62:
				if p%2 == 0 || blocked > 0 {
					s--
					continue
				}
				h := r.Intn(3)
				hk := storeHook(h)
				opG, opS = fmt.Sprintf("MStart %d (MAddHook %d %d)", x.id, p, h), fmt.Sprintf("w%d addstorehook p%d h%d", x.id, p, h)
				f = func() { ok := w.local.AddStoreHook(proc, hk); w.emit(oev(x.id, 11, b2i(ok))) }
			case k < 66:
				h := r.Intn(3)
				hk := storeHook(h)
				opG, opS = fmt.Sprintf("MStart %d (MRemHook %d %d)", x.id, p, h), fmt.Sprintf("w%d removestorehook p%d h%d", x.id, p, h)
				f = func() { ok := w.local.RemoveStoreHook(proc, hk); w.emit(oev(x.id, 11, b2i(ok))) }
			case k < 69:
				opG, opS = fmt.Sprintf("MStart %d MKeys", x.id), fmt.Sprintf("w%d keys", x.id)
				f = func() {
					var ks []int
					for _, q := range w.local.Keys() {
						ks = append(ks, procIdx(q))
					}
					sort.Ints(ks)
					w.emit(oev(x.id, 14, ks...))
				}
			case k < 71:
				for q := range w.procs {
					w.touched[q] = true
				}
				opG, opS = fmt.Sprintf("MStart %d MCloseLocal", x.id), fmt.Sprintf("w%d close store", x.id)
				f = func() { w.local.Close(); w.emit(oev(x.id, 10)) }
			case k < 82 && len(w.pcfg) > 0:
				pr := r.Intn(len(w.pcfg))
				opG, opS = fmt.Sprintf("MStart %d (MOpen %d %d)", x.id, pr, p), fmt.Sprintf("w%d open port%d p%d", x.id, pr, p)
				f = func() {
					if w.pcfg[pr].out {
						w.outs[pr].Open(proc)
					} else {
						w.ins[pr].Open(proc)
					}
					w.emit(oev(x.id, 10))
				}
			case k < 85 && len(w.pcfg) > 0:
				// not while a worker is held in an out-port's open hook: OutPort.Open walks a snapshot of its links that
				// shares its backing array with the slice Unlink edits in place, so which in-ports it then opens is not
				// determined by the order of critical sections (recorded under C20)
				heldInOutOpen := false
				for _, y := range w.workers {
					if y.state == 1 && y.inOutOpen {
						heldInOutOpen = true
					}
				}
				if heldInOutOpen {
					s--
					continue
				}
				pr := r.Intn(len(w.pcfg))
				opG, opS = fmt.Sprintf("MStart %d (MPortClose %d)", x.id, pr), fmt.Sprintf("w%d close port%d", x.id, pr)
				f = func() {
					if w.pcfg[pr].out {
						w.outs[pr].Close()
					} else {
						w.ins[pr].Close()
					}
					w.emit(oev(x.id, 10))
				}
			case k < 91:
				kk := w.nextK
				w.nextK++
				opG, opS = fmt.Sprintf("MStart %d (MAddExitHook %d %d)", x.id, p, kk), fmt.Sprintf("w%d addexithook p%d k%d", x.id, p, kk)
				f = func() {
					proc.AddExitHook(process.ExitFunc(func(error) { w.park(4, kk) }))
					w.emit(oev(x.id, 10))
				}
			default:
				w.touched[p] = true
				if len(parked) > 0 || blocked > 0 {
					concurrentExit = true
				}
				opG, opS = fmt.Sprintf("MStart %d (MExit %d)", x.id, p), fmt.Sprintf("w%d exit p%d", x.id, p)
				f = func() { proc.Exit(nil); w.emit(oev(x.id, 10)) }
			}
			if term && k < 91 {
				lateOp = true
			}
			hist[strings.Fields(opS)[1]]++
			w.start(x, f)
			if !record(opG, opS) {
				break
			}
		default:
			s--
			if len(parked) == 0 {
				s++
			}
		}
	}
	// run out: release every held callback, then terminate every process
	finish := func() {
		for guard := 0; guard < 200 && w.fail == ""; guard++ {
			var x *w05
			for _, y := range w.workers {
				if y.state == 1 {
					x = y
					break
				}
			}
			if x == nil {
				return
			}
			w.resume(x)
			if !record(fmt.Sprintf("MResume %d", x.id), fmt.Sprintf("resume w%d", x.id)) {
				return
			}
		}
	}
	finish()
	for p, proc := range w.procs {
		if w.fail != "" {
			break
		}
		var x *w05
		for _, y := range w.workers {
			if y.state == 0 {
				x = y
				break
			}
		}
		if x == nil {
			if w.fail == "" {
				w.fail = "no worker returned although nothing is held in user code (a worker waits for a lock nobody will release)"
			}
			break
		}
		proc := proc
		w.start(x, func() { proc.Exit(nil); w.emit(oev(x.id, 10)) })
		if !record(fmt.Sprintf("MStart %d (MExit %d)", x.id, p), fmt.Sprintf("w%d exit p%d", x.id, p)) {
			break
		}
		finish()
	}
	// the property itself on the final state: nothing held in user code, every process terminated
	if w.fail == "" {
		for _, x := range w.workers {
			if x.state != 0 {
				w.fail = fmt.Sprintf("worker %d has not returned although no user code is held (state %d): the store or a port is wedged", x.id, x.state)
			}
		}
	}
	if w.fail == "" {
		var e, l, sh int
		if w.guarded("reading the store's sizes", func() { e, l, sh = w.local.VerifLen() }) && e+l+sh != 0 {
			w.fail = fmt.Sprintf("every process has terminated but the store still holds %d values, %d lazy cells, %d waiter lists", e, l, sh)
		}
		for i, c := range w.pcfg {
			n := 0
			if c.out {
				n = w.outs[i].VerifLen()
			} else {
				n = w.ins[i].VerifLen()
			}
			if n != 0 && w.fail == "" {
				w.fail = fmt.Sprintf("every process has terminated but port %d still holds %d endpoints", i, n)
			}
		}
		for p, n := range w.initRun {
			if n > 1 && !w.touched[p] && w.fail == "" {
				w.fail = fmt.Sprintf("the lazy initialiser ran %d times for process %d, whose entry was never deleted", n, p)
			}
		}
	}
	var pc []string
	for _, c := range w.pcfg {
		var is []string
		for _, j := range c.ins {
			is = append(is, strconv.Itoa(j))
		}
		pc = append(pc, fmt.Sprintf("(%s, %s)", gal.Bool(c.out), gal.List(is)))
	}
	g := fmt.Sprintf("(mk05 %d %s [\n  %s])", nw, gal.List(pc), strings.Join(steps, ";\n  "))
	return g, input, w.fail, concurrentExit || blockedSeen || lateOp
}

func b2i(b bool) int {
	if b {
		return 1
	}
	return 0
}

func runC05(seed int64, n int, tier string) *Result {
	r := rand.New(rand.NewSource(seed))
	res := &Result{
		Prop:     "C05",
		Requires: []string{"Process.Local", "Process.CheckLocal"},
		CaseType: "c05case",
		OkFn:     "c05ok",
		Rule: "histories of 5-30 macro steps on a real process.Local[int], up to 4 real ports (in, out->in, in, out->two ins) and up to 4 processes, " +
			"driven through 2-3 worker goroutines: {Store, Load, Delete, LoadOrStore (succeeding or failing initialiser), AddStoreHook, RemoveStoreHook, " +
			"Keys, Close, port Open, port Close, AddExitHook, Exit} started on an idle worker, or the callback a worker is held in returns; every store " +
			"hook, initialiser, open hook and user exit hook holds its worker, so operations of other workers (and Exit) land between any two critical " +
			"sections of a method; after every step: per worker returned / held / waiting for a mutex (goroutine dump), len(eager), len(lazy), " +
			"len(storeHooks), endpoints per port, running processes, the workers' logs; every history ends with all callbacks released and all processes " +
			"exited, where the property is evaluated directly (no worker stuck, all maps empty, an undeleted process's initialiser ran at most once); " +
			"non-trivial = an Exit while a worker is held or waits, a worker seen waiting for the cell's mutex, or an operation on a terminated process",
		Hist: map[string]int{},
	}
	for i := 0; i < n; i++ {
		g, in, fail, nt := history05(r, res.Hist, tier)
		res.Cases = append(res.Cases, Case{Gallina: g, Input: in, Nontrivial: nt, Key: fmt.Sprint(in), OracleFail: fail})
	}
	res2 := runC05Workflows(seed, tier)
	res.Extra = res2
	if f, ok := res2["failure"].(string); ok && f != "" {
		res.Cases = append(res.Cases, Case{Gallina: "(mk05 0 [] [])", Input: res2["failing_workload"], Nontrivial: true, Key: "workflow", OracleFail: f})
	}
	return res
}
