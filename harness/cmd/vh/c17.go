package main

import (
	"errors"
	"fmt"
	"math/rand"
	"reflect"
	"sort"
	"strings"
	"sync"
	"time"
	"unsafe"

	"github.com/siyul-park/uniflow/pkg/encoding"
	"github.com/siyul-park/uniflow/pkg/types"
	"verif/harness/gal"
)

func init() { runners["C17"] = runC17 }

type s17 struct {
	A int    `json:"a"`
	B string `json:"b,omitempty"`
	C []byte `json:"c,omitempty"`
}

// two distinct Go types that print the same name (function-local declarations), with swapped field order
func twinA() reflect.Type {
	type twin struct {
		W int64 `json:"w"`
		H int64 `json:"h"`
	}
	return reflect.TypeOf(twin{})
}

func twinB() reflect.Type {
	type twin struct {
		H int64 `json:"h"`
		W int64 `json:"w"`
	}
	return reflect.TypeOf(twin{})
}

var types17 = []reflect.Type{
	twinA(), twinB(),
	reflect.TypeOf([]byte(nil)), reflect.TypeOf(0), reflect.TypeOf(int8(0)), reflect.TypeOf(uint16(0)),
	reflect.TypeOf(float64(0)), reflect.TypeOf(""), reflect.TypeOf(false), reflect.TypeOf([]int(nil)),
	reflect.TypeOf([]string(nil)), reflect.TypeOf([]any(nil)), reflect.TypeOf(map[string]int(nil)),
	reflect.TypeOf(map[string]any(nil)), reflect.TypeOf((*any)(nil)).Elem(), reflect.TypeOf((*int)(nil)),
	reflect.TypeOf(s17{}), reflect.TypeOf(time.Duration(0)), reflect.TypeOf([2]int{}), reflect.TypeOf([][]byte(nil)),
	reflect.TypeOf(time.Time{}), reflect.TypeOf([]float32(nil)), reflect.TypeOf(map[string][]byte(nil)),
	reflect.TypeOf(map[string]s17(nil)), reflect.TypeOf(map[string][]int(nil)), reflect.TypeOf(map[string]*s17(nil)),
}

func values17() []types.Value {
	return []types.Value{
		nil,
		types.NewString("12"), types.NewString("AQI="), types.NewString("abc"), types.NewString(""), types.NewString("true"),
		types.NewString("1.5"), types.NewString("2006-01-02T15:04:05Z"), types.NewString("1s"),
		types.NewInt(5), types.NewInt8(-1), types.NewUint(7), types.NewInt64(1 << 40), types.NewFloat64(1.5), types.NewFloat32(2),
		types.NewBoolean(true), types.NewBinary([]byte{1, 2}), types.NewBinary(nil), types.NewError(errors.New("boom")),
		types.NewSlice(types.NewInt(1), types.NewInt(2)), types.NewSlice(types.NewString("a")), types.NewSlice(),
		types.NewSlice(types.NewString("AQI="), types.NewString("!!")), types.NewSlice(nil, types.NewInt(3)),
		types.NewMap(types.NewString("a"), types.NewInt(1), types.NewString("b"), types.NewString("x")),
		types.NewMap(types.NewString("a"), types.NewString("zz")), types.NewMap(),
		types.NewMap(types.NewString("c"), types.NewString("12")), types.NewMap(types.NewString("k"), types.NewBinary([]byte{9})),
		types.NewMap(types.NewString("w"), types.NewInt(3), types.NewString("h"), types.NewInt(4)),
		// maps of composite values: one that fails part-way through a value, and valid ones that leave parts of a
		// value unset (an absent field, a shorter list)
		types.NewMap(types.NewString("m"), types.NewMap(types.NewString("a"), types.NewInt(512), types.NewString("c"), types.NewString("!!"))),
		types.NewMap(types.NewString("m"), types.NewMap(types.NewString("b"), types.NewString("x"))),
		types.NewMap(types.NewString("m"), types.NewMap(types.NewString("a"), types.NewInt(7), types.NewString("b"), types.NewString("y"), types.NewString("c"), types.NewString("AQI="))),
		types.NewMap(types.NewString("p"), types.NewSlice(types.NewInt(25), types.NewString("smtp"), types.NewInt(587))),
		types.NewMap(types.NewString("p"), types.NewSlice(types.NewInt(80))),
		types.NewMap(types.NewString("p"), types.NewSlice(types.NewInt(1), types.NewInt(2), types.NewInt(3))),
	}
}

type outcome struct {
	class string // AOk | AUnsupported | (AHard n)
	rid   int
	text  string
}

type intern17 struct{ ids map[string]int }

func (in *intern17) id(s string) int {
	if i, ok := in.ids[s]; ok {
		return i
	}
	in.ids[s] = len(in.ids)
	return in.ids[s]
}

func decodeOnce(dec encoding.Decoder[types.Value, unsafe.Pointer], typ reflect.Type, v types.Value, rids, errs *intern17) (o outcome, panicked string) {
	target := reflect.New(typ)
	defer func() {
		if p := recover(); p != nil {
			panicked = fmt.Sprint(p)
			o = outcome{class: "(AHard 999)", rid: rids.id("panic")}
		}
	}()
	err := dec.Decode(v, target.UnsafePointer())
	text := render17(target.Elem())
	o = outcome{rid: rids.id(text), text: text}
	switch {
	case err == nil:
		o.class = "AOk"
	case errors.Is(err, encoding.ErrUnsupportedType):
		o.class = "AUnsupported"
	default:
		o.class = fmt.Sprintf("(AHard %d)", 1+errs.id(err.Error()))
		o.text += " err=" + err.Error()
	}
	return
}

func real17(r *rand.Rand, hist map[string]int) (any, string, bool) {
	typ := types17[r.Intn(len(types17))]
	vals := values17()
	rids := &intern17{ids: map[string]int{}}
	errs := &intern17{ids: map[string]int{}}
	zero := rids.id(render17(reflect.New(typ).Elem()))
	kinds := &intern17{ids: map[string]int{"<nil>": 0}}
	fail := ""

	// members of the cold group for this type, probed one by one
	probeDec := types.VerifNewDecoder()
	compiled, err := probeDec.Compile(reflect.PointerTo(typ))
	if err != nil {
		return map[string]any{"type": typ.String(), "compile_error": err.Error()}, "", false
	}
	members := []encoding.Decoder[types.Value, unsafe.Pointer]{compiled}
	if g, ok := compiled.(*encoding.DecoderGroup[types.Value, unsafe.Pointer]); ok {
		members = g.VerifDecoders()
	}
	var table []string
	classOf := make([][]string, len(members))
	for j, m := range members {
		var row []string
		for _, v := range vals {
			o, p := decodeOnce(m, typ, v, rids, errs)
			if p != "" {
				hist["member_probe_panics"]++ // a member probed alone may see inputs the group never routes to it
			}
			if o.class == "AUnsupported" && o.rid != zero {
				hist["hyp_target_touched_on_rejection"]++
			}
			row = append(row, fmt.Sprintf("(%d, %s)", o.rid, o.class))
			classOf[j] = append(classOf[j], o.class)
		}
		table = append(table, gal.List(row))
	}
	var kindG []string
	kindOf := make([]int, len(vals))
	for vi, v := range vals {
		k := "<nil>"
		if v != nil {
			k = reflect.TypeOf(v).String()
		}
		kindOf[vi] = kinds.id(k)
		kindG = append(kindG, fmt.Sprint(kindOf[vi]))
	}
	// kind-determined rejection, checked on the implementation
	for j := range members {
		for a := range vals {
			for b := range vals {
				if kindOf[a] == kindOf[b] && (classOf[j][a] == "AUnsupported") != (classOf[j][b] == "AUnsupported") {
					hist["hyp_rejection_not_by_source_type"]++
				}
			}
		}
	}
	// a history of decodes on a cold decoder
	cold := types.VerifNewDecoder()
	cdec, _ := cold.Compile(reflect.PointerTo(typ))
	n := 3 + r.Intn(8)
	var h []string
	var seq []int
	first := map[int]outcome{}
	for i := 0; i < n; i++ {
		vi := r.Intn(len(vals))
		if i > 0 && r.Intn(3) == 0 { // the same source type again
			prev := seq[r.Intn(len(seq))]
			for t := 0; t < 8; t++ {
				c := r.Intn(len(vals))
				if kindOf[c] == kindOf[prev] {
					vi = c
					break
				}
			}
		}
		seq = append(seq, vi)
		o, p := decodeOnce(cdec, typ, vals[vi], rids, errs)
		if p != "" {
			hist["decode_panics"]++ // a panic is C16's concern; here it is an outcome like any other
		}
		h = append(h, fmt.Sprintf("(%d, (%d, %s))", vi, o.rid, o.class))
		hist[o.class[:min(len(o.class), 6)]]++
		// purity, directly: the same (value, type) always gives the same outcome
		if f, ok := first[vi]; ok && (f.class != o.class || f.rid != o.rid) && fail == "" {
			fail = fmt.Sprintf("decoding value %d into %s gave %s first and %s later in the same history", vi, typ, f.text+" "+f.class, o.text+" "+o.class)
		}
		if _, ok := first[vi]; !ok {
			first[vi] = o
		}
	}
	// ... and equals the outcome on a decoder that has seen nothing else, also from several goroutines at once
	for vi, f := range first {
		fresh := types.VerifNewDecoder()
		fd, _ := fresh.Compile(reflect.PointerTo(typ))
		o, _ := decodeOnce(fd, typ, vals[vi], &intern17{ids: copyIDs(rids.ids)}, &intern17{ids: copyIDs(errs.ids)})
		if (o.class != f.class || o.text != f.text) && fail == "" {
			fail = fmt.Sprintf("decoding value %d into %s gives %s on a cold decoder and %s after other decodes", vi, typ, o.text+" "+o.class, f.text+" "+f.class)
		}
	}
	// one decoder used for several target types: decoding into another type first must not matter
	if fail == "" {
		multi := types.VerifNewDecoder()
		other := types17[r.Intn(len(types17))]
		if r.Intn(2) == 0 {
			other = types17[r.Intn(2)] // one of the twins
		}
		if od, err := multi.Compile(reflect.PointerTo(other)); err == nil {
			for _, vi := range seq {
				decodeOnce(od, other, vals[vi], &intern17{ids: map[string]int{}}, &intern17{ids: map[string]int{}})
			}
		}
		if md, err := multi.Compile(reflect.PointerTo(typ)); err == nil {
			for vi, f := range first {
				o, _ := decodeOnce(md, typ, vals[vi], &intern17{ids: map[string]int{}}, &intern17{ids: map[string]int{}})
				if o.text != f.text && fail == "" {
					fail = fmt.Sprintf("decoding value %d into %s gives %s after the decoder was used for %s, %s on its own", vi, typ, o.text, other, f.text)
				}
			}
		}
	}
	if r.Intn(2) == 0 && fail == "" {
		// several goroutines meet a decoder that has compiled nothing yet: each compiles the type for itself (they
		// start together) and decodes the history
		shared := types.VerifNewDecoder()
		var wg sync.WaitGroup
		var mu sync.Mutex
		start := make(chan struct{})
		for gI := 0; gI < 8; gI++ {
			wg.Add(1)
			go func(gI int) {
				defer wg.Done()
				<-start
				sd, err := shared.Compile(reflect.PointerTo(typ))
				if err != nil {
					mu.Lock()
					if fail == "" {
						fail = fmt.Sprintf("concurrent Compile of %s fails: %v (it succeeds sequentially)", typ, err)
					}
					mu.Unlock()
					return
				}
				for k := 0; k < len(seq); k++ {
					vi := seq[(k+gI)%len(seq)]
					o, _ := decodeOnce(sd, typ, vals[vi], &intern17{ids: map[string]int{}}, &intern17{ids: map[string]int{}})
					mu.Lock()
					if f := first[vi]; o.text != f.text && fail == "" {
						fail = fmt.Sprintf("concurrent decode of value %d into %s gives %s, sequentially %s", vi, typ, o.text, f.text)
					}
					mu.Unlock()
				}
			}(gI)
		}
		close(start)
		wg.Wait()
	}
	_, _, _ = table, kindG, h
	in := map[string]any{"type": typ.String(), "members": len(members), "history": seq}
	return in, fail, len(members) > 1
}

// render17 prints a decoded target without addresses.
func render17(v reflect.Value) string {
	if !v.IsValid() {
		return "invalid"
	}
	if !v.CanInterface() {
		return fmt.Sprintf("%v", v)
	}
	if e, ok := v.Interface().(error); ok && v.Kind() != reflect.Interface {
		return "error(" + e.Error() + ")"
	}
	switch v.Kind() {
	case reflect.Pointer:
		if v.IsNil() {
			return "nil"
		}
		return "&" + render17(v.Elem())
	case reflect.Interface:
		if v.IsNil() {
			return "nil"
		}
		return "any(" + render17(v.Elem()) + ")"
	case reflect.Slice:
		if v.IsNil() {
			return v.Type().String() + "(nil)"
		}
		fallthrough
	case reflect.Array:
		var es []string
		for i := 0; i < v.Len(); i++ {
			es = append(es, render17(v.Index(i)))
		}
		return v.Type().String() + "{" + strings.Join(es, ", ") + "}"
	case reflect.Map:
		if v.IsNil() {
			return v.Type().String() + "(nil)"
		}
		var es []string
		for _, k := range v.MapKeys() {
			es = append(es, render17(k)+":"+render17(v.MapIndex(k)))
		}
		sort.Strings(es)
		return v.Type().String() + "{" + strings.Join(es, ", ") + "}"
	case reflect.Struct:
		if t, ok := v.Interface().(time.Time); ok {
			return t.UTC().Format(time.RFC3339Nano)
		}
		var es []string
		for i := 0; i < v.NumField(); i++ {
			es = append(es, v.Type().Field(i).Name+":"+render17(v.Field(i)))
		}
		return v.Type().String() + "{" + strings.Join(es, ", ") + "}"
	}
	return fmt.Sprintf("%#v", v.Interface())
}

func copyIDs(m map[string]int) map[string]int {
	c := make(map[string]int, len(m))
	for k, v := range m {
		c[k] = v
	}
	return c
}

// synthetic17: a real encoding.DecoderGroup over members defined by a random table
type synth struct {
	row [][2]int // per value: class (0 ok, 1 unsupported, 2+ hard error id), write
}

var hardErrs = []error{errors.New("hard1"), errors.New("hard2")}

func (m *synth) Decode(v int, t *int) error {
	c, w := m.row[v][0], m.row[v][1]
	if w != 0 {
		*t = (7**t + w) % 1000
	}
	switch c {
	case 0:
		return nil
	case 1:
		return fmt.Errorf("wrapped: %w", encoding.ErrUnsupportedType)
	}
	return hardErrs[c-2]
}

func synthetic17(r *rand.Rand, hist map[string]int) (string, any, string, bool) {
	nm, nv, nk := 2+r.Intn(4), 3+r.Intn(4), 1+r.Intn(3)
	kinds := make([]int, nv)
	var kindG []string
	for i := range kinds {
		kinds[i] = r.Intn(nk)
		kindG = append(kindG, fmt.Sprint(kinds[i]))
	}
	g := encoding.NewDecoderGroup[synthVal, *int]()
	var table []string
	rows := make([]*synth, nm)
	for j := 0; j < nm; j++ {
		m := &synth{}
		var row []string
		// most members reject by source type, some by value; some write before answering
		supports := make([]bool, nk)
		for k := range supports {
			supports[k] = r.Intn(2) == 0
		}
		for v := 0; v < nv; v++ {
			c := 1
			if supports[kinds[v]] {
				c = []int{0, 0, 0, 2, 3, 1}[r.Intn(6)]
			} else if r.Intn(8) == 0 {
				c = 0
			}
			w := 0
			if c == 0 || r.Intn(3) == 0 {
				w = 1 + r.Intn(5)
			}
			m.row = append(m.row, [2]int{c, w})
			cls := []string{"AOk", "AUnsupported", "(AHard 1)", "(AHard 2)"}[c]
			row = append(row, fmt.Sprintf("(%s, %d)", cls, w))
		}
		rows[j] = m
		g.Add(&synthAdapter{m: m})
		table = append(table, gal.List(row))
	}
	n := 3 + r.Intn(8)
	var h []string
	var seq []int
	for i := 0; i < n; i++ {
		v := r.Intn(nv)
		seq = append(seq, v)
		t := 1
		err := g.Decode(synthValT{v: v, kind: kinds[v]}.boxed(), &t)
		cls := "AOk"
		switch {
		case err == nil:
		case errors.Is(err, encoding.ErrUnsupportedType):
			cls = "AUnsupported"
		case err == hardErrs[0]:
			cls = "(AHard 1)"
		default:
			cls = "(AHard 2)"
		}
		h = append(h, fmt.Sprintf("(%d, (%d, %s))", v, t, cls))
		hist["synthetic_"+cls[:min(len(cls), 6)]]++
	}
	gl := fmt.Sprintf("(mk17 %s %s %s)", gal.List(table), gal.List(kindG), gal.List(h))
	return gl, map[string]any{"synthetic_members": nm, "values": nv, "history": seq}, "", true
}

// the group caches by reflect.TypeOf(source): sources of different "kinds" need different Go types
type synthVal interface{ index() int }
type sv0 struct{ v int }
type sv1 struct{ v int }
type sv2 struct{ v int }

func (s sv0) index() int { return s.v }
func (s sv1) index() int { return s.v }
func (s sv2) index() int { return s.v }

type synthValT struct{ v, kind int }

func (s synthValT) boxed() synthVal {
	switch s.kind {
	case 0:
		return sv0{s.v}
	case 1:
		return sv1{s.v}
	}
	return sv2{s.v}
}

type synthAdapter struct{ m *synth }

func (a *synthAdapter) Decode(v synthVal, t *int) error { return a.m.Decode(v.index(), t) }

func runC17(seed int64, n int, tier string) *Result {
	r := rand.New(rand.NewSource(seed))
	res := &Result{
		Prop:     "C17",
		Requires: []string{"Codec.Group", "Codec.CheckGroup"},
		CaseType: "c17case",
		OkFn:     "c17ok",
		Rule: "a target type from 21 Go types (byte slices, numbers, strings, slices, maps, any, pointers, structs, time) and 29 source values of every kind; each member " +
			"of the type's cold decoder group is probed alone on every value (answer class, resulting target), then 3-10 decodes (often repeating a source type) run on " +
			"a cold decoder; the Coq model runs the group algorithm over the probed table and must reproduce every result; directly checked: rejection depends on the " +
			"source type only and leaves the target untouched, outcomes equal those of a fresh decoder and of 8 concurrent goroutines; non-trivial = a group of several members",
		Hist: map[string]int{},
	}
	for i := 0; i < n; i++ {
		// the group algorithm itself, on synthetic members (compared with the Coq model) ...
		g, in, fail, nt := synthetic17(r, res.Hist)
		// ... and the real codec: purity of Decode checked directly
		rin, rfail, _ := real17(r, res.Hist)
		if fail == "" {
			fail = rfail
		}
		res.Cases = append(res.Cases, Case{Gallina: g, Input: map[string]any{"synthetic": in, "real": rin}, Nontrivial: nt, OracleFail: fail})
	}
	return res
}
