package main

// Recording of the calls REAL nodes make on their tracers (verif hook packet.VerifTrace, called under the tracer's
// lock, so in the order the calls take effect): every node-level run of C02 yields, per tracer, the sequence of
// Read / Link / Write / Receive calls with the answers the tracer handed to readers during each call.  The sequences
// go through the same Coq checker as the harness-driven ones: they must satisfy the node-discipline predicate, and the
// answers must equal the tracer model's and the specification's.

import (
	"fmt"
	"strings"
	"sync"

	"github.com/gofrs/uuid"
	"github.com/siyul-park/uniflow/pkg/packet"
)

type tlog02 struct {
	pk      map[uuid.UUID]int
	rd      map[*packet.Reader]int
	wr      map[*packet.Writer]int
	steps   []string
	ops     []string
	cur     string
	answers []string
	closed  bool
}

type traceRec02 struct {
	mu    sync.Mutex
	logs  map[*packet.Tracer]*tlog02
	order []*packet.Tracer
}

func (l *tlog02) pid(p *packet.Packet) int {
	if n, ok := l.pk[p.ID()]; ok {
		return n
	}
	l.pk[p.ID()] = len(l.pk) + 1
	return len(l.pk)
}

func (l *tlog02) flush() {
	if l.cur != "" {
		l.steps = append(l.steps, fmt.Sprintf("(%s, mkobs %s [] [] false)", l.cur, "["+strings.Join(l.answers, "; ")+"]"))
		l.ops = append(l.ops, l.cur)
	}
	l.cur, l.answers = "", nil
}

func startTraceRec02() *traceRec02 {
	rec := &traceRec02{logs: map[*packet.Tracer]*tlog02{}}
	packet.VerifTrace = func(t *packet.Tracer, kind string, r *packet.Reader, w *packet.Writer, a, b *packet.Packet, accepted bool) {
		rec.mu.Lock()
		defer rec.mu.Unlock()
		l := rec.logs[t]
		if l == nil {
			l = &tlog02{pk: map[uuid.UUID]int{}, rd: map[*packet.Reader]int{}, wr: map[*packet.Writer]int{}}
			rec.logs[t] = l
			rec.order = append(rec.order, t)
		}
		if l.closed {
			return
		}
		rid := func() int {
			if n, ok := l.rd[r]; ok {
				return n
			}
			l.rd[r] = len(l.rd)
			return len(l.rd) - 1
		}
		wid := func() int {
			if n, ok := l.wr[w]; ok {
				return n
			}
			l.wr[w] = len(l.wr)
			return len(l.wr) - 1
		}
		switch kind {
		case "answer":
			l.answers = append(l.answers, fmt.Sprintf("(%d, %s)", rid(), pktOf(b)))
		case "close":
			l.flush()
			l.closed = true
		case "read":
			l.flush()
			l.cur = fmt.Sprintf("TRead %d %d %s", rid(), l.pid(a), payG(a.Payload()))
		case "link":
			l.flush()
			l.cur = fmt.Sprintf("TLink %d %d %s", l.pid(a), l.pid(b), payG(b.Payload()))
		case "write":
			l.flush()
			if w == nil {
				l.cur = fmt.Sprintf("TWrite None %d false", l.pid(a))
			} else {
				l.cur = fmt.Sprintf("TWrite (Some %d) %d %s", wid(), l.pid(a), map[bool]string{true: "true", false: "false"}[accepted])
			}
		case "receive":
			l.flush()
			if a == nil {
				l.cur = fmt.Sprintf("TReceive %d None", wid())
			} else {
				l.cur = fmt.Sprintf("TReceive %d (Some %s)", wid(), pktOf(a))
			}
		}
	}
	return rec
}

// stop ends the recording and returns one Coq case (and its list of calls) per tracer that was used
func (rec *traceRec02) stop() (cases []string, inputs [][]string) {
	packet.VerifTrace = nil
	rec.mu.Lock()
	defer rec.mu.Unlock()
	for _, t := range rec.order {
		l := rec.logs[t]
		l.flush()
		if len(l.steps) == 0 {
			continue
		}
		cases = append(cases, fmt.Sprintf("(0, 0, [\n  %s])", strings.Join(l.steps, ";\n  ")))
		inputs = append(inputs, l.ops)
	}
	return cases, inputs
}
