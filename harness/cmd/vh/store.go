package main

import (
	"context"
	"errors"
	"fmt"
	"math/rand"
	"runtime"
	"strings"
	"time"

	"github.com/siyul-park/uniflow/pkg/store"
	"github.com/siyul-park/uniflow/pkg/types"
	"verif/harness/gal"
)

// ---- interning of rendered values (tables, filters) ----
type vintern struct {
	names map[string]string
	defs  []string
	pfx   string
}

func newIntern(pfx string) *vintern { return &vintern{names: map[string]string{}, pfx: pfx} }

func (in *vintern) name(typ, term string) string {
	if n, ok := in.names[typ+term]; ok {
		return n
	}
	n := fmt.Sprintf("%s%d", in.pfx, len(in.names))
	in.names[typ+term] = n
	in.defs = append(in.defs, fmt.Sprintf("Definition %s : %s := %s.\n", n, typ, term))
	return n
}

const tabT = "list (N * list (option value * option value))"

func (in *vintern) tab(m types.Map) string { return in.name(tabT, gal.Table(m)) }
func (in *vintern) ov(v types.Value) string {
	if v == nil {
		return "None"
	}
	return in.name("option value", gal.OValue(v))
}

// ---- generators ----
type sgen struct {
	r      *rand.Rand
	sparse bool // documents lack fields more often
}

func str(s string) types.Value { return types.NewString(s) }

func (g *sgen) scalar() types.Value {
	switch g.r.Intn(8) {
	case 0:
		return str("x")
	case 1:
		return str("y")
	default:
		return types.NewInt(g.r.Intn(4))
	}
}

var fields = []string{"a", "b", "c"}

func (g *sgen) doc(id int) types.Map {
	m := types.NewMapWithSize(4)
	if id >= 0 {
		m.Set(str("id"), types.NewInt(id))
	}
	for _, f := range fields {
		if g.sparse && g.r.Intn(4) == 0 {
			continue
		}
		switch g.r.Intn(6) {
		case 0: // missing
		case 1:
			m.Set(str(f), types.NewMap(str("x"), types.NewInt(g.r.Intn(3))))
		default:
			m.Set(str(f), g.scalar())
		}
	}
	return m.Immutable()
}

func (g *sgen) cond() types.Value {
	r := g.r
	op := func(o string, v types.Value) types.Value { return types.NewMap(str(o), v) }
	switch r.Intn(14) {
	case 0, 1:
		return g.scalar()
	case 2:
		return op("$eq", g.scalar())
	case 3:
		return op("$ne", g.scalar())
	case 4:
		return op("$gt", g.scalar())
	case 5:
		return op("$gte", g.scalar())
	case 6:
		return op("$lt", g.scalar())
	case 7:
		return op("$lte", g.scalar())
	case 8:
		return op("$exists", types.NewBoolean(r.Intn(2) == 0))
	case 9, 10:
		lo := r.Intn(3)
		return types.NewMap(str("$gte"), types.NewInt(lo), str("$lte"), types.NewInt(lo+r.Intn(3)))
	case 11:
		return types.NewMap(str("$gt"), types.NewInt(r.Intn(3)), str("$ne"), g.scalar())
	case 12:
		if r.Intn(3) == 0 {
			return types.NewMap(str("x"), types.NewInt(r.Intn(3))) // nested field
		}
		return types.NewMap(str("x"), g.cond()) // nested field under any condition (the parent may be missing or a scalar)
	default:
		return op("$exists", types.NewInt(r.Intn(2)))
	}
}

func (g *sgen) filter(depth int) types.Map {
	r := g.r
	m := types.NewMapWithSize(2)
	n := 1 + r.Intn(2)
	for i := 0; i < n; i++ {
		if r.Intn(8) == 0 {
			m.Set(str("id"), types.NewInt(r.Intn(5)))
		} else {
			m.Set(str(fields[r.Intn(len(fields))]), g.cond())
		}
	}
	if depth > 0 {
		switch r.Intn(5) {
		case 0:
			m.Set(str("$and"), types.NewSlice(g.filter(depth-1), g.filter(depth-1)))
		case 1, 2:
			m.Set(str("$or"), types.NewSlice(g.filter(depth-1), g.filter(depth-1)))
		}
		if r.Intn(6) == 0 { // pure logical node
			m = types.NewMapWithSize(1)
			k := []string{"$and", "$or"}[r.Intn(2)]
			m.Set(str(k), types.NewSlice(g.filter(depth-1), g.filter(depth-1)))
		}
	}
	return m.Immutable()
}

func (g *sgen) badFilter() types.Map {
	switch g.r.Intn(4) {
	case 0:
		return types.NewMap(str("$foo"), types.NewInt(1))
	case 1:
		return types.NewMap(str(fields[g.r.Intn(3)]), types.NewMap(str("$bar"), types.NewInt(1)))
	case 2:
		return types.NewMap(str("$and"), types.NewInt(5))
	default:
		return types.NewMap(str(fields[g.r.Intn(3)]), g.cond(), str("$or"), types.NewSlice(types.NewMap(str("$zz"), types.NewInt(1))))
	}
}

func (g *sgen) update() types.Map {
	r := g.r
	set := func() types.Value {
		m := types.NewMapWithSize(2)
		for i := 1 + r.Intn(2); i > 0; i-- {
			m.Set(str(fields[r.Intn(3)]), g.scalar())
		}
		return m.Immutable()
	}
	unset := func() types.Value { return types.NewMap(str(fields[r.Intn(3)]), types.NewInt(1)) }
	switch r.Intn(12) {
	case 0:
		return types.NewMap(str("$inc"), types.NewMap(str("a"), types.NewInt(1))) // unsupported operator
	case 1:
		return types.NewMap(str("$set"), types.NewInt(3)) // ill-typed operand
	case 2, 3:
		return types.NewMap(str("$unset"), unset())
	case 4:
		return types.NewMap(str("$set"), set(), str("$unset"), unset())
	default:
		return types.NewMap(str("$set"), set())
	}
}

// ---- running operations on the real store ----
func errClass(err error) string {
	switch {
	case errors.Is(err, store.ErrKeyDuplicate):
		return "EDup"
	case errors.Is(err, store.ErrKeyMissing):
		return "EMissing"
	case errors.Is(err, store.ErrKeyNotFound):
		return "ENotFound"
	case errors.Is(err, store.ErrUnsupportedOperation):
		return "EOp"
	case errors.Is(err, store.ErrUnsupportedType):
		return "EType"
	}
	return "ECast"
}

type sopKind int

const (
	opInsert sopKind = iota
	opUpdate
	opDelete
	opFind
	opIndex
	opUnindex
	opWatch
	opCloseWatch
	opDrain
)

type sop struct {
	kind   sopKind
	docs   []types.Map
	filter types.Map // may be nil
	upd    types.Map
	upsert bool
	sortF  string
	sortO  int
	skip   int
	limit  int
	keys   []string
	uniq   bool
	widx   int
}

func (o sop) String() string {
	f := "nil"
	if o.filter != nil {
		f = fmt.Sprint(o.filter.Interface())
	}
	switch o.kind {
	case opInsert:
		var ds []string
		for _, d := range o.docs {
			ds = append(ds, fmt.Sprint(d.Interface()))
		}
		return "insert " + strings.Join(ds, ",")
	case opUpdate:
		return fmt.Sprintf("update %s %v upsert=%v", f, o.upd.Interface(), o.upsert)
	case opDelete:
		return "delete " + f
	case opFind:
		return fmt.Sprintf("find %s sort=%s:%d skip=%d limit=%d", f, o.sortF, o.sortO, o.skip, o.limit)
	case opIndex:
		return fmt.Sprintf("index %v unique=%v partial=%s", o.keys, o.uniq, f)
	case opUnindex:
		return fmt.Sprintf("unindex %v", o.keys)
	case opWatch:
		return "watch " + f
	}
	if o.kind == opDrain {
		return fmt.Sprintf("drain %d", o.widx)
	}
	return fmt.Sprintf("closewatch %d", o.widx)
}

type sresult struct {
	kind string // ROk RCount RDocs RErr REvents RCrash
	n    int
	docs []types.Map
	err  string
	evs  []event
}

func (a sresult) same(b sresult) bool {
	if a.kind != b.kind || a.n != b.n || a.err != b.err || len(a.docs) != len(b.docs) || len(a.evs) != len(b.evs) {
		return false
	}
	for i := range a.evs {
		if a.evs[i].op != b.evs[i].op || !types.Equal(a.evs[i].id, b.evs[i].id) {
			return false
		}
	}
	for i := range a.docs {
		if !types.Equal(a.docs[i], b.docs[i]) {
			return false
		}
	}
	return true
}

type liveStore struct {
	s       store.Store
	streams []store.Stream
	closed  map[int]bool
}

// countPumps counts the goroutines running a watcher stream's pump (pkg/store newStream).
func countPumps() int {
	buf := allStacks()
	n := len(buf)
	return strings.Count(string(buf[:n]), "pkg/store.newStream.func")
}

func anyOrNil(m types.Map) any {
	if m == nil {
		return nil
	}
	return m
}

func (ls *liveStore) apply(o sop) (res sresult) {
	ctx := context.Background()
	defer func() {
		if p := recover(); p != nil {
			res = sresult{kind: "RCrash", err: fmt.Sprint(p)}
		}
	}()
	fail := func(err error) sresult { return sresult{kind: "RErr", err: errClass(err)} }
	switch o.kind {
	case opInsert:
		docs := make([]any, len(o.docs))
		for i, d := range o.docs {
			docs[i] = d
		}
		if err := ls.s.Insert(ctx, docs); err != nil {
			return fail(err)
		}
		return sresult{kind: "ROk"}
	case opUpdate:
		n, err := ls.s.Update(ctx, anyOrNil(o.filter), o.upd, store.UpdateOptions{Upsert: o.upsert})
		if err != nil {
			return fail(err)
		}
		return sresult{kind: "RCount", n: n}
	case opDelete:
		n, err := ls.s.Delete(ctx, anyOrNil(o.filter))
		if err != nil {
			return fail(err)
		}
		return sresult{kind: "RCount", n: n}
	case opFind:
		opt := store.FindOptions{Limit: o.limit, Skip: o.skip}
		if o.sortF != "" {
			opt.Sort = types.NewMap(str(o.sortF), types.NewInt(o.sortO))
		}
		c, err := ls.s.Find(ctx, anyOrNil(o.filter), opt)
		if err != nil {
			return fail(err)
		}
		var docs []types.Map
		for c.Next(ctx) {
			var d types.Map
			if err := c.Decode(&d); err != nil {
				return fail(err)
			}
			docs = append(docs, d)
		}
		return sresult{kind: "RDocs", docs: docs}
	case opIndex:
		opt := store.IndexOptions{Unique: o.uniq}
		if o.filter != nil {
			opt.Filter = o.filter
		}
		if err := ls.s.Index(ctx, o.keys, opt); err != nil {
			return fail(err)
		}
		return sresult{kind: "ROk"}
	case opUnindex:
		if err := ls.s.Unindex(ctx, o.keys); err != nil {
			return fail(err)
		}
		return sresult{kind: "ROk"}
	case opWatch:
		st, err := ls.s.Watch(ctx, anyOrNil(o.filter))
		if err != nil {
			return fail(err)
		}
		ls.streams = append(ls.streams, st)
		return sresult{kind: "ROk"}
	case opCloseWatch:
		// close, then read the stream to its end: Go's select may still hand over events that were
		// pending when Close landed; the model accepts any prefix of them. The stream must end.
		if o.widx < len(ls.streams) {
			st := ls.streams[o.widx]
			first := !ls.closed[o.widx]
			if ls.closed == nil {
				ls.closed = map[int]bool{}
			}
			ls.closed[o.widx] = true
			before := countPumps()
			_ = st.Close(ctx)
			if first && before > 0 {
				// the stream must end by itself, whatever backlog nobody reads: its pump goroutine goes away
				ended := false
				for dl := time.Now().Add(3 * time.Second); time.Now().Before(dl); time.Sleep(200 * time.Microsecond) {
					if countPumps() < before {
						ended = true
						break
					}
				}
				if !ended {
					return sresult{kind: "RCrash", err: "the stream's pump goroutine is still running 3s after Close with nobody reading"}
				}
			}
			evs, ended := drainToEnd(st)
			if !ended {
				return sresult{kind: "RCrash", err: "the stream did not end within 3s after Close"}
			}
			return sresult{kind: "REvents", evs: evs}
		}
		return sresult{kind: "REvents"}
	case opDrain:
		if o.widx < len(ls.streams) {
			return sresult{kind: "REvents", evs: drain(ls.streams[o.widx])}
		}
		return sresult{kind: "REvents"}
	}
	return sresult{kind: "ROk"}
}

type event struct {
	op string
	id types.Value
}

// drain reads the events a stream has ready; it stops at the first 40ms of silence or at the end of the stream.
func drain(st store.Stream) []event {
	var evs []event
	for {
		ctx, cancel := context.WithTimeout(context.Background(), 40*time.Millisecond)
		ok := st.Next(ctx)
		cancel()
		if !ok {
			// confirm the silence once more (a loaded machine may not have scheduled the pump yet)
			runtime.Gosched()
			ctx, cancel = context.WithTimeout(context.Background(), 80*time.Millisecond)
			ok = st.Next(ctx)
			cancel()
			if !ok {
				return evs
			}
		}
		var m types.Map
		if err := st.Decode(&m); err != nil || m == nil {
			evs = append(evs, event{op: "undecodable"})
			continue
		}
		op, _ := m.Get(str("op")).(types.String)
		evs = append(evs, event{op: op.String(), id: m.Get(str("id"))})
	}
}

// drainToEnd reads a closed stream until Next reports its end (3s deadline per event).
func drainToEnd(st store.Stream) ([]event, bool) {
	var evs []event
	for {
		ctx, cancel := context.WithTimeout(context.Background(), 3*time.Second)
		ok := st.Next(ctx)
		expired := ctx.Err() != nil
		cancel()
		if !ok {
			return evs, !expired
		}
		var m types.Map
		if err := st.Decode(&m); err != nil || m == nil {
			evs = append(evs, event{op: "undecodable"})
			continue
		}
		op, _ := m.Get(str("op")).(types.String)
		evs = append(evs, event{op: op.String(), id: m.Get(str("id"))})
	}
}

// ---- Gallina rendering ----
func keysG(keys []string) string {
	var ks []string
	for _, k := range keys {
		ks = append(ks, gal.Bytes([]byte(k)))
	}
	return gal.List(ks)
}

func (in *vintern) filterG(f types.Map) string {
	if f == nil {
		return "None"
	}
	return in.ov(f)
}

func (in *vintern) opG(o sop) string {
	switch o.kind {
	case opInsert:
		var ds []string
		for _, d := range o.docs {
			ds = append(ds, in.tab(d))
		}
		return "SInsert " + gal.List(ds)
	case opUpdate:
		return fmt.Sprintf("SUpdate %s %s %s", in.filterG(o.filter), in.tab(o.upd), gal.Bool(o.upsert))
	case opDelete:
		return "SDelete " + in.filterG(o.filter)
	case opFind:
		sort := "[]"
		if o.sortF != "" {
			sort = fmt.Sprintf("[(%s, %s)]", gal.Bytes([]byte(o.sortF)), gal.Z(int64(o.sortO)))
		}
		return fmt.Sprintf("SFind %s %s %d %d", in.filterG(o.filter), sort, o.skip, o.limit)
	case opIndex:
		return fmt.Sprintf("SIndex %s %s %s", keysG(o.keys), gal.Bool(o.uniq), in.filterG(o.filter))
	case opUnindex:
		return "SUnindex " + keysG(o.keys)
	case opWatch:
		return "SWatch " + in.filterG(o.filter)
	case opDrain:
		return fmt.Sprintf("SDrain %d", o.widx)
	}
	return fmt.Sprintf("SCloseWatch %d", o.widx)
}

func (in *vintern) resG(r sresult) string {
	switch r.kind {
	case "ROk":
		return "ROk"
	case "RCount":
		return fmt.Sprintf("(RCount %d)", r.n)
	case "RDocs":
		var ds []string
		for _, d := range r.docs {
			ds = append(ds, in.tab(d))
		}
		return "(RDocs " + gal.List(ds) + ")"
	case "RErr":
		return "(RErr " + r.err + ")"
	case "REvents":
		return "(REvents " + in.eventsG(r.evs) + ")"
	}
	return "RCrash"
}

func (in *vintern) eventsG(evs []event) string {
	var es []string
	for _, e := range evs {
		es = append(es, fmt.Sprintf("(%s, %s)", gal.Bytes([]byte(e.op)), in.ov(e.id)))
	}
	return gal.List(es)
}

// scanAll reads every stored document directly (not part of the observed history).
func (ls *liveStore) scanAll() []types.Map {
	r := ls.apply(sop{kind: opFind})
	return r.docs
}

// runHistory executes ops on a fresh store and renders the case. before[i] is the content of the store
// (full scan, ascending id) just before step i.
func runHistory(in *vintern, ops []sop) (string, []sresult, [][]types.Map) {
	ls := &liveStore{s: store.New()}
	var steps []string
	var results []sresult
	var before [][]types.Map
	for _, o := range ops {
		before = append(before, ls.scanAll())
		r := ls.apply(o)
		results = append(results, r)
		steps = append(steps, fmt.Sprintf("(%s, %s)", in.opG(o), in.resG(r)))
	}
	for _, st := range ls.streams {
		_ = st.Close(context.Background())
	}
	return fmt.Sprintf("(mk10 [\n  %s])", strings.Join(steps, ";\n  ")), results, before
}
