package main

import (
	"fmt"
	"math/rand"
	"sort"
	"strings"

	"github.com/gofrs/uuid"
	"github.com/siyul-park/uniflow/pkg/spec"
	"github.com/siyul-park/uniflow/pkg/value"
	"verif/harness/gal"
)

func init() { runners["C18"] = runC18 }

func uid(n int) uuid.UUID {
	var u uuid.UUID
	if n > 0 {
		u[15] = byte(n)
		u[6] = 0x40
	}
	return u
}

func uidOf(u uuid.UUID) int {
	if u == uuid.Nil {
		return 0
	}
	return int(u[15])
}

func jdocOf(v any) string {
	switch x := v.(type) {
	case nil:
		return "JNull"
	case bool:
		return "(JBool " + gal.Bool(x) + ")"
	case int:
		return "(JNum " + gal.Z(int64(x)) + ")"
	case float64:
		return "(JNum " + gal.Z(int64(x)) + ")"
	case string:
		return "(JStr " + gal.Bytes([]byte(x)) + ")"
	case []any:
		if x == nil {
			return "JNull" // a nil list is JSON null, an empty list is not
		}
		var es []string
		for _, e := range x {
			es = append(es, jdocOf(e))
		}
		return "(JList " + gal.List(es) + ")"
	case map[string]any:
		if x == nil {
			return "JNull"
		}
		keys := make([]string, 0, len(x))
		for k := range x {
			keys = append(keys, k)
		}
		sort.Strings(keys)
		var es []string
		for _, k := range keys {
			es = append(es, "("+gal.Bytes([]byte(k))+", "+jdocOf(x[k])+")")
		}
		return "(JMap " + gal.List(es) + ")"
	}
	return "(JStr " + gal.Bytes([]byte(fmt.Sprintf("<%T>", v))) + ")"
}

type g18 struct {
	r       *rand.Rand
	envKeys []string
}

func (g *g18) str(actions bool) string {
	words := []string{"", "a", "b c", "x{y", "} }", "{ {", "1", "t"}
	s := words[g.r.Intn(len(words))]
	if actions && len(g.envKeys) > 0 && g.r.Intn(2) == 0 {
		k := g.envKeys[g.r.Intn(len(g.envKeys))]
		sp := []string{"", " "}[g.r.Intn(2)]
		s += "{{" + sp + "." + k + sp + "}}" + words[g.r.Intn(len(words))]
		if g.r.Intn(4) == 0 {
			s += "{{ ." + g.envKeys[g.r.Intn(len(g.envKeys))] + " }}"
		}
	} else if actions && len(g.envKeys) > 0 && g.r.Intn(5) == 0 {
		// a conditional: the only actions of the string are control actions
		k := g.envKeys[g.r.Intn(len(g.envKeys))]
		s += "{{ if ." + k + " }}yes" + words[g.r.Intn(len(words))]
		if g.r.Intn(2) == 0 {
			s += "{{ else }}no"
		}
		s += "{{ end }}"
		if g.r.Intn(3) == 0 {
			s += "{{ ." + k + " }}"
		}
	}
	return s
}

func (g *g18) doc(depth int, actions bool) any {
	r := g.r
	k := r.Intn(9)
	if depth <= 0 && k >= 6 {
		k = r.Intn(6)
	}
	switch k {
	case 0:
		return nil
	case 1:
		return r.Intn(2) == 0
	case 2:
		return r.Intn(50)
	case 3, 4, 5:
		return g.str(actions)
	case 6:
		n := r.Intn(4)
		l := make([]any, n)
		for i := range l {
			l[i] = g.doc(depth-1, actions)
		}
		return l
	default:
		n := r.Intn(4)
		m := make(map[string]any, n)
		for i := 0; i < n; i++ {
			key := []string{"k", "m", "n", "p q"}[r.Intn(4)] + fmt.Sprint(i)
			if actions && r.Intn(8) == 0 && len(g.envKeys) > 0 {
				key += "{{ ." + g.envKeys[0] + " }}"
			}
			m[key] = g.doc(depth-1, actions)
		}
		return m
	}
}

func case18(r *rand.Rand, hist map[string]int) (string, any, string, bool) {
	g := &g18{r: r}
	ns := []string{"ns", "other"}[r.Intn(2)]
	// values in the store
	nv := r.Intn(4)
	var vals []*value.Value
	var valG []string
	for i := 0; i < nv; i++ {
		v := &value.Value{Namespace: []string{"ns", "other", ""}[r.Intn(3)]}
		switch r.Intn(3) {
		case 0:
			v.ID = uid(1 + r.Intn(3))
		case 1:
			v.Name = []string{"va", "vb"}[r.Intn(2)]
			if r.Intn(2) == 0 {
				v.ID = uid(1 + r.Intn(3))
			}
		}
		switch r.Intn(4) {
		case 0:
			v.Data = r.Intn(90)
		case 1:
			v.Data = []string{"s1", "two words", ""}[r.Intn(3)]
		case 2:
			v.Data = r.Intn(2) == 0
		default:
			v.Data = map[string]any{"f": r.Intn(9), "g": "gg"}
		}
		vals = append(vals, v)
		valG = append(valG, fmt.Sprintf("(mkval %d %s %s %s)", uidOf(v.ID), gal.Bytes([]byte(v.Namespace)), gal.Bytes([]byte(v.Name)), jdocOf(v.Data)))
	}
	// env entries
	env := map[string]spec.Value{}
	ne := r.Intn(4)
	for i := 0; i < ne; i++ {
		key := []string{"A", "B", "C"}[i]
		e := spec.Value{}
		switch r.Intn(9) {
		case 0:
			e.ID = uid(1 + r.Intn(4))
		case 1:
			e.Name = []string{"va", "vb", "vc"}[r.Intn(3)]
		case 2: // anonymous
		default:
			if len(vals) > 0 { // refer to an existing value
				v := vals[r.Intn(len(vals))]
				e.ID, e.Name = v.ID, v.Name
			}
		}
		switch r.Intn(5) {
		case 0:
			e.Data = "const"
		case 1:
			e.Data = r.Intn(30)
		case 2:
			e.Data = "{{ .f }}"
		case 3:
			e.Data = map[string]any{"inner": "{{ . }}", "n": nil}
		default:
			e.Data = "{{ . }}"
		}
		env[key] = e
		g.envKeys = append(g.envKeys, key)
	}
	keys := append([]string(nil), g.envKeys...)
	sort.Strings(keys)
	var envG []string
	for _, k := range keys {
		e := env[k]
		envG = append(envG, fmt.Sprintf("(mkenv %s %d %s %s)", gal.Bytes([]byte(k)), uidOf(e.ID), gal.Bytes([]byte(e.Name)), jdocOf(e.Data)))
	}
	actions := r.Intn(3) > 0
	var fields map[string]any
	if r.Intn(10) > 0 {
		fields = map[string]any{}
		for i := r.Intn(4); i >= 0; i-- {
			name := fmt.Sprintf("f%d", i)
			if actions && len(g.envKeys) > 0 && r.Intn(5) == 0 { // a template action in a top-level field name
				name += "{{ ." + g.envKeys[r.Intn(len(g.envKeys))] + " }}"
			}
			fields[name] = g.doc(1+r.Intn(3), actions)
		}
	}
	fieldsG := jdocOf(map[string]any(fields))
	if fields == nil {
		fieldsG = "(JMap [])" // Build turns absent fields into an empty map when an environment exists
	}
	if r.Intn(3) == 0 {
		// an unrelated spec whose template writes some text and then fails while executing is built (and rejected)
		// first: what the next Build returns must not depend on it
		bad := &spec.Unstructured{
			Meta:   spec.Meta{ID: uid(8), Kind: "k", Namespace: ns, Env: map[string]spec.Value{"HOST": {Data: "localhost"}}},
			Fields: map[string]any{"addr": "tcp://{{ .HOST }}:{{ .HOST.port }}", "z": map[string]any{"k{{ .HOST }}{{ .HOST.x.y }}": 1}},
		}
		func() {
			defer func() { _ = recover() }()
			if err := bad.Bind(); err == nil {
				if err := bad.Build(); err != nil {
					hist["poisoned_before"]++
				}
			}
		}()
	}
	u := &spec.Unstructured{Meta: spec.Meta{ID: uid(9), Kind: "k", Namespace: ns, Env: env}, Fields: fields}
	obs, fail := "", ""
	func() {
		defer func() {
			if p := recover(); p != nil {
				obs, fail = "RPanic", fmt.Sprintf("Bind/Build panicked: %v", p)
			}
		}()
		if err := u.Bind(vals...); err != nil {
			obs = "RBindErr"
			hist["bind_error"]++
			return
		}
		if err := u.Build(); err != nil {
			obs = "RBuildErr"
			hist["build_error"]++
			return
		}
		hist["done"]++
		out := map[string]any(u.Fields)
		if out == nil {
			obs = "(RDone (JMap []))"
		} else {
			obs = "(RDone " + jdocOf(out) + ")"
		}
	}()
	// the property, directly: without actions the fields come back equal
	if fail == "" && !actions && strings.HasPrefix(obs, "(RDone") && obs != "(RDone "+fieldsG+")" {
		fail = "fields without any template action were changed by Bind+Build"
	}
	gl := fmt.Sprintf("(mk18 %s %s %s %s %s)", gal.Bytes([]byte(ns)), gal.List(envG), gal.List(valG), fieldsG, obs)
	in := map[string]any{"ns": ns, "env": envG, "values": valG, "fields": fieldsG, "observed": obs}
	return gl, in, fail, ne > 0 && len(fields) > 0
}

func runC18(seed int64, n int, tier string) *Result {
	r := rand.New(rand.NewSource(seed))
	res := &Result{
		Prop:     "C18",
		Requires: []string{"Template.Template", "Template.Render"},
		CaseType: "c18case",
		OkFn:     "c18ok",
		Rule: "a spec (namespace, 0-3 environment entries referring to values by id, by name, anonymously or to nothing; entry data constant, {{ . }}, {{ .f }} " +
			"or a map) with JSON-like fields of depth <=4 (nulls, booleans, numbers, strings with and without {{ .KEY }} actions, empty containers, actions in map keys), " +
			"0-3 values in two namespaces; Bind then Build on the real spec.Unstructured; observed: result fields / bind error / build error / panic; " +
			"non-trivial = at least one environment entry and non-empty fields; distinct by rendered case",
		Hist: map[string]int{},
	}
	for i := 0; i < n; i++ {
		g, in, fail, nt := case18(r, res.Hist)
		res.Cases = append(res.Cases, Case{Gallina: g, Input: in, Nontrivial: nt, OracleFail: fail})
	}
	return res
}
