package main

import (
	"errors"
	"fmt"
	"math"
	"math/rand"
	"strings"

	"github.com/siyul-park/uniflow/pkg/types"
	"verif/harness/gal"
)

func init() { runners["C15"] = runC15 }

// interning of rendered values: big numerals are parsed once per shard
type interner struct {
	names map[string]string
	defs  []string
}

func (in *interner) ov(v types.Value) string {
	s := gal.OValue(v)
	if len(s) < 12 {
		return s
	}
	if n, ok := in.names[s]; ok {
		return n
	}
	n := fmt.Sprintf("iv%d", len(in.names))
	in.names[s] = n
	in.defs = append(in.defs, fmt.Sprintf("Definition %s : option value := %s.\n", n, s))
	return n
}

var in15 = &interner{names: map[string]string{}}

// keys that share hash bytes across kinds: 1-byte keys hashing [1], 8 zero bytes (Int 0, Uint 0, +0.0, -0.0),
// plus nil and a few ordinary keys
func keys15() []types.Value {
	return []types.Value{
		// one collision class, listed in ascending Compare order (kind order)
		types.NewBinary([]byte{1}), types.NewBoolean(true), types.NewError(errors.New("\x01")),
		types.NewInt8(1), types.NewUint8(1), types.NewString("\x01"),
		types.NewInt(0), types.NewInt64(0), types.NewUint64(0), types.NewFloat64(0), types.NewFloat64(math.Copysign(0, -1)),
		nil, types.NewString("a"), types.NewString("b"), types.NewInt(1),
	}
}

func vals15(r *rand.Rand) types.Value {
	switch r.Intn(8) {
	case 0:
		return nil
	case 1:
		return types.NewString("x")
	case 2:
		return types.NewFloat64(math.Copysign(0, -1))
	case 3:
		return types.NewFloat64(0)
	default:
		return types.NewInt(r.Intn(3))
	}
}

type refObj struct {
	mut   bool
	pairs [][2]types.Value
}

func (o *refObj) find(k types.Value) int {
	for i, p := range o.pairs {
		if types.Equal(p[0], k) {
			return i
		}
	}
	return -1
}

func sortInts(a []int, desc bool) {
	for i := 1; i < len(a); i++ {
		for j := i; j > 0 && ((!desc && a[j] < a[j-1]) || (desc && a[j] > a[j-1])); j-- {
			a[j], a[j-1] = a[j-1], a[j]
		}
	}
}

func renderPairs(m types.Map) string {
	var items []string
	for k, v := range m.Range() {
		items = append(items, "("+in15.ov(k)+", "+in15.ov(v)+")")
	}
	return gal.List(items)
}

// one history on real maps; returns Gallina case, json input, oracle failure, stats
func history15(r *rand.Rand, hist map[string]int) (string, any, string, bool) {
	keys := keys15()
	var objs []types.Map // handle -> object
	var refs []*refObj
	handleOf := func(m types.Map) int {
		for i, o := range objs {
			if o == m {
				return i
			}
		}
		return -1
	}
	n := 4 + r.Intn(11)
	if r.Intn(3) == 0 {
		n = 12 + r.Intn(14) // long histories: buckets of 3+ colliding keys, several derived maps
	}
	// focus class: most keys of one history come from one collision class, so buckets grow
	focus := keys[:6]
	if r.Intn(3) == 0 {
		focus = keys[6:11]
	}
	pick := func() types.Value {
		if r.Intn(10) < 7 {
			return focus[r.Intn(len(focus))]
		}
		return keys[r.Intn(len(keys))]
	}
	// prelude: fill one map with focus keys in ascending / descending / random order, so that buckets are
	// built by tail appends, head inserts or middle inserts, before the random part forks and continues
	type scripted struct {
		kind int // 0 new, 1 set, 2 immutable, 3 mutable
		key  types.Value
		back int // target handle counted from the newest (0 = newest)
	}
	var script []scripted
	if r.Intn(2) == 0 {
		cnt := 2 + r.Intn(2)
		idx := r.Perm(len(focus))[:cnt+2]
		mode := r.Intn(3)
		switch mode {
		case 0:
			sortInts(idx, false)
		case 1:
			sortInts(idx, true)
		}
		script = append(script, scripted{kind: 0})
		for _, i := range idx[:cnt] {
			script = append(script, scripted{kind: 1, key: focus[i]})
		}
		if r.Intn(3) > 0 { // fork, then write the remaining (in sorted modes: outermost) keys on both sides of the fork
			script = append(script, scripted{kind: 2 + r.Intn(2)})
			script = append(script, scripted{kind: 1, key: focus[idx[cnt]], back: r.Intn(2)})
			script = append(script, scripted{kind: 1, key: focus[idx[cnt+1]], back: r.Intn(3)})
			script = append(script, scripted{kind: 1, key: focus[idx[cnt]], back: r.Intn(3)})
		}
	}
	var steps []string
	var inputs []string
	fail := ""
	overwrites, derived := 0, 0
	for s := 0; s < n; s++ {
		var opG, opS string
		var ret types.Map
		var refRet int
		var forced *scripted
		if s < len(script) {
			forced = &script[s]
		}
		if (forced != nil && forced.kind == 0) || (forced == nil && (len(objs) == 0 || r.Intn(10) == 0)) {
			mut := r.Intn(2) == 0
			if mut {
				ret = types.NewMapWithSize(0)
			} else {
				ret = types.NewMap()
			}
			opG = "MNew " + gal.Bool(mut)
			opS = fmt.Sprintf("new(mut=%v)", mut)
			refs = append(refs, &refObj{mut: mut})
			refRet = len(refs) - 1
			hist["new"]++
		} else {
			h := r.Intn(len(objs))
			if r.Intn(2) == 0 && len(objs) > 2 { // prefer recent objects: derived maps keep being used
				h = len(objs) - 1 - r.Intn(2)
			}
			m, ro := objs[h], refs[h]
			fresh := func(o *refObj) int { refs = append(refs, o); return len(refs) - 1 }
			cp := func(mut bool) *refObj {
				return &refObj{mut: mut, pairs: append([][2]types.Value(nil), ro.pairs...)}
			}
			c := r.Intn(20)
			if forced != nil {
				c = map[int]int{1: 0, 2: 19, 3: 16}[forced.kind]
				h = len(objs) - 1 - forced.back
				if h < 0 {
					h = 0
				}
				m, ro = objs[h], refs[h]
			}
			switch {
			case c < 11:
				k, v := pick(), vals15(r)
				if forced != nil {
					k = forced.key
				} else if ks := m.Keys(); len(ks) > 0 && r.Intn(4) == 0 {
					k = ks[r.Intn(len(ks))]
					if r.Intn(2) == 0 { // an equal key of possibly different representation
						for _, c := range keys {
							if types.Equal(c, k) && r.Intn(2) == 0 {
								k = c
							}
						}
					}
				}
				if m.Has(k) {
					overwrites++
					hist["set_overwrite"]++
				} else {
					hist["set_new"]++
				}
				ret = m.Set(k, v)
				opG = fmt.Sprintf("MSet %d %s %s", h, in15.ov(k), in15.ov(v))
				opS = fmt.Sprintf("set(%d,%s,%s)", h, gal.OValue(k), gal.OValue(v))
				i := ro.find(k)
				if ro.mut {
					if i >= 0 {
						ro.pairs[i][1] = v
					} else {
						ro.pairs = append(ro.pairs, [2]types.Value{k, v})
					}
					refRet = h
				} else if i >= 0 && types.Equal(ro.pairs[i][1], v) {
					refRet = h
				} else {
					o := cp(false)
					if i >= 0 {
						o.pairs[i][1] = v
					} else {
						o.pairs = append(o.pairs, [2]types.Value{k, v})
					}
					refRet = fresh(o)
				}
			case c < 14:
				k := pick()
				ret = m.Delete(k)
				opG = fmt.Sprintf("MDelete %d %s", h, in15.ov(k))
				opS = fmt.Sprintf("delete(%d,%s)", h, gal.OValue(k))
				hist["delete"]++
				i := ro.find(k)
				if ro.mut {
					if i >= 0 {
						ro.pairs = append(ro.pairs[:i:i], ro.pairs[i+1:]...)
					}
					refRet = h
				} else if i < 0 {
					refRet = h
				} else {
					o := cp(false)
					o.pairs = append(o.pairs[:i:i], o.pairs[i+1:]...)
					refRet = fresh(o)
				}
			case c < 15:
				ret = m.Clear()
				opG = fmt.Sprintf("MClear %d", h)
				opS = fmt.Sprintf("clear(%d)", h)
				hist["clear"]++
				if ro.mut {
					ro.pairs = nil
					refRet = h
				} else {
					refRet = fresh(&refObj{})
				}
			case c < 18:
				ret = m.Mutable()
				opG = fmt.Sprintf("MMutable %d", h)
				opS = fmt.Sprintf("mutable(%d)", h)
				hist["mutable"]++
				if ro.mut {
					refRet = h
				} else {
					refRet = fresh(cp(true))
					derived++
				}
			default:
				ret = m.Immutable()
				opG = fmt.Sprintf("MImmutable %d", h)
				opS = fmt.Sprintf("immutable(%d)", h)
				hist["immutable"]++
				if ro.mut {
					refRet = fresh(cp(false))
					derived++
				} else {
					refRet = h
				}
			}
		}
		rh := handleOf(ret)
		if rh < 0 {
			objs = append(objs, ret)
			rh = len(objs) - 1
		}
		inputs = append(inputs, opS)
		// observe every handle
		var maps, probes []string
		for hi, o := range objs {
			_, isMut := o.Mutable().(types.Map)
			isMut = o.Mutable() == o
			maps = append(maps, fmt.Sprintf("(%s, %d, %s)", gal.Bool(isMut), o.Len(), renderPairs(o)))
			var pr []string
			for ki, k := range keys {
				if o.Has(k) { // only the keys reported present are listed: (index, Get)
					pr = append(pr, fmt.Sprintf("(%d, %s)", ki, in15.ov(o.Get(k))))
				} else if o.Get(k) != nil {
					pr = append(pr, fmt.Sprintf("(%d, %s)", 1000+ki, in15.ov(o.Get(k)))) // Get without Has: never matches the model
				}
			}
			probes = append(probes, gal.List(pr))
			// implementation-side oracle: reference dictionary keyed by Equal
			if fail == "" && hi < len(refs) {
				ro := refs[hi]
				if o.Len() != len(ro.pairs) {
					fail = fmt.Sprintf("after step %d (%s): handle %d has Len %d, reference dictionary has %d", s, opS, hi, o.Len(), len(ro.pairs))
				}
				for _, k := range keys {
					i := ro.find(k)
					if o.Has(k) != (i >= 0) {
						fail = fmt.Sprintf("after step %d (%s): handle %d Has(%s)=%v, reference says %v", s, opS, hi, gal.OValue(k), o.Has(k), i >= 0)
					} else if i >= 0 && !types.Equal(o.Get(k), ro.pairs[i][1]) {
						fail = fmt.Sprintf("after step %d (%s): handle %d Get(%s)=%s, reference says %s", s, opS, hi, gal.OValue(k), gal.OValue(o.Get(k)), gal.OValue(ro.pairs[i][1]))
					}
				}
				// listings agree with Range
				if len(o.Keys()) != o.Len() || len(o.Values()) != o.Len() || len(o.Pairs()) != 2*o.Len() {
					fail = fmt.Sprintf("after step %d: listing sizes disagree with Len on handle %d", s, hi)
				}
				for _, k := range o.Keys() {
					if ro.find(k) < 0 {
						fail = fmt.Sprintf("after step %d: Keys() of handle %d lists %s which the reference dictionary does not hold", s, hi, gal.OValue(k))
					}
				}
			}
		}
		if fail == "" && (rh != refRet || len(objs) != len(refs)) {
			fail = fmt.Sprintf("after step %d (%s): returned object is handle %d, reference expects %d (objects %d vs %d)", s, opS, rh, refRet, len(objs), len(refs))
		}
		steps = append(steps, fmt.Sprintf("(%s, mkobs15 %d %s %s)", opG, rh, gal.List(maps), gal.List(probes)))
		if len(objs) != len(refs) {
			break // object identities diverged from the reference: the history ends here (already recorded as failing)
		}
	}
	var ks []string
	for _, k := range keys {
		ks = append(ks, in15.ov(k))
	}
	g := fmt.Sprintf("(mk15 %s [\n  %s])", gal.List(ks), strings.Join(steps, ";\n  "))
	return g, inputs, fail, overwrites > 0 && derived > 0
}

func runC15(seed int64, n int, tier string) *Result {
	r := rand.New(rand.NewSource(seed))
	res := &Result{
		Prop:     "C15",
		Requires: []string{"Value.Value", "Value.Check", "Value.VMap", "Value.CheckMap"},
		CaseType: "c15case",
		OkFn:     "c15ok",
		Rule: "histories of 4-14 operations {new, set, delete, clear, mutable, immutable} over all live map objects, keys from a " +
			"15-key pool in which several kinds share hash bytes ([1]: Int8 1/Uint8 1/true/\"\\x01\"/Binary{1}/Error; 8 zero bytes: " +
			"Int 0/Uint64 0/Int64 0/+0.0/-0.0; nil); after every operation every live object is re-read (Len, Range, Has/Get of all pool keys); " +
			"non-trivial = at least one overwrite of an existing key and one derived object (snapshot or mutable copy); distinct by operation list",
		Hist: map[string]int{},
	}
	for i := 0; i < n; i++ {
		g, in, fail, nt := history15(r, res.Hist)
		res.Cases = append(res.Cases, Case{Gallina: g, Input: in, Nontrivial: nt, Key: fmt.Sprint(in), OracleFail: fail})
	}
	res.Aux = strings.Join(in15.defs, "")
	return res
}
