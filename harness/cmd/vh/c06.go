package main

import (
	"fmt"
	"math/rand"
	"sort"
	"strings"

	"github.com/gofrs/uuid"
	"github.com/siyul-park/uniflow/pkg/node"
	"github.com/siyul-park/uniflow/pkg/packet"
	"github.com/siyul-park/uniflow/pkg/port"
	"github.com/siyul-park/uniflow/pkg/process"
	"github.com/siyul-park/uniflow/pkg/spec"
	"github.com/siyul-park/uniflow/pkg/symbol"
	"github.com/siyul-park/uniflow/pkg/types"
	"verif/harness/gal"
)

func init() {
	runners["C06"] = func(seed int64, n int, tier string) *Result { return runTable("C06", seed, n) }
	runners["C07"] = func(seed int64, n int, tier string) *Result { return runTable("C07", seed, n) }
	runners["C08"] = func(seed int64, n int, tier string) *Result { return runTable("C08", seed, n) }
}

var portNames = map[string]int{"in": 0, "out": 1, "error": 2, "out[0]": 3, "out[1]": 4, "nowhere": 5,
	"init": 10, "begin": 11, "term": 12, "final": 13}

type logNode struct {
	node.Node
	onClose func()
}

func (n *logNode) Close() error {
	n.onClose()
	return n.Node.Close()
}

// a symbol template of the universe
type tmpl struct {
	id    int
	ns    int
	name  string // "" = anonymous
	kind  int    // 0 no node, 1 one-to-one, 2 one-to-many
	fail  int    // as a lifecycle responder: error id it answers with (0 = success)
	serves int   // lifecycle port (10..13) this responder is used for; 0 = ordinary symbol
	ports map[string][]spec.Port
}

type tworld struct {
	table  *symbol.Table
	events []string
	instOf map[*symbol.Symbol]int
	insOf  map[*port.InPort][2]int // in-port -> (inst, port name id)
	outsOf map[int][]string        // inst -> out-port names of its node
	tmplOf map[int]int             // inst -> template id
	ninst  int
	live   map[int]*symbol.Symbol // id -> instance currently inserted (harness view)
}

func nsName(ns int) string { return []string{"default", "other"}[ns] }

func (w *tworld) instantiate(t tmpl) (*symbol.Symbol, string) {
	inst := w.ninst
	w.ninst++
	var nd node.Node
	var outs, ins []string
	switch t.kind {
	case 1:
		nd = node.NewOneToOneNode(func(_ *process.Process, in *packet.Packet) (*packet.Packet, *packet.Packet) {
			// a lifecycle request: the payload is the spec of the symbol whose flow is running
			if m, ok := in.Payload().(types.Map); ok {
				if ann, ok := m.Get(types.NewString("annotations")).(types.Map); ok {
					if iv, ok := ann.Get(types.NewString("inst")).(types.String); ok {
						var req int
						fmt.Sscanf(iv.String(), "%d", &req)
						w.events = append(w.events, fmt.Sprintf("EExec %d %d", req, t.serves))
					}
				}
			}
			if t.fail != 0 {
				return nil, packet.New(types.NewError(fmt.Errorf("e%d", t.fail)))
			}
			return in, nil
		})
		outs, ins = []string{"out", "error"}, []string{"in"}
	case 2:
		m := node.NewOneToManyNode(func(_ *process.Process, in *packet.Packet) ([]*packet.Packet, *packet.Packet) {
			return []*packet.Packet{in, in}, nil
		})
		m.Out("out[1]")
		nd = m
		outs, ins = []string{"out[0]", "out[1]", "error"}, []string{"in"}
	}
	meta := &spec.Meta{ID: uid(t.id), Kind: "k", Namespace: nsName(t.ns), Name: t.name, Ports: t.ports, Annotations: map[string]string{"inst": fmt.Sprint(inst)}}
	sb := &symbol.Symbol{Spec: meta}
	if nd != nil {
		for _, in := range ins {
			w.insOf[nd.In(in)] = [2]int{inst, portNames[in]}
		}
		sb.Node = &logNode{Node: nd, onClose: func() { w.events = append(w.events, fmt.Sprintf("ECloseNode %d", inst)) }}
	}
	w.instOf[sb] = inst
	w.outsOf[inst] = outs
	w.tmplOf[inst] = t.id
	// Gallina rendering
	var pnames []string
	for pn := range t.ports {
		pnames = append(pnames, pn)
	}
	sort.Slice(pnames, func(i, j int) bool { return portNames[pnames[i]] < portNames[pnames[j]] })
	var ps []string
	for _, pn := range pnames {
		var rs []string
		for _, p := range t.ports[pn] {
			id, name := "None", "None"
			if p.ID != uuid.Nil {
				id = fmt.Sprintf("(Some %d)", uidOf(p.ID))
			}
			if p.Name != "" {
				name = fmt.Sprintf("(Some %d)", nameID(p.Name))
			}
			rs = append(rs, fmt.Sprintf("(mkpref %s %s %d)", id, name, portNames[p.Port]))
		}
		ps = append(ps, fmt.Sprintf("(%d, %s)", portNames[pn], gal.List(rs)))
	}
	name := "None"
	if t.name != "" {
		name = fmt.Sprintf("(Some %d)", nameID(t.name))
	}
	natList := func(l []string) string {
		var o []string
		for _, x := range l {
			o = append(o, fmt.Sprint(portNames[x]))
		}
		return gal.List(o)
	}
	failG := "None"
	if t.fail != 0 {
		failG = fmt.Sprintf("(Some %d)", t.fail)
	}
	g := fmt.Sprintf("(mksym %d %d %d %s %s %s %s %s %s)", inst, t.id, t.ns, name, gal.List(ps), gal.Bool(t.kind != 0), natList(outs), natList(ins), failG)
	return sb, g
}

func nameID(s string) int { return int(s[len(s)-1] - '0') }

func (w *tworld) observe(res string) string {
	var keys []int
	for _, id := range w.table.Keys() {
		keys = append(keys, uidOf(id))
	}
	sort.Ints(keys)
	var ks []string
	for _, k := range keys {
		ks = append(ks, fmt.Sprint(k))
	}
	var links [][4]int
	for _, id := range w.table.Keys() {
		sb := w.table.Lookup(id)
		if sb == nil || sb.Node == nil {
			continue
		}
		for _, on := range w.outsOf[w.instOf[sb]] {
			out := sb.Out(on)
			if out == nil {
				continue
			}
			for _, in := range out.Links() {
				t, ok := w.insOf[in]
				if !ok {
					t = [2]int{999, 999} // linked to a port nobody owns
				}
				links = append(links, [4]int{w.instOf[sb], portNames[on], t[0], t[1]})
			}
		}
	}
	sort.Slice(links, func(i, j int) bool {
		for k := 0; k < 4; k++ {
			if links[i][k] != links[j][k] {
				return links[i][k] < links[j][k]
			}
		}
		return false
	})
	var ls []string
	for _, l := range links {
		ls = append(ls, fmt.Sprintf("(%d, %d, %d, %d)", l[0], l[1], l[2], l[3]))
	}
	return fmt.Sprintf("mkobsT (%s) %s %s %s", res, gal.List(ks), gal.List(ls), gal.List(w.events))
}

// universe: 4-6 symbols over two namespaces referring to each other by id and by name
func universe(r *rand.Rand, shared bool) []tmpl {
	n := 3 + r.Intn(4)
	ts := make([]tmpl, n)
	for i := range ts {
		ts[i] = tmpl{id: i + 1, ns: 0, kind: 1 + r.Intn(2)}
		if r.Intn(5) == 0 {
			ts[i].ns = 1
		}
		if r.Intn(8) == 0 {
			ts[i].kind = 0
		}
		if r.Intn(2) == 0 {
			ts[i].name = fmt.Sprintf("n%d", i+1) // unique per universe
		}
	}
	hub := r.Intn(n)
	for i := range ts {
		ts[i].ports = map[string][]spec.Port{}
		outs := []string{"out", "error"}
		if ts[i].kind == 2 {
			outs = []string{"out[0]", "out[1]", "error"}
		}
		nrefs := r.Intn(3)
		for k := 0; k < nrefs; k++ {
			target := r.Intn(n + 1) // n = dangling
			if shared && r.Intn(2) == 0 {
				target = hub
			}
			p := spec.Port{Port: "in"}
			if r.Intn(10) == 0 {
				p.Port = "nowhere"
			}
			switch {
			case target == n:
				if r.Intn(2) == 0 {
					p.ID = uid(9) // no such symbol
				} else {
					p.Name = "n9"
				}
			case ts[target].name != "" && r.Intn(2) == 0:
				p.Name = ts[target].name
			default:
				p.ID = uid(ts[target].id)
			}
			on := outs[r.Intn(len(outs))]
			if shared && r.Intn(3) > 0 {
				on = outs[len(outs)-1] // "error": the same out-port name on every kind of node
			}
			ts[i].ports[on] = append(ts[i].ports[on], p)
		}
	}
	return ts
}

// lifecycle adds responder symbols (one-to-one nodes without references, one per lifecycle port kind, some of
// them failing) and attaches init/begin/term/final ports of ordinary symbols to them
func lifecycle(r *rand.Rand, ts []tmpl) []tmpl {
	n := len(ts)
	names := map[int]string{10: "init", 11: "begin", 12: "term", 13: "final"}
	var resp []tmpl
	for _, pk := range []int{10, 11, 12, 13} {
		if r.Intn(4) == 0 {
			continue
		}
		t := tmpl{id: n + len(resp) + 1, ns: 0, kind: 1, serves: pk, ports: map[string][]spec.Port{}}
		if r.Intn(4) == 0 {
			t.fail = 1 + r.Intn(3)
		}
		resp = append(resp, t)
	}
	for i := range ts {
		ts[i].ns = 0 // one namespace: the interest is in ordering and errors
		for _, rt := range resp {
			if r.Intn(3) == 0 {
				ts[i].ports[names[rt.serves]] = []spec.Port{{ID: uid(rt.id), Port: "in"}}
			}
		}
	}
	return append(ts, resp...)
}

func historyT(r *rand.Rand, prop string, hist map[string]int) (string, any, string, bool) {
	ts := universe(r, prop == "C07")
	if prop == "C08" {
		ts = lifecycle(r, acyclic(ts))
	}
	loaded := map[int]int{}
	w := &tworld{instOf: map[*symbol.Symbol]int{}, insOf: map[*port.InPort][2]int{}, live: map[int]*symbol.Symbol{}, outsOf: map[int][]string{}, tmplOf: map[int]int{}}
	w.table = symbol.NewTable(symbol.TableOption{
		LoadHooks: []symbol.LoadHook{symbol.LoadFunc(func(sb *symbol.Symbol) error {
			w.events = append(w.events, fmt.Sprintf("ELoad %d", w.instOf[sb]))
			loaded[w.instOf[sb]]++
			return nil
		})},
		UnloadHooks: []symbol.UnloadHook{symbol.UnloadFunc(func(sb *symbol.Symbol) error {
			w.events = append(w.events, fmt.Sprintf("EUnload %d", w.instOf[sb]))
			loaded[w.instOf[sb]]--
			return nil
		})},
	})
	var steps, input []string
	made := map[int][]madeT{}
	fail := ""
	n := 4 + r.Intn(9)
	noClose := false
	for _, t := range ts {
		if t.fail != 0 && t.serves >= 12 {
			noClose = true
		}
	}
	sharedSeen := false
	erred := false
	// opening: most histories first bring the whole universe in, in random order
	var opening []int
	if r.Intn(10) < 7 {
		opening = r.Perm(len(ts))
		n += len(opening)
	}
	for s := 0; s < n && fail == ""; s++ {
		var opG, opS, res string
		evBefore := len(w.events)
		func() {
			defer func() {
				if p := recover(); p != nil {
					fail = fmt.Sprintf("step %d panicked: %v", s, p)
				}
			}()
			c := r.Intn(20)
			if c >= 19 && noClose {
				c = 14 // Close frees in map order: with a failing term/final flow its outcome is not determined
			}
			if s < len(opening) {
				c = 0
			} else if len(opening) > 0 && c < 13 && r.Intn(2) == 0 {
				c = 15 // after an opening, removals are as frequent as insertions
			}
			switch {
			case c < 13:
				t := ts[r.Intn(len(ts))]
				if s < len(opening) {
					t = ts[opening[s]]
				}
				var sb *symbol.Symbol
				var g string
				if prev := made[t.id]; prop != "C08" && len(prev) > 0 && r.Intn(4) == 0 {
					// the same symbol object comes back (still present, or freed earlier)
					k := r.Intn(len(prev))
					sb, g = prev[k].sb, prev[k].g
					hist["insert-same-object"]++
				} else {
					sb, g = w.instantiate(t)
					made[t.id] = append(made[t.id], madeT{sb, g})
				}
				old := w.live[t.id]
				w.live[t.id] = sb
				res = "TDone true"
				if err := w.table.Insert(sb); err != nil {
					res = errRes(err)
					if prop != "C08" {
						fail = fmt.Sprintf("Insert returned %v", err)
					}
					if w.table.Lookup(uid(t.id)) != sb { // the removal of the old instance was aborted
						if old != nil {
							w.live[t.id] = old
						} else {
							delete(w.live, t.id)
						}
					}
				}
				opG, opS = "TInsert "+g, fmt.Sprintf("insert %d (inst %d)", t.id, w.instOf[sb])
				hist["insert"]++
			case c < 19:
				id := 1 + r.Intn(len(ts))
				found, err := w.table.Free(uid(id))
				res = "TDone " + gal.Bool(found)
				if err != nil {
					res = errRes(err)
					if prop != "C08" {
						fail = fmt.Sprintf("Free returned %v", err)
					}
				}
				if w.table.Lookup(uid(id)) == nil {
					delete(w.live, id)
				}
				opG, opS = fmt.Sprintf("TFree %d", id), fmt.Sprintf("free %d", id)
				hist["free"]++
			default:
				res = "TDone true"
				if err := w.table.Close(); err != nil {
					res = errRes(err)
					if prop != "C08" {
						fail = fmt.Sprintf("Close returned %v", err)
					}
				}
				for id := range w.live {
					if w.table.Lookup(uid(id)) == nil {
						delete(w.live, id)
					}
				}
				opG, opS = "TClose", "close"
				hist["close"]++
			}
		}()
		if fail != "" {
			break
		}
		steps = append(steps, fmt.Sprintf("(%s, %s)", opG, w.observe(res)))
		input = append(input, opS)
		if prop == "C08" {
			if f := oracle08(ts, w, w.events[evBefore:], res); f != "" && fail == "" {
				fail = fmt.Sprintf("step %d (%s): %s", s, opS, f)
			}
			if strings.HasPrefix(res, "TFail") {
				erred = true
			}
			if erred {
				continue // after an aborted operation the closure oracle below no longer applies
			}
		}
		// the property, directly: load/unload strictly alternate per instance
		for inst, c := range loaded {
			if (c < 0 || c > 1) && fail == "" {
				fail = fmt.Sprintf("after step %d (%s): instance %d has load-unload balance %d", s, opS, inst, c)
			}
		}
		// ... and the active symbols are exactly those whose reference closure is present (same namespace, with nodes)
		for id, sb := range w.live {
			want := closureOK(ts, w.live, id, map[int]bool{})
			got := loaded[w.instOf[sb]] == 1
			if want != got && fail == "" {
				fail = fmt.Sprintf("after step %d (%s): symbol %d active=%v but reference closure present=%v", s, opS, id, got, want)
			}
			if len(w.live) > 2 {
				sharedSeen = true
			}
		}
	}
	_ = w.table.Close()
	g := fmt.Sprintf("(mkT %d [\n  %s])", w.ninst, strings.Join(steps, ";\n  "))
	var uni []string
	for _, t := range ts {
		uni = append(uni, fmt.Sprintf("%d ns%d name=%q kind=%d ports=%v", t.id, t.ns, t.name, t.kind, t.ports))
	}
	return g, map[string]any{"universe": uni, "ops": input}, fail, sharedSeen
}

type madeT struct {
	sb *symbol.Symbol
	g  string
}

// oracle08 evaluates C08 on the notifications of one table operation.
func oracle08(ts []tmpl, w *tworld, seg []string, res string) string {
	type evt struct {
		kind string
		inst int
		port int
	}
	var evs []evt
	for _, e := range seg {
		var x evt
		if n, _ := fmt.Sscanf(e, "EExec %d %d", &x.inst, &x.port); n == 2 {
			x.kind = "exec"
		} else if n, _ := fmt.Sscanf(e, "ELoad %d", &x.inst); n == 1 {
			x.kind = "load"
		} else if n, _ := fmt.Sscanf(e, "EUnload %d", &x.inst); n == 1 {
			x.kind = "unload"
		} else {
			continue
		}
		evs = append(evs, x)
	}
	names := map[int]string{10: "init", 11: "begin", 12: "term", 13: "final"}
	responder := func(inst, port int) (tmpl, bool) { // the responder a flow of this instance goes to, if any is attached
		t := ts[w.tmplOf[inst]-1]
		ps := t.ports[names[port]]
		if len(ps) == 0 {
			return tmpl{}, false
		}
		rid := uidOf(ps[0].ID)
		if rid == 0 || rid > len(ts) {
			return tmpl{}, false
		}
		return ts[rid-1], true
	}
	pos := func(kind string, inst int) int {
		for i, e := range evs {
			if e.kind == kind && e.inst == inst {
				return i
			}
		}
		return -1
	}
	failed := strings.HasPrefix(res, "TFail")
	for i, e := range evs {
		switch e.kind {
		case "exec":
			rt, ok := responder(e.inst, e.port)
			if !ok {
				return fmt.Sprintf("a %s flow ran for instance %d which has no responder attached", names[e.port], e.inst)
			}
			if rt.fail != 0 && (i != len(evs)-1 || res != fmt.Sprintf("TFail %d", rt.fail)) {
				return fmt.Sprintf("the %s flow of instance %d answered error e%d but the operation went on / returned %s", names[e.port], e.inst, rt.fail, res)
			}
		case "load", "unload":
			before, after := 10, 11
			if e.kind == "unload" {
				before, after = 12, 13
			}
			if rt, ok := responder(e.inst, before); ok && w.live[rt.id] != nil {
				if i == 0 || evs[i-1].kind != "exec" || evs[i-1].inst != e.inst || evs[i-1].port != before {
					return fmt.Sprintf("the %s hooks of instance %d were not preceded by its %s flow", e.kind, e.inst, names[before])
				}
			}
			if rt, ok := responder(e.inst, after); ok && w.live[rt.id] != nil {
				if i+1 >= len(evs) || evs[i+1].kind != "exec" || evs[i+1].inst != e.inst || evs[i+1].port != after {
					return fmt.Sprintf("the %s hooks of instance %d were not followed by its %s flow", e.kind, e.inst, names[after])
				}
			}
			// dependencies first (activation) / last (deactivation)
			t := ts[w.tmplOf[e.inst]-1]
			for _, ps := range t.ports {
				for _, p := range ps {
					target := uidOf(p.ID)
					if target == 0 {
						for _, o := range ts {
							if o.name != "" && o.name == p.Name {
								target = o.id
							}
						}
					}
					if target == 0 || target > len(ts) || w.live[target] == nil {
						continue
					}
					j := pos(e.kind, w.instOf[w.live[target]])
					if j < 0 {
						continue
					}
					if e.kind == "load" && j > i {
						return fmt.Sprintf("instance %d was activated before the symbol %d it references", e.inst, target)
					}
					if e.kind == "unload" && j < i {
						return fmt.Sprintf("instance %d was deactivated after the symbol %d it references", e.inst, target)
					}
				}
			}
		}
	}
	if failed && (len(evs) == 0 || evs[len(evs)-1].kind != "exec") {
		return "the operation returned an error but its last notification is not a lifecycle flow"
	}
	return ""
}

func errRes(err error) string {
	var n int
	if _, e := fmt.Sscanf(err.Error(), "e%d", &n); e == nil {
		return fmt.Sprintf("TFail %d", n)
	}
	return "TFail 99"
}

// acyclic drops references that point backwards, so that the reference graph is a DAG
func acyclic(ts []tmpl) []tmpl {
	byName := map[string]int{}
	for _, t := range ts {
		if t.name != "" {
			byName[t.name] = t.id
		}
	}
	for i := range ts {
		for on, ps := range ts[i].ports {
			var keep []spec.Port
			for _, p := range ps {
				target := uidOf(p.ID)
				if p.ID == uuid.Nil {
					target = byName[p.Name]
				}
				if target == 0 || target > ts[i].id {
					keep = append(keep, p)
				}
			}
			if len(keep) > 0 {
				ts[i].ports[on] = keep
			} else {
				delete(ts[i].ports, on)
			}
		}
	}
	return ts
}

// closureOK: the reference closure of id is present, in one namespace, and every member has a node
func closureOK(ts []tmpl, live map[int]*symbol.Symbol, id int, seen map[int]bool) bool {
	if seen[id] {
		return true
	}
	seen[id] = true
	t := ts[id-1]
	if _, ok := live[id]; !ok || t.kind == 0 {
		return false
	}
	for _, ps := range t.ports {
		for _, p := range ps {
			target := 0
			if p.ID != uuid.Nil {
				target = uidOf(p.ID)
			} else {
				for _, o := range ts {
					if o.name == p.Name && o.ns == t.ns {
						if _, ok := live[o.id]; ok {
							target = o.id
						}
					}
				}
			}
			if target == 0 || target > len(ts) || ts[target-1].ns != t.ns {
				return false
			}
			if !closureOK(ts, live, target, seen) {
				return false
			}
		}
	}
	return true
}

func runTable(prop string, seed int64, n int) *Result {
	r := rand.New(rand.NewSource(seed))
	res := &Result{
		Prop:     prop,
		Requires: []string{"Table.Table", "Table.CheckTable"},
		CaseType: "cTcase",
		OkFn:     "cTok",
		Rule: "a universe of 3-6 symbols over two namespaces (one-to-one / one-to-many nodes or no node; references by id and by name, to shared targets, to themselves, " +
			"in cycles, to missing symbols and missing ports) and a history of 4-12 Insert (new instance each time, replacements included) / Free / Close on a real symbol.Table; " +
			"after every operation: Keys, the wiring of every out-port resolved to (instance, in-port) by pointer identity, the hook and node-close log; directly checked: " +
			"load/unload alternate per instance and active = reference closure present; non-trivial = at least three symbols present at some point; distinct by rendered case",
		Hist: map[string]int{},
	}
	for i := 0; i < n; i++ {
		g, in, fail, nt := historyT(r, prop, res.Hist)
		res.Cases = append(res.Cases, Case{Gallina: g, Input: in, Nontrivial: nt, OracleFail: fail})
	}
	return res
}
