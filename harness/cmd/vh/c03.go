package main

import (
	"fmt"
	"math/rand"
	"strings"
	"sync"
	"sync/atomic"
	"time"

	"github.com/siyul-park/uniflow/pkg/node"
	"github.com/siyul-park/uniflow/pkg/packet"
	"github.com/siyul-park/uniflow/pkg/port"
	"github.com/siyul-park/uniflow/pkg/process"
	"github.com/siyul-park/uniflow/pkg/types"
)

func init() { runners["C03"] = runC03 }

// ---- workflow level: src -> A -> B -> sink, teardown at every point of a request's way ----
type wf03 struct {
	src      *port.OutPort
	a, b     *node.OneToOneNode
	sink     *port.InPort
	entered  chan string
	release  map[string]chan struct{}
	mu       sync.Mutex
	sinkReqs map[*process.Process][]*packet.Packet
	seen     map[string]int
}

func newWF03() *wf03 {
	w := &wf03{src: port.NewOut(), sink: port.NewIn(), entered: make(chan string, 64), seen: map[string]int{},
		release: map[string]chan struct{}{"A": make(chan struct{}, 64), "B": make(chan struct{}, 64)}}
	mk := func(name string, add int) *node.OneToOneNode {
		return node.NewOneToOneNode(func(_ *process.Process, in *packet.Packet) (*packet.Packet, *packet.Packet) {
			w.entered <- name
			<-w.release[name]
			return packet.New(types.NewInt(intOf(in) + add)), nil
		})
	}
	w.a, w.b = mk("A", 100), mk("B", 1000)
	w.src.Link(w.a.In("in"))
	w.a.Out("out").Link(w.b.In("in"))
	w.b.Out("out").Link(w.sink)
	return w
}

func (w *wf03) waitEntered(name string) bool {
	deadline := time.After(time.Second)
	for {
		w.mu.Lock()
		if w.seen[name] > 0 {
			w.seen[name]--
			w.mu.Unlock()
			return true
		}
		w.mu.Unlock()
		select {
		case n := <-w.entered:
			w.mu.Lock()
			w.seen[n]++
			w.mu.Unlock()
		case <-deadline:
			return false
		}
	}
}

var teardowns03 = []string{"exit", "close A", "close B", "close A.in", "close A.out", "close B.in", "close B.out", "close sink", "close src", "close A.err"}

func (w *wf03) teardown(what string, proc *process.Process) {
	switch what {
	case "exit":
		proc.Exit(nil)
	case "close A":
		_ = w.a.Close()
	case "close B":
		_ = w.b.Close()
	case "close A.in":
		w.a.In("in").Close()
	case "close A.out":
		w.a.Out("out").Close()
	case "close A.err":
		w.a.Out("error").Close()
	case "close B.in":
		w.b.In("in").Close()
	case "close B.out":
		w.b.Out("out").Close()
	case "close sink":
		w.sink.Close()
	case "close src":
		w.src.Close()
	}
}

// onPath: does the teardown affect a request of process `proc` that is at `point`
// (1: in A's action, 2: in B's action, 3: at the sink)?
func affects03(what string, sameProc bool) bool {
	if what == "exit" {
		return sameProc
	}
	return what != "close A.err"
}

// well-formed: the real answer, or the own result of the last node before a torn-down part (what the
// workflow answers with that part disconnected), or a dropped-packet error
func wellFormed03(p *packet.Packet, want int) (ok bool, real bool) {
	if p == nil {
		return false, false
	}
	if i, isInt := p.Payload().(types.Integer); isInt {
		v := int(i.Int())
		if v == want {
			return true, true
		}
		if v == want-10000 || v == want-11000 {
			return true, false
		}
	}
	if e, isErr := p.Payload().(types.Error); isErr && strings.Contains(e.Error(), "dropped packet") {
		return true, false
	}
	return false, false
}

func workflowCase(r *rand.Rand, hist map[string]int) (fail string) {
	defer func() {
		if p := recover(); p != nil {
			fail = fmt.Sprintf("teardown panicked: %v", p)
		}
	}()
	w := newWF03()
	defer func() {
		_ = w.a.Close()
		_ = w.b.Close()
		w.sink.Close()
		w.src.Close()
	}()
	p1, p2 := process.New(), process.New()
	defer p1.Exit(nil)
	defer p2.Exit(nil)
	point := 1 + r.Intn(3)
	acts := []string{teardowns03[r.Intn(len(teardowns03))]}
	if r.Intn(3) == 0 {
		acts = append(acts, teardowns03[r.Intn(len(teardowns03))])
	}
	pipelined := r.Intn(2) == 0
	hist[fmt.Sprintf("point-%d", point)]++
	for _, a := range acts {
		hist[a]++
	}
	desc := fmt.Sprintf("request of process 1 at point %d (1 in A, 2 in B, 3 at the sink), pipelined second request=%v, then %v", point, pipelined, acts)

	type res struct {
		p   *packet.Packet
		who string
	}
	results := make(chan res, 8)
	writers := map[*process.Process]*packet.Writer{}
	names := map[*process.Process]chan string{p1: make(chan string, 4), p2: make(chan string, 4)}
	for _, proc := range []*process.Process{p1, p2} {
		proc := proc
		wr := w.src.Open(proc)
		writers[proc] = wr
		go func() { // the requester of this process: answers come back in request order
			for who := range names[proc] {
				p, ok := <-wr.Receive()
				if !ok {
					results <- res{nil, who + " (channel closed without an answer)"}
					continue
				}
				results <- res{p, who}
			}
		}()
	}
	defer close(names[p1])
	defer close(names[p2])
	send := func(proc *process.Process, v int, who string) {
		if writers[proc].Write(packet.New(types.NewInt(v))) == 0 {
			results <- res{packet.None, who + " (write not accepted)"}
			return
		}
		names[proc] <- who
	}
	sinkReader := func(proc *process.Process) *packet.Reader { return w.sink.Open(proc) }
	s1, s2 := sinkReader(p1), sinkReader(p2)

	// the other process: one request, parked in A's action
	send(p2, 7, "other")
	if !w.waitEntered("A") {
		return "setup: other process did not reach A"
	}
	// process 1: the request under test
	send(p1, 1, "first")
	if !w.waitEntered("A") {
		return "setup: request did not reach A"
	}
	expect := 1
	if pipelined {
		send(p1, 2, "second") // queued behind the first in A's forward loop of process 1
		expect = 2
	}
	// advance the first request of process 1 to the chosen point; the other process's request stays in A.
	// release tokens are taken by whichever action invocation waits first: A holds [other, first]; releasing one lets `other` go on,
	// so the other process's request is moved along as well (it is on the same nodes).
	advance := func(name string) { w.release[name] <- struct{}{} }
	at := map[string]int{"other": 1, "first": 1}
	if point >= 2 {
		advance("A")
		advance("A")
		if !w.waitEntered("B") || !w.waitEntered("B") {
			return "setup: requests did not reach B"
		}
		at["other"], at["first"] = 2, 2
		if pipelined && !w.waitEntered("A") {
			return "setup: second request did not reach A"
		}
	}
	if point >= 3 {
		advance("B")
		advance("B")
		got1, got2 := recvTimeout(s1.Read()), recvTimeout(s2.Read())
		if got1 == nil || got2 == nil {
			return "setup: requests did not reach the sink"
		}
		at["other"], at["first"] = 3, 3
		w.mu.Lock()
		w.sinkReqs = map[*process.Process][]*packet.Packet{p1: {got1}, p2: {got2}}
		w.mu.Unlock()
	}

	for _, a := range acts {
		w.teardown(a, p1)
	}

	// afterwards everything that can still run is let run: actions released, the sink answers what it gets
	stop := make(chan struct{})
	defer close(stop)
	go func() {
		for {
			select {
			case <-stop:
				return
			case <-w.entered:
			default:
			}
			for _, c := range w.release {
				select {
				case c <- struct{}{}:
				default:
				}
			}
			for _, s := range []*packet.Reader{s1, s2} {
				select {
				case req, ok := <-s.Read():
					if ok && req != nil {
						s.Receive(packet.New(types.NewInt(intOf(req) + 10000)))
					}
				default:
				}
			}
			w.mu.Lock()
			reqs := w.sinkReqs
			w.sinkReqs = nil
			w.mu.Unlock()
			for proc, ps := range reqs {
				for _, req := range ps {
					w.sink.Open(proc).Receive(packet.New(types.NewInt(intOf(req) + 10000)))
				}
			}
			time.Sleep(100 * time.Microsecond)
		}
	}()

	deadline := time.After(1500 * time.Millisecond)
	got := map[string]*packet.Packet{}
	for len(got) < expect+1 {
		select {
		case x := <-results:
			if strings.Contains(x.who, "(") {
				return desc + ": requester " + x.who
			}
			got[x.who] = x.p
		case <-deadline:
			var missing []string
			for _, who := range []string{"other", "first", "second"}[:expect+1] {
				if _, ok := got[who]; !ok {
					missing = append(missing, who)
				}
			}
			return desc + fmt.Sprintf(": requester(s) %v still blocked after 1.5s", missing)
		}
	}
	wants := map[string]int{"other": 7 + 11100, "first": 1 + 11100, "second": 2 + 11100}
	anyAffects := false
	otherAffected := false
	for _, a := range acts {
		if affects03(a, true) {
			anyAffects = true
		}
		if affects03(a, false) {
			otherAffected = true
		}
	}
	for who, p := range got {
		ok, real := wellFormed03(p, wants[who])
		if !ok {
			return desc + fmt.Sprintf(": requester %q was handed %s", who, pktOf(p))
		}
		affected := anyAffects
		if who == "other" {
			affected = otherAffected
		}
		if !affected && !real {
			return desc + fmt.Sprintf(": requester %q is on an unaffected path but got %s instead of its answer", who, pktOf(p))
		}
	}
	return ""
}

func runC03(seed int64, n int, tier string) *Result {
	r := rand.New(rand.NewSource(seed))
	res := &Result{
		Prop:     "C03",
		Requires: []string{"Packet.Writer", "Node.CheckTracer", "Packet.Teardown", "Packet.CheckTeardown"},
		CaseType: "c3case",
		OkFn:     "c3ok",
		Rule: "non-trivial = two or more writes accepted and the writer closed; writer level: a real writer with 1-3 readers; 4-16 operations (link, unlink, write, answer, reader close with its delayed drop notices delivered one by one, writer close); the requester either waits on Writer.Receive() from the start or arrives only after the history (half the time after the writer was closed); observed: everything it takes, in order, and whether the channel ends closed; workflow level (every case): src -> A -> B -> sink with one-to-one nodes whose actions are held open; a request of process 1 is brought to one of three points (in A's action, in B's action, at the sink), " +
			"optionally with a second request pipelined behind it, while a request of a second process sits on the same nodes; then one or two teardown actions out of {process exit, close A, close B, close A.in, A.out, A.error, B.in, B.out, the sink port, the source port}; " +
			"afterwards every held action is released and the sink answers what it still gets; checked: every requester (packet.Send) returns within 1.5s with a non-nil packet that is its real answer or a dropped-packet error, no panic, and requesters on unaffected paths (other process on process exit; everybody on closing an unused port) get their real answer",
		Hist: map[string]int{},
	}
	// one forced schedule first: a teardown of the reader side landing while another requester is inside Write
	for _, how := range []string{"reader", "port", "exit"} {
		if f := probeTeardownDuringWrite(how); f != "" {
			res.Cases = append(res.Cases, Case{Gallina: "(0, [], [], false)", Nontrivial: true, OracleFail: f,
				Input: []string{"out-port linked to in-port", "write (accepted, unanswered)", "teardown (" + how + ") in one goroutine; the reader's drop notice held at the top of Writer.receive", "write on the same writer from another goroutine"}})
			return res
		}
	}
	for i := 0; i < n; i++ {
		g, in, fail, nt := pumpCase(r, res.Hist)
		if fail == "" {
			fail = workflowCase(r, res.Hist)
		}
		res.Cases = append(res.Cases, Case{Gallina: g, Input: in, Nontrivial: nt, OracleFail: fail})
	}
	return res
}

// ---- writer level: a real writer and readers torn down at random points; the requester drains
// Writer.Receive() either all along (it is parked when the writer closes) or only at the end ----
func pumpCase(r *rand.Rand, hist map[string]int) (string, any, string, bool) {
	nr := 1 + r.Intn(3)
	w := packet.NewWriter()
	rds := make([]*packet.Reader, nr)
	for i := range rds {
		rds[i] = packet.NewReader()
	}
	g := theGate
	g.mu.Lock()
	g.w, g.active, g.parked = w, true, nil
	g.mu.Unlock()
	defer func() {
		g.mu.Lock()
		g.active, g.w = false, nil
		ps := g.parked
		g.parked = nil
		g.mu.Unlock()
		for _, p := range ps {
			close(p.release)
		}
		for _, rd := range rds {
			rd.Close()
		}
		w.Close()
	}()
	var got []string
	var gotMu sync.Mutex
	closedSeen := false
	// how many packets the writer has put on its way to the requester (inbound hook: called under the writer's
	// lock just before the hand-off), so that the requester's patience does not depend on machine load
	var sent atomic.Int64
	w.AddInboundHook(packet.HookFunc(func(*packet.Packet) { sent.Add(1) }))
	taken := func() int64 {
		gotMu.Lock()
		defer gotMu.Unlock()
		return int64(len(got))
	}
	waitTaken := func() {
		for dl := time.Now().Add(3 * time.Second); taken() < sent.Load() && time.Now().Before(dl); {
			time.Sleep(200 * time.Microsecond)
		}
	}
	early := r.Intn(2) == 0 // the requester waits on the channel from the start
	drained := make(chan struct{})
	stopLate := make(chan struct{})
	drain := func(limit time.Duration) {
		for {
			select {
			case p, ok := <-w.Receive():
				if !ok {
					gotMu.Lock()
					closedSeen = true
					gotMu.Unlock()
					return
				}
				gotMu.Lock()
				got = append(got, pktOf(p))
				gotMu.Unlock()
			case <-time.After(limit):
				return
			case <-stopLate:
				return
			}
		}
	}
	stopEarly := make(chan struct{})
	if early {
		hist["requester-parked"]++
		go func() {
			defer close(drained)
			for {
				select {
				case p, ok := <-w.Receive():
					if !ok {
						gotMu.Lock()
						closedSeen = true
						gotMu.Unlock()
						return
					}
					gotMu.Lock()
					got = append(got, pktOf(p))
					gotMu.Unlock()
				case <-stopEarly:
					return
				}
			}
		}()
	} else {
		hist["requester-late"]++
		close(drained)
	}
	owed := make([]int, nr)
	linked := make([]bool, nr)
	done := make([]bool, nr)
	wclosed := false
	var ops, in []string
	pendingWrites := 0
	n := 4 + r.Intn(12)
	for s := 0; s < n; s++ {
		c := r.Intn(20)
		if s == 0 && r.Intn(5) > 0 {
			c = 0 // most histories start by linking a reader
		}
		switch {
		case c < 4:
			i := r.Intn(nr)
			if w.Link(rds[i]) {
				linked[i] = true
			}
			ops = append(ops, fmt.Sprintf("WLink %d", i))
		case c < 5:
			i := r.Intn(nr)
			if w.Unlink(rds[i]) {
				linked[i] = false
			}
			ops = append(ops, fmt.Sprintf("WUnlink %d", i))
		case c < 11:
			pl := randPayload(r, 1)
			cnt := w.Write(packet.New(pl))
			if cnt > 0 {
				pendingWrites++
				for i := range rds {
					if linked[i] && !done[i] && !wclosed {
						owed[i]++
						<-rds[i].Read()
					}
				}
			}
			ops = append(ops, "WWrite "+payOf(pl))
			hist["write"]++
		case c < 16:
			i := r.Intn(nr)
			var back *packet.Packet
			switch r.Intn(5) {
			case 0:
				back = packet.None
			case 1:
				back = packet.New(types.NewError(fmt.Errorf("e%d", 1+r.Intn(4))))
			default:
				back = packet.New(randPayload(r, 1))
			}
			g.mu.Lock()
			g.own[back] = true
			g.mu.Unlock()
			rds[i].Receive(back)
			g.mu.Lock()
			delete(g.own, back)
			g.mu.Unlock()
			if owed[i] > 0 {
				owed[i]--
			}
			ops = append(ops, fmt.Sprintf("WAnswer %d %s", i, pktOf(back)))
		case c < 18:
			i := r.Intn(nr)
			k := 0
			if !done[i] {
				k = owed[i]
			}
			g.mu.Lock()
			before := len(g.parked)
			g.mu.Unlock()
			rds[i].Close()
			done[i], owed[i] = true, 0
			ops = append(ops, fmt.Sprintf("WCloseReader %d", i))
			hist["close-reader"]++
			if k > 0 {
				if !g.waitParked(before + k) {
					return "(0, [], [], false)", nil, "the drop notices of a closed reader did not show up", false
				}
				g.mu.Lock()
				ps := g.parked[before:]
				g.parked = g.parked[:before]
				g.mu.Unlock()
				for _, p := range ps {
					close(p.release)
					<-p.done
					ops = append(ops, "WDeliverDrop 0")
				}
			}
		default:
			w.Close()
			wclosed = true
			ops = append(ops, "WCloseWriter")
			hist["close-writer"]++
		}
		in = append(in, ops[len(ops)-1])
	}
	if r.Intn(2) == 0 && !wclosed {
		w.Close()
		wclosed = true
		ops = append(ops, "WCloseWriter")
		in = append(in, "WCloseWriter")
		hist["close-writer"]++
	}
	// the requester takes what it is owed
	if early {
		if wclosed {
			select {
			case <-drained:
			case <-time.After(2 * time.Second):
				close(stopEarly)
				<-drained
			}
		} else {
			waitTaken()
			time.Sleep(2 * time.Millisecond)
			close(stopEarly)
			<-drained
		}
	} else {
		if wclosed {
			drain(2 * time.Second)
		} else {
			go func() { waitTaken(); time.Sleep(2 * time.Millisecond); close(stopLate) }()
			drain(10 * time.Second)
		}
	}
	gotMu.Lock()
	gcase := fmt.Sprintf("(%d, %s, %s, %s)", nr, "["+strings.Join(ops, "; ")+"]", "["+strings.Join(got, "; ")+"]", map[bool]string{true: "true", false: "false"}[closedSeen])
	fail := ""
	for _, x := range got {
		if strings.Contains(x, "(-99)") {
			fail = "the requester was handed a nil packet"
		}
	}
	if wclosed && !closedSeen {
		fail = "the writer is closed but the requester is still waiting on its channel"
	}
	gotMu.Unlock()
	return gcase, map[string]any{"readers": nr, "requester": map[bool]string{true: "parked from the start", false: "arrives at the end"}[early], "ops": in}, fail, pendingWrites >= 2 && wclosed
}
