package main

import (
	"math/big"
	"encoding/json"
	"fmt"
	"math"
	"math/rand"
	"reflect"
	"sort"
	"strings"
	"time"

	"github.com/siyul-park/uniflow/pkg/spec"
	"github.com/siyul-park/uniflow/pkg/types"
	"verif/harness/gal"
)

func init() { runners["C16"] = runC16 }

// ---- generated Go types, with their rendering as the model's gty ----
type ty16 struct {
	rt     reflect.Type
	g      string // Gallina gty
	hasAny bool
	fields []fld16 // for structs
	elem   *ty16
	kind   string
	n      int // array length
}

type fld16 struct {
	alias string
	mode  string // FPlain, FOmit, FInline
	t     *ty16
}

var (
	tTime = reflect.TypeOf(time.Time{})
	tDur  = reflect.TypeOf(time.Duration(0))
	tAny  = reflect.TypeOf((*any)(nil)).Elem()
)

var scalars16 = []struct {
	rt reflect.Type
	g  string
	k  string
}{
	{reflect.TypeOf(false), "GBool", "bool"},
	{reflect.TypeOf(int(0)), "(GInt W0)", "int"}, {reflect.TypeOf(int8(0)), "(GInt W8)", "int"}, {reflect.TypeOf(int16(0)), "(GInt W16)", "int"},
	{reflect.TypeOf(int32(0)), "(GInt W32)", "int"}, {reflect.TypeOf(int64(0)), "(GInt W64)", "int"},
	{reflect.TypeOf(uint(0)), "(GUint W0)", "uint"}, {reflect.TypeOf(uint8(0)), "(GUint W8)", "uint"}, {reflect.TypeOf(uint16(0)), "(GUint W16)", "uint"},
	{reflect.TypeOf(uint32(0)), "(GUint W32)", "uint"}, {reflect.TypeOf(uint64(0)), "(GUint W64)", "uint"},
	{reflect.TypeOf(float32(0)), "GF32", "f32"}, {reflect.TypeOf(float64(0)), "GF64", "f64"},
	{reflect.TypeOf(""), "GString", "string"}, {reflect.TypeOf([]byte(nil)), "GBytes", "bytes"},
	{tTime, "GTime", "time"}, {tDur, "GDur", "dur"},
}

type g16 struct {
	r    *rand.Rand
	hist map[string]int
}

func (g *g16) scalar() *ty16 {
	s := scalars16[g.r.Intn(len(scalars16))]
	return &ty16{rt: s.rt, g: s.g, kind: s.k}
}

func (g *g16) typ(depth int) *ty16 {
	r := g.r
	c := r.Intn(12)
	if depth <= 0 && c >= 5 && c != 11 {
		c = r.Intn(5)
	}
	switch {
	case c < 5:
		return g.scalar()
	case c == 5:
		e := g.typ(depth - 1)
		for e.kind == "time" {
			e = g.scalar()
		}
		return &ty16{rt: reflect.PointerTo(e.rt), g: "(GPtr " + e.g + ")", kind: "ptr", elem: e, hasAny: e.hasAny}
	case c == 6:
		e := g.typ(depth - 1)
		if e.kind == "uint" && e.rt.Kind() == reflect.Uint8 {
			e = &ty16{rt: reflect.TypeOf(int(0)), g: "(GInt W0)", kind: "int"} // []uint8 is the binary type, generated as a scalar
		}
		return &ty16{rt: reflect.SliceOf(e.rt), g: "(GSlice " + e.g + ")", kind: "slice", elem: e, hasAny: e.hasAny}
	case c == 7:
		e := g.typ(depth - 1)
		if e.kind == "uint" && e.rt.Kind() == reflect.Uint8 {
			e = &ty16{rt: reflect.TypeOf(int(0)), g: "(GInt W0)", kind: "int"}
		}
		n := r.Intn(3)
		return &ty16{rt: reflect.ArrayOf(n, e.rt), g: fmt.Sprintf("(GArray %d %s)", n, e.g), kind: "array", elem: e, n: n, hasAny: e.hasAny}
	case c == 8:
		e := g.typ(depth - 1)
		return &ty16{rt: reflect.MapOf(reflect.TypeOf(""), e.rt), g: "(GMap " + e.g + ")", kind: "map", elem: e, hasAny: e.hasAny}
	case c == 11:
		return &ty16{rt: tAny, g: "GAny", kind: "any", hasAny: true}
	default:
		return g.structT(depth - 1)
	}
}

var aliases16 = []string{"a", "b", "c", "d", "e", "f", "g"}
var mapKeys16 = []string{"x", "y", "z", "w"}

func (g *g16) structT(depth int) *ty16 { return g.structIn(depth, map[string]bool{}, false) }

// structIn builds a struct type whose encoded keys avoid `used` (the key space of the struct it is
// inlined into); an inlined struct holds no inline map (the one inline map of a flattened struct
// takes whatever the named fields leave).
func (g *g16) structIn(depth int, used map[string]bool, inlined bool) *ty16 {
	r := g.r
	n := r.Intn(5)
	var sf []reflect.StructField
	var fs []fld16
	var gs []string
	hasAny := false
	hasInlineMap := inlined
	fresh := func() string {
		for k := 0; k < 20; k++ {
			a := aliases16[r.Intn(len(aliases16))]
			if !used[a] {
				used[a] = true
				return a
			}
		}
		return ""
	}
	for i := 0; i < n; i++ {
		f := fld16{mode: "FPlain"}
		name := fmt.Sprintf("F%d", i)
		tag := ""
		var ft *ty16
		m := r.Intn(8)
		switch {
		case m < 2:
			if f.alias = fresh(); f.alias == "" {
				continue
			}
			tag = fmt.Sprintf(`json:"%s"`, f.alias)
		case m < 4:
			if f.alias = fresh(); f.alias == "" {
				continue
			}
			f.mode = "FOmit"
			tag = fmt.Sprintf(`json:"%s,omitempty"`, f.alias)
		case m == 4 && depth > 0:
			f.mode = "FInline"
			tag = `json:",inline"`
			ft = g.structIn(depth-1, used, true)
			g.hist["inline-struct"]++
		case m == 5 && !hasInlineMap && depth > 0:
			f.mode = "FInline"
			tag = `json:",inline"`
			e := g.typ(depth - 1)
			ft = &ty16{rt: reflect.MapOf(reflect.TypeOf(""), e.rt), g: "(GMap " + e.g + ")", kind: "imap", elem: e, hasAny: e.hasAny}
			hasInlineMap = true
			g.hist["inline-map"]++
		case m == 6:
			f.alias = fmt.Sprintf("f_%d", i)
			if used[f.alias] {
				continue
			}
			used[f.alias] = true
			f.mode = "FOmit"
			tag = `json:",omitempty"`
		default:
			f.alias = fmt.Sprintf("f_%d", i) // snake case of the field name
			if used[f.alias] {
				continue
			}
			used[f.alias] = true
		}
		if ft == nil {
			ft = g.typ(depth)
		}
		f.t = ft
		sf = append(sf, reflect.StructField{Name: name, Type: ft.rt, Tag: reflect.StructTag(tag)})
		fs = append(fs, f)
		gs = append(gs, fmt.Sprintf("(%s, %s, %s)", gal.Bytes([]byte(f.alias)), ft.g, f.mode))
		hasAny = hasAny || ft.hasAny
	}
	return &ty16{rt: reflect.StructOf(sf), g: "(GStruct " + gal.List(gs) + ")", kind: "struct", fields: fs, hasAny: hasAny}
}

// ---- values ----
var strs16 = []string{"", "a", "xy", "héllo", "0", "null"}

func (g *g16) dyn(depth int) any {
	r := g.r
	c := r.Intn(11)
	if depth <= 0 && c >= 7 {
		c = r.Intn(7)
	}
	switch c {
	case 0:
		return nil
	case 1:
		return r.Intn(2) == 0
	case 2:
		return r.Intn(7) - 3
	case 3:
		return int64(r.Intn(1000)) - 500
	case 4:
		return float64(r.Intn(9)) / 2
	case 5:
		return strs16[r.Intn(len(strs16))]
	case 6:
		return uint8(r.Intn(256))
	case 7, 8:
		n := r.Intn(3)
		l := make([]any, 0, n)
		for i := 0; i < n; i++ {
			l = append(l, g.dyn(depth-1))
		}
		if n == 0 && r.Intn(2) == 0 {
			return []any(nil)
		}
		return l
	default:
		n := r.Intn(3)
		m := map[string]any{}
		for i := 0; i < n; i++ {
			m[aliases16[r.Intn(len(aliases16))]] = g.dyn(depth - 1)
		}
		if n == 0 && r.Intn(2) == 0 {
			return map[string]any(nil)
		}
		return m
	}
}

// fill sets v (addressable, of type t) to a random value.
func (g *g16) fill(t *ty16, v reflect.Value, depth int) {
	r := g.r
	zero := r.Intn(6) == 0
	switch t.kind {
	case "bool":
		v.SetBool(r.Intn(2) == 0)
	case "int":
		bits := t.rt.Bits()
		var z int64
		switch r.Intn(5) {
		case 0:
			z = 0
		case 1:
			z = -1 << (bits - 1)
		case 2:
			z = 1<<(bits-1) - 1
		default:
			z = int64(r.Intn(200)) - 100
		}
		v.SetInt(z)
	case "uint":
		bits := t.rt.Bits()
		var z uint64
		switch r.Intn(4) {
		case 0:
			z = 0
		case 1:
			z = math.MaxUint64 >> (64 - bits)
		default:
			z = uint64(r.Intn(200))
		}
		v.SetUint(z)
	case "f32", "f64":
		fs := []float64{0, 1, -1.5, 0.25, 1e10, math.Inf(1), math.Copysign(0, -1)}
		v.SetFloat(fs[r.Intn(len(fs))])
	case "string":
		v.SetString(strs16[r.Intn(len(strs16))])
	case "bytes":
		switch r.Intn(4) {
		case 0: // nil
		case 1:
			v.SetBytes([]byte{})
		default:
			b := make([]byte, 1+r.Intn(3))
			r.Read(b)
			v.SetBytes(b)
		}
	case "time":
		ms := r.Int63n(2_000_000_000_000) // any millisecond
		switch r.Intn(8) {
		case 0:
			ms = -r.Int63n(2_000_000_000_000) // before 1970
		case 1:
			ms = r.Int63n(250_000_000_000_000) - 60_000_000_000_000 // years 68 .. 9892: far outside what int64 nanoseconds can hold
		}
		sub := int64(0)
		if r.Intn(3) == 0 {
			sub = int64(r.Intn(1_000_000))
		}
		tm := time.UnixMilli(ms).Add(time.Duration(sub)).UTC()
		if r.Intn(4) == 0 {
			tm = tm.In(time.FixedZone("x", 3600))
		}
		v.Set(reflect.ValueOf(tm))
	case "dur":
		d := time.Duration(r.Intn(100000)-50000) * time.Millisecond
		if zero {
			d = 0
		} else if r.Intn(3) == 0 {
			d += time.Duration(r.Intn(1_000_000))
		} else if r.Intn(8) == 0 {
			d = time.Duration(1 + r.Intn(999_999)) // below a millisecond
		}
		v.SetInt(int64(d))
	case "ptr":
		if zero || depth <= 0 {
			return
		}
		p := reflect.New(t.elem.rt)
		g.fill(t.elem, p.Elem(), depth-1)
		v.Set(p)
	case "slice":
		if zero {
			return
		}
		n := r.Intn(4)
		s := reflect.MakeSlice(t.rt, n, n)
		for i := 0; i < n; i++ {
			g.fill(t.elem, s.Index(i), depth-1)
		}
		v.Set(s)
	case "array":
		for i := 0; i < t.n; i++ {
			g.fill(t.elem, v.Index(i), depth-1)
		}
	case "map", "imap":
		if zero {
			return
		}
		keys := aliases16
		if t.kind == "imap" {
			keys = mapKeys16
		}
		n := r.Intn(4)
		m := reflect.MakeMap(t.rt)
		for i := 0; i < n; i++ {
			e := reflect.New(t.elem.rt).Elem()
			g.fill(t.elem, e, depth-1)
			m.SetMapIndex(reflect.ValueOf(keys[r.Intn(len(keys))]), e)
		}
		v.Set(m)
	case "struct":
		for i, f := range t.fields {
			if f.mode == "FOmit" && r.Intn(3) == 0 {
				continue // leave zero
			}
			g.fill(f.t, v.Field(i), depth-1)
		}
	case "any":
		if d := g.dyn(2); d != nil {
			v.Set(reflect.ValueOf(d))
		}
	}
}

// ---- rendering Go values as the model's gval ----
func dynType(rt reflect.Type) string {
	for _, s := range scalars16 {
		if s.rt == rt {
			return s.g
		}
	}
	switch rt.Kind() {
	case reflect.Pointer:
		return "(GPtr " + dynType(rt.Elem()) + ")"
	case reflect.Slice:
		return "(GSlice " + dynType(rt.Elem()) + ")"
	case reflect.Array:
		return fmt.Sprintf("(GArray %d %s)", rt.Len(), dynType(rt.Elem()))
	case reflect.Map:
		if rt.Key().Kind() != reflect.String {
			return "GUnknown"
		}
		return "(GMap " + dynType(rt.Elem()) + ")"
	case reflect.Interface:
		return "GAny"
	}
	return "GUnknown"
}

func gvalOf(v reflect.Value) string {
	rt := v.Type()
	switch {
	case rt == tTime:
		tm := v.Interface().(time.Time)
		if tm.IsZero() {
			return "XTime0"
		}
		_, off := tm.Zone()
		// nanoseconds since the epoch as an exact integer (UnixNano overflows beyond +-292 years)
		ns := new(big.Int).Mul(big.NewInt(tm.UnixMilli()), big.NewInt(1_000_000))
		ns.Add(ns, big.NewInt(int64(tm.Nanosecond()%1_000_000)))
		nz := ns.String() + "%Z"
		if ns.Sign() < 0 {
			nz = "(" + ns.String() + ")%Z"
		}
		return fmt.Sprintf("(XTime %s %s)", nz, gal.Bool(off == 0 && tm.Location() == time.UTC))
	case rt == tDur:
		return "(XDur " + gal.Z(v.Int()) + ")"
	}
	switch rt.Kind() {
	case reflect.Bool:
		return "(XBool " + gal.Bool(v.Bool()) + ")"
	case reflect.Int, reflect.Int8, reflect.Int16, reflect.Int32, reflect.Int64:
		return "(XInt " + gal.Z(v.Int()) + ")"
	case reflect.Uint, reflect.Uint8, reflect.Uint16, reflect.Uint32, reflect.Uint64:
		return "(XUint " + fmt.Sprintf("%d%%Z", v.Uint()) + ")"
	case reflect.Float32:
		return fmt.Sprintf("(XF32 %d%%Z)", math.Float32bits(float32(v.Float())))
	case reflect.Float64:
		return fmt.Sprintf("(XF64 %d%%Z)", math.Float64bits(v.Float()))
	case reflect.String:
		return "(XStr " + gal.Bytes([]byte(v.String())) + ")"
	case reflect.Pointer:
		if v.IsNil() {
			return "XNil"
		}
		return "(XPtr " + gvalOf(v.Elem()) + ")"
	case reflect.Slice:
		if rt.Elem().Kind() == reflect.Uint8 {
			return fmt.Sprintf("(XBytes %s %s)", gal.Bool(v.IsNil()), gal.Bytes(v.Bytes()))
		}
		var es []string
		for i := 0; i < v.Len(); i++ {
			es = append(es, gvalOf(v.Index(i)))
		}
		return fmt.Sprintf("(XSlice %s %s)", gal.Bool(v.IsNil()), gal.List(es))
	case reflect.Array:
		var es []string
		for i := 0; i < v.Len(); i++ {
			es = append(es, gvalOf(v.Index(i)))
		}
		return "(XArr " + gal.List(es) + ")"
	case reflect.Map:
		keys := v.MapKeys()
		sort.Slice(keys, func(i, j int) bool { return keys[i].String() < keys[j].String() })
		var es []string
		for _, k := range keys {
			es = append(es, "("+gal.Bytes([]byte(k.String()))+", "+gvalOf(v.MapIndex(k))+")")
		}
		return fmt.Sprintf("(XMap %s %s)", gal.Bool(v.IsNil()), gal.List(es))
	case reflect.Struct:
		var es []string
		for i := 0; i < v.NumField(); i++ {
			es = append(es, gvalOf(v.Field(i)))
		}
		return "(XStruct " + gal.List(es) + ")"
	case reflect.Interface:
		if v.IsNil() {
			return "XNil"
		}
		e := v.Elem()
		return "(XDyn " + dynType(e.Type()) + " " + gvalOf(e) + ")"
	}
	return "XNil"
}

// ---- rendering engine values as the model's cval ----
func cvalOf(v types.Value) string {
	switch x := v.(type) {
	case nil:
		return "CNil"
	case types.Boolean:
		return "(CBool " + gal.Bool(x.Bool()) + ")"
	case types.Int:
		return "(CInt W0 " + gal.Z(x.Int()) + ")"
	case types.Int8:
		return "(CInt W8 " + gal.Z(x.Int()) + ")"
	case types.Int16:
		return "(CInt W16 " + gal.Z(x.Int()) + ")"
	case types.Int32:
		return "(CInt W32 " + gal.Z(x.Int()) + ")"
	case types.Int64:
		return "(CInt W64 " + gal.Z(x.Int()) + ")"
	case types.Uint:
		return fmt.Sprintf("(CUint W0 %d%%Z)", x.Uint())
	case types.Uint8:
		return fmt.Sprintf("(CUint W8 %d%%Z)", x.Uint())
	case types.Uint16:
		return fmt.Sprintf("(CUint W16 %d%%Z)", x.Uint())
	case types.Uint32:
		return fmt.Sprintf("(CUint W32 %d%%Z)", x.Uint())
	case types.Uint64:
		return fmt.Sprintf("(CUint W64 %d%%Z)", x.Uint())
	case types.Float32:
		return fmt.Sprintf("(CF32 %d%%Z)", math.Float32bits(float32(x.Float())))
	case types.Float64:
		return fmt.Sprintf("(CF64 %d%%Z)", math.Float64bits(x.Float()))
	case types.String:
		return "(CStr " + gal.Bytes([]byte(x.String())) + ")"
	case types.Binary:
		return "(CBin " + gal.Bytes(x.Bytes()) + ")"
	case types.Slice:
		var es []string
		for _, e := range x.Values() {
			es = append(es, cvalOf(e))
		}
		return "(CSlice " + gal.List(es) + ")"
	case types.Map:
		type kv struct{ k, v string }
		var kvs []kv
		for k, e := range x.Range() {
			ks, ok := k.(types.String)
			if !ok {
				return "CUnknown"
			}
			kvs = append(kvs, kv{ks.String(), cvalOf(e)})
		}
		sort.Slice(kvs, func(i, j int) bool { return kvs[i].k < kvs[j].k })
		var es []string
		for _, e := range kvs {
			es = append(es, "("+gal.Bytes([]byte(e.k))+", "+e.v+")")
		}
		return "(CMap " + gal.List(es) + ")"
	}
	return "CUnknown"
}

// equalModuloKnown: deep equality up to the distinctions the value model cannot carry (recorded
// as known findings): nil vs empty slices / maps / byte slices, sub-millisecond parts of times and
// durations, the time zone of a time.
func equalModuloKnown(a, b reflect.Value) bool {
	if a.Type() != b.Type() {
		return false
	}
	rt := a.Type()
	switch {
	case rt == tTime:
		return a.Interface().(time.Time).UnixMilli() == b.Interface().(time.Time).UnixMilli()
	case rt == tDur:
		return time.Duration(a.Int()).Milliseconds() == time.Duration(b.Int()).Milliseconds()
	}
	switch rt.Kind() {
	case reflect.Pointer, reflect.Interface:
		if a.IsNil() || b.IsNil() {
			return a.IsNil() && b.IsNil()
		}
		return equalModuloKnown(a.Elem(), b.Elem())
	case reflect.Slice, reflect.Array:
		if a.Len() != b.Len() {
			return false
		}
		for i := 0; i < a.Len(); i++ {
			if !equalModuloKnown(a.Index(i), b.Index(i)) {
				return false
			}
		}
		return true
	case reflect.Map:
		if a.Len() != b.Len() {
			return false
		}
		for _, k := range a.MapKeys() {
			bv := b.MapIndex(k)
			if !bv.IsValid() || !equalModuloKnown(a.MapIndex(k), bv) {
				return false
			}
		}
		return true
	case reflect.Struct:
		for i := 0; i < a.NumField(); i++ {
			if !equalModuloKnown(a.Field(i), b.Field(i)) {
				return false
			}
		}
		return true
	case reflect.Float32, reflect.Float64:
		return a.Float() == b.Float() // as reflect.DeepEqual does: -0 == +0
	}
	return reflect.DeepEqual(a.Interface(), b.Interface())
}

// nullPointee: a non-nil pointer whose pointee encodes as null (a nil pointer or a nil open value,
// possibly behind more pointers): the encoding cannot tell it from a nil pointer.
func encodesNull(v reflect.Value) bool {
	switch v.Kind() {
	case reflect.Pointer:
		return v.IsNil() || encodesNull(v.Elem())
	case reflect.Interface:
		return v.IsNil()
	}
	return false
}

func walk16(v reflect.Value, f func(reflect.Value) bool) bool {
	if f(v) {
		return true
	}
	switch v.Kind() {
	case reflect.Pointer, reflect.Interface:
		return !v.IsNil() && walk16(v.Elem(), f)
	case reflect.Slice, reflect.Array:
		for i := 0; i < v.Len(); i++ {
			if walk16(v.Index(i), f) {
				return true
			}
		}
	case reflect.Map:
		for _, k := range v.MapKeys() {
			if walk16(v.MapIndex(k), f) {
				return true
			}
		}
	case reflect.Struct:
		for i := 0; i < v.NumField(); i++ {
			if walk16(v.Field(i), f) {
				return true
			}
		}
	}
	return false
}

func hasNullPointee(v reflect.Value) bool {
	return walk16(v, func(x reflect.Value) bool {
		return x.Kind() == reflect.Pointer && !x.IsNil() && encodesNull(x.Elem())
	})
}

// jsonExact: every number in the value survives a float64 (what JSON parsing yields), and no byte
// string is involved (JSON carries it as text)
func jsonExact(v reflect.Value) bool {
	return !walk16(v, func(x reflect.Value) bool {
		switch x.Kind() {
		case reflect.Int, reflect.Int64:
			return x.Int() > 1<<52 || x.Int() < -(1<<52)
		case reflect.Uint, reflect.Uint64:
			return x.Uint() > 1<<52
		case reflect.Slice:
			return x.Type().Elem().Kind() == reflect.Uint8
		case reflect.Float32, reflect.Float64:
			return math.IsInf(x.Float(), 0) || math.IsNaN(x.Float())
		}
		return false
	})
}

// hasTinyDuration: a non-zero time.Duration below one millisecond (it encodes as 0 milliseconds)
func hasTinyDuration(v reflect.Value) bool {
	return walk16(v, func(x reflect.Value) bool {
		return x.Type() == tDur && x.Int() != 0 && time.Duration(x.Int()).Milliseconds() == 0
	})
}

// hasByteList: an open value holding a non-empty list whose elements are all uint8 (its generic view is a byte string)
func hasByteList(v reflect.Value) bool {
	return walk16(v, func(x reflect.Value) bool {
		if x.Kind() != reflect.Slice || x.Type().Elem().Kind() != reflect.Interface || x.Len() == 0 {
			return false
		}
		for i := 0; i < x.Len(); i++ {
			if e := x.Index(i); e.IsNil() || e.Elem().Kind() != reflect.Uint8 {
				return false
			}
		}
		return true
	})
}

func roundTrip16(t *ty16, v reflect.Value) (enc types.Value, back reflect.Value, fail string) {
	defer func() {
		if p := recover(); p != nil {
			fail = fmt.Sprintf("panic: %v", p)
		}
	}()
	enc, err := types.Marshal(v.Interface())
	if err != nil {
		return nil, reflect.Value{}, "Marshal: " + err.Error()
	}
	out := reflect.New(t.rt)
	if err := types.Unmarshal(enc, out.Interface()); err != nil {
		return enc, reflect.Value{}, "Unmarshal: " + err.Error()
	}
	return enc, out.Elem(), ""
}

func case16(g *g16) Case {
	t := g.typ(3)
	if t.kind != "struct" && g.r.Intn(3) > 0 {
		t = g.structT(3)
	}
	v := reflect.New(t.rt).Elem()
	g.fill(t, v, 4)
	g.hist["top-"+t.kind]++
	if !strings.Contains(t.g, "FInline") {
		g.hist["inline-free"]++
	}
	if t.hasAny {
		g.hist["has-any"]++
	}
	enc, back, fail := roundTrip16(t, v)
	encG, backG := "CUnknown", "None"
	known := ""
	if fail == "" {
		encG = cvalOf(enc)
		backG = "(Some " + gvalOf(back) + ")"
		// the property, directly
		var enc2 types.Value
		var err error
		func() {
			defer func() {
				if p := recover(); p != nil {
					err = fmt.Errorf("panic: %v", p)
				}
			}()
			enc2, err = types.Marshal(back.Interface())
		}()
		if err != nil {
			fail = "re-encoding failed: " + err.Error()
		} else if !types.Equal(enc, enc2) || cvalOf(enc2) != encG {
			fail = "the decoded value encodes differently: " + cvalOf(enc2) + " instead of " + encG
		} else if !t.hasAny && !reflect.DeepEqual(v.Interface(), back.Interface()) {
			if equalModuloKnown(v, back) {
				known = "F-C16-a"
				fail = "decoded value differs by nil vs empty container, sub-millisecond time or time zone only"
			} else {
				fail = fmt.Sprintf("decoded value differs: %#v instead of %#v", back.Interface(), v.Interface())
			}
		}
		// through the JSON form: the engine value printed as JSON, parsed back generically, encoded and
		// decoded into the same type must give a value that encodes like the original (types without
		// open fields; numbers that JSON carries exactly)
		if fail == "" {
			if data, err := json.Marshal(enc); err == nil {
				var anyv any
				if err := json.Unmarshal(data, &anyv); err == nil {
					func() {
						defer func() {
							if p := recover(); p != nil {
								fail = fmt.Sprintf("panic through JSON: %v", p)
							}
						}()
						e3, err := types.Marshal(anyv)
						if err != nil {
							return
						}
						out := reflect.New(t.rt)
						if err := types.Unmarshal(e3, out.Interface()); err != nil {
							if !t.hasAny && jsonExact(v) {
								fail = "decoding the JSON form failed: " + err.Error()
							}
							return
						}
						if !t.hasAny && jsonExact(v) {
							if e4, err := types.Marshal(out.Elem().Interface()); err != nil || cvalOf(e4) != encG {
								fail = "through the JSON form the value encodes differently: " + cvalOf(e4) + " instead of " + encG
							}
						}
					}()
				}
			}
		}
	}
	if fail != "" && hasNullPointee(v) {
		known = "F-C16-b"
	} else if fail != "" && known == "" && hasTinyDuration(v) {
		known = "F-C16-d"
	}
	gcase := fmt.Sprintf("(%s, %s, %s, %s)", t.g, gvalOf(v), encG, backG)
	in := map[string]any{"type": t.rt.String(), "value": fmt.Sprintf("%#v", v.Interface())}
	nt := strings.Count(t.g, "(G") >= 3
	return Case{Gallina: gcase, Input: in, Nontrivial: nt, OracleFail: fail, Known: known}
}

type spec16 struct {
	spec.Meta `json:",inline"`
	A         int            `json:"a"`
	B         []string       `json:"b,omitempty"`
	C         map[string]any `json:"c,omitempty"`
	D         *int           `json:"d"`
}

// specCase16: a typed node spec goes typed -> generic document -> typed with every field intact,
// and a generic document keeps arbitrary extra fields (nulls included) through encode / decode.
func specCase16(g *g16) (fail string) {
	defer func() {
		if p := recover(); p != nil {
			fail = fmt.Sprintf("spec path panicked: %v", p)
		}
	}()
	r := g.r
	src := &spec16{Meta: spec.Meta{ID: uid(1 + r.Intn(200)), Kind: "k", Namespace: "n", Name: strs16[r.Intn(len(strs16))]}, A: r.Intn(9) - 4}
	if r.Intn(2) == 0 {
		src.Annotations = map[string]string{"x": "y"}
	}
	if r.Intn(2) == 0 {
		src.Env = map[string]spec.Value{"E": {Name: "v", Data: g.dyn(2)}}
	}
	if r.Intn(2) == 0 {
		src.Ports = map[string][]spec.Port{"out": {{Name: "t", Port: "in"}, {ID: uid(3), Port: "in"}}}
	}
	if r.Intn(2) == 0 {
		src.B = []string{"p", ""}
	}
	if r.Intn(2) == 0 {
		if m, ok := g.dyn(2).(map[string]any); ok && len(m) > 0 {
			src.C = m
		}
	}
	if r.Intn(2) == 0 {
		d := r.Intn(5)
		src.D = &d
	}
	u := &spec.Unstructured{}
	if err := spec.As(src, u); err != nil {
		return "typed -> generic failed: " + err.Error()
	}
	for _, k := range []string{"a", "d"} {
		if _, ok := u.Fields[k]; !ok && !(k == "d" && src.D == nil) {
			return fmt.Sprintf("generic document lost field %q", k)
		}
	}
	back := &spec16{}
	if err := spec.As(u, back); err != nil {
		return "generic -> typed failed: " + err.Error()
	}
	e1, _ := types.Marshal(src)
	e2, _ := types.Marshal(back)
	if !types.Equal(e1, e2) {
		return fmt.Sprintf("typed -> generic -> typed changed the spec: %v instead of %v", e2, e1)
	}
	// decoding into Spec-typed targets: each decode yields its own object
	docA := &spec.Unstructured{Meta: spec.Meta{ID: uid(1), Kind: "k", Namespace: "n", Name: "first", Annotations: map[string]string{"p": "q"}}, Fields: map[string]any{"x": 1}}
	docB := &spec.Unstructured{Meta: spec.Meta{ID: uid(2), Kind: "k", Namespace: "n"}, Fields: map[string]any{"y": 2}}
	vA, _ := types.Marshal(docA)
	vB, _ := types.Marshal(docB)
	var sA, sB spec.Spec
	if err := types.Unmarshal(vA, &sA); err != nil {
		return "decoding into a Spec failed: " + err.Error()
	}
	if err := types.Unmarshal(vB, &sB); err != nil {
		return "decoding into a Spec failed: " + err.Error()
	}
	if rA, _ := types.Marshal(sA); !types.Equal(rA, vA) {
		return fmt.Sprintf("a spec decoded earlier changed when another was decoded: %v instead of %v", rA, vA)
	}
	if rB, _ := types.Marshal(sB); !types.Equal(rB, vB) {
		return fmt.Sprintf("a spec decoded through the Spec interface differs: %v instead of %v", rB, vB)
	}
	var list []spec.Spec
	if err := types.Unmarshal(types.NewSlice(vA, vB), &list); err != nil || len(list) != 2 {
		return fmt.Sprintf("decoding a list of specs failed: %v", err)
	}
	if r0, _ := types.Marshal(list[0]); !types.Equal(r0, vA) {
		return fmt.Sprintf("the first of a decoded list of specs is %v instead of %v", r0, vA)
	}
	// pointers to a type that marshals itself as text (outside the model's universe)
	tm := time.Unix(int64(r.Intn(1_000_000)), 0).UTC()
	type withTimes struct {
		T *time.Time            `json:"t"`
		M map[string]*time.Time `json:"m,omitempty"`
	}
	wt := withTimes{M: map[string]*time.Time{"a": nil}}
	if r.Intn(2) == 0 {
		wt.T = &tm
		wt.M["b"] = &tm
	}
	w1, err := types.Marshal(wt)
	if err != nil {
		return "encoding pointers to time.Time failed: " + err.Error()
	}
	var wt2 withTimes
	if err := types.Unmarshal(w1, &wt2); err != nil {
		return "decoding pointers to time.Time failed: " + err.Error()
	}
	if w2, _ := types.Marshal(wt2); !types.Equal(w1, w2) {
		return fmt.Sprintf("pointers to time.Time changed through encode/decode: %v instead of %v", w2, w1)
	}
	// a generic document with arbitrary extra fields
	doc := &spec.Unstructured{Meta: src.Meta, Fields: map[string]any{}}
	for i := 0; i < 1+r.Intn(3); i++ {
		doc.Fields[mapKeys16[r.Intn(len(mapKeys16))]] = g.dyn(2)
	}
	d1, err := types.Marshal(doc)
	if err != nil {
		return "encoding a generic document failed: " + err.Error()
	}
	doc2 := &spec.Unstructured{}
	if err := types.Unmarshal(d1, doc2); err != nil {
		return "decoding a generic document failed: " + err.Error()
	}
	d2, _ := types.Marshal(doc2)
	if !types.Equal(d1, d2) {
		return fmt.Sprintf("a generic document changed through encode/decode: %v instead of %v", d2, d1)
	}
	for k := range doc.Fields {
		if _, ok := doc2.Fields[k]; !ok {
			return fmt.Sprintf("a generic document lost its extra field %q (value %#v)", k, doc.Fields[k])
		}
	}
	return ""
}

func runC16(seed int64, n int, tier string) *Result {
	r := rand.New(rand.NewSource(seed))
	res := &Result{
		Prop:     "C16",
		Requires: []string{"Codec.Codec", "Codec.CheckCodec"},
		CaseType: "c16case",
		OkFn:     "c16ok",
		Rule: "a Go type built reflectively (scalars of every width, string, []byte, time.Time, time.Duration, pointers, slices, arrays, string-keyed maps, structs with json tags: named / omitempty / inline / untagged, any; depth <= 3) " +
			"and a random value of it (nil and empty containers, nil pointers, boundary integers, -0 and Inf, open fields holding nil / scalars / []any / map[string]any); types.Marshal, types.Unmarshal into a fresh value; " +
			"observed: the engine value and the decoded Go value; directly checked: no error, no panic, re-encoding equal, DeepEqual for types without open fields, and no panic through the JSON form; every tenth case also runs a typed node spec (inline Meta, env, ports, omitempty and pointer fields) typed -> Unstructured -> typed and a generic document with random extra fields (nulls included) through encode/decode; non-trivial = three or more type constructors; distinct by rendered case",
		Hist: map[string]int{},
	}
	g := &g16{r: r, hist: res.Hist}
	for i := 0; i < n; i++ {
		c := case16(g)
		if c.OracleFail == "" && i%10 == 0 {
			c.OracleFail = specCase16(g)
			res.Hist["spec-path"]++
		}
		res.Cases = append(res.Cases, c)
	}
	return res
}
