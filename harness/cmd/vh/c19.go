package main

// C19: the node-level workflows and schedules of C02 (real nodes, held actions, reference answers)
// run again with the debug agent attached - first with no breakpoint at all, then with breakpoints
// placed at random and stepped / removed / closed in random order while packets are paused.  Every
// request must still get the reference answer.  The harness installs packet hooks of its own on the
// same endpoints; the sequence of hook firings and the frames the agent ends up with are handed to
// the Coq model of the agent's bookkeeping (theories/Runtime/Agent.v).

import (
	"context"
	"fmt"
	"math/rand"
	"sort"
	"strings"
	"sync"
	"time"

	"github.com/gofrs/uuid"
	"github.com/siyul-park/uniflow/pkg/node"
	"github.com/siyul-park/uniflow/pkg/packet"
	"github.com/siyul-park/uniflow/pkg/port"
	"github.com/siyul-park/uniflow/pkg/process"
	uruntime "github.com/siyul-park/uniflow/pkg/runtime"
	"github.com/siyul-park/uniflow/pkg/spec"
	"github.com/siyul-park/uniflow/pkg/symbol"
	"github.com/siyul-park/uniflow/pkg/types"
	"verif/harness/gal"
)

func init() { runners["C19"] = runC19 }

type pinfo struct {
	sym, id int
	out     bool
	name    string
}

type obs19 struct {
	withDebugger bool
	agent        *uruntime.Agent
	dbg          *uruntime.Debugger
	syms         []*symbol.Symbol
	proc         *process.Process
	mu           sync.Mutex
	inPorts      map[*port.InPort]pinfo
	outPorts     map[*port.OutPort]pinfo
	pcks         map[*packet.Packet]int
	events       []string // Gallina hev terms, in recording order
	evDesc       []string
	bps          []*uruntime.Breakpoint
	closed       bool
	queues       map[int]chan func()
	fail         string
	moves        []string
	paused       int
	gallina      string
	nontrivial   bool
	twoPort      bool
}

func (o *obs19) setFail(s string) {
	o.mu.Lock()
	if o.fail == "" {
		o.fail = s
	}
	o.mu.Unlock()
}
func (o *obs19) getFail() string {
	o.mu.Lock()
	defer o.mu.Unlock()
	return o.fail
}
func (o *obs19) describe() string {
	return "agent attached, debugger moves " + fmt.Sprint(o.moves)
}

func (o *obs19) pid(p *packet.Packet) int {
	if id, ok := o.pcks[p]; ok {
		return id
	}
	id := len(o.pcks) + 1
	o.pcks[p] = id
	return id
}

func portG(pi pinfo) string {
	return fmt.Sprintf("(mkport %d %v %d)", pi.sym, pi.out, pi.id)
}

func (o *obs19) record(pi pinfo, inbound bool) packet.Hook {
	return packet.HookFunc(func(p *packet.Packet) {
		o.mu.Lock()
		c := "HOut"
		if inbound {
			c = "HIn"
		}
		o.events = append(o.events, fmt.Sprintf("%s %s %d", c, portG(pi), o.pid(p)))
		o.mu.Unlock()
	})
}

// attach wraps the nodes into symbols, installs the harness's recording hooks, loads the symbols into an agent
func (o *obs19) attach(w *nw02) {
	o.agent = uruntime.NewAgent()
	o.proc = w.proc
	o.inPorts, o.outPorts, o.pcks = map[*port.InPort]pinfo{}, map[*port.OutPort]pinfo{}, map[*packet.Packet]int{}
	o.queues = map[int]chan func(){}
	next := 0
	for i, n := range w.nodes {
		sb := &symbol.Symbol{Spec: &spec.Meta{ID: uuid.Must(uuid.NewV7()), Kind: "k", Namespace: "default", Name: fmt.Sprintf("n%d", i)}, Node: n}
		var ins, outs []string
		switch w.kinds[i] {
		case 1:
			ins, outs = []string{"in"}, []string{"out", "error"}
		case 2:
			ins, outs = []string{"in"}, []string{"out[0]", "out[1]", "error"}
		default:
			ins, outs = []string{"in[0]", "in[1]"}, []string{"out", "error"}
		}
		for _, name := range ins {
			in := sb.In(name)
			pi := pinfo{sym: i, id: next, name: fmt.Sprintf("%d.%s", i, name)}
			next++
			o.inPorts[in] = pi
			in.AddOpenHook(port.OpenHookFunc(func(proc *process.Process) {
				rd := in.Open(proc)
				rd.AddInboundHook(o.record(pi, true))
				rd.AddOutboundHook(o.record(pi, false))
			}))
		}
		for _, name := range outs {
			out := sb.Out(name)
			pi := pinfo{sym: i, id: next, out: true, name: fmt.Sprintf("%d.%s", i, name)}
			next++
			o.outPorts[out] = pi
			out.AddOpenHook(port.OpenHookFunc(func(proc *process.Process) {
				wr := out.Open(proc)
				wr.AddInboundHook(o.record(pi, true))
				wr.AddOutboundHook(o.record(pi, false))
			}))
		}
		_ = o.agent.Load(sb)
		o.syms = append(o.syms, sb)
	}
	if o.withDebugger {
		o.dbg = uruntime.NewDebugger(o.agent)
	}
}

func (o *obs19) detach() {
	if o.dbg != nil {
		o.dbg.Close()
	}
	for _, q := range o.queues {
		close(q)
	}
	for _, sb := range o.syms {
		_ = o.agent.Unload(sb)
	}
	o.agent.Close()
}

// post runs f on the worker of endpoint key (source -1, sink k): calls that may be paused by a breakpoint
// must not hold up the harness, and must stay in order per endpoint
func (o *obs19) post(key int, f func()) {
	q, ok := o.queues[key]
	if !ok {
		q = make(chan func(), 256)
		o.queues[key] = q
		go func() {
			for g := range q {
				g()
			}
		}()
	}
	q <- f
}

// move performs one debugger action with some probability; it reports whether it did something
func (o *obs19) move(r *rand.Rand, left time.Duration) bool {
	if o.dbg == nil || o.closed {
		return false
	}
	if left < 2500*time.Millisecond {
		// time to let everything go: by removing every breakpoint, or by closing the debugger
		if r.Intn(2) == 0 {
			for _, bp := range o.bps {
				o.dbg.RemoveBreakpoint(bp)
			}
			o.moves = append(o.moves, "remove all")
		} else {
			o.moves = append(o.moves, "close")
		}
		o.dbg.Close()
		o.closed = true
		return true
	}
	if r.Intn(3) != 0 {
		return false
	}
	ctx, cancel := context.WithTimeout(context.Background(), 3*time.Millisecond)
	defer cancel()
	switch k := r.Intn(10); {
	case k < 3 && len(o.bps) < 5:
		var opts []func(*uruntime.Breakpoint)
		desc := "break"
		sb := o.syms[r.Intn(len(o.syms))]
		switch r.Intn(5) {
		case 0:
			opts = append(opts, uruntime.BreakWithProcess(o.proc))
			desc += " process"
		case 1:
			opts = append(opts, uruntime.BreakWithSymbol(sb))
			desc += " symbol " + sb.Name()
		case 2:
			for in, pi := range o.inPorts {
				if o.syms[pi.sym] == sb {
					opts = append(opts, uruntime.BreakWithSymbol(sb), uruntime.BreakWithInPort(in))
					desc += " in-port " + pi.name
					break
				}
			}
		case 3:
			for out, pi := range o.outPorts {
				if o.syms[pi.sym] == sb {
					opts = append(opts, uruntime.BreakWithSymbol(sb), uruntime.BreakWithOutPort(out))
					desc += " out-port " + pi.name
					break
				}
			}
		default:
			desc += " everything"
		}
		bp := uruntime.NewBreakpoint(opts...)
		o.dbg.AddBreakpoint(bp)
		o.bps = append(o.bps, bp)
		o.moves = append(o.moves, desc)
	case k < 6:
		if o.dbg.Pause(ctx) {
			o.paused++
			o.nontrivial = true
		}
		o.moves = append(o.moves, "pause")
	case k < 9:
		if o.dbg.Step(ctx) {
			o.paused++
			o.nontrivial = true
		}
		o.moves = append(o.moves, "step")
	default:
		if len(o.bps) > 0 {
			i := r.Intn(len(o.bps))
			o.dbg.RemoveBreakpoint(o.bps[i])
			o.bps = append(o.bps[:i], o.bps[i+1:]...)
			o.moves = append(o.moves, "remove")
		}
	}
	return true
}

// finish: all requests were answered; compare the agent's frames with the hook firings the harness recorded
func (o *obs19) finish(w *nw02) string {
	time.Sleep(time.Millisecond)
	frames := o.agent.Frames(w.proc.ID())
	o.mu.Lock()
	defer o.mu.Unlock()
	perPort := map[int][]string{}
	pis := map[int]pinfo{}
	for _, pi := range o.inPorts {
		pis[pi.id] = pi
	}
	for _, pi := range o.outPorts {
		pis[pi.id] = pi
	}
	opt := func(p *packet.Packet) string {
		if p == nil {
			return "None"
		}
		return fmt.Sprintf("(Some %d)", o.pid(p))
	}
	for _, f := range frames {
		var pi pinfo
		var ok bool
		if f.InPort != nil {
			pi, ok = o.inPorts[f.InPort]
		} else if f.OutPort != nil {
			pi, ok = o.outPorts[f.OutPort]
		}
		if !ok {
			return "a frame of the agent names no port of the workflow's symbols"
		}
		if f.Symbol != o.syms[pi.sym] || f.Process != w.proc {
			return "a frame of the agent names another symbol or process than its port's"
		}
		perPort[pi.id] = append(perPort[pi.id], fmt.Sprintf("(%s, %s)", opt(f.InPck), opt(f.OutPck)))
	}
	var ids []int
	for id := range pis {
		ids = append(ids, id)
	}
	sort.Ints(ids)
	var obs []string
	busy := map[int]int{}
	for _, id := range ids {
		obs = append(obs, fmt.Sprintf("(%s, [%s])", portG(pis[id]), strings.Join(perPort[id], "; ")))
		if len(perPort[id]) > 0 {
			busy[pis[id].sym*2+b2i(pis[id].out)]++
		}
	}
	for _, n := range busy {
		if n >= 2 {
			o.twoPort = true // two in-ports or two out-ports of one symbol carried packets
		}
	}
	o.gallina = fmt.Sprintf("(mk19 [%s]\n  [%s])", strings.Join(o.events, "; "), strings.Join(obs, ";\n   "))
	return ""
}

func runC19(seed int64, n int, tier string) *Result {
	res := &Result{
		Prop:     "C19",
		Requires: []string{"Runtime.Agent", "Runtime.AgentProc", "Runtime.CheckAgent"},
		CaseType: "c19any",
		OkFn:     "c19ok_any",
		Rule: "the node-level workflows of C02 (real one-to-one / one-to-many / many-to-one nodes in chains, fan-out, diamond, fan-in, lone fan-out; actions held open and " +
			"released in random order; 2-4 pipelined requests) run three times from one seed: plain, with the agent attached (no breakpoint), and with agent and debugger " +
			"(up to 3 breakpoints by process / symbol / in-port / out-port / everything, Pause / Step / RemoveBreakpoint at random while packets are paused, finally either all " +
			"breakpoints removed or the debugger closed); each run must give every request its reference answer within 4s; the harness's own packet hooks on every endpoint give " +
			"the sequence of hook firings, from which the model computes the frames of every port, compared with Agent.Frames; non-trivial = a packet was paused at a breakpoint, " +
			"or two in-ports or two out-ports of one symbol carried packets; distinct by hook-firing sequence",
		Hist: map[string]int{},
	}
	for i := 0; i < n; i++ {
		caseSeed := seed*1000003 + int64(i)
		var fails []string
		var g string
		nt := false
		for mode := 0; mode < 3; mode++ {
			r := rand.New(rand.NewSource(caseSeed))
			var o *obs19
			if mode > 0 {
				o = &obs19{withDebugger: mode == 2}
			}
			ncObs = o
			f := nodeCase(r, res.Hist)
			ncObs = nil
			if f != "" {
				fails = append(fails, fmt.Sprintf("[%s] %s", []string{"without the agent", "agent attached, no breakpoint", "agent and debugger"}[mode], f))
			}
			if o != nil && o.gallina != "" {
				// one Coq case per observed run
				res.Cases = append(res.Cases, Case{Gallina: "(inl " + o.gallina + ")", Input: map[string]any{"seed": caseSeed, "mode": mode, "moves": o.moves, "events": len(o.events)},
					Nontrivial: o.nontrivial || o.twoPort, Key: strings.Join(o.events, ";")})
				if o.nontrivial {
					res.Hist["paused_runs"]++
				}
				if o.twoPort {
					res.Hist["two_port_runs"]++
				}
			}
			_ = g
			_ = nt
		}
		if len(fails) > 0 {
			only := len(fails) < 3 && !strings.HasPrefix(fails[0], "[without")
			msg := strings.Join(fails, " | ")
			if only {
				msg = "the same workflow and seed answer correctly without the agent, but: " + msg
			}
			res.Cases = append(res.Cases, Case{Gallina: "(inl (mk19 [] []))", Input: map[string]any{"seed": caseSeed}, Nontrivial: true, Key: fmt.Sprint(caseSeed), OracleFail: msg})
		}
	}
	// the agent across processes: opens, requests, answers and exits (with requests unanswered) of 2-3 processes
	for i := 0; i < 2*n; i++ {
		g, in, f := agentProcCase19(rand.New(rand.NewSource(seed*7919+int64(i))), res.Hist)
		res.Cases = append(res.Cases, Case{Gallina: "(inr " + g + ")", Input: in, Nontrivial: true, OracleFail: f})
	}
	for _, how := range []string{"close", "remove", "close-one-by-one"} {
		if f := deterministicRelease19(how); f != "" {
			res.Cases = append(res.Cases, Case{Gallina: "(inl (mk19 [] []))", Input: "deterministic: five breakpoints, a packet paused at each, then " + how, Nontrivial: true, Key: "rel-" + how, OracleFail: f})
		}
	}
	det, g := deterministicFrames19()
	res.Cases = append(res.Cases, Case{Gallina: "(inl " + g + ")", Input: "deterministic: one symbol, two out-ports, responses in the opposite order of the requests", Nontrivial: true, Key: "det", OracleFail: det})
	res.Cases = append(res.Cases, Case{Gallina: "(inl (mk19 [] []))", Input: "deterministic: two requests outstanding on one in-port (fan-in), answered by two goroutines at once, the first held inside the packet hooks", Nontrivial: true, Key: "det-pairing", OracleFail: deterministicPairing19()})
	res.Cases = append(res.Cases, Case{Gallina: "(inl (mk19 [] []))", Input: "deterministic: a process terminates between a port's liveness check and the agent's open hook; another process then sends a request", Nontrivial: true, Key: "det-exit-during-open", OracleFail: deterministicExitDuringOpen19()})
	return res
}

// deterministicPairing19: two requests are outstanding on one in-port reader of one process (fan-in from two
// out-ports); two goroutines answer them, the second arriving while the first is held inside the reader's packet
// hooks (by a hook of the harness that runs ahead of the agent's).  The frame of each request must hold the packet
// that answered THAT request.
func deterministicPairing19() (fail string) {
	defer func() {
		if p := recover(); p != nil {
			fail = fmt.Sprintf("deterministic pairing scenario panicked: %v", p)
		}
	}()
	a := uruntime.NewAgent()
	sym := &symbol.Symbol{Spec: &spec.Meta{ID: uuid.Must(uuid.NewV7()), Kind: "k", Namespace: "default", Name: "fanin"}, Node: node.NewOneToOneNode(nil)}
	in := sym.In(node.PortIn)
	first := make(chan struct{})
	second := make(chan struct{})
	var calls int
	var mu sync.Mutex
	gate := packet.HookFunc(func(*packet.Packet) {
		mu.Lock()
		calls++
		c := calls
		mu.Unlock()
		if c == 1 {
			close(first)
			select {
			case <-second:
			case <-time.After(150 * time.Millisecond): // the second caller cannot get this far while the first holds the reader
			}
		} else if c == 2 {
			close(second)
		}
	})
	if err := a.Load(sym); err != nil {
		return "agent.Load: " + err.Error()
	}
	// open hooks run latest first: registered after Load, this one runs ahead of the agent's, so the gate is the
	// first packet hook of the reader
	in.AddOpenHook(port.OpenHookFunc(func(proc *process.Process) { in.Open(proc).AddOutboundHook(gate) }))
	o1, o2 := port.NewOut(), port.NewOut()
	o1.Link(in)
	o2.Link(in)
	proc := process.New()
	w1, w2 := o1.Open(proc), o2.Open(proc)
	rd := in.Open(proc)
	p1, p2 := packet.New(types.NewInt(1)), packet.New(types.NewInt(2))
	if w1.Write(p1) != 1 || recvTimeout(rd.Read()) == nil || w2.Write(p2) != 1 || recvTimeout(rd.Read()) == nil {
		return "deterministic pairing scenario: the two requests did not reach the in-port"
	}
	a1, a2 := packet.New(types.NewInt(1001)), packet.New(types.NewInt(1002))
	done := make(chan struct{}, 2)
	go func() { rd.Receive(a1); done <- struct{}{} }()
	select {
	case <-first:
	case <-time.After(2 * time.Second):
		return "deterministic pairing scenario: the first answer never reached the packet hooks"
	}
	go func() { rd.Receive(a2); done <- struct{}{} }()
	for i := 0; i < 2; i++ {
		select {
		case <-done:
		case <-time.After(3 * time.Second):
			return "deterministic pairing scenario: Reader.Receive did not return within 3s"
		}
	}
	b1, b2 := recvTimeout(w1.Receive()), recvTimeout(w2.Receive())
	if b1 == nil || b2 == nil || intOf(b1) != 1001 || intOf(b2) != 1002 {
		return fmt.Sprintf("deterministic pairing scenario: writer 1 got %v and writer 2 got %v (want 1001 and 1002)", b1, b2)
	}
	for _, f := range a.Frames(proc.ID()) {
		if f.InPort != in || f.InPck == nil || f.OutPck == nil {
			continue
		}
		if intOf(f.OutPck) != intOf(f.InPck)+1000 {
			return fmt.Sprintf("the frame of request %d on the in-port holds response %d; that request was answered with %d",
				intOf(f.InPck), intOf(f.OutPck), intOf(f.InPck)+1000)
		}
	}
	proc.Exit(nil)
	o1.Close()
	o2.Close()
	_ = sym.Close()
	a.Close()
	return ""
}

// deterministicExitDuringOpen19: a process terminates after a port has found it alive and before the agent's open
// hook sees it (an open hook of the harness, ordered ahead of the agent's, exits it).  With or without the agent a
// request of another process must then be answered.
func deterministicExitDuringOpen19() (fail string) {
	defer func() {
		if p := recover(); p != nil {
			fail = fmt.Sprintf("deterministic exit-during-open scenario panicked: %v", p)
		}
	}()
	for _, withAgent := range []bool{false, true} {
		n := node.NewOneToOneNode(func(_ *process.Process, inPck *packet.Packet) (*packet.Packet, *packet.Packet) {
			return packet.New(types.NewInt(intOf(inPck) + 1)), nil
		})
		sym := &symbol.Symbol{Spec: &spec.Meta{ID: uuid.Must(uuid.NewV7()), Kind: "k", Namespace: "default", Name: "echo"}, Node: n}
		in := sym.In(node.PortIn)
		sym.Out(node.PortOut)
		sym.Out(node.PortError)
		dying := process.New()
		var a *uruntime.Agent
		if withAgent {
			a = uruntime.NewAgent()
			if err := a.Load(sym); err != nil {
				return "agent.Load: " + err.Error()
			}
		}
		// open hooks run latest first: this one runs ahead of the agent's
		in.AddOpenHook(port.OpenHookFunc(func(proc *process.Process) {
			if proc == dying {
				proc.Exit(nil)
			}
		}))
		opened := make(chan struct{})
		go func() { in.Open(dying); close(opened) }()
		select {
		case <-opened:
		case <-time.After(2 * time.Second):
			if withAgent {
				return "with the agent attached, opening a port for a process that terminates during the open never returns (it returns without the agent)"
			}
			return "opening a port for a process that terminates during the open never returns"
		}
		src := port.NewOut()
		src.Link(in)
		other := process.New()
		w := src.Open(other)
		got := make(chan *packet.Packet, 1)
		go func() { got <- packet.Send(w, packet.New(types.NewInt(41))) }()
		select {
		case b := <-got:
			if b == nil || intOf(b) != 42 {
				return fmt.Sprintf("the request of an unrelated process was answered with %v (want 42), agent attached: %v", b, withAgent)
			}
		case <-time.After(2 * time.Second):
			if withAgent {
				return "the request of an unrelated process gets its answer without the agent, but no answer within 2s with the agent attached (a process had terminated while a port was being opened for it)"
			}
			return "the request of an unrelated process gets no answer within 2s after another process terminated while a port was being opened for it"
		}
		other.Exit(nil)
		src.Close()
		_ = sym.Close()
		if a != nil {
			a.Close()
		}
	}
	return ""
}

// deterministicFrames19: one one-to-many symbol whose two out-ports are answered in the opposite order:
// each frame must pair the request written on a port with the response that came back on that port
func deterministicFrames19() (string, string) {
	o := &obs19{}
	w := &nw02{proc: process.New(), wire: map[string]string{}, entered: make(chan int, 8), noFail: true, kinds: []int{2}}
	defer w.proc.Exit(nil)
	w.release = append(w.release, make(chan struct{}, 8))
	n := w.mk(2, 0)
	w.nodes = []node.Node{n}
	defer n.Close()
	o.attach(w)
	defer o.detach()
	s0, s1 := port.NewIn(), port.NewIn()
	n.Out("out[0]").Link(s0)
	n.Out("out[1]").Link(s1)
	r0, r1 := s0.Open(w.proc), s1.Open(w.proc)
	src := port.NewOut()
	src.Link(n.In("in"))
	sw := src.Open(w.proc)
	defer src.Close()
	sw.Write(packet.New(types.NewInt(5)))
	w.release[0] <- struct{}{}
	q0, q1 := recvTimeout(r0.Read()), recvTimeout(r1.Read())
	if q0 == nil || q1 == nil {
		return "deterministic scenario: the requests did not reach both sinks", "(mk19 [] [])"
	}
	a0, a1 := packet.New(types.NewInt(intOf(q0)+1000)), packet.New(types.NewInt(intOf(q1)+2000))
	r1.Receive(a1)
	r0.Receive(a0)
	if recvTimeout(sw.Receive()) == nil {
		return "deterministic scenario: no answer", "(mk19 [] [])"
	}
	if f := o.finish(w); f != "" {
		return f, "(mk19 [] [])"
	}
	// direct check of the property: the frame of out[k] holds the request written to sink k and that sink's answer
	for _, f := range o.agent.Frames(w.proc.ID()) {
		if f.OutPort == nil || f.InPck == nil || f.OutPck == nil {
			continue
		}
		wantReq, wantAns := q0, a0
		if f.OutPort == o.syms[0].Out("out[1]") {
			wantReq, wantAns = q1, a1
		}
		if intOf(f.OutPck) != intOf(wantReq) || intOf(f.InPck) != intOf(wantAns) {
			return fmt.Sprintf("the frame of %s pairs request payload %d with response payload %d; on that port request %d was written and response %d came back",
				o.outPorts[f.OutPort].name, intOf(f.OutPck), intOf(f.InPck), intOf(wantReq), intOf(wantAns)), o.gallina
		}
	}
	return "", o.gallina
}

// deterministicRelease19: five breakpoints (one per process), a request of each process paused at its breakpoint,
// then the debugger is closed / every breakpoint removed / every breakpoint closed: every request must be answered
func deterministicRelease19(how string) string {
	n := node.NewOneToOneNode(func(_ *process.Process, in *packet.Packet) (*packet.Packet, *packet.Packet) {
		return packet.New(types.NewInt(intOf(in) + 1)), nil
	})
	defer n.Close()
	sb := &symbol.Symbol{Spec: &spec.Meta{ID: uuid.Must(uuid.NewV7()), Kind: "k", Namespace: "default", Name: "n"}, Node: n}
	sb.In("in")
	sb.Out("out")
	agent := uruntime.NewAgent()
	defer agent.Close()
	_ = agent.Load(sb)
	dbg := uruntime.NewDebugger(agent)
	defer dbg.Close()
	src := port.NewOut()
	src.Link(n.In("in"))
	defer src.Close()
	const k = 5
	var procs []*process.Process
	var bps []*uruntime.Breakpoint
	answers := make(chan int, k)
	for i := 0; i < k; i++ {
		proc := process.New()
		defer proc.Exit(nil)
		procs = append(procs, proc)
		bp := uruntime.NewBreakpoint(uruntime.BreakWithProcess(proc))
		bps = append(bps, bp)
		dbg.AddBreakpoint(bp)
	}
	for i, proc := range procs {
		i := i
		sw := src.Open(proc)
		go func() {
			for p := range sw.Receive() {
				_ = p
				answers <- i
			}
		}()
		go sw.Write(packet.New(types.NewInt(10 * (i + 1))))
	}
	// every request is paused at its breakpoint
	deadline := time.Now().Add(3 * time.Second)
	for _, bp := range bps {
		for bp.Frame() == nil {
			if time.Now().After(deadline) {
				return "set-up: a request did not reach its breakpoint"
			}
			time.Sleep(200 * time.Microsecond)
		}
	}
	switch how {
	case "close":
		dbg.Close()
	case "remove":
		for _, bp := range bps {
			dbg.RemoveBreakpoint(bp)
		}
	default:
		for _, bp := range bps {
			bp.Close()
		}
	}
	got := map[int]bool{}
	timeout := time.After(3 * time.Second)
	for len(got) < k {
		select {
		case i := <-answers:
			got[i] = true
		case <-timeout:
			var missing []int
			for i := 0; i < k; i++ {
				if !got[i] {
					missing = append(missing, i+1)
				}
			}
			for _, bp := range bps {
				bp.Close() // let the stuck packets go, so that the clean-up below cannot wait for them
			}
			return fmt.Sprintf("five breakpoints (one per process), one request paused at each, then %s: the requests paused at breakpoint(s) %v were not resumed within 3s", how, missing)
		}
	}
	return ""
}


// ---- the agent across processes (Runtime/AgentProc.v) ----
type bareNode19 struct {
	in  *port.InPort
	out *port.OutPort
}

func (n *bareNode19) In(name string) *port.InPort {
	if name == node.PortIn {
		return n.in
	}
	return nil
}
func (n *bareNode19) Out(name string) *port.OutPort {
	if name == node.PortOut {
		return n.out
	}
	return nil
}
func (n *bareNode19) Close() error { n.in.Close(); n.out.Close(); return nil }

// agentProcCase19 drives a real Agent with 2-3 processes on the in-port of one loaded symbol: open (the agent's open hook
// accepts the process and instruments its reader), request, answer, exit - also with requests still unanswered, whose drop
// notices the closing reader hands out through the packet hooks after the agent's exit hook has run.  The harness's own
// hooks on the reader give the firing sequence; after every operation it reads, for every process, whether the agent lists
// it and the frames it holds for it.
func agentProcCase19(r *rand.Rand, hist map[string]int) (g string, input any, fail string) {
	defer func() {
		if p := recover(); p != nil {
			fail = fmt.Sprintf("agent/process scenario panicked: %v", p)
			if g == "" {
				g = "[]"
			}
		}
	}()
	bn := &bareNode19{in: port.NewIn(), out: port.NewOut()}
	sb := &symbol.Symbol{Spec: &spec.Meta{ID: uuid.Must(uuid.NewV7()), Kind: "k", Namespace: "default", Name: "ap"}, Node: bn}
	in := sb.In(node.PortIn)
	sb.Out(node.PortOut)
	agent := uruntime.NewAgent()
	if err := agent.Load(sb); err != nil {
		return "[]", nil, "agent.Load: " + err.Error()
	}
	defer agent.Close()
	src := port.NewOut()
	src.Link(in)
	defer src.Close()

	np := 2 + r.Intn(2)
	procs := make([]*process.Process, np)
	writers := make([]*packet.Writer, np)
	readers := make([]*packet.Reader, np)
	pending := make([][]*packet.Packet, np) // requests taken from the reader, not yet answered
	dead := make([]bool, np)
	for i := range procs {
		procs[i] = process.New()
	}
	defer func() {
		for _, p := range procs {
			p.Exit(nil)
		}
	}()
	var mu sync.Mutex
	ids := map[*packet.Packet]int{}
	idOf := func(p *packet.Packet) int {
		if id, ok := ids[p]; ok {
			return id
		}
		ids[p] = len(ids) + 1
		return ids[p]
	}
	var evs []string
	fire := func(i int, out bool) packet.Hook {
		return packet.HookFunc(func(p *packet.Packet) {
			mu.Lock()
			defer mu.Unlock()
			k := "HIn"
			if out {
				k = "HOut"
			}
			evs = append(evs, fmt.Sprintf("PFire %d (%s (mkport 0 false 0) %d)", i, k, idOf(p)))
		})
	}
	var steps, ops []string
	observe := func() {
		time.Sleep(300 * time.Microsecond)
		mu.Lock()
		defer mu.Unlock()
		var obs []string
		for i, p := range procs {
			var fr []string
			for _, f := range agent.Frames(p.ID()) {
				a, b := "None", "None"
				if f.InPck != nil {
					a = fmt.Sprintf("(Some %d)", idOf(f.InPck))
				}
				if f.OutPck != nil {
					b = fmt.Sprintf("(Some %d)", idOf(f.OutPck))
				}
				fr = append(fr, fmt.Sprintf("(%s, %s)", a, b))
			}
			obs = append(obs, fmt.Sprintf("(%d, %s, %s)", i, gal.Bool(agent.Process(p.ID()) != nil), gal.List(fr)))
		}
		steps = append(steps, fmt.Sprintf("(%s, %s)", gal.List(evs), gal.List(obs)))
		evs = nil
	}
	nops := 6 + r.Intn(14)
	for s := 0; s < nops; s++ {
		i := r.Intn(np)
		switch c := r.Intn(10); {
		case dead[i]:
			continue
		case writers[i] == nil:
			mu.Lock()
			evs = append(evs, fmt.Sprintf("PAccept %d", i))
			mu.Unlock()
			writers[i] = src.Open(procs[i])
			readers[i] = in.Open(procs[i])
			readers[i].AddInboundHook(fire(i, false))
			readers[i].AddOutboundHook(fire(i, true))
			ops = append(ops, fmt.Sprintf("open p%d", i))
			hist["ap-open"]++
		case c < 4:
			if writers[i].Write(packet.New(types.NewInt(s))) != 1 {
				return "[]", ops, "a write to an open in-port was not accepted"
			}
			select {
			case p := <-readers[i].Read():
				pending[i] = append(pending[i], p)
			case <-time.After(2 * time.Second):
				return "[]", ops, "a written request did not reach the reader"
			}
			ops = append(ops, fmt.Sprintf("request p%d", i))
			hist["ap-request"]++
		case c < 7 && len(pending[i]) > 0:
			pending[i] = pending[i][1:]
			readers[i].Receive(packet.New(types.NewInt(1000 + s)))
			ops = append(ops, fmt.Sprintf("answer p%d", i))
			hist["ap-answer"]++
		case c >= 8:
			mu.Lock()
			evs = append(evs, fmt.Sprintf("PExit %d", i))
			mu.Unlock()
			if len(pending[i]) > 0 {
				hist["ap-exit-with-unanswered"]++
			}
			procs[i].Exit(nil)
			dead[i] = true
			time.Sleep(time.Millisecond)
			ops = append(ops, fmt.Sprintf("exit p%d (%d unanswered)", i, len(pending[i])))
			hist["ap-exit"]++
		default:
			continue
		}
		observe()
	}
	return gal.List(steps), ops, ""
}
