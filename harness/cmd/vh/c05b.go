package main

// C05, part 2 (measured on the implementation, not modelled): workloads on a real workflow
// src -> A -> B -> sink (one-to-one nodes with held actions), optionally observed by the debug agent,
// with requests completed or abandoned at random points, followed by the exit of every process.
// Afterwards nothing created for the processes may be left: no reader/writer in any port, no entry in
// a node's tracer, no process or frame in the agent, no goroutine of the engine still running.

import (
	"bytes"
	"fmt"
	"math/rand"
	"strings"
	"sync"
	"time"

	"github.com/gofrs/uuid"
	"github.com/siyul-park/uniflow/pkg/node"
	"github.com/siyul-park/uniflow/pkg/packet"
	"github.com/siyul-park/uniflow/pkg/port"
	"github.com/siyul-park/uniflow/pkg/process"
	uruntime "github.com/siyul-park/uniflow/pkg/runtime"
	"github.com/siyul-park/uniflow/pkg/spec"
	"github.com/siyul-park/uniflow/pkg/symbol"
	"github.com/siyul-park/uniflow/pkg/types"
)

// engineGoroutines lists the goroutines that are inside engine code (a frame of uniflow/pkg).
func engineGoroutines() []string {
	buf := allStacks()
	n := len(buf)
	var res []string
	for _, blk := range bytes.Split(buf[:n], []byte("\n\n")) {
		s := string(blk)
		if strings.Contains(s, "siyul-park/uniflow/pkg/") {
			lines := strings.Split(s, "\n")
			top := ""
			for _, l := range lines {
				if strings.Contains(l, "siyul-park/uniflow/pkg/") && !strings.HasPrefix(l, "\t") {
					top = l
					break
				}
			}
			res = append(res, strings.TrimSpace(lines[0])+" "+strings.TrimSpace(top))
		}
	}
	return res
}

func workload05(r *rand.Rand, hist map[string]int) (desc []string, fail string, known string) {
	defer func() {
		if p := recover(); p != nil {
			fail = fmt.Sprintf("panic: %v", p)
		}
	}()
	w := newWF03()
	withAgent := r.Intn(2) == 0
	var agent *uruntime.Agent
	var syms []*symbol.Symbol
	if withAgent {
		agent = uruntime.NewAgent()
		for i, n := range []*struct{ name string }{{"A"}, {"B"}} {
			sb := &symbol.Symbol{Spec: &spec.Meta{ID: uuid.Must(uuid.NewV7()), Kind: "k", Namespace: "default", Name: n.name}}
			if i == 0 {
				sb.Node = w.a
			} else {
				sb.Node = w.b
			}
			// the agent instruments the ports a symbol already knows
			sb.In(node.PortIn)
			sb.Out(node.PortOut)
			sb.Out(node.PortError)
			_ = agent.Load(sb)
			syms = append(syms, sb)
		}
		desc = append(desc, "agent attached")
		hist["wl_agent"]++
	}
	base := len(engineGoroutines())
	basePumps := 0
	for _, g := range engineGoroutines() {
		if strings.Contains(g, "pkg/packet.NewWriter.func") {
			basePumps++
		}
	}

	np := 1 + r.Intn(3)
	var procs []*process.Process
	type pstate struct {
		wr       *packet.Writer
		sinkReqs []*packet.Packet
		answers  int
		mu       sync.Mutex
	}
	states := map[*process.Process]*pstate{}
	var wg sync.WaitGroup
	for i := 0; i < np; i++ {
		proc := process.New()
		procs = append(procs, proc)
		st := &pstate{wr: w.src.Open(proc)}
		states[proc] = st
		sr := w.sink.Open(proc)
		wg.Add(2)
		go func() { // the requester keeps reading its responses
			defer wg.Done()
			for range st.wr.Receive() {
				st.mu.Lock()
				st.answers++
				st.mu.Unlock()
			}
		}()
		go func() { // the sink collects what reaches it
			defer wg.Done()
			for req := range sr.Read() {
				st.mu.Lock()
				st.sinkReqs = append(st.sinkReqs, req)
				st.mu.Unlock()
			}
		}()
	}
	sent := 0
	for _, proc := range procs {
		k := 1 + r.Intn(3)
		for j := 0; j < k; j++ {
			states[proc].wr.Write(packet.New(types.NewInt(1 + j)))
			sent++
		}
	}
	desc = append(desc, fmt.Sprintf("%d processes, %d requests", np, sent))
	// move things along at random
	steps := r.Intn(4 * (sent + 1))
	for s := 0; s < steps; s++ {
		switch r.Intn(3) {
		case 0:
			select {
			case w.release["A"] <- struct{}{}:
				desc = append(desc, "release A")
			default:
			}
		case 1:
			select {
			case w.release["B"] <- struct{}{}:
				desc = append(desc, "release B")
			default:
			}
		case 2:
			proc := procs[r.Intn(len(procs))]
			st := states[proc]
			st.mu.Lock()
			var req *packet.Packet
			if len(st.sinkReqs) > 0 {
				req = st.sinkReqs[0]
				st.sinkReqs = st.sinkReqs[1:]
			}
			st.mu.Unlock()
			if req != nil {
				w.sink.Open(proc).Receive(packet.New(types.NewInt(intOf(req) + 10000)))
				desc = append(desc, "sink answers")
			}
		}
		time.Sleep(time.Duration(r.Intn(300)) * time.Microsecond)
	}
	// drain entered notifications so that actions never block on them
	stop := make(chan struct{})
	go func() {
		for {
			select {
			case <-w.entered:
			case <-stop:
				return
			}
		}
	}()
	defer close(stop)
	// let the listener goroutines the engine has just spawned reach their loops (see finding F-C05-d: a
	// process that exits before a listener goroutine has opened its port leaves that listener with the
	// closed sentinel instead of the writer its packets went through)
	for stable, last := 0, -1; stable < 4; {
		time.Sleep(300 * time.Microsecond)
		n := len(engineGoroutines())
		if n == last {
			stable++
		} else {
			stable, last = 0, n
		}
	}
	// every process exits (some mid-flight), then whatever action is still held returns
	for _, i := range r.Perm(len(procs)) {
		exited := make(chan struct{})
		go func() { procs[i].Exit(nil); close(exited) }()
		select {
		case <-exited:
		case <-time.After(3 * time.Second):
			return append(desc, "a process exits"), "Process.Exit did not return within 3s (an exit hook is wedged)", ""
		}
	}
	desc = append(desc, "all processes exit")
	hist["wl_total"]++
	relStop := make(chan struct{})
	go func() {
		for {
			for _, c := range w.release {
				select {
				case c <- struct{}{}:
				default:
				}
			}
			select {
			case <-relStop:
				return
			case <-time.After(200 * time.Microsecond):
			}
		}
	}()
	defer close(relStop)

	ports := map[string]interface{ VerifLen() int }{
		"src": w.src, "sink": w.sink,
		"A.in": w.a.In("in"), "A.out": w.a.Out("out"), "A.error": w.a.Out("error"),
		"B.in": w.b.In("in"), "B.out": w.b.Out("out"), "B.error": w.b.Out("error"),
	}
	onlyTracerAndPumps := false
	check := func() string {
		onlyTracerAndPumps = false
		for name, p := range ports {
			if n := p.VerifLen(); n != 0 {
				return fmt.Sprintf("port %s still holds %d endpoint(s) of terminated processes", name, n)
			}
		}
		tracerMsg := ""
		if n := w.a.VerifTracer().VerifLen(); n != 0 {
			tracerMsg = fmt.Sprintf("the tracer of node A still holds %d entries", n)
		} else if n := w.b.VerifTracer().VerifLen(); n != 0 {
			tracerMsg = fmt.Sprintf("the tracer of node B still holds %d entries", n)
		}
		if agent != nil {
			if n := len(agent.Processes()); n != 0 {
				return fmt.Sprintf("the agent still lists %d process(es)", n)
			}
			for _, proc := range procs {
				if agent.Process(proc.ID()) != nil {
					return "the agent still knows a terminated process"
				}
				if n := len(agent.Frames(proc.ID())); n != 0 {
					return fmt.Sprintf("the agent still holds %d frame(s) of a terminated process", n)
				}
			}
		}
		gs := engineGoroutines()
		if tracerMsg != "" || len(gs) > base {
			// everything else is clean: is what is left exactly the signature of F-C05-d (unresolved tracer
			// entries of a writer nobody listens to, and writer pumps waiting to hand over their drop notices)?
			pumps := 0
			for _, g := range gs {
				if strings.Contains(g, "pkg/packet.NewWriter.func") {
					pumps++
				}
			}
			// F-C05-d always leaves a writer pump behind (its drop notices are never read); tracer entries
			// alone are a different residue
			onlyTracerAndPumps = len(gs)-pumps <= base-basePumps && pumps > basePumps
			if tracerMsg != "" {
				return tracerMsg
			}
			return fmt.Sprintf("%d goroutine(s) of the engine still running (%d before the workload), e.g. %s", len(gs), base, gs[len(gs)-1])
		}
		return ""
	}
	deadline := time.Now().Add(3 * time.Second)
	for {
		fail = check()
		if fail == "" || time.Now().After(deadline) {
			break
		}
		time.Sleep(500 * time.Microsecond)
	}
	// the harness's own goroutines end with the endpoints
	done := make(chan struct{})
	go func() { wg.Wait(); close(done) }()
	select {
	case <-done:
	case <-time.After(2 * time.Second):
		if fail == "" {
			fail = "a requester or sink goroutine is still blocked on an endpoint of a terminated process (its channel was not closed)"
		}
	}
	if agent != nil {
		for _, sb := range syms {
			_ = agent.Unload(sb)
		}
		agent.Close()
	}
	if fail != "" && onlyTracerAndPumps {
		known = "F-C05-d"
	}
	_ = w.a.Close()
	_ = w.b.Close()
	w.sink.Close()
	w.src.Close()
	return desc, fail, known
}

// witnessC05d forces the schedule of finding F-C05-d at port level: a listener of an out-port (written like
// the nodes' backward loops: open the port, range over the writer's responses) whose goroutine gets to run
// only after the process has exited is handed the closed sentinel, not the writer the process's packet went
// through; that writer's drop notice is never read and its pump goroutine stays.
func witnessC05d() (bool, string) {
	countPumpsW := func() int {
		n := 0
		for _, g := range engineGoroutines() {
			if strings.Contains(g, "pkg/packet.NewWriter.func") {
				n++
			}
		}
		return n
	}
	out, in := port.NewOut(), port.NewIn()
	out.Link(in)
	gate := make(chan struct{})
	got := make(chan *packet.Writer, 1)
	out.AddListener(port.ListenFunc(func(proc *process.Process) {
		<-gate
		w := out.Open(proc)
		got <- w
		for range w.Receive() {
		}
	}))
	before := countPumpsW()
	proc := process.New()
	w := out.Open(proc)
	rd := in.Open(proc)
	if w.Write(packet.New(types.NewInt(1))) != 1 {
		return false, "witness: the write was not accepted"
	}
	select {
	case <-rd.Read():
	case <-time.After(2 * time.Second):
		return false, "witness: the request did not arrive"
	}
	proc.Exit(nil)
	close(gate)
	var w2 *packet.Writer
	select {
	case w2 = <-got:
	case <-time.After(2 * time.Second):
		return false, "witness: the listener did not open the port"
	}
	time.Sleep(200 * time.Millisecond)
	stuck := countPumpsW() > before
	late := w2 != w
	// clean up: read what nobody read
	go func() {
		for range w.Receive() {
		}
	}()
	out.Close()
	in.Close()
	return late && stuck, fmt.Sprintf("listener got the writer of the packet: %v; writer pump still waiting 200ms after exit: %v", !late, stuck)
}

var _ = port.NewIn

// probeExitDuringWrite05 forces one schedule on a bare out-port -> in-port pair: the process exits while its
// reader still owes an answer, the drop notice Reader.Close issues is held at the top of Writer.receive
// (verif gate), and meanwhile another goroutine writes on the same writer.  Neither the write nor the exit
// may wait for the held notice.
func probeExitDuringWrite05() string { return probeTeardownDuringWrite("exit") }

// how: "exit" (process exit), "reader" (Reader.Close), "port" (InPort.Close)
func probeTeardownDuringWrite(how string) string {
	out, in := port.NewOut(), port.NewIn()
	out.Link(in)
	proc := process.New()
	w := out.Open(proc)
	r := in.Open(proc)
	go func() {
		for range w.Receive() {
		}
	}()
	if w.Write(packet.New(types.NewInt(1))) != 1 {
		return "probe: the write was not accepted"
	}
	if recvTimeout(r.Read()) == nil {
		return "probe: the request did not arrive"
	}
	g := theGate
	g.mu.Lock()
	g.w, g.active, g.parked = w, true, nil
	g.mu.Unlock()
	releaseAll := func() {
		g.mu.Lock()
		g.active = false
		g.w = nil
		ps := g.parked
		g.parked = nil
		g.mu.Unlock()
		for _, p := range ps {
			select {
			case <-p.release:
			default:
				close(p.release)
			}
		}
	}
	defer releaseAll()
	exitDone := make(chan struct{})
	go func() {
		switch how {
		case "reader":
			r.Close()
		case "port":
			in.Close()
		default:
			proc.Exit(nil)
		}
		close(exitDone)
	}()
	if !g.waitParked(1) {
		return "process exit with a request outstanding at a reader: no drop notice reached the writer within 5s"
	}
	wrote := make(chan int, 1)
	go func() { wrote <- w.Write(packet.New(types.NewInt(2))) }()
	fail := ""
	select {
	case <-wrote:
	case <-time.After(2 * time.Second):
		fail = "a Write on the writer does not return while the reader it is linked to is being closed (" + how + "): the closing reader notifies the writer with its own lock held; the two wait for each other"
	}
	releaseAll()
	select {
	case <-exitDone:
	case <-time.After(2 * time.Second):
		if fail == "" {
			fail = "the teardown (" + how + ") did not return within 2s although every drop notice was delivered"
		}
	}
	if fail == "" {
		out.Close()
		in.Close()
	}
	return fail
}

func runC05Workflows(seed int64, tier string) map[string]any {
	r := rand.New(rand.NewSource(seed + 7))
	n := 60
	if tier == "thorough" {
		n = 240
	}
	hist := map[string]int{}
	out := map[string]any{"workloads": n}
	for i := 0; i < n; i++ {
		desc, fail, known := workload05(r, hist)
		if fail != "" && known != "" {
			hist["wl_known_"+known]++
			continue
		}
		if fail != "" {
			out["failure"] = "after the workload and the exit of every process: " + fail
			out["failing_workload"] = desc
			break
		}
	}
	if _, bad := out["failure"]; !bad {
		if f := probeExitDuringWrite05(); f != "" {
			out["failure"] = f
			out["failing_workload"] = []string{"out-port linked to in-port", "write (accepted, unanswered)", "process exit in one goroutine; the reader's drop notice held at the top of Writer.receive", "write on the same writer from another goroutine"}
		}
	}
	if _, bad := out["failure"]; !bad {
		if f := probeAgentExitDuringOpen05(); f != "" {
			out["failure"] = f
			out["failing_workload"] = []string{"a symbol loaded into the agent", "an open hook that runs ahead of the agent's exits the process while its in-port is being opened", "Agent.Processes / Agent.Frames afterwards"}
		}
	}
	if ok, detail := witnessC05d(); ok {
		out["known_confirmed"] = []string{"F-C05-d"}
		out["F-C05-d_witness"] = detail
	} else {
		out["F-C05-d_witness"] = "not confirmed: " + detail
	}
	out["workloads_hitting_F-C05-d"] = hist["wl_known_F-C05-d"]
	out["workloads_with_agent"] = hist["wl_agent"]
	out["workloads_run"] = hist["wl_total"]
	out["workload_rule"] = "src -> A -> B -> sink with held actions, 1-3 processes with 1-3 requests each, random releases / sink answers, then every process exits mid-flight; " +
		"within 3s: every port's per-process map empty, both tracers empty, agent lists no process and no frame, engine goroutine count back to its value before the workload"
	return out
}

// probeAgentExitDuringOpen05: a process terminates after a port found it alive and before the agent's open hook sees
// it.  Whatever the agent recorded for it must be gone once the open returns: no process listed, no frame.
func probeAgentExitDuringOpen05() (fail string) {
	defer func() {
		if p := recover(); p != nil {
			fail = fmt.Sprintf("agent exit-during-open probe panicked: %v", p)
		}
	}()
	n := node.NewOneToOneNode(nil)
	sb := &symbol.Symbol{Spec: &spec.Meta{ID: uuid.Must(uuid.NewV7()), Kind: "k", Namespace: "default", Name: "probe"}, Node: n}
	in := sb.In(node.PortIn)
	sb.Out(node.PortOut)
	agent := uruntime.NewAgent()
	if err := agent.Load(sb); err != nil {
		return "agent.Load: " + err.Error()
	}
	dying := process.New()
	in.AddOpenHook(port.OpenHookFunc(func(proc *process.Process) { // registered last, so it runs first
		if proc == dying {
			proc.Exit(nil)
		}
	}))
	opened := make(chan struct{})
	go func() { in.Open(dying); close(opened) }()
	select {
	case <-opened:
	case <-time.After(2 * time.Second):
		return "opening a port for a process that terminates during the open does not return while the agent is attached"
	}
	time.Sleep(2 * time.Millisecond)
	if agent.Process(dying.ID()) != nil || len(agent.Processes()) != 0 {
		return "the agent still lists a process that terminated while its port was being opened"
	}
	if n := len(agent.Frames(dying.ID())); n != 0 {
		return fmt.Sprintf("the agent holds %d frame(s) of a process that terminated while its port was being opened", n)
	}
	_ = agent.Unload(sb)
	agent.Close()
	_ = sb.Close()
	return ""
}
