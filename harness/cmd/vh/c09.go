package main

import (
	"context"
	"errors"
	"fmt"
	"math/rand"
	"sort"
	"strconv"
	"strings"
	"sync"
	"time"

	"github.com/siyul-park/uniflow/pkg/hook"
	"github.com/siyul-park/uniflow/pkg/node"
	"github.com/siyul-park/uniflow/pkg/runtime"
	"github.com/siyul-park/uniflow/pkg/scheme"
	"github.com/siyul-park/uniflow/pkg/spec"
	"github.com/siyul-park/uniflow/pkg/store"
	"github.com/siyul-park/uniflow/pkg/symbol"
	"verif/harness/gal"
)

func init() { runners["C09"] = runC09 }

type c09Spec struct {
	spec.Meta `json:",inline"`
	Body      int `json:"body"`
	Copy      any `json:"copy,omitempty"`
}

// ---- a store whose streams report when their consumer is idle ----
type qstore struct {
	store.Store
	mu        sync.Mutex
	delivered int
	idle      bool
	streams   int
	gate      chan struct{} // when non-nil, the next Find parks on it (one shot)
	parked    chan struct{}
}

type qstream struct {
	store.Stream
	q *qstore
}

func (q *qstore) Watch(ctx context.Context, filter any) (store.Stream, error) {
	s, err := q.Store.Watch(ctx, filter)
	if err != nil {
		return nil, err
	}
	q.mu.Lock()
	q.streams++
	q.mu.Unlock()
	return &qstream{Stream: s, q: q}, nil
}

func (q *qstore) Find(ctx context.Context, filter any, opts ...store.FindOptions) (store.Cursor, error) {
	c, err := q.Store.Find(ctx, filter, opts...)
	q.mu.Lock()
	g, p := q.gate, q.parked
	q.gate, q.parked = nil, nil
	q.mu.Unlock()
	if g != nil {
		close(p)
		<-g
	}
	return c, err
}

func (s *qstream) Next(ctx context.Context) bool {
	s.q.mu.Lock()
	s.q.idle = true
	s.q.mu.Unlock()
	ok := s.Stream.Next(ctx)
	s.q.mu.Lock()
	s.q.idle = false
	if ok {
		s.q.delivered++
	}
	s.q.mu.Unlock()
	return ok
}

func (q *qstore) settled(emitted int) bool {
	q.mu.Lock()
	defer q.mu.Unlock()
	return q.idle && q.delivered == emitted
}

// ---- the world ----
type w09 struct {
	rt       *runtime.Runtime
	specs    *qstore
	vals     *qstore
	mu       sync.Mutex
	events   []string
	specNS   map[int]int
	valNS    map[int]int
	ns       int
	emitS    int
	emitV    int
	watching bool
	cancel   context.CancelFunc
	done     chan struct{}
}

func ns9(n int) string { return fmt.Sprintf("n%d", n) }
func vname(n int) string {
	if n == 0 {
		return ""
	}
	return fmt.Sprintf("v%d", n)
}
func kind9(k int) string { return fmt.Sprintf("k%d", k) }

func newW09(ns int, env bool, watch bool) *w09 {
	w := &w09{specNS: map[int]int{}, valNS: map[int]int{}, ns: ns}
	s := scheme.New()
	s.AddKnownType(kind9(1), &c09Spec{})
	s.AddCodec(kind9(1), scheme.CodecFunc(func(spec.Spec) (node.Node, error) { return node.NewOneToOneNode(nil), nil }))
	s.AddKnownType(kind9(2), &c09Spec{})
	s.AddCodec(kind9(2), scheme.CodecFunc(func(spec.Spec) (node.Node, error) { return nil, errors.New("refused") }))
	h := hook.New()
	h.AddLoadHook(symbol.LoadFunc(func(sb *symbol.Symbol) error {
		w.mu.Lock()
		w.events = append(w.events, fmt.Sprintf("ELoad %d", uidOf(sb.ID())))
		w.mu.Unlock()
		return nil
	}))
	h.AddUnloadHook(symbol.UnloadFunc(func(sb *symbol.Symbol) error {
		w.mu.Lock()
		w.events = append(w.events, fmt.Sprintf("EUnload %d", uidOf(sb.ID())))
		w.mu.Unlock()
		return nil
	}))
	w.specs = &qstore{Store: store.New()}
	w.vals = &qstore{Store: store.New()}
	cfg := runtime.Config{Namespace: ns9(ns), Hook: h, Scheme: s, SpecStore: w.specs, ValueStore: w.vals}
	if env {
		cfg.Environment = map[string]string{"d": "7"}
	}
	w.rt = runtime.New(cfg)
	if watch {
		ctx, cancel := context.WithCancel(context.Background())
		w.cancel = cancel
		if err := w.rt.Watch(ctx); err != nil {
			panic(err)
		}
		w.done = make(chan struct{})
		go func() { _ = w.rt.Reconcile(ctx); close(w.done) }()
		w.watching = true
	}
	return w
}

func (w *w09) close() {
	if w.cancel != nil {
		w.cancel()
		<-w.done
	}
	_ = w.rt.Close(context.Background())
}

type eref9 struct{ key, id, name int }
type spec9 struct {
	id, ns, kind, body int
	env                []eref9
	copy               int
}
type val9 struct{ id, ns, name, data int }

func (p spec9) doc() map[string]any {
	d := map[string]any{"id": uid(p.id).String(), "kind": kind9(p.kind), "namespace": ns9(p.ns), "body": p.body}
	env := map[string]any{}
	for _, e := range p.env {
		m := map[string]any{"data": "{{ .d }}"}
		if e.id != 0 {
			m["id"] = uid(e.id).String()
		}
		if e.name != 0 {
			m["name"] = vname(e.name)
		}
		env[fmt.Sprintf("K%d", e.key)] = m
	}
	if len(env) > 0 {
		d["env"] = env
	}
	if p.copy < len(p.env) {
		d["copy"] = fmt.Sprintf("{{ .K%d }}", p.env[p.copy].key)
	}
	return d
}

func (p spec9) gallina() string {
	var es []string
	for _, e := range p.env {
		es = append(es, fmt.Sprintf("mkeref %d %d %d", e.key, e.id, e.name))
	}
	return fmt.Sprintf("(mkspec %d %d %d %d %s %d)", p.id, p.ns, p.kind, p.body, gal.List(es), p.copy)
}

func (w *w09) putSpec(p spec9) {
	ctx := context.Background()
	if _, ok := w.specNS[p.id]; ok {
		d := p.doc()
		delete(d, "id")
		upd := map[string]any{"$set": d}
		un := map[string]any{}
		if _, ok := d["env"]; !ok {
			un["env"] = 1
		}
		if _, ok := d["copy"]; !ok {
			un["copy"] = 1
		}
		if len(un) > 0 {
			upd["$unset"] = un
		}
		if _, err := w.specs.Update(ctx, map[string]any{"id": uid(p.id).String()}, upd); err != nil {
			panic(err)
		}
	} else if err := w.specs.Insert(ctx, []any{p.doc()}); err != nil {
		panic(err)
	}
	w.specNS[p.id] = p.ns
	if p.ns == w.ns {
		w.emitS++
	}
}

func (w *w09) delSpec(id int) {
	if _, err := w.specs.Delete(context.Background(), map[string]any{"id": uid(id).String()}); err != nil {
		panic(err)
	}
	if ns, ok := w.specNS[id]; ok && ns == w.ns {
		w.emitS++
	}
	delete(w.specNS, id)
}

func (w *w09) putVal(v val9) {
	ctx := context.Background()
	d := map[string]any{"id": uid(v.id).String(), "namespace": ns9(v.ns), "data": map[string]any{"d": v.data}}
	if v.name != 0 {
		d["name"] = vname(v.name)
	}
	if _, ok := w.valNS[v.id]; ok {
		delete(d, "id")
		upd := map[string]any{"$set": d}
		if v.name == 0 {
			upd["$unset"] = map[string]any{"name": 1}
		}
		if _, err := w.vals.Update(ctx, map[string]any{"id": uid(v.id).String()}, upd); err != nil {
			panic(err)
		}
	} else if err := w.vals.Insert(ctx, []any{d}); err != nil {
		panic(err)
	}
	w.valNS[v.id] = v.ns
	if v.ns == w.ns {
		w.emitV++
	}
}

func (w *w09) delVal(id int) {
	if _, err := w.vals.Delete(context.Background(), map[string]any{"id": uid(id).String()}); err != nil {
		panic(err)
	}
	if ns, ok := w.valNS[id]; ok && ns == w.ns {
		w.emitV++
	}
	delete(w.valNS, id)
}

// settle waits until Reconcile has consumed every event and is waiting for the next one.
func (w *w09) settle() bool {
	deadline := time.Now().Add(5 * time.Second)
	for time.Now().Before(deadline) {
		if w.specs.settled(w.emitS) && w.vals.settled(w.emitV) {
			return true
		}
		time.Sleep(50 * time.Microsecond)
	}
	return false
}

func num9(v any) (int, bool) {
	switch x := v.(type) {
	case int:
		return x, true
	case int64:
		return int(x), true
	case float64:
		return int(x), true
	case string:
		n, err := strconv.Atoi(x)
		return n, err == nil
	}
	return 0, false
}

func nsOf9(s string) int {
	n, _ := strconv.Atoi(strings.TrimPrefix(s, "n"))
	return n
}

// observe renders the table as the model's observation type, sorted by id.
func (w *w09) observe() string {
	tb := w.rt.VerifTable()
	var rows []struct {
		id int
		s  string
	}
	for _, id := range tb.Keys() {
		sb := tb.Lookup(id)
		if sb == nil {
			continue
		}
		u := &spec.Unstructured{}
		if err := spec.As(sb.Spec, u); err != nil {
			panic(err)
		}
		var keys []string
		for k := range u.Env {
			keys = append(keys, k)
		}
		sort.Strings(keys)
		var es []string
		for _, k := range keys {
			e := u.Env[k]
			kn, _ := strconv.Atoi(strings.TrimPrefix(k, "K"))
			name := 0
			if e.Name != "" {
				name, _ = strconv.Atoi(strings.TrimPrefix(e.Name, "v"))
			}
			d := "None"
			if n, ok := num9(e.Data); ok {
				d = fmt.Sprintf("(Some %d)", n)
			}
			es = append(es, fmt.Sprintf("mkbent %d %d %d %s", kn, uidOf(e.ID), name, d))
		}
		body, _ := num9(u.Fields["body"])
		cp := "None"
		if c, ok := u.Fields["copy"]; ok {
			if n, ok := num9(c); ok {
				cp = fmt.Sprintf("(Some (Some %d))", n)
			} else {
				cp = "(Some None)"
			}
		}
		kind, _ := strconv.Atoi(strings.TrimPrefix(u.Kind, "k"))
		rows = append(rows, struct {
			id int
			s  string
		}{uidOf(id), fmt.Sprintf("mkobs %d %d %d %d %s %s %s", uidOf(id), nsOf9(u.Namespace), kind, body, gal.List(es), cp, gal.Bool(sb.Node != nil))})
	}
	sort.Slice(rows, func(i, j int) bool { return rows[i].id < rows[j].id })
	var ss []string
	for _, r := range rows {
		ss = append(ss, r.s)
	}
	return gal.List(ss)
}

func (w *w09) takeEvents() string {
	w.mu.Lock()
	evs := w.events
	w.events = nil
	w.mu.Unlock()
	idOf := func(s string) int { n, _ := strconv.Atoi(s[strings.Index(s, " ")+1:]); return n }
	sort.SliceStable(evs, func(i, j int) bool { return idOf(evs[i]) < idOf(evs[j]) })
	return gal.List(evs)
}

func filter9(ids []int) (any, string) {
	if ids == nil {
		return nil, "FAll"
	}
	var fs []any
	var gs []string
	for k, id := range ids {
		// both forms callers use: the id as text, or as a uuid.UUID (the form the runtime's own event handlers use)
		if (id+k+len(ids))%2 == 0 {
			fs = append(fs, map[string]any{"id": uid(id).String()})
		} else {
			fs = append(fs, map[string]any{"id": uid(id)})
		}
		gs = append(gs, fmt.Sprint(id))
	}
	if len(fs) == 1 {
		return fs[0], "(FIds " + gal.List(gs) + ")"
	}
	return map[string]any{"$or": fs}, "(FIds " + gal.List(gs) + ")"
}

// ---- generator ----
type g09 struct {
	r     *rand.Rand
	specs map[int]spec9
	vals  map[int]val9
	names map[[2]int]int // (ns, name) -> value id holding it
}

func (g *g09) genSpec(id int) spec9 {
	r := g.r
	p := spec9{id: id, ns: 1 + r.Intn(2), kind: r.Intn(3), body: 1 + r.Intn(3)}
	if r.Intn(4) > 0 {
		p.ns = 1
	}
	if r.Intn(3) > 0 {
		p.kind = 1
	}
	if old, ok := g.specs[id]; ok {
		p.ns = old.ns // a spec keeps its namespace for life
		if r.Intn(2) == 0 {
			p.kind = old.kind
		}
	}
	ne := []int{0, 1, 1, 2, 3}[r.Intn(5)]
	for k := 1; k <= ne; k++ {
		e := eref9{key: k}
		switch r.Intn(6) {
		case 0, 1:
			e.id = 1 + r.Intn(4)
		case 2, 3:
			e.name = 1 + r.Intn(3)
		case 4:
			e.id, e.name = 1+r.Intn(4), 1+r.Intn(3)
			if v, ok := g.vals[e.id]; ok && r.Intn(3) > 0 {
				e.name = v.name
			}
		}
		p.env = append(p.env, e)
	}
	p.copy = r.Intn(ne + 1)
	return p
}

func (g *g09) genVal(id int) (val9, bool) {
	r := g.r
	v := val9{id: id, ns: 1 + r.Intn(2), name: r.Intn(4), data: 10 + r.Intn(5)}
	if r.Intn(4) > 0 {
		v.ns = 1
	}
	if old, ok := g.vals[id]; ok {
		v.ns = old.ns
		if r.Intn(2) == 0 {
			v.name = old.name
		}
	}
	if v.name != 0 {
		if holder, ok := g.names[[2]int{v.ns, v.name}]; ok && holder != id {
			return v, false // names stay unique per namespace
		}
	}
	return v, true
}

func (g *g09) applyVal(v val9) {
	if old, ok := g.vals[v.id]; ok && old.name != 0 {
		delete(g.names, [2]int{old.ns, old.name})
	}
	g.vals[v.id] = v
	if v.name != 0 {
		g.names[[2]int{v.ns, v.name}] = v.id
	}
}

func history9(r *rand.Rand, hist map[string]int) (string, any, string, bool) {
	g := &g09{r: r, specs: map[int]spec9{}, vals: map[int]val9{}, names: map[[2]int]int{}}
	mode := r.Intn(3) // 0 direct loads, 1 reconcile one change at a time, 2 reconcile in bursts
	env := r.Intn(2) == 0
	ns := 1
	if r.Intn(5) == 0 {
		ns = 2
	}
	w := newW09(ns, env, mode != 0)
	defer w.close()
	var ops, obs, in []string
	hist[fmt.Sprintf("mode-%d", mode)]++
	maxTab := 0
	fail := ""
	record := func(withEvents bool) {
		t := w.observe()
		if n := strings.Count(t, "mkobs"); n > maxTab {
			maxTab = n
		}
		e := w.takeEvents()
		if withEvents {
			obs = append(obs, fmt.Sprintf("Some (%s, Some %s)", t, e))
		} else {
			obs = append(obs, fmt.Sprintf("Some (%s, None)", t))
		}
	}
	if mode != 0 {
		// what was loaded before Watch: nothing; start from an initial Load like the CLI does
		_ = w.rt.Load(context.Background(), nil)
		ops = append(ops, "OLoad FAll")
		record(true)
	}
	steps := 5 + r.Intn(10)
	pending := 0
	for i := 0; i < steps; i++ {
		c := r.Intn(10)
		changed := false
		switch {
		case c < 3:
			id := 1 + r.Intn(4)
			p := g.genSpec(id)
			g.specs[id] = p
			w.putSpec(p)
			ops = append(ops, "OSpecPut "+p.gallina())
			in = append(in, fmt.Sprintf("spec-put %+v", p))
			hist["spec-put"]++
			changed = true
			if mode == 1 && p.ns == ns {
				obs = append(obs, "None")
				ops = append(ops, "OProcSpec")
			}
		case c < 4:
			id := 1 + r.Intn(4)
			old, ok := g.specs[id]
			delete(g.specs, id)
			w.delSpec(id)
			ops = append(ops, fmt.Sprintf("OSpecDel %d", id))
			in = append(in, fmt.Sprintf("spec-del %d", id))
			hist["spec-del"]++
			changed = true
			if mode == 1 && ok && old.ns == ns {
				obs = append(obs, "None")
				ops = append(ops, "OProcSpec")
			}
		case c < 7:
			id := 1 + r.Intn(4)
			v, ok := g.genVal(id)
			if !ok {
				continue
			}
			g.applyVal(v)
			w.putVal(v)
			ops = append(ops, fmt.Sprintf("OValPut (mkval %d %d %d %d)", v.id, v.ns, v.name, v.data))
			in = append(in, fmt.Sprintf("val-put %+v", v))
			hist["val-put"]++
			changed = true
			if mode == 1 && v.ns == ns {
				obs = append(obs, "None")
				ops = append(ops, "OProcVal")
			}
		case c < 8:
			id := 1 + r.Intn(4)
			old, ok := g.vals[id]
			if ok && old.name != 0 {
				delete(g.names, [2]int{old.ns, old.name})
			}
			delete(g.vals, id)
			w.delVal(id)
			ops = append(ops, fmt.Sprintf("OValDel %d", id))
			in = append(in, fmt.Sprintf("val-del %d", id))
			hist["val-del"]++
			changed = true
			if mode == 1 && ok && old.ns == ns {
				obs = append(obs, "None")
				ops = append(ops, "OProcVal")
			}
		default:
			if mode == 0 {
				var ids []int
				if r.Intn(3) == 0 {
					for k := 0; k < 1+r.Intn(2); k++ {
						ids = append(ids, 1+r.Intn(4))
					}
				}
				f, gf := filter9(ids)
				_ = w.rt.Load(context.Background(), f)
				ops = append(ops, "OLoad "+gf)
				in = append(in, "load "+gf)
				hist["load"]++
				record(true)
				if r.Intn(2) == 0 { // and once more, nothing having changed
					_ = w.rt.Load(context.Background(), f)
					ops = append(ops, "OLoad "+gf)
					hist["load-again"]++
					record(true)
				}
			} else if mode == 2 && pending > 0 {
				if !w.settle() {
					fail = "Reconcile did not settle"
				}
				ops = append(ops, "ODrain")
				in = append(in, "drain")
				hist["drain"]++
				record(false)
				pending = 0
			}
			continue
		}
		if changed {
			switch mode {
			case 0:
				obs = append(obs, "None")
			case 1:
				if !w.settle() {
					fail = "Reconcile did not settle"
				}
				record(true)
			case 2:
				obs = append(obs, "None")
				pending++
			}
		}
	}
	switch mode {
	case 0:
		_ = w.rt.Load(context.Background(), nil)
		ops = append(ops, "OLoad FAll")
		record(true)
		_ = w.rt.Load(context.Background(), nil)
		ops = append(ops, "OLoad FAll")
		record(true)
	case 2:
		if !w.settle() {
			fail = "Reconcile did not settle"
		}
		ops = append(ops, "ODrain")
		record(false)
	}
	envG := "None"
	if env {
		envG = "(Some 7)"
	}
	gcase := fmt.Sprintf("((mkcfg %d %s), %s, %s)", ns, envG, gal.List(ops), gal.List(obs))
	return gcase, map[string]any{"mode": mode, "ns": ns, "env": env, "ops": in}, fail, maxTab >= 2
}

// raceProbe: two Loads overlap: the first has read the spec and is parked reading values when the
// spec changes and the second Load runs; when both are done the table must hold the stored spec.
func raceProbe(r *rand.Rand) string {
	w := newW09(1, false, false)
	defer w.close()
	b1, b2 := 1+r.Intn(3), 4+r.Intn(3)
	w.putVal(val9{id: 1, ns: 1, name: 1, data: 11})
	p := spec9{id: 1, ns: 1, kind: 1, body: b1, env: []eref9{{key: 1, id: 1}}, copy: 1}
	w.putSpec(p)
	_ = w.rt.Load(context.Background(), nil)
	gate, parked := make(chan struct{}), make(chan struct{})
	w.vals.mu.Lock()
	w.vals.gate, w.vals.parked = gate, parked
	w.vals.mu.Unlock()
	p0 := p
	p0.body = 9
	w.putSpec(p0) // first Load will read body 9
	doneA := make(chan struct{})
	go func() { _ = w.rt.Load(context.Background(), map[string]any{"id": uid(1).String()}); close(doneA) }()
	select {
	case <-parked:
	case <-time.After(2 * time.Second):
		return "race probe: the first Load never reached the value store"
	}
	p.body = b2
	w.putSpec(p)
	doneB := make(chan struct{})
	go func() { _ = w.rt.Load(context.Background(), map[string]any{"id": uid(1).String()}); close(doneB) }()
	select {
	case <-doneB:
	case <-time.After(20 * time.Millisecond): // a serialised Load waits for the first one
	}
	close(gate)
	<-doneA
	<-doneB
	sb := w.rt.VerifTable().Lookup(uid(1))
	if sb == nil {
		return "race probe: symbol missing"
	}
	u := &spec.Unstructured{}
	_ = spec.As(sb.Spec, u)
	if body, _ := num9(u.Fields["body"]); body != b2 {
		return fmt.Sprintf("two overlapping Loads left body %d in the table while the store holds %d", body, b2)
	}
	return ""
}

func (q *qstore) arm() (gate, parked chan struct{}) {
	gate, parked = make(chan struct{}), make(chan struct{})
	q.mu.Lock()
	q.gate, q.parked = gate, parked
	q.mu.Unlock()
	return
}

func (w *w09) bodyAndData(id int) (present bool, body int, data string) {
	sb := w.rt.VerifTable().Lookup(uid(id))
	if sb == nil {
		return false, 0, ""
	}
	u := &spec.Unstructured{}
	_ = spec.As(sb.Spec, u)
	body, _ = num9(u.Fields["body"])
	for _, e := range u.Env {
		data = fmt.Sprint(e.Data)
	}
	return true, body, data
}

// raceProbe2 (Reconcile running): the handler of a value event is reloading a symbol - it has
// read the spec and is parked reading the values - when the spec is deleted.  When everything has
// settled the table must not hold the symbol.
func raceProbe2(r *rand.Rand) string {
	w := newW09(1, false, true)
	defer w.close()
	w.putVal(val9{id: 1, ns: 1, name: 1, data: 11})
	w.putSpec(spec9{id: 1, ns: 1, kind: 1, body: 1 + r.Intn(3), env: []eref9{{key: 1, id: 1}}, copy: 1})
	if !w.settle() {
		return "race probe 2: no settling after the set-up"
	}
	if ok, _, _ := w.bodyAndData(1); !ok {
		return "race probe 2: symbol missing after the set-up"
	}
	gate, parked := w.vals.arm()
	w.putVal(val9{id: 1, ns: 1, name: 1, data: 12}) // the handler finds the value (parks: not yet), then Load parks
	select {
	case <-parked:
	case <-time.After(2 * time.Second):
		return "race probe 2: the value handler never reached the value store"
	}
	// parked in the handler's own lookup of the value: let it go and park the Load that follows
	gate2, parked2 := w.vals.arm()
	close(gate)
	select {
	case <-parked2:
	case <-time.After(2 * time.Second):
		return "race probe 2: the reload never reached the value store"
	}
	w.delSpec(1)
	time.Sleep(20 * time.Millisecond) // the spec handler runs (or waits for the Load in flight)
	close(gate2)
	if !w.settle() {
		return "race probe 2: Reconcile did not settle"
	}
	if ok, _, _ := w.bodyAndData(1); ok {
		return "a spec deleted while a value-triggered reload was in flight is still in the table after everything settled"
	}
	return ""
}

// raceProbe3 (Reconcile running): a spec that refers to a value by name is being loaded - the Load
// has read the values, the value does not exist yet - when the value is inserted and its event
// handled.  When everything has settled the symbol must be bound to the value.
func raceProbe3(r *rand.Rand) string {
	w := newW09(1, false, true)
	defer w.close()
	d := 10 + r.Intn(5)
	gate, parked := w.vals.arm()
	w.putSpec(spec9{id: 1, ns: 1, kind: 1, body: 1, env: []eref9{{key: 1, name: 1}}, copy: 1})
	select {
	case <-parked:
	case <-time.After(2 * time.Second):
		return "race probe 3: the Load never reached the value store"
	}
	w.putVal(val9{id: 1, ns: 1, name: 1, data: d})
	deadline := time.Now().Add(30 * time.Millisecond) // the value handler runs (or waits for the Load in flight)
	for time.Now().Before(deadline) && !w.vals.settled(w.emitV) {
		time.Sleep(time.Millisecond)
	}
	close(gate)
	if !w.settle() {
		return "race probe 3: Reconcile did not settle"
	}
	ok, _, data := w.bodyAndData(1)
	if !ok {
		return "race probe 3: symbol missing"
	}
	if data != fmt.Sprint(d) {
		return fmt.Sprintf("a value inserted while the Load of a spec naming it was in flight is not bound after everything settled (data %q, value %d)", data, d)
	}
	return ""
}

func runC09(seed int64, n int, tier string) *Result {
	r := rand.New(rand.NewSource(seed))
	res := &Result{
		Prop:     "C09",
		Requires: []string{"Runtime.Load", "Runtime.CheckLoad"},
		CaseType: "c9case",
		OkFn:     "c9ok",
		Rule: "a runtime (namespace n1 or n2, with or without Config.Environment) over real stores and a real scheme (kinds: unregistered, registered with a codec, registered with a refusing codec); " +
			"a history of 5-14 spec put (insert or in-place update) / spec delete / value put / value delete over 4 ids and two namespaces, environment entries by id, by name, by both, anonymous; " +
			"mode 0: Load(nil) or Load(ids) at random points, often twice in a row; mode 1: Watch+Reconcile, waiting after each change until both streams are consumed; mode 2: bursts of changes then wait; " +
			"observed: the table (id, namespace, kind, body, environment entries, built field, has-node) through the verif accessor and the load/unload hook log per step; " +
			"plus three scripted overlaps per 25 cases (two Loads; a value-triggered reload in flight while its spec is deleted; a Load in flight while the value it names is inserted); non-trivial = two or more symbols in the table at some point; distinct by rendered case",
		Hist: map[string]int{},
	}
	for i := 0; i < n; i++ {
		g, in, fail, nt := history9(r, res.Hist)
		if fail == "" && i%25 == 0 {
			fail = raceProbe(r)
			res.Hist["race-probe"]++
		}
		if fail == "" && i%25 == 5 {
			fail = raceProbe2(r)
			res.Hist["race-probe-2"]++
		}
		if fail == "" && i%25 == 10 {
			fail = raceProbe3(r)
			res.Hist["race-probe-3"]++
		}
		res.Cases = append(res.Cases, Case{Gallina: g, Input: in, Nontrivial: nt, OracleFail: fail})
	}
	return res
}
