package main

import (
	"errors"
	"fmt"
	"math/rand"
	"strconv"
	"strings"
	"sync"
	"time"

	"github.com/siyul-park/uniflow/pkg/packet"
	"github.com/siyul-park/uniflow/pkg/types"
	"verif/harness/gal"
)

func init() { runners["C01"] = runC01 }

// ---- the receive gate: drop notifications spawned by Reader.Close are parked until released ----
type parked struct {
	r       *packet.Reader
	release chan struct{}
	done    chan struct{}
}

type gate struct {
	w      *packet.Writer // the writer of the history in progress
	mu     sync.Mutex
	own    map[*packet.Packet]bool // packets the harness itself passes to Reader.Receive
	parked []*parked
	active bool
}

var theGate = &gate{own: map[*packet.Packet]bool{}}

func init() {
	packet.VerifReceive = func(w *packet.Writer, r *packet.Reader, pck *packet.Packet) func() {
		g := theGate
		g.mu.Lock()
		if !g.active || g.own[pck] || g.w != w {
			g.mu.Unlock()
			return nil
		}
		p := &parked{r: r, release: make(chan struct{}), done: make(chan struct{})}
		g.parked = append(g.parked, p)
		g.mu.Unlock()
		<-p.release
		return func() { close(p.done) }
	}
}

func (g *gate) waitParked(n int) bool {
	deadline := time.Now().Add(5 * time.Second)
	for time.Now().Before(deadline) {
		g.mu.Lock()
		k := len(g.parked)
		g.mu.Unlock()
		if k >= n {
			return true
		}
		time.Sleep(50 * time.Microsecond)
	}
	return false
}

// ---- payload rendering ----
func payOf(v types.Value) string {
	switch x := v.(type) {
	case nil:
		return "PNil"
	case types.Error:
		var atoms []string
		for _, line := range strings.Split(x.Error(), "\n") {
			switch {
			case line == "dropped packet":
				atoms = append(atoms, "0%Z")
			case strings.HasPrefix(line, "e"):
				n, _ := strconv.Atoi(line[1:])
				atoms = append(atoms, fmt.Sprintf("%d%%Z", n))
			default:
				atoms = append(atoms, "(-1)%Z")
			}
		}
		return "(PErr " + gal.List(atoms) + ")"
	case types.Slice:
		var es []string
		for _, e := range x.Values() {
			es = append(es, payOf(e))
		}
		return "(PSlice " + gal.List(es) + ")"
	case types.Integer:
		return fmt.Sprintf("(PAtom %s)", gal.Z(x.Int()))
	}
	return "(PAtom (-7)%Z)"
}

func pktOf(p *packet.Packet) string {
	if p == nil {
		return "(Pk (PAtom (-99)%Z))" // a nil packet: never produced by the model
	}
	if p == packet.None {
		return "PNone"
	}
	return "(Pk " + payOf(p.Payload()) + ")"
}

// ---- the request/response ledger (the specification, identity-based instead of positional) ----
type lcol struct {
	reader    int
	accepting bool
	answered  bool
	ans       string // rendered packet
}

type lwrite struct {
	serial int
	cols   []lcol
}

type ledger struct {
	linked  []int
	closed  map[int]bool
	owed    map[int][]int // reader -> serials it owes, oldest first
	dropq   map[int][]int // reader -> serials whose drop notice is outstanding
	pending []*lwrite
	emitted []string
	next    int
	wdone   bool
}

func newLedger() *ledger {
	return &ledger{closed: map[int]bool{}, owed: map[int][]int{}, dropq: map[int][]int{}}
}

func joinRendered(ps []string) string {
	if len(ps) == 0 {
		return "PNone"
	}
	if len(ps) == 1 {
		return ps[0]
	}
	var errs, pls []string
	for _, p := range ps {
		switch {
		case p == "PNone":
		case strings.HasPrefix(p, "(Pk (PErr ["):
			inner := strings.TrimSuffix(strings.TrimPrefix(p, "(Pk (PErr ["), "]))")
			if inner != "" {
				errs = append(errs, strings.Split(inner, "; ")...)
			}
		default:
			pls = append(pls, strings.TrimSuffix(strings.TrimPrefix(p, "(Pk "), ")"))
		}
	}
	hasErr := false
	for _, p := range ps {
		if strings.HasPrefix(p, "(Pk (PErr ") {
			hasErr = true
		}
	}
	if hasErr {
		return "(Pk (PErr " + gal.List(errs) + "))"
	}
	switch len(pls) {
	case 0:
		return "PNone"
	case 1:
		return "(Pk " + pls[0] + ")"
	}
	return "(Pk (PSlice " + gal.List(pls) + "))"
}

func (l *ledger) flush(unlink bool) {
	for len(l.pending) > 0 {
		w := l.pending[0]
		var ps []string
		for _, c := range w.cols {
			if c.accepting && !c.answered {
				return
			}
			if c.accepting {
				ps = append(ps, c.ans)
			} else {
				ps = append(ps, "PNone")
			}
		}
		if len(w.cols) == 0 && unlink {
			l.emitted = append(l.emitted, "(Pk (PErr [0%Z]))")
		} else {
			l.emitted = append(l.emitted, joinRendered(ps))
		}
		l.pending = l.pending[1:]
	}
}

func (l *ledger) isLinked(r int) bool {
	for _, x := range l.linked {
		if x == r {
			return true
		}
	}
	return false
}

func (l *ledger) file(r, serial int, ans string) bool {
	if l.wdone || !l.isLinked(r) {
		return false
	}
	for _, w := range l.pending {
		if w.serial != serial {
			continue
		}
		for i := range w.cols {
			if w.cols[i].reader == r && w.cols[i].accepting && !w.cols[i].answered {
				w.cols[i].answered, w.cols[i].ans = true, ans
				l.flush(false)
				return true
			}
		}
	}
	return false
}

type wopK int

const (
	kLink wopK = iota
	kUnlink
	kWrite
	kAnswer
	kCloseReader
	kDeliver
	kCloseWriter
)

type wop struct {
	k   wopK
	r   int
	pay types.Value
	ans *packet.Packet
	i   int
}

func randPayload(r *rand.Rand, depth int) types.Value {
	switch r.Intn(8) {
	case 0:
		return nil
	case 1:
		return types.NewError(errors.New("e" + strconv.Itoa(1+r.Intn(3))))
	case 2:
		if depth > 0 {
			return types.NewSlice(randPayload(r, depth-1), randPayload(r, depth-1))
		}
	}
	return types.NewInt(1 + r.Intn(5))
}

// history01 runs one history on a real writer and real readers.
func history01(r *rand.Rand, hist map[string]int) (string, any, string, bool, string) {
	g := theGate
	nr := 1 + r.Intn(4)
	w := packet.NewWriter()
	// the gate holds notices for THIS writer only: a straggler of an earlier history (a goroutine spawned by a
	// Reader.Close of its clean-up that reaches the gate late) must pass, not be counted as one of ours
	g.mu.Lock()
	g.own = map[*packet.Packet]bool{}
	g.parked = nil
	g.w = w
	g.active = true
	g.mu.Unlock()
	defer func() {
		g.mu.Lock()
		g.active = false
		g.w = nil
		for _, p := range g.parked {
			close(p.release)
		}
		g.parked = nil
		g.mu.Unlock()
	}()

	var emitted []*packet.Packet
	w.AddInboundHook(packet.HookFunc(func(p *packet.Packet) { emitted = append(emitted, p) }))
	taken, takeFail := 0, ""
	takeSome := func(k int) { // the requester takes up to k of the responses queued for it, in order
		for ; k > 0 && taken < len(emitted) && takeFail == ""; k-- {
			select {
			case q, ok := <-w.Receive():
				if !ok {
					takeFail = fmt.Sprintf("Receive() closed with response %d of %d still owed", taken, len(emitted))
				} else if q != emitted[taken] {
					takeFail = fmt.Sprintf("response %d read from Receive() is not the packet the writer queued at that position", taken)
				}
			case <-time.After(3 * time.Second):
				takeFail = fmt.Sprintf("response %d of %d never came out of Receive()", taken, len(emitted))
			}
			taken++
		}
	}
	readers := make([]*packet.Reader, nr)
	inboxes := make([][]string, nr)
	for i := range readers {
		i := i
		readers[i] = packet.NewReader()
		readers[i].AddInboundHook(packet.HookFunc(func(p *packet.Packet) { inboxes[i] = append(inboxes[i], payOf(p.Payload())) }))
	}
	// harness-side bookkeeping only to choose enabled, interesting operations
	linked := map[int]bool{}
	closed := map[int]bool{}
	owed := make([]int, nr)
	notices := 0 // outstanding deferred drop notices, by reader in gate order
	var noticeOf []int
	wclosed := false
	accepted := 0
	staleRelink := false
	unlinkedOwing := map[int]bool{}

	n := 3 + r.Intn(14)
	// scripted openings: rows of different lengths (a link between two writes) followed by an unlink or a close
	var script []wop
	if nr >= 2 && r.Intn(3) == 0 {
		a, b := 0, 1
		if r.Intn(2) == 0 {
			a, b = 1, 0
		}
		script = []wop{{k: kLink, r: a}, {k: kWrite}, {k: kLink, r: b}, {k: kWrite}}
		if r.Intn(2) == 0 {
			script = append(script, wop{k: kWrite})
		}
		x := []int{a, b}[r.Intn(2)]
		switch r.Intn(3) {
		case 0:
			script = append(script, wop{k: kUnlink, r: x})
		case 1:
			script = append(script, wop{k: kCloseReader, r: x})
		}
		script = append(script, wop{k: kAnswer, r: a}, wop{k: kAnswer, r: a}, wop{k: kAnswer, r: b})
		n += len(script)
	}
	var steps, input []string
	crash := ""
	led := newLedger()
	ledFail := ""
	ledCheck := func(s int, what string, got, want any) {
		if ledFail == "" && got != want {
			ledFail = fmt.Sprintf("step %d (%s): implementation returned %v, the request/response ledger says %v", s, what, got, want)
		}
	}
	for s := 0; s < n && crash == ""; s++ {
		var o wop
		if s < len(script) {
			o = script[s]
			switch o.k {
			case kWrite:
				o.pay = randPayload(r, 1)
			case kAnswer:
				o.ans = packet.New(randPayload(r, 0))
			}
		} else {
			type cand struct {
				o wop
				w int
			}
			var cs []cand
			nlinked := len(linked)
			for i := 0; i < nr; i++ {
				if !linked[i] {
					wt := 6
					if nlinked >= 2 {
						wt = 2
					}
					cs = append(cs, cand{wop{k: kLink, r: i}, wt})
				} else {
					cs = append(cs, cand{wop{k: kUnlink, r: i}, 2}, cand{wop{k: kLink, r: i}, 1})
				}
				if owed[i] > 0 && !closed[i] {
					cs = append(cs, cand{wop{k: kAnswer, r: i}, 8})
				} else {
					cs = append(cs, cand{wop{k: kAnswer, r: i}, 1})
				}
				if !closed[i] {
					wt := 1
					if owed[i] > 0 {
						wt = 3
					}
					cs = append(cs, cand{wop{k: kCloseReader, r: i}, wt})
				}
			}
			if nlinked > 0 {
				cs = append(cs, cand{wop{k: kWrite}, 10})
			} else {
				cs = append(cs, cand{wop{k: kWrite}, 1})
			}
			for i := 0; i < notices; i++ {
				cs = append(cs, cand{wop{k: kDeliver, i: i}, 5})
			}
			cs = append(cs, cand{wop{k: kCloseWriter}, 1})
			total := 0
			for _, c := range cs {
				total += c.w
			}
			x := r.Intn(total)
			for _, c := range cs {
				if x < c.w {
					o = c.o
					break
				}
				x -= c.w
			}
			switch o.k {
			case kWrite:
				o.pay = randPayload(r, 1)
			case kAnswer:
				switch r.Intn(6) {
				case 0:
					o.ans = packet.None
				case 1:
					o.ans = packet.New(packet.ErrDroppedPacket)
				default:
					o.ans = packet.New(randPayload(r, 1))
				}
			}
		}
		var res, opG, opS string
		func() {
			defer func() {
				if p := recover(); p != nil {
					crash = fmt.Sprintf("step %d panicked: %v", s, p)
				}
			}()
			switch o.k {
			case kLink:
				ok := w.Link(readers[o.r])
				if ok && unlinkedOwing[o.r] && owed[o.r] > 0 {
					staleRelink = true
				}
				lok := !led.wdone && !led.isLinked(o.r)
				if lok {
					led.linked = append(led.linked, o.r)
				}
				ledCheck(s, "link", ok, lok)
				if ok {
					linked[o.r] = true
				}
				res, opG, opS = "WBool "+gal.Bool(ok), fmt.Sprintf("WLink %d", o.r), fmt.Sprintf("link %d", o.r)
				hist["link"]++
			case kUnlink:
				ok := w.Unlink(readers[o.r])
				lok := !led.wdone && led.isLinked(o.r)
				if lok {
					for i, x := range led.linked {
						if x == o.r {
							led.linked = append(led.linked[:i:i], led.linked[i+1:]...)
							break
						}
					}
					for _, pw := range led.pending {
						for i, c := range pw.cols {
							if c.reader == o.r {
								pw.cols = append(pw.cols[:i:i], pw.cols[i+1:]...)
								break
							}
						}
					}
					led.flush(true)
				}
				ledCheck(s, "unlink", ok, lok)
				if ok {
					delete(linked, o.r)
					if owed[o.r] > 0 {
						unlinkedOwing[o.r] = true
					}
				}
				res, opG, opS = "WBool "+gal.Bool(ok), fmt.Sprintf("WUnlink %d", o.r), fmt.Sprintf("unlink %d", o.r)
				hist["unlink"]++
			case kWrite:
				cnt := w.Write(packet.New(o.pay))
				lcnt := 0
				if !led.wdone {
					lw := &lwrite{serial: led.next}
					for _, x := range led.linked {
						acc := !led.closed[x]
						if acc {
							lcnt++
						}
						lw.cols = append(lw.cols, lcol{reader: x, accepting: acc})
					}
					if lcnt > 0 {
						for _, x := range led.linked {
							if !led.closed[x] {
								led.owed[x] = append(led.owed[x], led.next)
							}
						}
						led.pending = append(led.pending, lw)
						led.next++
					}
				}
				ledCheck(s, "write", cnt, lcnt)
				if cnt > 0 {
					accepted++
					for i := range readers {
						if linked[i] && !closed[i] {
							owed[i]++
						}
					}
				}
				res, opG, opS = fmt.Sprintf("WCount %d", cnt), "WWrite "+payOf(o.pay), "write "+payOf(o.pay)
				hist[fmt.Sprintf("write_%d", min(cnt, 3))]++
			case kAnswer:
				g.mu.Lock()
				g.own[o.ans] = true
				g.mu.Unlock()
				ok := readers[o.r].Receive(o.ans)
				if owed[o.r] > 0 {
					owed[o.r]--
				}
				lok := false
				if q := led.owed[o.r]; len(q) > 0 {
					led.owed[o.r] = q[1:]
					lok = led.file(o.r, q[0], pktOf(o.ans))
				}
				ledCheck(s, "answer", ok, lok)
				res, opG, opS = "WBool "+gal.Bool(ok), fmt.Sprintf("WAnswer %d %s", o.r, pktOf(o.ans)), fmt.Sprintf("answer %d %s", o.r, pktOf(o.ans))
				hist["answer_"+gal.Bool(ok)]++
			case kCloseReader:
				before := owed[o.r]
				wasClosed := closed[o.r]
				readers[o.r].Close()
				if !led.closed[o.r] {
					led.closed[o.r] = true
					led.dropq[o.r] = append(led.dropq[o.r], led.owed[o.r]...)
					led.owed[o.r] = nil
				}
				if !wasClosed {
					closed[o.r] = true
					for i := 0; i < before; i++ {
						noticeOf = append(noticeOf, o.r)
					}
					notices += before
					owed[o.r] = 0
					if !g.waitParked(notices) {
						crash = fmt.Sprintf("step %d: drop notices of reader %d never reached the writer", s, o.r)
					}
				}
				res, opG, opS = "WUnit", fmt.Sprintf("WCloseReader %d", o.r), fmt.Sprintf("closereader %d", o.r)
				hist["closereader"]++
			case kDeliver:
				// release one parked notice of the reader the i-th notice belongs to
				rd := readers[noticeOf[o.i]]
				g.mu.Lock()
				var p *parked
				for j, q := range g.parked {
					if q.r == rd {
						p = q
						g.parked = append(g.parked[:j:j], g.parked[j+1:]...)
						break
					}
				}
				g.mu.Unlock()
				if p == nil {
					crash = fmt.Sprintf("step %d: no parked notice for reader %d", s, noticeOf[o.i])
					return
				}
				close(p.release)
				select {
				case <-p.done:
				case <-time.After(5 * time.Second):
					crash = fmt.Sprintf("step %d: delivering a drop notice never returned", s)
				}
				if q := led.dropq[noticeOf[o.i]]; len(q) > 0 {
					led.dropq[noticeOf[o.i]] = q[1:]
					led.file(noticeOf[o.i], q[0], "(Pk (PErr [0%Z]))")
				}
				noticeOf = append(noticeOf[:o.i:o.i], noticeOf[o.i+1:]...)
				notices--
				res, opG, opS = "WUnit", fmt.Sprintf("WDeliverDrop %d", o.i), fmt.Sprintf("deliverdrop %d", o.i)
				hist["deliverdrop"]++
			case kCloseWriter:
				w.Close()
				wclosed = true
				if !led.wdone {
					for range led.pending {
						led.emitted = append(led.emitted, "(Pk (PErr [0%Z]))")
					}
					led.pending, led.linked, led.wdone = nil, nil, true
				}
				res, opG, opS = "WUnit", "WCloseWriter", "closewriter"
				hist["closewriter"]++
			}
		}()
		if crash != "" {
			break
		}
		steps = append(steps, fmt.Sprintf("(%s, %s)", opG, res))
		input = append(input, opS)
		// the requester collects some of what is waiting for it at arbitrary points (so that responses queue up
		// behind a partly emptied queue), and the rest at the end
		if takeFail == "" && r.Intn(3) == 0 {
			takeSome(1 + r.Intn(2))
		}
	}
	_ = wclosed
	// observed response stream (synchronous inbound hook) and, when the writer is still open, the pump's output
	var em []string
	for _, p := range emitted {
		em = append(em, pktOf(p))
	}
	fail := crash
	if fail == "" && ledFail == "" && strings.Join(em, ";") != strings.Join(led.emitted, ";") {
		ledFail = fmt.Sprintf("response stream %v differs from the request/response ledger %v", em, led.emitted)
	}
	if fail == "" {
		fail = ledFail
	}
	if fail == "" {
		takeSome(len(emitted))
		fail = takeFail
	}
	// requests seen by each reader (inbound hooks, synchronous)
	var inbox []string
	for i, rd := range readers {
		inbox = append(inbox, gal.List(inboxes[i]))
		if !closed[i] {
			rd.Close()
		}
	}
	if !wclosed {
		w.Close()
	}
	known := ""
	if staleRelink {
		known = "F-C01-d"
	}
	gl := fmt.Sprintf("(mk01 %d [\n  %s]\n  %s\n  %s)", nr, strings.Join(steps, ";\n  "), gal.List(em), gal.List(inbox))
	return gl, input, fail, accepted >= 2 && len(emitted) >= 1, known
}

func runC01(seed int64, n int, tier string) *Result {
	r := rand.New(rand.NewSource(seed))
	res := &Result{
		Prop:     "C01",
		Requires: []string{"Packet.Writer", "Packet.CheckWriter"},
		CaseType: "c01case",
		OkFn:     "c01ok",
		Rule: "histories of 3-16 steps over {link, unlink, write, answer, close reader, deliver a deferred drop notice, close writer} on one real Writer " +
			"and 1-4 real Readers driven from one goroutine; the goroutines Reader.Close spawns are parked in the verif gate and released one by one; " +
			"payloads: nil, ints, errors, nested slices; answers include packet.None and dropped-packet errors; observed: every call's result and the " +
			"response stream (inbound hook; equal to what Receive() yields); non-trivial = at least two accepted writes and one response; distinct by step list",
		Hist: map[string]int{},
	}
	fails := 0
	for i := 0; i < n; i++ {
		g, in, fail, nt, known := history01(r, res.Hist)
		res.Cases = append(res.Cases, Case{Gallina: g, Input: in, Nontrivial: nt, Key: fmt.Sprint(in), OracleFail: fail, Known: known})
		if fail != "" && known == "" {
			if fails++; fails >= 5 {
				break // the failing inputs are recorded; waiting out the deadlines of hundreds more adds nothing
			}
		}
	}
	return res
}
