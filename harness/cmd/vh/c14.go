package main

import (
	"fmt"
	"math"

	"github.com/siyul-park/uniflow/pkg/types"
	"verif/harness/gal"
	"verif/harness/gen"
)

func init() { runners["C14"] = runC14 }

type obs14 struct {
	eq     bool
	cmp    int64
	ha, hb uint64
}

func observe14(a, b types.Value) obs14 {
	return obs14{types.Equal(a, b), gal.Sign(types.Compare(a, b)), types.HashOf(a), types.HashOf(b)}
}

func isContainer(v types.Value) bool {
	switch v.(type) {
	case types.Map, types.Slice:
		return true
	}
	return false
}

// laws14 checks the algebraic laws directly on the implementation for a triple.
func laws14(a, b, c types.Value) string {
	eq, cmp := types.Equal, func(x, y types.Value) int64 { return gal.Sign(types.Compare(x, y)) }
	for _, v := range []types.Value{a, b, c} {
		if !eq(v, v) {
			return "Equal not reflexive"
		}
		if cmp(v, v) != 0 {
			return "Compare(v,v) != 0"
		}
	}
	pairs := [][2]types.Value{{a, b}, {b, c}, {a, c}}
	for _, p := range pairs {
		x, y := p[0], p[1]
		if eq(x, y) != eq(y, x) {
			return "Equal not symmetric"
		}
		if cmp(x, y) != -cmp(y, x) {
			return "Compare not antisymmetric"
		}
		if eq(x, y) && cmp(x, y) != 0 {
			return "Equal but Compare != 0"
		}
		if eq(x, y) && types.HashOf(x) != types.HashOf(y) {
			return "Equal but hashes differ"
		}
	}
	if eq(a, b) && eq(b, c) && !eq(a, c) {
		return "Equal not transitive"
	}
	perms := [][3]types.Value{{a, b, c}, {a, c, b}, {b, a, c}, {b, c, a}, {c, a, b}, {c, b, a}}
	for _, p := range perms {
		if cmp(p[0], p[1]) <= 0 && cmp(p[1], p[2]) <= 0 && cmp(p[0], p[2]) > 0 {
			return "Compare not transitive"
		}
	}
	return ""
}

func runC14(seed int64, n int, tier string) *Result {
	g := gen.New(seed)
	res := &Result{
		Prop:     "C14",
		Requires: []string{"Value.Value", "Value.Check"},
		CaseType: "c14case",
		OkFn:     "c14ok",
		Rule: "triples (a, b, c): a random value of depth<=2, b a perturbation of a (same shape, one component changed, " +
			"other mutability, or an independent value), c a perturbation of b; each triple yields the pairs (a,b),(b,c),(a,c); " +
			"a pair is non-trivial when both sides have the same kind and are not the same object; distinct by rendered pair",
		Hist: map[string]int{},
	}
	for len(res.Cases) < n {
		depth := g.R.Intn(3)
		a := g.Value(depth)
		var b, c types.Value
		if g.R.Intn(4) == 0 {
			b = g.Value(depth)
		} else {
			b = g.Perturb(a, depth)
		}
		if g.R.Intn(4) == 0 {
			c = g.Value(depth)
		} else {
			c = g.Perturb(b, depth)
		}
		switch g.R.Intn(8) {
		case 0: // three errors, often related by wrapping
			pick := func() types.Value { return types.NewError(g.Errors[g.R.Intn(len(g.Errors))]) }
			a, b, c = pick(), pick(), pick()
			if g.R.Intn(2) == 0 {
				b = g.Perturb(a, 0)
			}
		case 1: // tiny maps over one collision class, nil and non-nil values, both mutabilities
			pick := func() types.Value {
				m := types.NewMapWithSize(0)
				for i := g.R.Intn(3); i >= 0; i-- {
					var v types.Value
					if g.R.Intn(2) == 0 {
						v = types.NewInt(g.R.Intn(2))
					}
					m.Set(g.CollidingKey(), v)
				}
				if g.R.Intn(2) == 0 {
					return m
				}
				return m.Immutable()
			}
			a, b, c = pick(), pick(), pick()
		case 2, 4: // three numbers of ONE kind from its boundary pool (differences that do not fit the width)
			k := g.R.Intn(10)
			if g.R.Intn(2) == 0 {
				k = []int{0, 4, 5, 9}[g.R.Intn(4)] // the widest kinds, where a difference overflows
			}
			pick := func() types.Value { return boundary14(k, g.R.Intn(7)) }
			a, b, c = pick(), pick(), pick()
		case 5: // slices (and maps of them) that differ only in elements whose hashes collide
			pick := func() types.Value {
				var es []types.Value
				for i := 0; i < 1+g.R.Intn(3); i++ {
					es = append(es, g.CollidingKey())
				}
				return types.NewSlice(es...)
			}
			a, b, c = pick(), pick(), pick()
			if g.R.Intn(3) == 0 {
				a, b = types.NewMap(types.NewString("k"), a), types.NewMap(types.NewString("k"), b)
			}
		case 3: // slices that share a stem (a value derived twice from the same value)
			stem := types.NewSlice(g.Value(0), g.Value(0), g.Value(0)).Append(g.Value(0))
			a = stem.Append(g.Value(0))
			b = stem.Append(g.Value(0))
			c = stem.Append(g.Value(0), g.Value(0))
		}
		fail := laws14(a, b, c)
		for _, p := range [][2]types.Value{{a, b}, {b, c}, {a, c}} {
			x, y := p[0], p[1]
			o1 := observe14(x, y)
			// purity probe: derive and mutate other maps from the operands, fill caches, re-evaluate
			for _, v := range []types.Value{x, y} {
				if m, ok := v.(types.Map); ok {
					d := m.Mutable()
					if d != m { // immutable operand: derive from it and mutate the derived maps only
						d.Set(types.NewString("zz"), types.NewInt(1))
						for k := range m.Range() {
							d.Set(k, types.NewInt(7))
						}
						d.Clear()
						_ = m.Set(types.NewString("zz"), types.NewInt(1))
					}
				}
			}
			// slices: whatever is derived from an operand (or twice from one stem derived from it) leaves it alone
			for _, v := range []types.Value{x, y} {
				if sl, ok := v.(types.Slice); ok && fail == "" {
					before := gal.OValue(sl)
					stem := sl.Append(types.NewInt(41))
					left := stem.Append(types.NewInt(42))
					lr, lh := gal.OValue(left), types.HashOf(left)
					right := stem.Append(types.NewInt(43))
					_ = sl.Prepend(types.NewInt(44))
					if sl.Len() > 0 {
						_ = sl.Set(0, types.NewInt(45))
						_ = sl.Sub(0, sl.Len()-1).Append(types.NewInt(46))
					}
					ref := types.NewSlice(append(sl.Values(), types.NewInt(41), types.NewInt(42))...)
					switch {
					case gal.OValue(sl) != before:
						fail = "a slice changed after values were derived from it"
					case gal.OValue(left) != lr || types.HashOf(left) != lh || !types.Equal(left, ref) || types.Compare(left, ref) != 0 || types.HashOf(left) != types.HashOf(ref):
						fail = "a slice derived by Append changed when a second value was derived from the same stem"
					case types.Equal(left, right) || types.Compare(left, right) == 0:
						fail = "two different slices derived from one stem compare equal"
					}
				}
			}
			o2 := observe14(x, y)
			f := fail
			if o1 != o2 {
				f = "result changed between two evaluations"
			}
			kx, ky := types.KindOf(x), types.KindOf(y)
			res.Hist[fmt.Sprintf("kind_%02d", kx)]++
			if o1.eq {
				res.Hist["equal_true"]++
			}
			res.Hist[fmt.Sprintf("cmp_%d", o1.cmp)]++
			if isContainer(x) || isContainer(y) {
				res.Hist["container"]++
			}
			gl := fmt.Sprintf("(mk14 %s %s %s %s %s %s)", gal.OValue(x), gal.OValue(y), gal.Bool(o1.eq), gal.Z(o1.cmp), gal.N(o1.ha), gal.N(o1.hb))
			res.Cases = append(res.Cases, Case{
				Gallina:    gl,
				Input:      map[string]any{"a": gal.OValue(x), "b": gal.OValue(y), "equal": o1.eq, "compare": o1.cmp, "hash_a": o1.ha, "hash_b": o1.hb},
				Nontrivial: kx == ky && x != nil,
				Key:        gal.OValue(x) + "|" + gal.OValue(y),
				OracleFail: f,
			})
		}
	}
	return res
}

// boundary14: the i-th boundary number (min, min+1, -1, 0, 1, max-1, max) of the k-th integer kind
func boundary14(k, i int) types.Value {
	sel := func(min, max int64) int64 { return []int64{min, min + 1, -1, 0, 1, max - 1, max}[i] }
	usel := func(max uint64) uint64 { return []uint64{0, 1, 2, max / 2, max/2 + 1, max - 1, max}[i] }
	switch k {
	case 0:
		return types.NewInt(int(sel(math.MinInt64, math.MaxInt64)))
	case 1:
		return types.NewInt8(int8(sel(math.MinInt8, math.MaxInt8)))
	case 2:
		return types.NewInt16(int16(sel(math.MinInt16, math.MaxInt16)))
	case 3:
		return types.NewInt32(int32(sel(math.MinInt32, math.MaxInt32)))
	case 4:
		return types.NewInt64(sel(math.MinInt64, math.MaxInt64))
	case 5:
		return types.NewUint(uint(usel(math.MaxUint64)))
	case 6:
		return types.NewUint8(uint8(usel(math.MaxUint8)))
	case 7:
		return types.NewUint16(uint16(usel(math.MaxUint16)))
	case 8:
		return types.NewUint32(uint32(usel(math.MaxUint32)))
	default:
		return types.NewUint64(usel(math.MaxUint64))
	}
}
