package main

import (
	"fmt"
	"math/rand"
	"strings"
	"time"

	"github.com/gofrs/uuid"
	"github.com/siyul-park/uniflow/pkg/node"
	"github.com/siyul-park/uniflow/pkg/packet"
	"github.com/siyul-park/uniflow/pkg/port"
	"github.com/siyul-park/uniflow/pkg/process"
	"github.com/siyul-park/uniflow/pkg/types"
	"verif/harness/gal"
)

func init() { runners["C02"] = runC02 }

func payG(v types.Value) string { return payOf(v) }

// ---- tracer level: a real packet.Tracer driven by node-shaped call sequences ----
type tw02 struct {
	tr      *packet.Tracer
	up      []*packet.Writer // upstream writer of reader i
	rd      []*packet.Reader
	wr      []*packet.Writer
	sink    []*packet.Reader // nil = writer i has nobody downstream
	ids     map[uuid.UUID]int
	next    int
	answers []string
}

func (w *tw02) id(p *packet.Packet) int {
	if n, ok := w.ids[p.ID()]; ok {
		return n
	}
	w.next++
	w.ids[p.ID()] = w.next
	return w.next
}

func recvTimeout(ch <-chan *packet.Packet) *packet.Packet {
	select {
	case p := <-ch:
		return p
	case <-time.After(2 * time.Second):
		return nil
	}
}

func newTW02(r *rand.Rand, nr, nw int) *tw02 {
	w := &tw02{tr: packet.NewTracer(), ids: map[uuid.UUID]int{}}
	for i := 0; i < nr; i++ {
		i := i
		u, rd := packet.NewWriter(), packet.NewReader()
		u.Link(rd)
		rd.AddOutboundHook(packet.HookFunc(func(p *packet.Packet) {
			w.answers = append(w.answers, fmt.Sprintf("(%d, %s)", i, pktOf(p)))
		}))
		w.up, w.rd = append(w.up, u), append(w.rd, rd)
	}
	for i := 0; i < nw; i++ {
		wr := packet.NewWriter()
		var s *packet.Reader
		if r.Intn(6) > 0 {
			s = packet.NewReader()
			wr.Link(s)
		}
		w.wr, w.sink = append(w.wr, wr), append(w.sink, s)
	}
	return w
}

func (w *tw02) close() {
	for _, x := range w.up {
		x.Close()
	}
	for _, x := range w.rd {
		x.Close()
	}
	for _, x := range w.wr {
		x.Close()
	}
	for _, x := range w.sink {
		if x != nil {
			x.Close()
		}
	}
}

func (w *tw02) observe(panicked bool) string {
	var reads, writes []string
	for _, rd := range w.rd {
		var ids []string
		for _, p := range w.tr.Reads(rd) {
			ids = append(ids, fmt.Sprint(w.id(p)))
		}
		reads = append(reads, gal.List(ids))
	}
	for _, wr := range w.wr {
		var ids []string
		for _, p := range w.tr.Writes(wr) {
			ids = append(ids, fmt.Sprint(w.id(p)))
		}
		writes = append(writes, gal.List(ids))
	}
	a := gal.List(w.answers)
	w.answers = nil
	return fmt.Sprintf("mkobs %s %s %s %s", a, gal.List(reads), gal.List(writes), gal.Bool(panicked))
}

// a forward loop between two Reads of one reader
type fwd02 struct {
	cur     *packet.Packet
	phase   int // 0 idle, 1 read (action running), 2 linked (writes pending)
	derived []*packet.Packet
	writers []int
}

func tracerCase(r *rand.Rand, hist map[string]int) (string, any, string, bool) {
	nr, nw := 1+r.Intn(2), 1+r.Intn(4)
	fan := r.Intn(5) == 0 // a wide fan-out: every request derives one packet per writer, all of them answered, in any order
	if fan {
		nr, nw = 1, 3+r.Intn(2)
	}
	w := newTW02(r, nr, nw)
	if fan {
		for i := range w.sink {
			if w.sink[i] == nil {
				w.sink[i] = packet.NewReader()
				w.wr[i].Link(w.sink[i])
			}
		}
		hist["fan"]++
	}
	defer w.close()
	fw := make([]fwd02, nr)
	owed := make([]int, nw) // requests waiting in sink i
	var steps, in []string
	fail := ""
	pipelined := false
	n := 8 + r.Intn(25)
	for s := 0; s < n && fail == ""; s++ {
		// enabled moves
		type move struct{ kind, a int }
		var ms []move
		for i := range fw {
			ms = append(ms, move{0, i}) // the forward loop of reader i makes its next call
		}
		for j := 0; j < nw; j++ {
			if owed[j] > 0 {
				ms = append(ms, move{1, j}, move{1, j}) // downstream answers writer j
			}
		}
		if nr == 2 && fw[0].phase == 1 && fw[1].phase == 1 && len(fw[0].derived) == 0 && len(fw[1].derived) == 0 {
			ms = append(ms, move{2, 0}, move{2, 0}) // many-to-one: both requests in hand, one packet derived from both
		}
		m := ms[r.Intn(len(ms))]
		if fan && r.Intn(2) == 0 {
			// answer the fan out of order: a middle writer first, then the last, the first one at the end
			for _, j := range []int{1, nw - 1, 2 % nw} {
				if owed[j] > 0 {
					m = move{1, j}
					break
				}
			}
		}
		var opG string
		panicked := false
		func() {
			defer func() {
				if p := recover(); p != nil {
					panicked = true
				}
			}()
			if m.kind == 0 {
				f := &fw[m.a]
				switch f.phase {
				case 0:
					pl := randPayload(r, 1)
					req := packet.New(pl)
					if w.up[m.a].Write(req) != 1 {
						fail = "upstream write not accepted"
						return
					}
					p := recvTimeout(w.rd[m.a].Read())
					if p == nil {
						fail = "request did not arrive"
						return
					}
					if len(w.tr.Reads(w.rd[m.a])) > 0 {
						pipelined = true
					}
					w.tr.Read(w.rd[m.a], p)
					f.cur, f.phase, f.derived, f.writers = p, 1, nil, nil
					opG = fmt.Sprintf("TRead %d %d %s", m.a, w.id(p), payG(pl))
					hist["read"]++
				case 1:
					// the action returns: zero to three derived packets, each for its own writer
					d := []int{0, 1, 1, 2, 2, 3, 3, 4}[r.Intn(8)]
					if d > nw {
						d = nw
					}
					if fan {
						d = nw
					}
					if len(f.derived) < d && (len(f.derived) == 0 || fan || r.Intn(4) > 0) {
						pl := randPayload(r, 1)
						q := packet.New(pl)
						w.tr.Link(f.cur, q)
						f.derived = append(f.derived, q)
						opG = fmt.Sprintf("TLink %d %d %s", w.id(f.cur), w.id(q), payG(pl))
						hist["link"]++
						if len(f.derived) >= d {
							f.phase = 2
							f.writers = r.Perm(nw)[:len(f.derived)]
						}
					} else if len(f.derived) == 0 {
						w.tr.Write(nil, f.cur) // nothing derived: the request is its own answer
						opG = fmt.Sprintf("TWrite None %d false", w.id(f.cur))
						f.phase = 0
						hist["echo"]++
					} else {
						f.phase = 2
						f.writers = r.Perm(nw)[:len(f.derived)]
						s--
						return
					}
				case 2:
					q, j := f.derived[0], f.writers[0]
					f.derived, f.writers = f.derived[1:], f.writers[1:]
					w.tr.Write(w.wr[j], q)
					acc := w.sink[j] != nil
					if acc {
						owed[j]++
					}
					opG = fmt.Sprintf("TWrite (Some %d) %d %s", j, w.id(q), gal.Bool(acc))
					hist["write"]++
					if len(f.derived) == 0 {
						f.phase = 0
					}
				}
			} else if m.kind == 2 {
				pl := randPayload(r, 1)
				q := packet.New(pl)
				for i := range fw {
					w.tr.Link(fw[i].cur, q)
					op := fmt.Sprintf("TLink %d %d %s", w.id(fw[i].cur), w.id(q), payG(pl))
					steps = append(steps, fmt.Sprintf("(%s, %s)", op, w.observe(false)))
					in = append(in, op)
				}
				j := r.Intn(nw)
				w.tr.Write(w.wr[j], q)
				acc := w.sink[j] != nil
				if acc {
					owed[j]++
				}
				opG = fmt.Sprintf("TWrite (Some %d) %d %s", j, w.id(q), gal.Bool(acc))
				fw[0].phase, fw[1].phase = 0, 0
				hist["many-to-one"]++
			} else {
				j := m.a
				req := recvTimeout(w.sink[j].Read())
				if req == nil {
					fail = "sink did not get the request"
					return
				}
				var back *packet.Packet
				switch r.Intn(6) {
				case 0:
					back = packet.None
				case 1:
					back = packet.New(types.NewError(fmt.Errorf("e%d", 1+r.Intn(5))))
				default:
					back = packet.New(randPayload(r, 1))
				}
				w.sink[j].Receive(back)
				b := recvTimeout(w.wr[j].Receive())
				if b == nil {
					fail = "answer did not come back"
					return
				}
				owed[j]--
				w.tr.Receive(w.wr[j], b)
				opG = fmt.Sprintf("TReceive %d (Some %s)", j, pktOf(b))
				hist["receive"]++
			}
		}()
		if opG == "" {
			continue
		}
		steps = append(steps, fmt.Sprintf("(%s, %s)", opG, w.observe(panicked)))
		in = append(in, opG)
		if panicked {
			fail = "the tracer panicked at " + opG
		}
	}
	g := fmt.Sprintf("(%d, %d, [\n  %s])", nr, nw, strings.Join(steps, ";\n  "))
	closeObs := "None"
	if fail == "" && r.Intn(2) == 0 {
		// the node is closed with whatever is still waiting: every pending request must get a dropped-packet error
		func() {
			defer func() {
				if p := recover(); p != nil {
					fail = fmt.Sprintf("Tracer.Close panicked: %v", p)
				}
			}()
			w.answers = nil
			w.tr.Close()
			closeObs = "(Some " + gal.List(w.answers) + ")"
			in = append(in, "Close")
			hist["close"]++
			if len(w.answers) > 0 {
				hist["close-with-waiting-requests"]++
			}
			if n := w.tr.VerifLen(); n != 0 && fail == "" {
				fail = fmt.Sprintf("the tracer still holds %d entries after Close", n)
			}
		}()
	}
	return "(" + g + ", " + closeObs + ")", map[string]any{"level": "tracer", "ops": in}, fail, pipelined
}

func runC02(seed int64, n int, tier string) *Result {
	r := rand.New(rand.NewSource(seed))
	res := &Result{
		Prop:     "C02",
		Requires: []string{"Packet.Writer", "Node.Tracer", "Node.CheckTracer"},
		CaseType: "c2any",
		OkFn:     "c2ok_any",
		Rule: "tracer level: a real packet.Tracer with 1-2 readers (fed by real upstream writers) and 1-4 writers (each with or without a downstream reader); 8-32 calls chosen at random among " +
			"the next call of each forward loop (Read; Link of 0-4 derived packets; Write of each to its own writer, or Write(nil, request) when nothing is derived; with two readers also the many-to-one shape: one packet linked to the requests of both readers, then written) and the answers of downstream readers " +
			"(payload, error, None) delivered through Tracer.Receive, in any interleaving (so answers arrive while a later request is between Read and Link); observed after every call: the answers handed to each reader (outbound hook), " +
			"Tracer.Reads / Tracer.Writes, panics; half of the sequences end with Tracer.Close while requests are still waiting: the answers handed out during the close (compared per reader) and the emptiness of the tracer afterwards; node level (every fourth case): see the node oracle; during every node-level run the calls the REAL nodes make on their tracers are recorded (verif hook under the tracer's lock) and each tracer's call sequence, with the answers handed out during each call, goes through the same checker (discipline, model, specification); non-trivial = two requests of one reader in flight at once; distinct by rendered case",
		Hist: map[string]int{},
	}
	for i := 0; i < n; i++ {
		g, in, fail, nt := tracerCase(r, res.Hist)
		if fail == "" && i%4 == 0 {
			rec := startTraceRec02()
			lastNet02, lastNetIn02 = "", nil
			fail = nodeCase(r, res.Hist)
			recCases, recOps := rec.stop()
			if fail == "" && lastNet02 != "" { // the same run through the network of specification nodes (Node/Network.v)
				res.Cases = append(res.Cases, Case{Gallina: "(inr " + lastNet02 + ")", Input: lastNetIn02, Nontrivial: true})
				res.Hist["network-cases"]++
			}
			if fail == "" {
				for k, rc := range recCases { // what the real nodes did on their tracers, through the same checker
					res.Cases = append(res.Cases, Case{Gallina: "(inl (" + rc + ", None))", Input: map[string]any{"level": "recorded from a real node", "ops": recOps[k]}, Nontrivial: len(recOps[k]) > 6})
					res.Hist["recorded-tracers"]++
					res.Hist["recorded-calls"] += len(recOps[k])
				}
			}
		}
		if fail == "" {
			fail = readGroupCase(rand.New(rand.NewSource(seed*7919+int64(i))), res.Hist)
		}
		res.Cases = append(res.Cases, Case{Gallina: "(inl " + g + ")", Input: in, Nontrivial: nt, OracleFail: fail})
	}
	return res
}

// ---- node level: real nodes in small acyclic workflows, actions held open by the harness ----
type nw02 struct {
	proc     *process.Process
	nodes    []node.Node
	kinds    []int // 1 one-to-one, 2 one-to-many, 3 many-to-one
	wire     map[string]string // "n.port" -> "m.in..." | "sink k" ; absent = unconnected
	entered  chan int
	release  []chan struct{}
	sinks    []*packet.Reader
	noFail   bool
}

func intOf(p *packet.Packet) int {
	if i, ok := p.Payload().(types.Integer); ok {
		return int(i.Int())
	}
	return 0
}

func fO2O(idx, v int, noFail bool) (int, bool) {
	if !noFail && (v+idx)%7 == 3 {
		return 0, true
	}
	return (v*3 + idx + 1) % 997, false
}

func fO2M(idx, v, i int, noFail bool) (int, bool) { // (value, present)
	if !noFail && (v+idx+i)%5 == 0 {
		return 0, false
	}
	return (v*5 + i + 2) % 997, true
}

func fM2O(a, b int) int { return (a + 2*b) % 997 }

func sinkAnswer(req *packet.Packet) *packet.Packet {
	if _, ok := req.Payload().(types.Error); ok {
		return packet.None
	}
	switch v := intOf(req); v % 3 {
	case 0:
		return packet.None
	case 1:
		return packet.New(types.NewError(fmt.Errorf("e9")))
	default:
		return packet.New(types.NewInt(v + 1000))
	}
}

func rInt(v int) string { return fmt.Sprintf("(Pk (PAtom %d%%Z))", v) }
func rErr(k int) string { return fmt.Sprintf("(Pk (PErr [%d%%Z]))", k) }

func sinkAnswerR(isErr bool, v int) string {
	if isErr {
		return "PNone"
	}
	switch v % 3 {
	case 0:
		return "PNone"
	case 1:
		return rErr(9)
	}
	return rInt(v + 1000)
}

// answerAt: the rendered answer a packet (int payload v, or an error of node k) gets when written to "n.port"
func (w *nw02) answerAt(from string, isErr bool, v, k int, choice int) string {
	to, ok := w.wire[from]
	if !ok { // nothing downstream: the packet is its own answer
		if isErr {
			return rErr(k)
		}
		return rInt(v)
	}
	if strings.HasPrefix(to, "sink") {
		return sinkAnswerR(isErr, v)
	}
	var n int
	var in string
	fmt.Sscanf(to, "%d.%s", &n, &in)
	return w.answerOfNode(n, v, choice)
}

func (w *nw02) answerOfNode(n, v, choice int) string {
	switch w.kinds[n] {
	case 1:
		out, failed := fO2O(n, v, w.noFail)
		if failed {
			return w.answerAt(fmt.Sprintf("%d.error", n), true, 0, n+1, choice)
		}
		return w.answerAt(fmt.Sprintf("%d.out", n), false, out, 0, choice)
	case 2:
		var as []string
		for i := 0; i < 2; i++ {
			if o, ok := fO2M(n, v, i, w.noFail); ok {
				as = append(as, w.answerAt(fmt.Sprintf("%d.out[%d]", n, i), false, o, 0, choice))
			}
		}
		if len(as) == 0 {
			return rInt(v)
		}
		return joinRendered(as)
	}
	return "?"
}

func (w *nw02) mk(kind, idx int) node.Node {
	hold := func() {
		w.entered <- idx
		<-w.release[idx]
	}
	switch kind {
	case 1:
		return node.NewOneToOneNode(func(_ *process.Process, in *packet.Packet) (*packet.Packet, *packet.Packet) {
			hold()
			out, failed := fO2O(idx, intOf(in), w.noFail)
			if failed {
				return nil, packet.New(types.NewError(fmt.Errorf("e%d", idx+1)))
			}
			return packet.New(types.NewInt(out)), nil
		})
	case 2:
		n := node.NewOneToManyNode(func(_ *process.Process, in *packet.Packet) ([]*packet.Packet, *packet.Packet) {
			hold()
			outs := make([]*packet.Packet, 2)
			for i := range outs {
				if o, ok := fO2M(idx, intOf(in), i, w.noFail); ok {
					outs[i] = packet.New(types.NewInt(o))
				}
			}
			if intOf(in)%3 == 1 {
				// more packets than the node has out-ports: the surplus one goes nowhere and must not be waited for
				outs = append(outs, packet.New(types.NewInt(424242)))
			}
			return outs, nil
		})
		n.Out("out[1]")
		return n
	default:
		n := node.NewManyToOneNode(func(_ *process.Process, ins []*packet.Packet) (*packet.Packet, *packet.Packet) {
			hold()
			return packet.New(types.NewInt(fM2O(intOf(ins[0]), intOf(ins[1])))), nil
		})
		n.In("in[1]")
		return n
	}
}

// ncObs, when set, observes the node-level case with the debug agent (C19): see c19.go
var ncObs *obs19

func nodeCase(r *rand.Rand, hist map[string]int) (fail string) {
	defer func() {
		if p := recover(); p != nil {
			fail = fmt.Sprintf("node level panicked: %v", p)
		}
	}()
	topo := r.Intn(6)
	hist[fmt.Sprintf("node-topo-%d", topo)]++
	w := &nw02{proc: process.New(), wire: map[string]string{}, entered: make(chan int, 64), noFail: topo == 2}
	defer w.proc.Exit(nil)
	var kinds []int
	switch topo {
	case 0: // chain
		kinds = []int{1, 1}
		w.wire["0.out"] = "1.in"
	case 1: // fan-out
		kinds = []int{2, 1}
		w.wire["0.out[0]"] = "1.in"
	case 2: // diamond into a many-to-one node
		kinds = []int{2, 1, 1, 3}
		w.wire["0.out[0]"], w.wire["0.out[1]"] = "1.in", "2.in"
		w.wire["1.out"], w.wire["2.out"] = "3.in[0]", "3.in[1]"
	case 3: // fan-in: both outputs into one input
		kinds = []int{2, 1}
		w.wire["0.out[0]"], w.wire["0.out[1]"] = "1.in", "1.in"
	case 4: // a lone one-to-many node: each output goes to a sink or nowhere
		kinds = []int{2}
	case 5: // two different nodes write into ONE in-port (their writes are concurrent)
		kinds = []int{2, 1, 1, 1}
		w.wire["0.out[0]"], w.wire["0.out[1]"] = "1.in", "2.in"
		w.wire["1.out"], w.wire["2.out"] = "3.in", "3.in"
	}
	w.kinds = kinds
	for i, k := range kinds {
		w.release = append(w.release, make(chan struct{}, 64))
		w.nodes = append(w.nodes, w.mk(k, i))
	}
	defer func() {
		for _, n := range w.nodes {
			_ = n.Close()
		}
	}()
	obs := ncObs
	if obs != nil {
		obs.attach(w)
		defer obs.detach()
	}
	// open ends: a sink, or nothing
	var sinkPorts []*port.InPort
	addSink := func(from string) {
		if r.Intn(4) == 0 {
			return // unconnected
		}
		sp := port.NewIn()
		sinkPorts = append(sinkPorts, sp)
		w.wire[from] = fmt.Sprintf("sink %d", len(sinkPorts)-1)
	}
	switch topo {
	case 0:
		addSink("1.out")
		addSink("0.error")
		addSink("1.error")
	case 1:
		addSink("1.out")
		addSink("0.out[1]")
		addSink("1.error")
	case 2:
		sp := port.NewIn()
		sinkPorts = append(sinkPorts, sp)
		w.wire["3.out"] = "sink 0"
	case 3:
		addSink("1.out")
		addSink("1.error")
	case 4:
		addSink("0.out[0]")
		addSink("0.out[1]")
	case 5:
		addSink("3.out")
		addSink("3.error")
	}
	for from, to := range w.wire {
		var n int
		var pn string
		fmt.Sscanf(from, "%d.%s", &n, &pn)
		out := w.nodes[n].Out(pn)
		if strings.HasPrefix(to, "sink") {
			var k int
			fmt.Sscanf(to, "sink %d", &k)
			out.Link(sinkPorts[k])
		} else {
			var m int
			var in string
			fmt.Sscanf(to, "%d.%s", &m, &in)
			out.Link(w.nodes[m].In(in))
		}
	}
	for _, sp := range sinkPorts {
		w.sinks = append(w.sinks, sp.Open(w.proc))
	}
	src := port.NewOut()
	src.Link(w.nodes[0].In("in"))
	sw := src.Open(w.proc)
	defer src.Close()

	nreq := 2 + r.Intn(3)
	var reqs []int
	var got []string
	done := make(chan struct{})
	go func() {
		for p := range sw.Receive() {
			got = append(got, pktOf(p))
			done <- struct{}{}
		}
	}()
	blocked := map[int]int{}
	pendingSink := make([][]*packet.Packet, len(w.sinks))
	poll := func() {
		for {
			select {
			case i := <-w.entered:
				blocked[i]++
				continue
			default:
			}
			break
		}
		for k, s := range w.sinks {
			for {
				select {
				case p := <-s.Read():
					pendingSink[k] = append(pendingSink[k], p)
					continue
				default:
				}
				break
			}
		}
	}
	answered := 0
	deadline := time.Now().Add(4 * time.Second)
	step := func(final bool) bool {
		time.Sleep(150 * time.Microsecond)
		poll()
		type mv struct{ kind, a int }
		var ms []mv
		if len(reqs) < nreq {
			ms = append(ms, mv{0, 0})
		}
		for i, c := range blocked {
			if c > 0 {
				ms = append(ms, mv{1, i})
			}
		}
		for k := range pendingSink {
			if len(pendingSink[k]) > 0 {
				ms = append(ms, mv{2, k})
			}
		}
		if obs != nil && obs.move(r, time.Until(deadline)) {
			return true
		}
		if len(ms) == 0 {
			return false
		}
		m := ms[r.Intn(len(ms))]
		switch m.kind {
		case 0:
			v := 1 + r.Intn(40)
			reqs = append(reqs, v)
			if obs != nil {
				obs.post(-1, func() {
					if sw.Write(packet.New(types.NewInt(v))) != 1 {
						obs.setFail("the source write was not accepted")
					}
				})
			} else if sw.Write(packet.New(types.NewInt(v))) != 1 {
				fail = "the source write was not accepted"
			}
		case 1:
			blocked[m.a]--
			w.release[m.a] <- struct{}{}
		case 2:
			req := pendingSink[m.a][0]
			pendingSink[m.a] = pendingSink[m.a][1:]
			if obs != nil {
				k := m.a
				obs.post(k, func() { w.sinks[k].Receive(sinkAnswer(req)) })
			} else {
				w.sinks[m.a].Receive(sinkAnswer(req))
			}
		}
		return true
	}
	idle := 0
	for answered < nreq && time.Now().Before(deadline) && fail == "" {
		if !step(false) {
			idle++
			if idle > 200 {
				time.Sleep(time.Millisecond)
			}
		} else {
			idle = 0
		}
		for {
			select {
			case <-done:
				answered++
				continue
			default:
			}
			break
		}
	}
	if obs != nil && fail == "" {
		fail = obs.getFail()
	}
	if fail != "" {
		return fail
	}
	if answered < nreq {
		if obs != nil {
			return fmt.Sprintf("node level (topology %d, wiring %v, %s): only %d of %d requests %v were answered: %v", topo, w.wire, obs.describe(), answered, nreq, reqs, got)
		}
		return fmt.Sprintf("node level (topology %d, wiring %v): only %d of %d requests %v were answered: %v", topo, w.wire, answered, nreq, reqs, got)
	}
	time.Sleep(2 * time.Millisecond)
	select {
	case <-done:
		return fmt.Sprintf("node level (topology %d): more answers than requests: %v for %v", topo, got, reqs)
	default:
	}
	if obs != nil {
		if f := obs.finish(w); f != "" {
			return f
		}
	}
	for i, v := range reqs {
		want := []string{w.answerOfNode(0, v, 0)}
		if topo == 2 {
			// the input that completes a group at the many-to-one node gets the downstream answer, the other its own echo
			o0, _ := fO2M(0, v, 0, true)
			o1, _ := fO2M(0, v, 1, true)
			b, _ := fO2O(1, o0, true)
			c, _ := fO2O(2, o1, true)
			down := sinkAnswerR(false, fM2O(b, c))
			want = []string{joinRendered([]string{rInt(b), down}), joinRendered([]string{down, rInt(c)})}
		}
		ok := false
		for _, x := range want {
			if x == got[i] {
				ok = true
			}
		}
		if !ok {
			return fmt.Sprintf("node level (topology %d, wiring %v): request %d (payload %d) of %v was answered %s, expected %v; all answers %v", topo, w.wire, i, v, reqs, got[i], want, got)
		}
	}
	if obs == nil {
		lastNet02, lastNetIn02 = w.netCase(topo, reqs, got)
	}
	return ""
}

// ---- the same workflow run as a case for the network of specification nodes (Node/Network.v) ----
// One model node per input of a real node, per sink and per unconnected output ("open end": the packet written there is
// its own answer).  The labels give the derivations in creation order (so that the oldest unfinished request of a model
// node is always the one the label speaks about): LIn for a source request, LProc for an action with the inputs it
// derived packets for, and the own result of the nodes that derive nothing (sinks, open ends, a one-to-many node without
// outputs, the input of a many-to-one node that does not complete its group).  The model computes the answers.
var lastNet02 string
var lastNetIn02 any

func (w *nw02) netCase(topo int, reqs []int, got []string) (string, any) {
	ids := map[string]int{}
	next := 2 * len(w.kinds)
	idOf := func(dest string) int {
		var n int
		var in string
		if c, _ := fmt.Sscanf(dest, "%d.%s", &n, &in); c == 2 && !strings.HasPrefix(dest, "sink") && !strings.HasPrefix(dest, "open") {
			if in == "in[1]" {
				return 2*n + 1
			}
			return 2 * n
		}
		if id, ok := ids[dest]; ok {
			return id
		}
		ids[dest] = next
		next++
		return next - 1
	}
	destOf := func(from string) string {
		if to, ok := w.wire[from]; ok {
			return to
		}
		return "open " + from
	}
	type mp struct {
		dest  string
		v     int
		isErr bool
		k     int
	}
	var labels, in []string
	emit := func(id int, own string, tgts []int, what string) {
		var ts []string
		for _, t := range tgts {
			ts = append(ts, fmt.Sprint(t))
		}
		labels = append(labels, fmt.Sprintf("NProc %d %s %s", id, own, gal.List(ts)))
		in = append(in, fmt.Sprintf("%s: model node %d derives for %v", what, id, tgts))
	}
	for i, v := range reqs {
		labels = append(labels, "NIn 0")
		in = append(in, fmt.Sprintf("request %d", v))
		// topology 2: which input completed the group at the many-to-one node is read off the real answer
		var b, c int
		firstCompletes := false
		if topo == 2 {
			o0, _ := fO2M(0, v, 0, true)
			o1, _ := fO2M(0, v, 1, true)
			b, _ = fO2O(1, o0, true)
			c, _ = fO2O(2, o1, true)
			down := sinkAnswerR(false, fM2O(b, c))
			firstCompletes = got[i] == joinRendered([]string{down, rInt(c)}) && got[i] != joinRendered([]string{rInt(b), down})
		}
		queue := []mp{{dest: "0.in", v: v}}
		for len(queue) > 0 {
			p := queue[0]
			queue = queue[1:]
			id := idOf(p.dest)
			self := rInt(p.v)
			if p.isErr {
				self = rErr(p.k)
			}
			switch {
			case strings.HasPrefix(p.dest, "sink"):
				emit(id, sinkAnswerR(p.isErr, p.v), nil, p.dest)
			case strings.HasPrefix(p.dest, "open"):
				emit(id, self, nil, p.dest)
			default:
				var n int
				var port string
				fmt.Sscanf(p.dest, "%d.%s", &n, &port)
				switch w.kinds[n] {
				case 1:
					out, failed := fO2O(n, p.v, w.noFail)
					q := mp{dest: destOf(fmt.Sprintf("%d.out", n)), v: out}
					if failed {
						q = mp{dest: destOf(fmt.Sprintf("%d.error", n)), isErr: true, k: n + 1}
					}
					emit(id, self, []int{idOf(q.dest)}, p.dest)
					queue = append(queue, q)
				case 2:
					var tgts []int
					for j := 0; j < 2; j++ {
						if o, ok := fO2M(n, p.v, j, w.noFail); ok {
							q := mp{dest: destOf(fmt.Sprintf("%d.out[%d]", n, j)), v: o}
							tgts = append(tgts, idOf(q.dest))
							queue = append(queue, q)
						}
					}
					emit(id, self, tgts, p.dest)
				default: // many-to-one: the input that completes the group derives the packet, the other is answered with its own packet
					completes := (port == "in[0]") == firstCompletes
					if completes {
						q := mp{dest: destOf(fmt.Sprintf("%d.out", n)), v: fM2O(b, c)}
						emit(id, self, []int{idOf(q.dest)}, p.dest)
						queue = append(queue, q)
					} else {
						emit(id, self, nil, p.dest)
					}
				}
			}
		}
	}
	return fmt.Sprintf("(%d, %s, %s)", next, gal.List(labels), gal.List(got)),
		map[string]any{"level": "network of specification nodes", "topology": topo, "wiring": fmt.Sprint(w.wire), "requests": reqs, "answers": got, "derivations": in}
}

// ---- ReadGroup (the many-to-one node's collector): 2-4 readers, packets arriving in any interleaving ----
// Reference: the k-th packet of every reader forms round k; Read hands out round k exactly when the packet that
// completes it arrives, and nothing otherwise (rounds complete in order because each reader fills them in order).
func readGroupCase(r *rand.Rand, hist map[string]int) string {
	n := 2 + r.Intn(3)
	readers := make([]*packet.Reader, n)
	for i := range readers {
		readers[i] = packet.NewReader()
		defer readers[i].Close()
	}
	g := packet.NewReadGroup(readers)
	defer g.Close()
	sent := make([][]*packet.Packet, n)
	done := 0 // rounds handed out so far
	steps := 3 + r.Intn(16)
	var trace []string
	for s := 0; s < steps; s++ {
		i := r.Intn(n)
		// keep the readers within two rounds of each other most of the time, so that rounds overlap
		if len(sent[i]) > done+2 && r.Intn(4) != 0 {
			continue
		}
		p := packet.New(types.NewInt(100*i + len(sent[i])))
		sent[i] = append(sent[i], p)
		trace = append(trace, fmt.Sprintf("r%d#%d", i, len(sent[i])-1))
		got := g.Read(readers[i], p)
		complete := true
		for j := range sent {
			if len(sent[j]) <= done {
				complete = false
			}
		}
		if !complete {
			if got != nil {
				return fmt.Sprintf("read group with %d readers, arrivals %v: a round was handed out although reader(s) have not contributed to round %d yet", n, trace, done)
			}
			continue
		}
		if len(got) != n {
			return fmt.Sprintf("read group with %d readers, arrivals %v: the packet completing round %d did not hand the round out (got %d packets)", n, trace, done, len(got))
		}
		for j := range got {
			if got[j] != sent[j][done] {
				return fmt.Sprintf("read group with %d readers, arrivals %v: round %d was handed out with a packet of another round in slot %d", n, trace, done, j)
			}
		}
		done++
		hist["readgroup-rounds"]++
	}
	if n >= 3 {
		hist["readgroup-3plus"]++
	}
	return ""
}
