// vh: the verification harness. `vh run <prop> -seed S -n N -out DIR` runs generated cases
// against the real implementation (module replaced by /repo) and writes the inputs and the
// observed outputs as Gallina (cases_<k>.v) plus meta.json.
package main

import (
	"encoding/json"
	"flag"
	"fmt"
	"os"
	"path/filepath"
	"sort"
	"strings"
)

type Case struct {
	Gallina    string `json:"-"`
	Input      any    `json:"input"`
	Nontrivial bool   `json:"nontrivial"`
	Key        string `json:"-"` // distinctness key (defaults to Gallina)
	OracleFail string `json:"oracle_fail,omitempty"`
	Known      string `json:"known,omitempty"`
	Shard      int    `json:"shard"`
	Pos        int    `json:"pos"`
}

type Result struct {
	Prop     string
	Requires []string // Coq modules to import, e.g. "Uf.Value.Value"
	CaseType string
	OkFn     string
	Rule     string
	Cases    []Case
	Hist     map[string]int
	Extra    map[string]any
	// Aux is extra Gallina emitted before the case list in every shard.
	Aux string
}

type runner func(seed int64, n int, tier string) *Result

var runners = map[string]runner{}

func main() {
	if len(os.Args) < 3 {
		fmt.Fprintln(os.Stderr, "usage: vh run <prop> -seed S -n N -out DIR [-tier quick|thorough]")
		os.Exit(2)
	}
	cmd, prop := os.Args[1], os.Args[2]
	fs := flag.NewFlagSet("vh", flag.ExitOnError)
	seed := fs.Int64("seed", 1, "seed")
	n := fs.Int("n", 300, "number of cases")
	out := fs.String("out", "", "output directory")
	tier := fs.String("tier", "quick", "tier")
	shard := fs.Int("shard", 500, "cases per shard")
	_ = fs.Parse(os.Args[3:])
	r, ok := runners[prop]
	if !ok {
		fmt.Fprintln(os.Stderr, "unknown property", prop)
		os.Exit(2)
	}
	if cmd != "run" {
		fmt.Fprintln(os.Stderr, "unknown command", cmd)
		os.Exit(2)
	}
	res := r(*seed, *n, *tier)
	if err := write(res, *out, *shard, *seed, *tier); err != nil {
		fmt.Fprintln(os.Stderr, err)
		os.Exit(3)
	}
}

func write(res *Result, out string, shardSize int, seed int64, tier string) error {
	if err := os.MkdirAll(out, 0o755); err != nil {
		return err
	}
	old, _ := filepath.Glob(filepath.Join(out, "cases_*"))
	for _, f := range old {
		os.Remove(f)
	}
	nshard := 0
	for start := 0; start < len(res.Cases) || start == 0; start += shardSize {
		end := start + shardSize
		if end > len(res.Cases) {
			end = len(res.Cases)
		}
		var b strings.Builder
		b.WriteString("From Coq Require Import List NArith ZArith String.\n")
		for _, m := range res.Requires {
			fmt.Fprintf(&b, "From Uf Require Import %s.\n", m)
		}
		b.WriteString("Import ListNotations.\nLocal Open Scope string_scope.\n")
		b.WriteString(res.Aux)
		fmt.Fprintf(&b, "Definition cases : list %s := [\n", res.CaseType)
		for i := start; i < end; i++ {
			res.Cases[i].Shard = nshard
			res.Cases[i].Pos = i - start
			b.WriteString(res.Cases[i].Gallina)
			if i+1 < end {
				b.WriteString(";\n")
			}
		}
		b.WriteString("].\n")
		fmt.Fprintf(&b, "Definition M := Eval vm_compute in mismatches %s cases.\nPrint M.\n", res.OkFn)
		if err := os.WriteFile(filepath.Join(out, fmt.Sprintf("cases_%d.v", nshard)), []byte(b.String()), 0o644); err != nil {
			return err
		}
		nshard++
		if end >= len(res.Cases) {
			break
		}
	}
	distinct := map[string]bool{}
	for _, c := range res.Cases {
		if c.Nontrivial {
			k := c.Key
			if k == "" {
				k = c.Gallina
			}
			distinct[k] = true
		}
	}
	samples := []any{}
	for i := 0; i < len(res.Cases) && len(samples) < 3; i += 1 + len(res.Cases)/3 {
		samples = append(samples, res.Cases[i].Input)
	}
	keys := make([]string, 0, len(res.Hist))
	for k := range res.Hist {
		keys = append(keys, k)
	}
	sort.Strings(keys)
	meta := map[string]any{
		"property":            res.Prop,
		"seed":                seed,
		"tier":                tier,
		"evaluations":         len(res.Cases),
		"distinct_nontrivial": len(distinct),
		"rule":                res.Rule,
		"samples":             samples,
		"histogram":           res.Hist,
		"shards":              nshard,
		"cases":               res.Cases,
		"extra":               res.Extra,
	}
	data, err := json.MarshalIndent(meta, "", " ")
	if err != nil {
		return err
	}
	return os.WriteFile(filepath.Join(out, "meta.json"), data, 0o644)
}
