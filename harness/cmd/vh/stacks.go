package main

import "runtime"

// allStacks returns the dump of every goroutine, however many there are: a truncated dump would make a
// goroutine the harness is waiting for look absent.
func allStacks() []byte {
	for size := 1 << 20; ; size *= 2 {
		buf := make([]byte, size)
		if n := runtime.Stack(buf, true); n < size {
			return buf[:n]
		}
	}
}
