package main

import (
	"context"
	"errors"
	"fmt"
	"math/rand"
	"sort"
	"strings"
	"sync"
	"time"

	"github.com/siyul-park/uniflow/pkg/process"
	"verif/harness/gal"
)

func init() { runners["C04"] = runC04 }

type ev04 struct {
	parked int // hook id parked, or -1 when the command returned
}

type thr04 struct {
	cmd    chan func()
	parked int // hook currently parked on this thread (-1 none)
}

type hkinfo struct {
	pid     int
	pending bool // AddExitHook returned true: registered while the process was running
}

type world04 struct {
	probes  map[int][]chan struct{} // outstanding Join probes per process
	r       *rand.Rand
	hooks   []hkinfo
	procs   []*process.Process
	threads []*thr04
	events  chan ev04
	release map[int]chan struct{}
	log     []string // (hook, err)
	errs    []error
	nextHk  int
	fail    string
	wg      sync.WaitGroup
}

func (w *world04) errID(err error) int {
	if err == nil {
		return 0
	}
	if errors.Is(err, context.Canceled) {
		return 99
	}
	for i, e := range w.errs {
		if err == e {
			return i
		}
	}
	return 77
}

func (w *world04) hook(id int) process.ExitHook {
	rel := make(chan struct{})
	w.release[id] = rel
	return process.ExitFunc(func(err error) {
		w.log = append(w.log, fmt.Sprintf("(%d, %d)", id, w.errID(err)))
		w.events <- ev04{parked: id}
		<-rel
	})
}

// run f on thread t and wait until it returns or a user hook parks
func (w *world04) activate(t *thr04, f func()) {
	t.cmd <- func() { f(); w.events <- ev04{parked: -1} }
	w.await(t)
}

func (w *world04) await(t *thr04) {
	select {
	case e := <-w.events:
		t.parked = e.parked
	case <-time.After(5 * time.Second):
		if w.fail == "" {
			w.fail = "a call neither returned nor reached a hook within 5s (blocked)"
		}
		t.parked = -2
	}
}

func (w *world04) observe() string {
	var ps []string
	for _, p := range w.procs {
		term := p.Status() == process.StatusTerminated
		doneClosed := false
		select {
		case <-p.Done():
			doneClosed = true
		default:
		}
		if doneClosed != term && w.fail == "" {
			w.fail = fmt.Sprintf("Done closed=%v but terminated=%v", doneClosed, term)
		}
		// own keys: Keys() lists the parent's keys as well; remove them
		keys := map[int]int{}
		for _, k := range p.Keys() {
			keys[k.(int)]++
		}
		if par := p.Parent(); par != nil {
			for _, k := range par.Keys() {
				keys[k.(int)]--
			}
		}
		var ks []int
		for k, n := range keys {
			for i := 0; i < n; i++ {
				ks = append(ks, k)
			}
		}
		sort.Ints(ks)
		var kss []string
		for _, k := range ks {
			kss = append(kss, fmt.Sprint(k))
		}
		ps = append(ps, fmt.Sprintf("(%s, %d, %s)", gal.Bool(term), w.errID(p.Err()), gal.List(kss)))
	}
	// probe Join on one process: it must return iff every forked child has terminated
	probe := "None"
	if len(w.procs) > 0 && w.r != nil && w.r.Intn(2) == 0 {
		pid := w.r.Intn(len(w.procs))
		p := w.procs[pid]
		joined, ret := joinProbe(p)
		if !ret {
			w.probes[pid] = append(w.probes[pid], joined)
		}
		probe = fmt.Sprintf("(Some (%d, %s))", pid, gal.Bool(ret))
	}
	return fmt.Sprintf("mkobs04 %s %s %s", gal.List(w.log), gal.List(ps), probe)
}

func history04(r *rand.Rand, hist map[string]int) (string, any, string, bool) {
	nt := 2 + r.Intn(2)
	w := &world04{events: make(chan ev04, 16), release: map[int]chan struct{}{}, errs: []error{nil}, probes: map[int][]chan struct{}{}, r: r}
	for i := 1; i <= 4; i++ {
		w.errs = append(w.errs, errors.New(fmt.Sprintf("e%d", i)))
	}
	for i := 0; i < nt; i++ {
		t := &thr04{cmd: make(chan func()), parked: -1}
		w.threads = append(w.threads, t)
		w.wg.Add(1)
		go func() {
			defer w.wg.Done()
			for f := range t.cmd {
				f()
			}
		}()
	}
	defer func() {
		// release everything so that no goroutine stays parked
		for _, rel := range w.release {
			select {
			case <-rel:
			default:
				close(rel)
			}
		}
		stop := make(chan struct{})
		go func() {
			for {
				select {
				case <-w.events:
				case <-stop:
					return
				}
			}
		}()
		for _, t := range w.threads {
			close(t.cmd)
		}
		// once the workers are gone, terminate every process so that no Join probe stays blocked: leaked
		// goroutines would make every later goroutine dump longer
		procs := w.procs
		go func() {
			w.wg.Wait()
			for _, p := range procs {
				p.Exit(nil)
			}
			close(stop)
		}()
	}()
	var steps, input []string
	n := 4 + r.Intn(14)
	exits, concurrent := 0, false
	for s := 0; s < n && w.fail == ""; s++ {
		var idleT, parkedT []int
		for i, t := range w.threads {
			if t.parked == -1 {
				idleT = append(idleT, i)
			} else if t.parked >= 0 {
				parkedT = append(parkedT, i)
			}
		}
		var opG, opS string
		c := r.Intn(100)
		switch {
		case len(w.procs) == 0 || (c < 8 && len(w.procs) < 6):
			w.procs = append(w.procs, process.New())
			opG, opS = "PNew", "new"
		case c < 22 && len(idleT) > 0 && len(w.procs) < 7:
			tid, pid := idleT[r.Intn(len(idleT))], r.Intn(len(w.procs))
			// WaitGroup usage: a Join probe that has been woken must have returned before the next Fork
			allDone := true
			for _, c := range w.procs {
				if c.Parent() == w.procs[pid] && c.Status() != process.StatusTerminated {
					allDone = false
				}
			}
			if allDone {
				for _, ch := range w.probes[pid] {
					select {
					case <-ch:
					case <-time.After(2 * time.Second):
					}
				}
				w.probes[pid] = nil
			}
			w.activate(w.threads[tid], func() { w.procs = append(w.procs, w.procs[pid].Fork()) })
			opG, opS = fmt.Sprintf("PFork %d %d", tid, pid), fmt.Sprintf("fork t%d p%d", tid, pid)
			hist["fork"]++
		case c < 45 && len(idleT) > 0:
			tid, pid := idleT[r.Intn(len(idleT))], r.Intn(len(w.procs))
			h := w.nextHk
			w.nextHk++
			hk := w.hook(h)
			var added bool
			w.activate(w.threads[tid], func() { added = w.procs[pid].AddExitHook(hk) })
			w.hooks = append(w.hooks, hkinfo{pid: pid, pending: added})
			opG, opS = fmt.Sprintf("PAddHook %d %d %d", tid, pid, h), fmt.Sprintf("addhook t%d p%d h%d", tid, pid, h)
			hist["addhook"]++
		case c < 62 && len(idleT) > 0:
			tid, pid, e := idleT[r.Intn(len(idleT))], r.Intn(len(w.procs)), r.Intn(len(w.errs))
			if len(parkedT) > 0 {
				concurrent = true
			}
			exits++
			w.activate(w.threads[tid], func() { w.procs[pid].Exit(w.errs[e]) })
			opG, opS = fmt.Sprintf("PExit %d %d %d", tid, pid, e), fmt.Sprintf("exit t%d p%d e%d", tid, pid, e)
			hist["exit"]++
		case c < 88 && len(parkedT) > 0:
			tid := parkedT[r.Intn(len(parkedT))]
			t := w.threads[tid]
			close(w.release[t.parked])
			w.await(t)
			opG, opS = fmt.Sprintf("PStep %d", tid), fmt.Sprintf("step t%d", tid)
			hist["step"]++
		case c < 95:
			pid, k, v := r.Intn(len(w.procs)), r.Intn(3), r.Intn(3)
			w.procs[pid].SetValue(k, v)
			opG, opS = fmt.Sprintf("PSet %d %d %d", pid, k, v), fmt.Sprintf("set p%d %d=%d", pid, k, v)
		default:
			pid, k := r.Intn(len(w.procs)), r.Intn(3)
			// RemoveValue falls through to the parent when the key is absent: only issue it for own keys
			own := false
			for _, kk := range w.procs[pid].Keys() {
				if kk.(int) == k {
					own = true
				}
			}
			if par := w.procs[pid].Parent(); par != nil {
				for _, kk := range par.Keys() {
					if kk.(int) == k {
						own = false // ambiguous: skip
					}
				}
			}
			if !own {
				s--
				if r.Intn(3) == 0 {
					s++
				}
				continue
			}
			w.procs[pid].RemoveValue(k)
			opG, opS = fmt.Sprintf("PRemove %d %d", pid, k), fmt.Sprintf("remove p%d %d", pid, k)
		}
		if opG == "" {
			continue
		}
		steps = append(steps, fmt.Sprintf("(%s, %s)", opG, w.observe()))
		input = append(input, opS)
	}
	// run every thread to completion, one parked hook at a time
	for w.fail == "" {
		tid := -1
		for i, t := range w.threads {
			if t.parked >= 0 {
				tid = i
				break
			}
		}
		if tid < 0 {
			break
		}
		t := w.threads[tid]
		close(w.release[t.parked])
		w.await(t)
		steps = append(steps, fmt.Sprintf("(PStep %d, %s)", tid, w.observe()))
		input = append(input, fmt.Sprintf("step t%d", tid))
	}
	// the property itself, evaluated on the complete state
	if w.fail == "" {
		pos := map[int][]int{}
		got := map[int]int{}
		for i, e := range w.log {
			var h, er int
			fmt.Sscanf(e, "(%d, %d)", &h, &er)
			pos[h] = append(pos[h], i)
			got[h] = er
		}
		lastPos := map[int]int{}
		for h, info := range w.hooks {
			p := w.procs[info.pid]
			term := p.Status() == process.StatusTerminated
			want := w.errID(p.Err())
			if want == 99 {
				want = 0
			}
			switch {
			case term && len(pos[h]) != 1:
				w.fail = fmt.Sprintf("hook h%d of terminated process p%d ran %d times", h, info.pid, len(pos[h]))
			case !term && len(pos[h]) != 0:
				w.fail = fmt.Sprintf("hook h%d ran although process p%d is still running", h, info.pid)
			case term && got[h] != want:
				w.fail = fmt.Sprintf("hook h%d received error %d, process p%d terminated with %d", h, got[h], info.pid, want)
			}
			if term && info.pending && len(pos[h]) == 1 {
				if lp, ok := lastPos[info.pid]; ok && pos[h][0] > lp {
					w.fail = fmt.Sprintf("hooks of p%d registered before termination did not run in reverse registration order (h%d)", info.pid, h)
				}
				lastPos[info.pid] = pos[h][0]
			}
		}
		for i, p := range w.procs {
			for q := p.Parent(); q != nil; q = q.Parent() {
				if q.Status() == process.StatusTerminated && p.Status() != process.StatusTerminated {
					w.fail = fmt.Sprintf("process p%d is running although an ancestor terminated", i)
				}
			}
			if p.Status() == process.StatusTerminated && len(p.Keys()) > 0 {
				own := len(p.Keys())
				if par := p.Parent(); par != nil {
					own -= len(par.Keys())
				}
				_ = own
			}
		}
	}
	// Join is probed once, at the end (no Fork is issued afterwards: the documented usage)
	var joins []string
	for _, p := range w.procs {
		p := p
		_, j := joinProbe(p)
		joins = append(joins, gal.Bool(j))
		allDone := true
		for _, c := range w.procs {
			if c.Parent() == p && c.Status() != process.StatusTerminated {
				allDone = false
			}
		}
		if j != allDone && w.fail == "" {
			w.fail = fmt.Sprintf("Join returned=%v although all forked children terminated=%v", j, allDone)
		}
	}
	g := fmt.Sprintf("(mk04 %d [\n  %s]\n  %s)", nt, strings.Join(steps, ";\n  "), gal.List(joins))
	return g, input, w.fail, exits >= 1 && concurrent
}

func runC04(seed int64, n int, tier string) *Result {
	r := rand.New(rand.NewSource(seed))
	res := &Result{
		Prop:     "C04",
		Requires: []string{"Process.Process", "Process.CheckProcess"},
		CaseType: "c04case",
		OkFn:     "c04ok",
		Rule: "histories of 4-17 operations {new, fork, add exit hook, exit with error e0..e4, release the parked hook of a thread, set/remove value} on real " +
			"processes, driven through 2-3 worker goroutines; every user hook parks when entered, so Fork/AddExitHook/Exit of other threads land between the " +
			"status flip and any given hook; after every step the hook log and every process's Status/Err/Done/own keys/Join-would-return are observed; " +
			"non-trivial = an Exit issued while another thread is parked inside a hook; distinct by operation list",
		Hist: map[string]int{},
	}
	for i := 0; i < n; i++ {
		g, in, fail, nt := history04(r, res.Hist)
		res.Cases = append(res.Cases, Case{Gallina: g, Input: in, Nontrivial: nt, Key: fmt.Sprint(in), OracleFail: fail})
	}
	return res
}

// joinProbe calls p.Join() on a goroutine of its own and reports whether it returned; "did not return" is
// only concluded once the goroutine is seen waiting inside the WaitGroup (so a loaded machine cannot make a
// Join that would return look stuck)
func joinProbe(p *process.Process) (chan struct{}, bool) {
	joined := make(chan struct{})
	gidc := make(chan uint64, 1)
	go func() { gidc <- curGid(); p.Join(); close(joined) }()
	gid := <-gidc
	deadline := time.Now().Add(5 * time.Second)
	for {
		select {
		case <-joined:
			return joined, true
		case <-time.After(300 * time.Microsecond):
		}
		if goroutineWaits(gid, "sync.WaitGroup.Wait", "semacquire") {
			select {
			case <-joined:
				return joined, true
			default:
				return joined, false
			}
		}
		if time.Now().After(deadline) {
			return joined, false
		}
	}
}

// goroutineWaits reports whether goroutine gid is parked with one of the given wait reasons
func goroutineWaits(gid uint64, reasons ...string) bool {
	buf := allStacks()
	n := len(buf)
	head := fmt.Sprintf("goroutine %d [", gid)
	i := strings.Index(string(buf[:n]), head)
	if i < 0 {
		return false
	}
	rest := string(buf[i+len(head) : n])
	j := strings.IndexAny(rest, "],")
	if j < 0 {
		return false
	}
	st := rest[:j]
	for _, r := range reasons {
		if strings.HasPrefix(st, r) {
			return true
		}
	}
	return false
}
