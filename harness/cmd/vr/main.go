// vr: contended workloads on one shared instance of each engine object, meant to be built with -race.
// `vr <seed> <seconds-per-workload>`; prints one JSON line per workload: {"workload":..., "ops":..., "panic":..., "stuck":...}.
// Race reports go where GORACE says (log_path).
package main

import (
	"context"
	"encoding/json"
	"fmt"
	"math/rand"
	"os"
	"strconv"
	"sync"
	"sync/atomic"
	"time"

	"github.com/gofrs/uuid"
	"github.com/siyul-park/uniflow/pkg/node"
	"github.com/siyul-park/uniflow/pkg/packet"
	"github.com/siyul-park/uniflow/pkg/port"
	"github.com/siyul-park/uniflow/pkg/process"
	uruntime "github.com/siyul-park/uniflow/pkg/runtime"
	"github.com/siyul-park/uniflow/pkg/spec"
	"github.com/siyul-park/uniflow/pkg/store"
	"github.com/siyul-park/uniflow/pkg/symbol"
	"github.com/siyul-park/uniflow/pkg/types"
)

type result struct {
	Workload string `json:"workload"`
	Ops      int64  `json:"ops"`
	Panic    string `json:"panic,omitempty"`
	Stuck    string `json:"stuck,omitempty"`
}

// run starts n goroutines executing f(rng, i) in a loop for d; reports panics and goroutines that do not come back
func run(name string, seed int64, n int, d time.Duration, f func(r *rand.Rand, g int), cleanup func()) {
	var ops int64
	var mu sync.Mutex
	pan := ""
	stop := make(chan struct{})
	var wg sync.WaitGroup
	busy := make([]int64, n)
	for g := 0; g < n; g++ {
		g := g
		wg.Add(1)
		go func() {
			defer wg.Done()
			r := rand.New(rand.NewSource(seed*131 + int64(g)))
			for {
				select {
				case <-stop:
					return
				default:
				}
				func() {
					defer func() {
						if p := recover(); p != nil {
							mu.Lock()
							if pan == "" {
								pan = fmt.Sprint(p)
							}
							mu.Unlock()
						}
					}()
					atomic.StoreInt64(&busy[g], time.Now().UnixNano())
					f(r, g)
					atomic.StoreInt64(&busy[g], 0)
				}()
				atomic.AddInt64(&ops, 1)
			}
		}()
	}
	time.Sleep(d)
	close(stop)
	done := make(chan struct{})
	go func() { wg.Wait(); close(done) }()
	stuck := ""
	select {
	case <-done:
	case <-time.After(5 * time.Second):
		for g := range busy {
			if t := atomic.LoadInt64(&busy[g]); t != 0 {
				stuck += fmt.Sprintf("goroutine %d has been inside one operation for %v; ", g, time.Since(time.Unix(0, t)).Round(time.Millisecond))
			}
		}
		if stuck == "" {
			stuck = "workers did not stop"
		}
	}
	if cleanup != nil && stuck == "" {
		cleanup()
	}
	mu.Lock()
	out, _ := json.Marshal(result{Workload: name, Ops: atomic.LoadInt64(&ops), Panic: pan, Stuck: stuck})
	mu.Unlock()
	fmt.Println(string(out))
}

func main() {
	seed, _ := strconv.ParseInt(os.Args[1], 10, 64)
	secs, _ := strconv.ParseFloat(os.Args[2], 64)
	d := time.Duration(secs * float64(time.Second))
	only := ""
	if len(os.Args) > 3 {
		only = os.Args[3]
	}
	ws := map[string]func(){
		"local":   func() { wlLocal(seed, d) },
		"process": func() { wlProcess(seed, d) },
		"ports":   func() { wlPorts(seed, d) },
		"packet":  func() { wlPacket(seed, d) },
		"nodes":   func() { wlNodes(seed, d, false) },
		"agent":   func() { wlNodes(seed, d, true) },
		"store":   func() { wlStore(seed, d) },
		"table":   func() { wlTable(seed, d) },
		"values":  func() { wlValues(seed, d) },
	}
	for _, n := range []string{"local", "process", "ports", "packet", "nodes", "agent", "store", "table", "values"} {
		if only == "" || only == n {
			ws[n]()
		}
	}
}

func wlLocal(seed int64, d time.Duration) {
	l := process.NewLocal[int]()
	var mu sync.Mutex
	procs := []*process.Process{process.New(), process.New(), process.New()}
	get := func(r *rand.Rand) *process.Process {
		mu.Lock()
		defer mu.Unlock()
		i := r.Intn(len(procs))
		if r.Intn(40) == 0 {
			procs[i] = process.New()
		}
		return procs[i]
	}
	hk := process.StoreFunc[int](func(int) {})
	run("local", seed, 8, d, func(r *rand.Rand, g int) {
		p := get(r)
		switch r.Intn(9) {
		case 0:
			l.Store(p, r.Intn(10))
		case 1:
			l.Load(p)
		case 2:
			l.LoadOrStore(p, func() (int, error) { return 1, nil })
		case 3:
			l.Delete(p)
		case 4:
			l.AddStoreHook(p, hk)
		case 5:
			l.RemoveStoreHook(p, hk)
		case 6:
			l.Keys()
		case 7:
			p.Exit(nil)
		case 8:
			l.LoadOrStore(p, func() (int, error) { return 0, fmt.Errorf("x") })
		}
	}, l.Close)
}

func wlProcess(seed int64, d time.Duration) {
	root := process.New()
	var mu sync.Mutex
	procs := []*process.Process{root}
	run("process", seed, 8, d, func(r *rand.Rand, g int) {
		mu.Lock()
		p := procs[r.Intn(len(procs))]
		mu.Unlock()
		switch r.Intn(10) {
		case 0:
			if p.Status() != process.StatusTerminated {
				c := p.Fork()
				mu.Lock()
				if len(procs) < 40 {
					procs = append(procs, c)
				} else {
					procs[1+r.Intn(len(procs)-1)] = c
				}
				mu.Unlock()
			}
		case 1:
			p.SetValue(r.Intn(4), r.Intn(4))
		case 2:
			p.Value(r.Intn(4))
		case 3:
			p.Keys()
		case 4:
			p.RemoveValue(r.Intn(4))
		case 5:
			p.AddExitHook(process.ExitFunc(func(error) {}))
		case 6:
			if p != root {
				p.Exit(nil)
			}
		case 7:
			p.Err()
			p.Status()
			p.EndTime()
		case 8:
			select {
			case <-p.Done():
			default:
			}
		case 9:
			p.ID()
		}
	}, func() { root.Exit(nil) })
}

func wlPorts(seed int64, d time.Duration) {
	in1, in2 := port.NewIn(), port.NewIn()
	out := port.NewOut()
	var mu sync.Mutex
	procs := []*process.Process{process.New(), process.New()}
	oh := port.OpenHookFunc(func(*process.Process) {})
	ch := port.CloseHookFunc(func() {})
	ls := port.ListenFunc(func(p *process.Process) {
		w := out.Open(p)
		for range w.Receive() {
		}
	})
	lin := port.ListenFunc(func(p *process.Process) {
		rd := in1.Open(p)
		for pk := range rd.Read() {
			rd.Receive(pk)
		}
	})
	run("ports", seed, 8, d, func(r *rand.Rand, g int) {
		mu.Lock()
		i := r.Intn(len(procs))
		if r.Intn(30) == 0 {
			procs[i].Exit(nil)
			procs[i] = process.New()
		}
		p := procs[i]
		mu.Unlock()
		switch r.Intn(12) {
		case 0:
			out.Link(in1)
		case 1:
			out.Link(in2)
		case 2:
			out.Unlink(in1)
		case 3:
			w := out.Open(p)
			w.Write(packet.New(types.NewInt(1)))
		case 4:
			in1.Open(p)
		case 5:
			out.Links()
		case 6:
			out.AddOpenHook(oh)
			in1.AddOpenHook(oh)
		case 7:
			out.RemoveOpenHook(oh)
			in1.RemoveOpenHook(oh)
		case 8:
			out.AddCloseHook(ch)
			in2.AddCloseHook(ch)
		case 9:
			out.RemoveCloseHook(ch)
			in2.RemoveCloseHook(ch)
		case 10:
			out.AddListener(ls)
			in1.AddListener(lin)
		case 11:
			if r.Intn(50) == 0 {
				in2.Close()
			}
		}
	}, func() {
		for _, p := range procs {
			p.Exit(nil)
		}
		out.Close()
		in1.Close()
		in2.Close()
	})
}

func wlPacket(seed int64, d time.Duration) {
	var mu sync.Mutex
	w := packet.NewWriter()
	rs := []*packet.Reader{packet.NewReader(), packet.NewReader(), packet.NewReader()}
	hk := packet.HookFunc(func(*packet.Packet) {})
	tr := packet.NewTracer()
	go func() {
		for {
			mu.Lock()
			ww := w
			mu.Unlock()
			select {
			case _, ok := <-ww.Receive():
				if !ok {
					time.Sleep(time.Millisecond)
				}
			case <-time.After(50 * time.Millisecond):
			}
		}
	}()
	run("packet", seed, 8, d, func(r *rand.Rand, g int) {
		mu.Lock()
		ww := w
		i := r.Intn(len(rs))
		rd := rs[i]
		mu.Unlock()
		switch r.Intn(14) {
		case 0:
			ww.Link(rd)
		case 1:
			ww.Unlink(rd)
		case 2:
			ww.Write(packet.New(types.NewInt(r.Intn(5))))
		case 3:
			select {
			case p, ok := <-rd.Read():
				if ok {
					rd.Receive(p)
				}
			default:
			}
		case 4:
			ww.Links()
		case 5:
			ww.AddInboundHook(hk)
			rd.AddInboundHook(hk)
		case 6:
			ww.AddOutboundHook(hk)
			rd.AddOutboundHook(hk)
		case 7:
			if r.Intn(20) == 0 {
				rd.Close()
				mu.Lock()
				rs[i] = packet.NewReader()
				mu.Unlock()
			}
		case 8:
			if r.Intn(60) == 0 {
				ww.Close()
				mu.Lock()
				w = packet.NewWriter()
				mu.Unlock()
			}
		case 9:
			p := packet.New(types.NewInt(1))
			tr.Read(rd, p)
			q := packet.New(types.NewInt(2))
			tr.Link(p, q)
			tr.Write(ww, q)
		case 10:
			tr.Receive(ww, packet.None)
		case 11:
			tr.Reads(rd)
			tr.Writes(ww)
		case 12:
			tr.Dispatch(packet.New(nil), hk)
		case 13:
			if r.Intn(200) == 0 {
				tr.Close()
			}
		}
	}, nil)
}

func wlNodes(seed int64, d time.Duration, withAgent bool) {
	a := node.NewOneToOneNode(func(_ *process.Process, in *packet.Packet) (*packet.Packet, *packet.Packet) { return in, nil })
	b := node.NewOneToManyNode(func(_ *process.Process, in *packet.Packet) ([]*packet.Packet, *packet.Packet) {
		return []*packet.Packet{in, in}, nil
	})
	b.Out("out[1]")
	sink := port.NewIn()
	sink.AddListener(port.ListenFunc(func(p *process.Process) {
		rd := sink.Open(p)
		for pk := range rd.Read() {
			rd.Receive(pk)
		}
	}))
	a.Out("out").Link(b.In("in"))
	b.Out("out[0]").Link(sink)
	b.Out("out[1]").Link(sink)
	src := port.NewOut()
	src.Link(a.In("in"))
	name := "nodes"
	var agent *uruntime.Agent
	var syms []*symbol.Symbol
	if withAgent {
		name = "agent"
		agent = uruntime.NewAgent()
		for i, n := range []node.Node{a, b} {
			sb := &symbol.Symbol{Spec: &spec.Meta{ID: uuid.Must(uuid.NewV7()), Kind: "k", Namespace: "default", Name: fmt.Sprint("n", i)}, Node: n}
			sb.In("in")
			sb.Out("out")
			sb.Out("out[0]")
			sb.Out("out[1]")
			sb.Out("error")
			syms = append(syms, sb)
			agent.Load(sb)
		}
		agent.Watch(uruntime.NewFrameWatcher(func(f *uruntime.Frame) {
			_ = f.InPck
			_ = f.OutPck
			_ = f.InTime
		}))
	}
	var mu sync.Mutex
	procs := []*process.Process{process.New(), process.New(), process.New()}
	run(name, seed, 8, d, func(r *rand.Rand, g int) {
		mu.Lock()
		i := r.Intn(len(procs))
		if r.Intn(25) == 0 {
			procs[i].Exit(nil)
			procs[i] = process.New()
		}
		p := procs[i]
		mu.Unlock()
		switch k := r.Intn(10); {
		case k < 6:
			w := src.Open(p)
			if w.Write(packet.New(types.NewInt(r.Intn(9)))) > 0 {
				select {
				case <-w.Receive():
				case <-time.After(200 * time.Millisecond):
				}
			}
		case k < 8 && agent != nil:
			for _, q := range agent.Processes() {
				for _, f := range agent.Frames(q.ID()) {
					_ = f.InPck
					_ = f.OutPck
					_ = f.OutTime
				}
			}
			agent.Symbols()
		case k < 9 && agent != nil:
			if r.Intn(40) == 0 {
				sb := syms[r.Intn(len(syms))]
				agent.Unload(sb)
				agent.Load(sb)
			}
		default:
			a.In("in")
			a.Out("out")
		}
	}, func() {
		for _, p := range procs {
			p.Exit(nil)
		}
		if agent != nil {
			agent.Close()
		}
		src.Close()
		a.Close()
		b.Close()
		sink.Close()
	})
}

func wlStore(seed int64, d time.Duration) {
	s := store.New()
	ctx := context.Background()
	ids := make([]uuid.UUID, 12)
	for i := range ids {
		ids[i] = uuid.Must(uuid.NewV7())
	}
	var smu sync.Mutex
	var streams []store.Stream
	run("store", seed, 8, d, func(r *rand.Rand, g int) {
		id := ids[r.Intn(len(ids))]
		switch r.Intn(11) {
		case 0, 1:
			_ = s.Insert(ctx, []any{map[string]any{"id": id, "a": r.Intn(4), "b": r.Intn(4)}})
		case 2:
			_, _ = s.Update(ctx, map[string]any{"a": r.Intn(4)}, map[string]any{"$set": map[string]any{"b": r.Intn(4)}})
		case 3:
			_, _ = s.Delete(ctx, map[string]any{"id": id})
		case 4, 5:
			c, err := s.Find(ctx, map[string]any{"a": map[string]any{"$gte": r.Intn(3)}})
			if err == nil {
				var docs []map[string]any
				_ = c.All(ctx, &docs)
			}
		case 6:
			_ = s.Index(ctx, []string{"a"})
		case 7:
			_ = s.Unindex(ctx, []string{"a"})
		case 8:
			st, err := s.Watch(ctx, nil)
			if err == nil {
				smu.Lock()
				streams = append(streams, st)
				smu.Unlock()
			}
		case 9:
			smu.Lock()
			var st store.Stream
			if len(streams) > 0 {
				st = streams[0]
				streams = streams[1:]
			}
			smu.Unlock()
			if st != nil {
				c, cancel := context.WithTimeout(ctx, time.Millisecond)
				st.Next(c)
				cancel()
				st.Close(ctx)
			}
		case 10:
			_ = s.Index(ctx, []string{"b"}, store.IndexOptions{Unique: false})
		}
	}, nil)
}

func wlTable(seed int64, d time.Duration) {
	t := symbol.NewTable()
	ids := make([]uuid.UUID, 6)
	for i := range ids {
		ids[i] = uuid.Must(uuid.NewV7())
	}
	mk := func(r *rand.Rand, i int) *symbol.Symbol {
		m := &spec.Meta{ID: ids[i], Kind: "k", Namespace: "default", Name: fmt.Sprint("s", i)}
		if r.Intn(2) == 0 {
			j := r.Intn(len(ids))
			m.Ports = map[string][]spec.Port{"out": {{ID: ids[j], Port: "in"}}}
		}
		return &symbol.Symbol{Spec: m, Node: node.NewOneToOneNode(nil)}
	}
	lh := symbol.LoadFunc(func(*symbol.Symbol) error { return nil })
	uh := symbol.UnloadFunc(func(*symbol.Symbol) error { return nil })
	run("table", seed, 8, d, func(r *rand.Rand, g int) {
		i := r.Intn(len(ids))
		switch r.Intn(8) {
		case 0, 1:
			_ = t.Insert(mk(r, i))
		case 2:
			_, _ = t.Free(ids[i])
		case 3:
			if sb := t.Lookup(ids[i]); sb != nil {
				_ = sb.ID()
				_ = sb.Name()
				sb.Ins()
				sb.Outs()
			}
		case 4:
			t.Keys()
		case 5:
			t.AddLoadHook(lh)
			t.AddUnloadHook(uh)
		case 6:
			t.RemoveLoadHook(lh)
			t.RemoveUnloadHook(uh)
		case 7:
			t.Lookup(ids[i])
		}
	}, func() { _ = t.Close() })
}

type recA struct {
	A int            `json:"a"`
	B string         `json:"b,omitempty"`
	C []int          `json:"c"`
	D map[string]any `json:"d"`
}

func wlValues(seed int64, d time.Duration) {
	shared := types.NewMap(types.NewString("k"), types.NewInt(1), types.NewString("m"), types.NewMap(types.NewString("x"), types.NewSlice(types.NewInt(1), types.NewString("s"))))
	sl := types.NewSlice(types.NewInt(1), types.NewBinary([]byte{1, 2}), shared)
	bin := types.NewBinary([]byte{1, 2, 3})
	run("values", seed, 8, d, func(r *rand.Rand, g int) {
		switch r.Intn(9) {
		case 0:
			shared.Hash()
			sl.Hash()
			bin.Hash()
		case 1:
			types.Equal(shared, shared.Set(types.NewString("k"), types.NewInt(1)))
		case 2:
			types.Compare(shared, shared.Delete(types.NewString("zz")))
		case 3:
			shared.Get(types.NewString("m"))
			shared.Keys()
			shared.Interface()
		case 4:
			v, err := types.Marshal(recA{A: r.Intn(3), C: []int{1}, D: map[string]any{"x": 1}})
			if err == nil {
				var out recA
				_ = types.Unmarshal(v, &out)
			}
		case 5:
			type fresh struct {
				X int
				Y []string
			}
			v, _ := types.Marshal(fresh{X: 1, Y: []string{"a"}})
			var out fresh
			_ = types.Unmarshal(v, &out)
		case 6:
			var anyv any
			_ = types.Unmarshal(shared, &anyv)
		case 7:
			m := shared.Mutable()
			m.Set(types.NewString("q"), types.NewInt(r.Intn(3)))
			m.Immutable().Hash()
		case 8:
			var s string
			_ = types.Unmarshal(types.NewInt(3), &s)
			var bs []byte
			_ = types.Unmarshal(types.NewString("AQI="), &bs)
		}
	}, nil)
}
