// translator: reads the Go source of the engine's shared objects and emits their synchronisation
// skeleton as Gallina (theories/Lockset/generated/Skeleton.v): for every function unit (method,
// deferred closure, goroutine body) the list of its control-flow paths, each a flat list of events
//   Acq base lock mode | Rel base lock mode | Acc base field write?
// in program order (loops: zero or one iteration; calls to methods of the analysed structs inlined
// with the callee's receiver replaced by the call's receiver expression; function literals passed to
// a call are taken as synchronous callbacks unless the call registers them for later).
// Types come from go/types with the source importer, so selectors are resolved, not guessed.
package main

import (
	"encoding/json"
	"fmt"
	"go/ast"
	"go/importer"
	"go/parser"
	"go/printer"
	"go/token"
	"go/types"
	"os"
	"path/filepath"
	"sort"
	"strings"
)

type event struct {
	K     string `json:"k"` // acq rel acc
	Base  string `json:"b"`
	Name  string `json:"n"` // Class.lock or Class.field
	Mode  string `json:"m"` // W R (locks) ; w r (fields)
	Where string `json:"w"`
}

type path []event

type unit struct {
	Name  string
	Paths []path
	Trunc bool
}

type analyzer struct {
	fset    *token.FileSet
	info    *types.Info
	decls   map[*types.Func]*ast.FuncDecl
	declsN  map[string]*ast.FuncDecl // by full name: a call from another package refers to the importer's instance of the callee
	ownersN map[string]bool
	owners  map[*types.Named]bool // structs that own a mutex
	units   []*unit
	pending []func()
	written map[string]bool // Class.field written outside constructors
	ctorOnly map[string]bool
	curFn   string
	depth   int
	stack   []*types.Func
	notes   []string
	ctorCtx bool
	roots   map[*types.Func]bool
	extra   []*types.Func
}

const maxPaths = 600

func isMutex(t types.Type) (bool, bool) {
	if n, ok := t.(*types.Named); ok && n.Obj().Pkg() != nil && n.Obj().Pkg().Path() == "sync" {
		switch n.Obj().Name() {
		case "Mutex":
			return true, false
		case "RWMutex":
			return true, true
		}
	}
	return false, false
}

func deref(t types.Type) types.Type {
	if p, ok := t.(*types.Pointer); ok {
		return p.Elem()
	}
	return t
}

func namedOf(t types.Type) *types.Named {
	n, _ := deref(t).(*types.Named)
	if n != nil {
		return n.Origin()
	}
	return n
}

func (a *analyzer) text(e ast.Expr) string {
	var sb strings.Builder
	printer.Fprint(&sb, a.fset, e)
	return sb.String()
}

func (a *analyzer) pos(n ast.Node) string {
	p := a.fset.Position(n.Pos())
	return fmt.Sprintf("%s:%d", strings.TrimPrefix(p.Filename, "/repo/"), p.Line)
}

func className(n *types.Named) string {
	return n.Obj().Pkg().Name() + "." + n.Obj().Name()
}

// ---- path sets ----
type pset struct {
	open []path // paths still running
	done []path // paths that returned
	defers [][]event
}

func (a *analyzer) emit(ps *pset, ev event) {
	for i := range ps.open {
		ps.open[i] = append(ps.open[i][:len(ps.open[i]):len(ps.open[i])], ev)
	}
}

func clonePaths(p []path) []path {
	out := make([]path, len(p))
	for i := range p {
		out[i] = append(path(nil), p[i]...)
	}
	return out
}

// dedupe merges paths that perform the same sequence of lock operations: between two lock operations the
// held locks do not change, so the accesses of such paths can be pooled segment by segment (sound and
// complete for "every access is covered by the locks held at that point").
func dedupe(ps []path) []path {
	type merged struct {
		ops  []event
		segs []map[string]event
	}
	idx := map[string]*merged{}
	var order []string
	for _, p := range ps {
		var sb strings.Builder
		var ops []event
		segs := []map[string]event{{}}
		for _, e := range p {
			if e.K == "acc" {
				k := e.Base + "|" + e.Name + "|" + e.Mode
				if _, ok := segs[len(segs)-1][k]; !ok {
					segs[len(segs)-1][k] = e
				}
				continue
			}
			sb.WriteString(e.K + e.Base + "|" + e.Name + e.Mode + ";")
			ops = append(ops, e)
			segs = append(segs, map[string]event{})
		}
		k := sb.String()
		m, ok := idx[k]
		if !ok {
			idx[k] = &merged{ops: ops, segs: segs}
			order = append(order, k)
			continue
		}
		for i := range segs {
			for kk, e := range segs[i] {
				if _, ok := m.segs[i][kk]; !ok {
					m.segs[i][kk] = e
				}
			}
		}
	}
	var out []path
	for _, k := range order {
		m := idx[k]
		var p path
		for i, seg := range m.segs {
			var ks []string
			for kk := range seg {
				ks = append(ks, kk)
			}
			sort.Strings(ks)
			for _, kk := range ks {
				p = append(p, seg[kk])
			}
			if i < len(m.ops) {
				p = append(p, m.ops[i])
			}
		}
		out = append(out, p)
	}
	return out
}

// ---- expressions ----
func (a *analyzer) lockCall(call *ast.CallExpr) (event, bool) {
	sel, ok := call.Fun.(*ast.SelectorExpr)
	if !ok {
		return event{}, false
	}
	inner, ok := sel.X.(*ast.SelectorExpr)
	if !ok {
		return event{}, false
	}
	tv, ok := a.info.Types[inner]
	if !ok {
		return event{}, false
	}
	if m, _ := isMutex(tv.Type); !m {
		return event{}, false
	}
	owner := namedOf(a.info.Types[inner.X].Type)
	if owner == nil {
		return event{}, false
	}
	name := className(owner) + "." + inner.Sel.Name
	base := a.text(inner.X)
	switch sel.Sel.Name {
	case "Lock", "TryLock":
		return event{K: "acq", Base: base, Name: name, Mode: "W", Where: a.pos(call)}, true
	case "RLock", "TryRLock":
		return event{K: "acq", Base: base, Name: name, Mode: "R", Where: a.pos(call)}, true
	case "Unlock":
		return event{K: "rel", Base: base, Name: name, Mode: "W", Where: a.pos(call)}, true
	case "RUnlock":
		return event{K: "rel", Base: base, Name: name, Mode: "R", Where: a.pos(call)}, true
	}
	return event{}, false
}

func skipFieldType(t types.Type) bool {
	switch u := t.Underlying().(type) {
	case *types.Chan:
		return true
	case *types.Struct:
		_ = u
	}
	if n, ok := t.(*types.Named); ok && n.Obj().Pkg() != nil {
		switch n.Obj().Pkg().Path() {
		case "sync", "sync/atomic":
			return true
		}
	}
	return false
}

// field access of a lock-owning struct: returns event
func (a *analyzer) fieldAccess(sel *ast.SelectorExpr, write bool) (event, bool) {
	s, ok := a.info.Selections[sel]
	if !ok || s.Kind() != types.FieldVal {
		return event{}, false
	}
	owner := namedOf(s.Recv())
	if owner == nil || !a.owners[owner] {
		return event{}, false
	}
	v := s.Obj().(*types.Var)
	if skipFieldType(v.Type()) {
		return event{}, false
	}
	m := "r"
	if write {
		m = "w"
	}
	return event{K: "acc", Base: a.text(sel.X), Name: className(owner) + "." + v.Name(), Mode: m, Where: a.pos(sel)}, true
}

// rootField: for an lvalue like x.f, x.f[k], x.f[k].g ... find the selector whose field belongs to a lock owner and is the
// container being mutated (x.f in x.f[k] = v ; x.f in x.f = v); x.f.g = v mutates another object: x.f is only read
func rootWriteSel(e ast.Expr) *ast.SelectorExpr {
	switch x := e.(type) {
	case *ast.SelectorExpr:
		return x
	case *ast.IndexExpr:
		return rootWriteSel(x.X)
	case *ast.ParenExpr:
		return rootWriteSel(x.X)
	case *ast.StarExpr:
		return nil
	}
	return nil
}

func (a *analyzer) expr(ps *pset, e ast.Expr, writeSel *ast.SelectorExpr) {
	if e == nil {
		return
	}
	switch x := e.(type) {
	case *ast.FuncLit:
		// a function literal that is not a call argument: runs later (assigned, returned, stored)
		a.deferUnit(x)
		return
	case *ast.CallExpr:
		a.call(ps, x)
		return
	case *ast.SelectorExpr:
		a.expr(ps, x.X, nil)
		if ev, ok := a.fieldAccess(x, x == writeSel); ok {
			a.emit(ps, ev)
		}
		return
	case *ast.IndexExpr:
		a.expr(ps, x.X, writeSel)
		a.expr(ps, x.Index, nil)
		return
	case *ast.ParenExpr:
		a.expr(ps, x.X, writeSel)
		return
	case *ast.StarExpr:
		a.expr(ps, x.X, nil)
		return
	case *ast.UnaryExpr:
		a.expr(ps, x.X, nil)
		return
	case *ast.BinaryExpr:
		a.expr(ps, x.X, nil)
		a.expr(ps, x.Y, nil)
		return
	case *ast.KeyValueExpr:
		a.expr(ps, x.Value, nil)
		return
	case *ast.CompositeLit:
		for _, el := range x.Elts {
			a.expr(ps, el, nil)
		}
		return
	case *ast.SliceExpr:
		a.expr(ps, x.X, nil)
		a.expr(ps, x.Low, nil)
		a.expr(ps, x.High, nil)
		a.expr(ps, x.Max, nil)
		return
	case *ast.TypeAssertExpr:
		a.expr(ps, x.X, nil)
		return
	}
}

func registers(name string) bool {
	if strings.HasSuffix(name, "Func") {
		return true
	}
	switch {
	case strings.HasPrefix(name, "Add") && (strings.HasSuffix(name, "Hook") || strings.HasSuffix(name, "Listener")):
		return true
	case name == "Watch" || name == "Dispatch" || name == "AfterFunc" || strings.HasPrefix(name, "New") && strings.HasSuffix(name, "Watcher"):
		return true
	}
	return false
}

func (a *analyzer) deferUnit(fl *ast.FuncLit) {
	if a.ctorCtx {
		return // an option closure (BreakWithProcess(p) = func(b) { b.process = p }): applied by the constructor, before the object is shared
	}
	name := fmt.Sprintf("%s$%s", a.curFn, a.pos(fl))
	a.pending = append(a.pending, func() { a.analyzeBody(name, fl.Body) })
}

func (a *analyzer) call(ps *pset, call *ast.CallExpr) {
	if ev, ok := a.lockCall(call); ok {
		a.emit(ps, ev)
		return
	}
	// builtins that mutate their first argument
	if id, ok := call.Fun.(*ast.Ident); ok {
		if _, isB := a.info.Uses[id].(*types.Builtin); isB {
			switch id.Name {
			case "delete", "clear":
				if len(call.Args) > 0 {
					a.expr(ps, call.Args[0], rootWriteSel(call.Args[0]))
					for _, x := range call.Args[1:] {
						a.expr(ps, x, nil)
					}
					return
				}
			case "close":
				return
			}
		}
	}
	fname := ""
	switch f := call.Fun.(type) {
	case *ast.Ident:
		fname = f.Name
	case *ast.SelectorExpr:
		fname = f.Sel.Name
		a.expr(ps, f.X, nil)
	case *ast.FuncLit:
		// immediately invoked
		for _, x := range call.Args {
			a.expr(ps, x, nil)
		}
		a.block(ps, f.Body.List)
		return
	default:
		a.expr(ps, call.Fun, nil)
	}
	reg := registers(fname)
	for _, x := range call.Args {
		if fl, ok := x.(*ast.FuncLit); ok {
			if reg {
				a.deferUnit(fl)
			} else {
				// synchronous callback: zero or one run of its body; a return inside ends the callback only
				before := clonePaths(ps.open)
				sub := &pset{open: clonePaths(ps.open)}
				a.block(sub, fl.Body.List)
				a.finish(sub)
				ps.open = dedupe(append(sub.done, before...))
			}
			continue
		}
		a.expr(ps, x, nil)
	}
	// inline methods of lock-owning structs
	if sel, ok := call.Fun.(*ast.SelectorExpr); ok {
		if s, ok := a.info.Selections[sel]; ok && s.Kind() == types.MethodVal {
			fn := s.Obj().(*types.Func)
			owner := namedOf(s.Recv())
			d, ok := a.decls[fn]
			if !ok {
				d, ok = a.declsN[fn.FullName()]
			}
			if ok && owner != nil && (a.owners[owner] || a.ownersN[ownerKey(owner)]) && d.Body != nil {
				a.inline(ps, fn, d, a.text(sel.X), call)
				// a registrar that may call the hook it is given before it returns (Process.AddExitHook on a terminated
				// process, Local.AddStoreHook when the value is already there): the hook's body is ALSO a synchronous
				// callback at this call site, under whatever the caller holds here
				for i, x := range call.Args {
					if fl := hookLit(x); fl != nil && invokesParam(d, i) {
						before := clonePaths(ps.open)
						sub := &pset{open: clonePaths(ps.open)}
						a.block(sub, fl.Body.List)
						a.finish(sub)
						ps.open = dedupe(append(sub.done, before...))
					}
				}
			}
		}
	}
}

var bottomPkgs = map[string]bool{"process": true}

func ownerKey(n *types.Named) string {
	if n == nil || n.Obj() == nil || n.Obj().Pkg() == nil {
		return ""
	}
	return n.Obj().Pkg().Path() + "." + n.Obj().Name()
}

// hookLit: the function literal behind a hook argument: f(func...) or f(pkg.XxxFunc(func...))
func hookLit(x ast.Expr) *ast.FuncLit {
	switch y := x.(type) {
	case *ast.FuncLit:
		return y
	case *ast.CallExpr:
		name := ""
		switch f := y.Fun.(type) {
		case *ast.Ident:
			name = f.Name
		case *ast.SelectorExpr:
			name = f.Sel.Name
		}
		if strings.HasSuffix(name, "Func") && len(y.Args) == 1 {
			if fl, ok := y.Args[0].(*ast.FuncLit); ok {
				return fl
			}
		}
	}
	return nil
}

// invokesParam: does the body of d call (a method of) its i-th parameter?
func invokesParam(d *ast.FuncDecl, i int) bool {
	var names []string
	for _, f := range d.Type.Params.List {
		if len(f.Names) == 0 {
			names = append(names, "")
		}
		for _, n := range f.Names {
			names = append(names, n.Name)
		}
	}
	if i >= len(names) || names[i] == "" || names[i] == "_" {
		return false
	}
	found := false
	ast.Inspect(d.Body, func(n ast.Node) bool {
		c, ok := n.(*ast.CallExpr)
		if !ok {
			return true
		}
		switch f := c.Fun.(type) {
		case *ast.Ident:
			if f.Name == names[i] {
				found = true
			}
		case *ast.SelectorExpr:
			if id, ok := f.X.(*ast.Ident); ok && id.Name == names[i] {
				found = true
			}
		}
		return true
	})
	return found
}

func (a *analyzer) inline(ps *pset, fn *types.Func, d *ast.FuncDecl, recvText string, call *ast.CallExpr) {
	for _, f := range a.stack {
		if f == fn || f.FullName() == fn.FullName() {
			return // recursion: the callee's events at this depth are those already on the path
		}
	}
	// calls into ANOTHER package are followed when the callee belongs to a package at the bottom of the engine's
	// dependency order (pkg/process: exit hooks, process-local stores), whose locks every other package's code runs into;
	// other cross-package chains are analysed from their own roots (following them all multiplies the skeleton by 20)
	if n := len(a.stack); fn.Pkg() != nil {
		caller := ""
		if n > 0 && a.stack[n-1].Pkg() != nil {
			caller = a.stack[n-1].Pkg().Name()
		} else {
			caller = a.curFn
			if i := strings.Index(caller, "."); i > 0 {
				caller = caller[:i]
			}
		}
		if fn.Pkg().Name() != caller && !bottomPkgs[fn.Pkg().Name()] {
			return
		}
	}
	if len(a.stack) >= 7 {
		a.notes = append(a.notes, fmt.Sprintf("inlining cut at depth 7: %s at %s (analysed on its own instead)", fn.FullName(), a.pos(call)))
		a.extra = append(a.extra, fn)
		return
	}
	a.stack = append(a.stack, fn)
	defer func() { a.stack = a.stack[:len(a.stack)-1] }()
	sub := &pset{open: []path{nil}}
	saveFn := a.curFn
	a.curFn = saveFn + ">" + fn.Name()
	a.block(sub, d.Body.List)
	a.finish(sub)
	a.curFn = saveFn
	callee := dedupe(sub.done)
	recv := ""
	if d.Recv != nil && len(d.Recv.List) > 0 && len(d.Recv.List[0].Names) > 0 {
		recv = d.Recv.List[0].Names[0].Name
	}
	subst := func(b string) string {
		if recv == "" {
			return b
		}
		if b == recv {
			return recvText
		}
		if strings.HasPrefix(b, recv+".") {
			return recvText + b[len(recv):]
		}
		return "(" + fn.Name() + ")" + b // a local of the callee: keep it apart from the caller's names
	}
	var out []path
	for _, p := range ps.open {
		for _, q := range callee {
			np := append(path(nil), p...)
			for _, e := range q {
				e.Base = subst(e.Base)
				np = append(np, e)
			}
			out = append(out, np)
			if len(out) > maxPaths {
				break
			}
		}
		if len(out) > maxPaths {
			break
		}
	}
	if len(callee) == 0 {
		out = ps.open
	}
	ps.open = dedupe(out)
}

// ---- statements ----
func (a *analyzer) block(ps *pset, list []ast.Stmt) {
	for _, s := range list {
		if len(ps.open) == 0 {
			return
		}
		a.stmt(ps, s)
		if len(ps.open) > 1 {
			ps.open = dedupe(ps.open)
		}
		if len(ps.open)+len(ps.done) > maxPaths {
			ps.open = dedupe(ps.open)
			ps.done = dedupe(ps.done)
			if len(ps.open) > maxPaths {
				ps.open = ps.open[:maxPaths]
				a.notes = append(a.notes, "paths truncated in "+a.curFn)
			}
		}
	}
}

func (a *analyzer) fork(ps *pset, branches ...func(*pset)) {
	start := clonePaths(ps.open)
	var open []path
	for _, b := range branches {
		sub := &pset{open: clonePaths(start), done: ps.done, defers: ps.defers}
		b(sub)
		ps.done = sub.done
		ps.defers = sub.defers
		open = append(open, sub.open...)
	}
	ps.open = dedupe(open)
}

func (a *analyzer) stmt(ps *pset, s ast.Stmt) {
	switch x := s.(type) {
	case *ast.ExprStmt:
		a.expr(ps, x.X, nil)
	case *ast.AssignStmt:
		for _, r := range x.Rhs {
			a.expr(ps, r, nil)
		}
		for _, l := range x.Lhs {
			a.expr(ps, l, rootWriteSel(l))
		}
	case *ast.IncDecStmt:
		a.expr(ps, x.X, rootWriteSel(x.X))
	case *ast.DeclStmt:
		if gd, ok := x.Decl.(*ast.GenDecl); ok {
			for _, sp := range gd.Specs {
				if vs, ok := sp.(*ast.ValueSpec); ok {
					for _, v := range vs.Values {
						a.expr(ps, v, nil)
					}
				}
			}
		}
	case *ast.SendStmt:
		a.expr(ps, x.Chan, nil)
		a.expr(ps, x.Value, nil)
	case *ast.GoStmt:
		if fl, ok := x.Call.Fun.(*ast.FuncLit); ok {
			a.deferUnit(fl)
		}
		for _, arg := range x.Call.Args {
			a.expr(ps, arg, nil)
		}
	case *ast.DeferStmt:
		sub := &pset{open: []path{nil}}
		if fl, ok := x.Call.Fun.(*ast.FuncLit); ok {
			a.block(sub, fl.Body.List)
			sub.open = append(sub.open, sub.done...)
		} else {
			a.call(sub, x.Call)
		}
		var evs []event
		if len(sub.open) > 0 {
			evs = sub.open[0]
		}
		ps.defers = append(ps.defers, evs)
	case *ast.ReturnStmt:
		for _, r := range x.Results {
			a.expr(ps, r, nil)
		}
		a.ret(ps)
	case *ast.BlockStmt:
		a.block(ps, x.List)
	case *ast.IfStmt:
		if x.Init != nil {
			a.stmt(ps, x.Init)
		}
		// TryLock / TryRLock in the condition: the then-branch holds the lock
		var try *event
		ast.Inspect(x.Cond, func(n ast.Node) bool {
			if c, ok := n.(*ast.CallExpr); ok {
				if ev, ok := a.lockCall(c); ok && ev.K == "acq" {
					try = &ev
					return false
				}
			}
			return true
		})
		if try == nil {
			a.expr(ps, x.Cond, nil)
		}
		a.fork(ps, func(sub *pset) {
			if try != nil {
				a.emit(sub, *try)
			}
			a.block(sub, x.Body.List)
		}, func(sub *pset) {
			if x.Else != nil {
				a.stmt(sub, x.Else)
			}
		})
	case *ast.ForStmt:
		if x.Init != nil {
			a.stmt(ps, x.Init)
		}
		a.expr(ps, x.Cond, nil)
		a.fork(ps, func(sub *pset) {}, func(sub *pset) {
			a.block(sub, x.Body.List)
			if x.Post != nil {
				a.stmt(sub, x.Post)
			}
		})
	case *ast.RangeStmt:
		a.expr(ps, x.X, nil)
		a.fork(ps, func(sub *pset) {}, func(sub *pset) { a.block(sub, x.Body.List) })
	case *ast.SwitchStmt:
		if x.Init != nil {
			a.stmt(ps, x.Init)
		}
		a.expr(ps, x.Tag, nil)
		a.clauses(ps, x.Body.List, true)
	case *ast.TypeSwitchStmt:
		a.clauses(ps, x.Body.List, true)
	case *ast.SelectStmt:
		a.clauses(ps, x.Body.List, false)
	case *ast.LabeledStmt:
		a.stmt(ps, x.Stmt)
	case *ast.BranchStmt:
		// break / continue: the rest of the enclosing block is skipped on this path; approximated by going on
	}
}

func (a *analyzer) clauses(ps *pset, list []ast.Stmt, implicitDefault bool) {
	var bs []func(*pset)
	hasDefault := false
	for _, c := range list {
		c := c
		switch cc := c.(type) {
		case *ast.CaseClause:
			if cc.List == nil {
				hasDefault = true
			}
			bs = append(bs, func(sub *pset) {
				for _, e := range cc.List {
					a.expr(sub, e, nil)
				}
				a.block(sub, cc.Body)
			})
		case *ast.CommClause:
			if cc.Comm == nil {
				hasDefault = true
			}
			bs = append(bs, func(sub *pset) {
				if cc.Comm != nil {
					a.stmt(sub, cc.Comm)
				}
				a.block(sub, cc.Body)
			})
		}
	}
	if implicitDefault && !hasDefault {
		bs = append(bs, func(sub *pset) {})
	}
	if len(bs) == 0 {
		return
	}
	a.fork(ps, bs...)
}

func (a *analyzer) ret(ps *pset) {
	for _, p := range ps.open {
		np := append(path(nil), p...)
		held := map[string]int{}
		for _, e := range np {
			switch e.K {
			case "acq":
				held[e.Base+"|"+e.Name+"|"+e.Mode]++
			case "rel":
				held[e.Base+"|"+e.Name+"|"+e.Mode]--
			}
		}
		for i := len(ps.defers) - 1; i >= 0; i-- {
			for _, e := range ps.defers[i] {
				// a deferred Unlock registered in a branch this path did not take (if mu.TryRLock() { defer mu.RUnlock() ... })
				if e.K == "rel" {
					if held[e.Base+"|"+e.Name+"|"+e.Mode] <= 0 {
						continue
					}
					held[e.Base+"|"+e.Name+"|"+e.Mode]--
				}
				if e.K == "acq" {
					held[e.Base+"|"+e.Name+"|"+e.Mode]++
				}
				np = append(np, e)
			}
		}
		ps.done = append(ps.done, np)
	}
	ps.open = nil
}

func (a *analyzer) finish(ps *pset) {
	if len(ps.open) > 0 {
		a.ret(ps)
	}
}

func (a *analyzer) analyzeBody(name string, body *ast.BlockStmt) {
	a.curFn = name
	a.stack = nil
	ps := &pset{open: []path{nil}}
	a.block(ps, body.List)
	a.finish(ps)
	u := &unit{Name: name, Paths: dedupe(ps.done)}
	if len(u.Paths) > maxPaths {
		u.Paths = u.Paths[:maxPaths]
		u.Trunc = true
	}
	a.units = append(a.units, u)
}

func buildOK(f *ast.File, src []byte) bool {
	for _, cg := range f.Comments {
		if cg.Pos() > f.Package {
			break
		}
		for _, c := range cg.List {
			if strings.HasPrefix(c.Text, "//go:build") {
				expr := strings.TrimSpace(strings.TrimPrefix(c.Text, "//go:build"))
				if expr == "verif" {
					return false
				}
			}
		}
	}
	return true
}

func main() {
	repo := os.Args[1]
	out := os.Args[2]
	dirs := []string{"pkg/process", "pkg/packet", "pkg/port", "pkg/types", "pkg/encoding", "pkg/store", "pkg/symbol", "pkg/runtime"}
	fset := token.NewFileSet()
	a := &analyzer{fset: fset, decls: map[*types.Func]*ast.FuncDecl{}, declsN: map[string]*ast.FuncDecl{}, ownersN: map[string]bool{}, owners: map[*types.Named]bool{}, written: map[string]bool{}, ctorOnly: map[string]bool{},
		info: &types.Info{Uses: map[*ast.Ident]types.Object{}, Defs: map[*ast.Ident]types.Object{}, Selections: map[*ast.SelectorExpr]*types.Selection{}, Types: map[ast.Expr]types.TypeAndValue{}}}
	imp := importer.ForCompiler(fset, "source", nil)
	var allFiles []*ast.File
	classFields := map[string][]string{}
	classLocks := map[string][]string{}
	for _, d := range dirs {
		pkgs, err := parser.ParseDir(fset, filepath.Join(repo, d), func(fi os.FileInfo) bool { return !strings.HasSuffix(fi.Name(), "_test.go") }, parser.ParseComments)
		if err != nil {
			fmt.Fprintln(os.Stderr, err)
			os.Exit(1)
		}
		for _, p := range pkgs {
			var files []*ast.File
			var names []string
			for n := range p.Files {
				names = append(names, n)
			}
			sort.Strings(names)
			for _, n := range names {
				if buildOK(p.Files[n], nil) {
					files = append(files, p.Files[n])
				}
			}
			conf := types.Config{Importer: imp, Error: func(e error) { fmt.Fprintln(os.Stderr, "type error:", e) }}
			pkg, _ := conf.Check("github.com/siyul-park/uniflow/"+d, fset, files, a.info)
			if pkg == nil {
				os.Exit(1)
			}
			allFiles = append(allFiles, files...)
			sc := pkg.Scope()
			for _, n := range sc.Names() {
				tn, ok := sc.Lookup(n).(*types.TypeName)
				if !ok {
					continue
				}
				named, ok := tn.Type().(*types.Named)
				if !ok {
					continue
				}
				st, ok := named.Underlying().(*types.Struct)
				if !ok {
					continue
				}
				has := false
				for i := 0; i < st.NumFields(); i++ {
					if m, _ := isMutex(st.Field(i).Type()); m {
						has = true
						classLocks[className(named)] = append(classLocks[className(named)], st.Field(i).Name())
					}
				}
				if has {
					a.owners[named] = true
					a.ownersN[ownerKey(named)] = true
					for i := 0; i < st.NumFields(); i++ {
						if !skipFieldType(st.Field(i).Type()) {
							classFields[className(named)] = append(classFields[className(named)], st.Field(i).Name())
						}
					}
				}
			}
		}
	}
	// function declarations
	var fds []*ast.FuncDecl
	for _, f := range allFiles {
		for _, d := range f.Decls {
			if fd, ok := d.(*ast.FuncDecl); ok && fd.Body != nil {
				if obj, ok := a.info.Defs[fd.Name].(*types.Func); ok {
					a.decls[obj] = fd
					a.declsN[obj.FullName()] = fd
					fds = append(fds, fd)
				}
			}
		}
	}
	// roots: what other code can call.  A method that analysed code calls directly is analysed where it is called,
	// with the caller's locks (helpers such as Tracer.resolve, Writer.receive, every method of store.segment);
	// everything else - exported API, methods only reached through interfaces, goroutine bodies, closures that run later -
	// is analysed on its own with no lock held.
	called := map[*types.Func]bool{}
	for _, fd := range fds {
		ast.Inspect(fd.Body, func(n ast.Node) bool {
			if c, ok := n.(*ast.CallExpr); ok {
				if sel, ok := c.Fun.(*ast.SelectorExpr); ok {
					if s, ok := a.info.Selections[sel]; ok && s.Kind() == types.MethodVal {
						if owner := namedOf(s.Recv()); owner != nil && a.owners[owner] {
							called[s.Obj().(*types.Func)] = true
						}
					}
				}
			}
			return true
		})
	}
	done := map[*types.Func]bool{}
	analyzeFn := func(fd *ast.FuncDecl, force bool) {
		obj := a.info.Defs[fd.Name].(*types.Func)
		if done[obj] {
			return
		}
		sig := obj.Type().(*types.Signature)
		if sig.Recv() == nil {
			name := fd.Name.Name
			if strings.HasPrefix(name, "New") || strings.HasPrefix(name, "new") {
				return // constructors: the object is not shared yet
			}
			a.ctorCtx = strings.Contains(name, "With")
			a.analyzeBody(obj.Pkg().Name()+"."+name, fd.Body)
			a.ctorCtx = false
			done[obj] = true
			return
		}
		owner := namedOf(sig.Recv().Type())
		if owner == nil {
			return
		}
		if strings.HasPrefix(fd.Name.Name, "Unmarshal") {
			return // fills a fresh object in place (json.Unmarshal target): construction
		}
		exportedAPI := fd.Name.IsExported() && owner.Obj().Exported()
		if !force && !exportedAPI && called[obj] {
			return
		}
		done[obj] = true
		a.analyzeBody(className(owner)+"."+fd.Name.Name, fd.Body)
	}
	for _, fd := range fds {
		analyzeFn(fd, false)
	}
	for len(a.extra) > 0 {
		fn := a.extra[0]
		a.extra = a.extra[1:]
		if d, ok := a.decls[fn]; ok {
			analyzeFn(d, true)
		}
	}
	for len(a.pending) > 0 {
		p := a.pending[0]
		a.pending = a.pending[1:]
		p()
	}
	// fields written by some unit (outside constructors): these need a guard; the others are fixed at construction
	for _, u := range a.units {
		for _, p := range u.Paths {
			for _, e := range p {
				if e.K == "acc" && e.Mode == "w" {
					a.written[e.Name] = true
				}
			}
		}
	}
	sort.Slice(a.units, func(i, j int) bool { return a.units[i].Name < a.units[j].Name })
	writeOutputs(a, out, classFields, classLocks)
}

type exemption struct{ unit, field, why string }

var exemptions = []exemption{
	{"store.segment.Scan", "store.segment.indexes", "segment is reachable only through store, whose methods hold store.mu around every call (Find: RLock, Index/Unindex: Lock); the slice header is copied under that outer lock"},
	{"store.stream.Next", "store.stream.doc", "iterator state of the single consumer of a stream (Next then Decode), not shared"},
	{"store.stream.Decode", "store.stream.doc", "iterator state of the single consumer of a stream (Next then Decode), not shared"},
}

type selfEdge struct{ lock, why string }

var allowedSelf = []selfEdge{
	{"process.Process.mu", "Keys / Value / RemoveValue hold the child's lock while calling the parent's: always child before parent, and the parent relation is a tree fixed at Fork"},
}

func writeOutputs(a *analyzer, out string, classFields, classLocks map[string][]string) {
	// ids
	ids := map[string]int{}
	var names []string
	id := func(s string) int {
		if v, ok := ids[s]; ok {
			return v
		}
		ids[s] = len(names)
		names = append(names, s)
		return ids[s]
	}
	var sb strings.Builder
	sb.WriteString("(* GENERATED by /verif/translator from the current source of /repo - do not edit. *)\n")
	sb.WriteString("From Coq Require Import List NArith.\nFrom Uf Require Import Lockset.Sync.\nImport ListNotations.\nLocal Open Scope N_scope.\n\n")
	var ub strings.Builder
	npaths, nev := 0, 0
	for _, u := range a.units {
		var pstrs []string
		for _, p := range u.Paths {
			var es []string
			for _, e := range p {
				if e.K == "acc" && !a.written[e.Name] {
					continue // fixed at construction
				}
				switch e.K {
				case "acq":
					es = append(es, fmt.Sprintf("Acq %d %d %s", id("base:"+e.Base), id(e.Name), map[string]string{"W": "true", "R": "false"}[e.Mode]))
				case "rel":
					es = append(es, fmt.Sprintf("Rel %d %d %s", id("base:"+e.Base), id(e.Name), map[string]string{"W": "true", "R": "false"}[e.Mode]))
				case "acc":
					es = append(es, fmt.Sprintf("Acc %d %d %s", id("base:"+e.Base), id(e.Name), map[string]string{"w": "true", "r": "false"}[e.Mode]))
				}
			}
			if len(es) == 0 {
				continue
			}
			nev += len(es)
			pstrs = append(pstrs, "["+strings.Join(es, "; ")+"]")
		}
		if len(pstrs) == 0 {
			continue
		}
		npaths += len(pstrs)
		fmt.Fprintf(&ub, "  (* %s *) (%d, [\n    %s]);\n", u.Name, id("unit:"+u.Name), strings.Join(pstrs, ";\n    "))
	}
	// guards: the mutex of the class (for classes with several: rmu for fields read under rmu ... decided by inference below)
	type gkey struct{ field, lock string }
	// inference: for each written field, the locks of its class that are held (same base) at every access
	held := map[string]map[string]bool{}
	for _, u := range a.units {
		for _, p := range u.Paths {
			cur := map[string]bool{}
			for _, e := range p {
				switch e.K {
				case "acq":
					cur[e.Base+"|"+e.Name] = true
				case "rel":
					delete(cur, e.Base+"|"+e.Name)
				case "acc":
					if !a.written[e.Name] {
						continue
					}
					cls := e.Name[:strings.LastIndex(e.Name, ".")]
					now := map[string]bool{}
					for _, l := range classLocks[cls] {
						if cur[e.Base+"|"+cls+"."+l] {
							now[cls+"."+l] = true
						}
					}
					if h, ok := held[e.Name]; !ok {
						held[e.Name] = now
					} else {
						for l := range h {
							if !now[l] {
								delete(h, l)
							}
						}
					}
				}
			}
		}
	}
	var gs []string
	var fields []string
	for f := range a.written {
		fields = append(fields, f)
	}
	sort.Strings(fields)
	for _, f := range fields {
		cls := f[:strings.LastIndex(f, ".")]
		lock := ""
		var cands []string
		for l := range held[f] {
			cands = append(cands, l)
		}
		sort.Strings(cands)
		if len(cands) > 0 {
			lock = cands[0]
		} else if len(classLocks[cls]) > 0 {
			lock = cls + "." + classLocks[cls][0]
		}
		gs = append(gs, fmt.Sprintf("(%d, %d)", id(f), id(lock)))
	}
	sb.WriteString("Definition guards : list (N * N) := [" + strings.Join(gs, "; ") + "].\n\n")
	// documented exemptions: (unit, field) pairs the lockset discipline does not cover
	var ex []string
	sb.WriteString("(* exemptions:\n")
	for _, e := range exemptions {
		if _, ok := ids["unit:"+e.unit]; !ok {
			continue
		}
		if _, ok := ids[e.field]; !ok {
			continue
		}
		ex = append(ex, fmt.Sprintf("(%d, %d)", id("unit:"+e.unit), id(e.field)))
		fmt.Fprintf(&sb, "   %s / %s: %s\n", e.unit, e.field, e.why)
	}
	sb.WriteString("*)\nDefinition exempt : list (N * N) := [" + strings.Join(ex, "; ") + "].\n\n")
	// lock order: edges between lock classes, a ranking when they are acyclic
	edges := map[[2]string][]string{}
	for _, u := range a.units {
		for _, p := range u.Paths {
			var cur []event
			for _, e := range p {
				switch e.K {
				case "acq":
					for _, h := range cur {
						k := [2]string{h.Name, e.Name}
						if len(edges[k]) < 3 {
							edges[k] = append(edges[k], u.Name+" "+e.Where)
						}
					}
					cur = append(cur, e)
				case "rel":
					for i := len(cur) - 1; i >= 0; i-- {
						if cur[i].Base == e.Base && cur[i].Name == e.Name && cur[i].Mode == e.Mode {
							cur = append(cur[:i:i], cur[i+1:]...)
							break
						}
					}
				}
			}
		}
	}
	lockNames := map[string]bool{}
	for cls, ls := range classLocks {
		for _, l := range ls {
			lockNames[cls+"."+l] = true
		}
	}
	rank := map[string]int{}
	for n := range lockNames {
		rank[n] = 0
	}
	cyc := ""
	for round := 0; round <= len(lockNames)+1; round++ {
		changed := false
		for k := range edges {
			if k[0] == k[1] {
				continue
			}
			if rank[k[1]] <= rank[k[0]] {
				rank[k[1]] = rank[k[0]] + 1
				changed = true
			}
		}
		if !changed {
			break
		}
		if round == len(lockNames)+1 {
			cyc = "the lock order has a cycle"
		}
	}
	var rs []string
	var lns []string
	for n := range lockNames {
		lns = append(lns, n)
	}
	sort.Strings(lns)
	for _, n := range lns {
		r := rank[n]
		if cyc != "" {
			r = 0
		}
		rs = append(rs, fmt.Sprintf("(%d, %d)", id(n), r))
	}
	sb.WriteString("Definition rank : list (N * N) := [" + strings.Join(rs, "; ") + "].\n")
	var self []string
	sb.WriteString("(* self-edges allowed (one class, two objects, ordered by the data structure):\n")
	for _, e := range allowedSelf {
		self = append(self, fmt.Sprint(id(e.lock)))
		fmt.Fprintf(&sb, "   %s: %s\n", e.lock, e.why)
	}
	sb.WriteString("*)\nDefinition allowed_self : list N := [" + strings.Join(self, "; ") + "].\n\n")
	sb.WriteString("Definition units : list (N * list (list ev)) := [\n" + strings.TrimSuffix(strings.TrimSuffix(ub.String(), "\n"), ";") + "\n].\n\n")
	sb.WriteString("(* names *)\n")
	for i, n := range names {
		fmt.Fprintf(&sb, "(* %d = %s *)\n", i, n)
	}
	if err := os.MkdirAll(filepath.Dir(out), 0o755); err != nil {
		panic(err)
	}
	if err := os.WriteFile(out, []byte(sb.String()), 0o644); err != nil {
		panic(err)
	}
	var edgeList []map[string]any
	for k, v := range edges {
		edgeList = append(edgeList, map[string]any{"from": k[0], "to": k[1], "at": v})
	}
	sort.Slice(edgeList, func(i, j int) bool { return fmt.Sprint(edgeList[i]["from"], edgeList[i]["to"]) < fmt.Sprint(edgeList[j]["from"], edgeList[j]["to"]) })
	meta := map[string]any{"lock_order_edges": edgeList, "lock_order_cycle": cyc, "units": len(a.units), "paths": npaths, "events": nev, "names": names, "notes": a.notes, "guarded_fields": fields}
	var dump []map[string]any
	for _, u := range a.units {
		dump = append(dump, map[string]any{"unit": u.Name, "paths": u.Paths, "truncated": u.Trunc})
	}
	meta["dump"] = dump
	data, _ := json.Marshal(meta)
	_ = os.WriteFile(strings.TrimSuffix(out, ".v")+".json", data, 0o644)
	fmt.Printf("skeleton: %d units, %d paths, %d events, %d guarded fields, %d notes\n", len(a.units), npaths, nev, len(fields), len(a.notes))
}
