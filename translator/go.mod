module verif/translator

go 1.23
