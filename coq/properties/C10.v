(* C10 - Store results equal a reference evaluation of the supported operators.
   Model: theories/Store/Filter.v (match, patch), StoreM.v (segment, plans, scans, operations):
   a transcription of pkg/store helper.go/store.go/segment.go/executionplan.go (repaired tree).
   Reference evaluation: a map filter is the conjunction of its entries (C10_filter_conjunction,
   with the per-operator meaning of an entry given by [m_entry]); a find returns, in id order,
   exactly the stored documents for which that evaluation is true (C10_find_reference) whatever
   indexes exist; counts are the number of documents touched; documents read back are the values
   last written.  Errors: the theorems cover every filter whose evaluation raises no error on the
   stored documents (all filters of the supported grammar); ill-formed filters are covered by the
   correspondence run only. *)
From Coq Require Import List NArith ZArith Bool Sorting.Sorted.
From Uf Require Import Base.Order Value.Value Value.VMap Value.VMapProofs
  Store.Filter Store.FilterProofs Store.StoreM Store.PlanProofs Store.StoreProofs.
Import ListNotations.

Theorem C10_filter_conjunction : forall t d,
  (forall k v, In (k, v) (t_range t) -> exists b, m_entry k v d = Ok b) ->
  mmatch (VMap t) d =
  Ok (forallb (fun kv => match m_entry (fst kv) (snd kv) d with Ok true => true | _ => false end) (t_range t)).
Proof. intros t d H. rewrite mmatch_map. apply m_pairs_conj. exact H. Qed.
Print Assumptions C10_filter_conjunction.

(* after any history, in any index configuration without partial indexes *)
Theorem C10_find_reference : forall ops f,
  nopartial (s_run ops) -> plain_keys (s_run ops) ->
  (forall d, In d (entries (s_run ops)) -> exists b, mmatch f (vdoc d) = Ok b) ->
  st_find (s_run ops) (Some f) = FDocs (filter (Mt f) (entries (s_run ops))).
Proof. intros ops f NP PK NE. apply (find_indep _ f (s_run_inv ops) NP PK NE). Qed.
Print Assumptions C10_find_reference.

Theorem C10_find_all : forall st, st_find st None = FDocs (entries st).
Proof. intros st. unfold st_find. cbn. rewrite filter_docs_none. reflexivity. Qed.
Print Assumptions C10_find_all.

(* stored documents are listed in ascending id order and carry pairwise different ids *)
Theorem C10_id_order : forall ops, StronglySorted idlt (entries (s_run ops)).
Proof. intros ops. apply (s_run_inv ops). Qed.
Print Assumptions C10_id_order.

(* a successfully stored document is read back as written *)
Theorem C10_readback : forall ops d st',
  seg_store (s_run ops) d = (st', None) -> e_find (doc_id d) (entries st') = Some d.
Proof.
  intros ops d st' H. pose proof (seg_store_inv (s_run ops) d (s_run_inv ops)) as [[Hs _] _].
  rewrite H in Hs. cbn [fst] in Hs. apply e_find_complete; auto; [|apply id_eqb_refl].
  unfold seg_store in H. destruct (doc_id d); [|discriminate]. destruct (e_find _ _); [discriminate|].
  destruct (existsb _ _); [discriminate|]. destruct (idx_add_all _ _) as [ixs e]. injection H as <- _.
  apply e_insert_has.
Qed.
Print Assumptions C10_readback.

(* $set / $unset act on a document exactly like Set / Delete on the map (whose dictionary
   semantics is C15): one binding *)
Theorem C10_patch_set_one : forall d k v,
  patch d [(ohash (Some (VString op_set)), [(Some (VString op_set), Some (VMap [(ohash k, [(k, v)])]))])] = Ok (t_set k v d).
Proof. intros. reflexivity. Qed.
Print Assumptions C10_patch_set_one.

Theorem C10_patch_unset_one : forall d k v,
  patch d [(ohash (Some (VString op_unset)), [(Some (VString op_unset), Some (VMap [(ohash k, [(k, v)])]))])] = Ok (t_del k d).
Proof. intros. reflexivity. Qed.
Print Assumptions C10_patch_unset_one.
