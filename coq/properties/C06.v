(* C06 - Symbol table contents and port wiring always equal the spec graph.
   Model: theories/Table/Table.v (transcription of table.go insert/free/links/unlinks/linked/
   isActivated/Close, symbol.go Close, and of OutPort.Link/Unlink with the in-port close hooks).
   Proved for every history of Insert / Free / Close in which every inserted symbol is a fresh
   instance (its own node and ports):
   - at most one symbol per id and per instance (C06_one_per_id);
   - every link joins an out-port and an in-port that exist on the nodes of two PRESENT symbol
     instances of ONE namespace: no port stays linked to a removed or replaced symbol, and symbols of
     different namespaces are never linked (C06_links_sound).
   - C06_reference_index_exact: in every state reached by a history whose references carry an id or a name (not
     both) and in which a name is used by one symbol of a namespace at a time, Table.references is EXACTLY the
     reverse of the resolved port references of the present symbols: (target, in-port, referrer, out-port) is
     recorded iff the referrer is present, has a reference on that out-port to that in-port denoting the target, and
     the target is present and of the same namespace - nothing stale, nothing missing; names resolve through the
     name map exactly to the present symbol of that namespace with that name (C06_names_exact).
   - C06_wiring_exact: along the same histories (with every inserted symbol a new instance; lifecycle flows may fail)
     the port links are EXACTLY the resolved references of the present symbols between ports their nodes offer: every
     such reference is linked, and nothing else is.
   The correspondence run compares the wiring (by pointer identity of ports) with the model after every operation. *)
From Coq Require Import List NArith ZArith Bool.
From Uf Require Import Table.Table Table.TableProofs Table.RefsProofs Table.LinksProofs.
Import ListNotations.

Theorem C06_one_per_id : forall ops, fresh_ops [] ops ->
  NoDup (map s_id (syms (t_run ops))) /\ NoDup (map s_inst (syms (t_run ops))).
Proof. intros ops F. destruct (t_run_inv ops F) as [A [B _]]. auto. Qed.
Print Assumptions C06_one_per_id.

Theorem C06_links_sound : forall ops, fresh_ops [] ops ->
  forall a o c i, In (a, o, c, i) (links (t_run ops)) ->
  exists s t, In s (syms (t_run ops)) /\ In t (syms (t_run ops)) /\ s_inst s = a /\ s_inst t = c /\
              s_ns s = s_ns t /\ mem o (s_outs s) = true /\ mem i (s_ins t) = true /\
              s_node s = true /\ s_node t = true.
Proof.
  intros ops F a o c i H. destruct (t_run_inv ops F) as [_ [_ L]].
  rewrite Forall_forall in L. apply (L _ H).
Qed.
Print Assumptions C06_links_sound.

(* the symbol found under an id is the one inserted last and not removed since (an insertion whose
   preceding removal is aborted by a failing lifecycle flow leaves the old symbol in place: C08) *)
Theorem C06_lookup_after_insert : forall st sb, tinv st -> fresh_inst st sb ->
  (forall e, snd (free st (s_id sb)) <> TFail e) ->
  find_sym (fst (insert st sb)) (s_id sb) = Some sb.
Proof.
  intros st sb I Fr NF. pose proof (insert_inv st sb I Fr) as [N _].
  assert (Hin : In sb (syms (fst (insert st sb)))).
  { destruct (insert_syms st sb) as [E|[e [E _]]]; [|exfalso; apply (NF e E)].
    rewrite E. apply in_or_app. right. left. reflexivity. }
  unfold find_sym. destruct (find (fun s => Nat.eqb (s_id s) (s_id sb)) (syms (fst (insert st sb)))) as [x|] eqn:F.
  - apply find_some in F. destruct F as [Hx E]. apply Nat.eqb_eq in E. f_equal.
    apply (nodup_id_eq (syms (fst (insert st sb)))); auto.
  - exfalso. pose proof (find_none _ _ F sb Hin) as C. cbn beta in C. rewrite Nat.eqb_refl in C. discriminate.
Qed.
Print Assumptions C06_lookup_after_insert.

Theorem C06_lookup_after_free : forall st id f, snd (free st id) = TDone f -> find_sym (fst (free st id)) id = None.
Proof.
  intros st id f. unfold free. destruct (find_sym st id) as [sb|] eqn:F; cbn [fst snd]; auto.
  destruct (unload st sb) as [st1 [e|]]; cbn [fst snd]; [discriminate|]. intros _.
  unfold find_sym. cbn [syms].
  match goal with |- find ?f ?l = None => destruct (find f l) as [x|] eqn:E; auto; exfalso end.
  apply find_some in E. destruct E as [Hx E]. apply filter_In in Hx. destruct Hx as [_ Hx].
  apply negb_true_iff in Hx. congruence.
Qed.
Print Assumptions C06_lookup_after_free.

Theorem C06_reference_index_exact : forall ops, wf_from t_init ops ->
  forall t q r o, InRef (refs (t_run ops)) t q r o <-> Fwd (t_run ops) t q r o.
Proof. intros ops W. exact (ti_refs _ (t_run_TI ops W)). Qed.
Print Assumptions C06_reference_index_exact.

Theorem C06_names_exact : forall ops, wf_from t_init ops ->
  forall ns n id, ns_lookup (t_run ops) ns n = Some id <->
    exists s, In s (syms (t_run ops)) /\ s_ns s = ns /\ s_name s = Some n /\ s_id s = id.
Proof. intros ops W. exact (ti_ns _ (t_run_TI ops W)). Qed.
Print Assumptions C06_names_exact.

(* non-vacuity: a history with a reference by name and one by id, a replacement and a removal is well formed *)
Example C06_ex_wf :
  let a := mksym 0 1 0 (Some 5) [] true [1; 2] [0] None in
  let b := mksym 1 2 0 None [(1, [mkpref None (Some 5) 0]); (2, [mkpref (Some 3) None 0])] true [1; 2] [0] None in
  let c := mksym 2 3 0 None [(1, [mkpref (Some 2) None 0])] true [1; 2] [0] None in
  let a' := mksym 3 1 0 (Some 6) [] true [1; 2] [0] None in
  wf_from t_init [TInsert b; TInsert a; TInsert c; TInsert a'; TFree 3].
Proof. cbv zeta. apply wf_from_b_sound. vm_compute. reflexivity. Qed.

Theorem C06_wiring_exact : forall ops, wf3_from t_init ops ->
  forall a o c i, In (a, o, c, i) (links (t_run ops)) <->
    exists sr tt np p, In sr (syms (t_run ops)) /\ In tt (syms (t_run ops)) /\ In np (s_ports sr) /\ In p (snd np) /\
      RefP (s_ns sr) p tt /\ s_ns tt = s_ns sr /\ lcond sr tt (fst np) (pr_port p) = true /\
      (a, o, c, i) = (s_inst sr, fst np, s_inst tt, pr_port p).
Proof. intros ops W a o c i. exact (hl_links _ (t_run_HL ops W) (a, o, c, i)). Qed.
Print Assumptions C06_wiring_exact.
