(* C02 - Nodes answer each request once, in order, after all derived packets.
   Model: Node/Tracer.v - the Tracer every node owns, as a state machine over its method calls
   (Read, Link, Write, Receive; each runs under the tracer's mutex, so a schedule of the forward and
   backward loops of all processes is a sequence of calls).
   Proved in Coq:
   - C02_exactly_once_in_order, for EVERY sequence of calls (no discipline assumed): for each
     reader, the requests answered so far followed by the requests still pending are exactly the
     requests read on it, in order - so no request is answered twice, none overtakes an earlier one,
     none is lost from the queue;
   - C02_answers_complete: the reader branch hands out exactly the longest prefix of the queue whose
     answer slots are recorded and completely filled, each with the join of its slots, and stops at
     the first request with nothing recorded yet (the defect repaired in /repo: it used to answer
     such a request with the empty packet) or with a slot still owed;
   - C02_slot_alignment: the loop that files the answer of a derived packet under its source gives it
     exactly the slot of that derived packet, whatever order the derived packets are answered in,
     and never indexes out of range.
   PARTIAL: that the slots of a request are exactly the answers of the packets derived from it (so
   that the answer is the join of the downstream answers, after all of them) is not proved end to
   end; it is the composition of the three theorems along the node discipline (all Links of a
   request before the Writes of its derived packets), and it is compared exactly with the
   implementation: a real Tracer driven by node-shaped call sequences in random interleavings, and
   real OneToOne / OneToMany / ManyToOne nodes in chains, fan-out, diamonds and fan-in with actions
   held open and released in random order, every source answer checked against a reference
   evaluation of the workflow.  Composition across nodes relies on C01 (in-order, exactly-once
   responses per writer). *)
From Coq Require Import List Arith NArith ZArith Bool.
From Uf Require Import Packet.Writer Node.Tracer Node.TracerProofs.
Import ListNotations.

Theorem C02_exactly_once_in_order : forall ops r,
  out_of r (t_run ops) ++ reads_of r (t_run ops) = issued r t_init ops.
Proof. exact t_run_ledger. Qed.
Print Assumptions C02_exactly_once_in_order.

Theorem C02_answers_complete : forall r reads st st' rest,
  NoDup reads -> flush_reads st r reads = (st', rest) ->
  exists done, reads = done ++ rest
    /\ t_out st' = t_out st ++ map (fun rd => (r, rd, join (slots (lst (nget rd (t_receives st)))))) done
    /\ (forall rd, In rd done -> exists rc, nget rd (t_receives st) = Some rc /\ has_nil rc = false)
    /\ match rest with
       | [] => True
       | rd :: _ => nget rd (t_receives st) = None \/ exists rc, nget rd (t_receives st) = Some rc /\ has_nil rc = true
       end
    /\ (forall k, ~ In k done -> nget k (t_receives st') = nget k (t_receives st)).
Proof. exact flush_reads_spec. Qed.
Print Assumptions C02_answers_complete.

Theorem C02_slot_alignment : forall q j d,
  fill_target (pending d) (map snd d) q j = Some (pending (mark q j d), map snd (mark q j d)).
Proof. exact fill_target_aligned. Qed.
Print Assumptions C02_slot_alignment.

(* non-vacuity, and the repaired schedule: two requests pipelined through a one-to-one node; the
   answer for the first arrives while the second is between Read and Link.  The first is answered
   with the downstream answer, the second is NOT answered until its own derived packet is. *)
Example C02_ex :
  let ops := [TRead 0 1 (PAtom 1); TLink 1 2 (PAtom 10); TWrite (Some 0) 2 true;
              TRead 0 3 (PAtom 3);
              TReceive 0 (Some (Pk (PAtom 100)));
              TLink 3 4 (PAtom 30); TWrite (Some 0) 4 true;
              TReceive 0 (Some (Pk (PErr [7%Z])))] in
  map (fun n => t_out (t_run (firstn n ops))) [5; 7; 8] =
  [[(0, 1, Pk (PAtom 100))]; [(0, 1, Pk (PAtom 100))]; [(0, 1, Pk (PAtom 100)); (0, 3, Pk (PErr [7%Z]))]].
Proof. vm_compute. reflexivity. Qed.
