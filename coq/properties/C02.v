(* C02 - Nodes answer each request once, in order, after all derived packets.
   Model: Node/Tracer.v - the Tracer every node owns, as a state machine over its method calls
   (Read, Link, Write, Receive; each runs under the tracer's mutex, so a schedule of the forward and
   backward loops of all processes is a sequence of calls).
   Proved in Coq:
   - C02_exactly_once_in_order, for EVERY sequence of calls (no discipline assumed): for each
     reader, the requests answered so far followed by the requests still pending are exactly the
     requests read on it, in order - so no request is answered twice, none overtakes an earlier one,
     none is lost from the queue;
   - C02_answers_complete: the reader branch hands out exactly the longest prefix of the queue whose
     answer slots are recorded and completely filled, each with the join of its slots, and stops at
     the first request with nothing recorded yet (the defect repaired in /repo: it used to answer
     such a request with the empty packet) or with a slot still owed;
   - C02_slot_alignment: the loop that files the answer of a derived packet under its source gives it
     exactly the slot of that derived packet, whatever order the derived packets are answered in,
     and never indexes out of range.
   END TO END for one node (Node/Spec.v, Node/Refine.v):
   - the SPECIFICATION keeps for every unanswered request the row of the packets derived from it, in link order,
     with the answer each has received; it answers a request only when it is the oldest unanswered request of its
     reader and its row is non-empty and complete, and then with the join of the row (C02_spec_answers); nothing
     else produces an answer;
   - C02_tracer_refines_spec: for EVERY sequence of tracer calls that keeps the node discipline (fresh packets;
     a packet is linked only to unanswered requests and before it is written; all packets derived from a request
     are linked before the first of them is written; every derived packet is written at most once; a request
     without derived packets is answered directly; one packet may be derived from several requests, as in
     ManyToOne) the tracer hands out exactly the specification's answers - same requests, same readers, same
     packets, same order - holds the same pending requests and writes, and never indexes out of range;
     C02_discipline_invariant: the discipline keeps the specification's invariant (every step).
   - C02_loops_disciplined / C02_loops_refine (Node/Loops.v): the forward loops of the three node kinds, as lists of
     calls per request (Read; then Write(nil, request), or Link for every derived packet followed by Write for every
     one), in EVERY interleaving with one another and with Receive calls, packets being fresh, keep the discipline;
     hence in every schedule of the node loops the tracer hands out exactly the specification's answers.
   The discipline is a computable predicate; the correspondence run checks that every call sequence the harness
   drives through the real Tracer satisfies it and that the real Tracer's answers equal the specification's
   (c2ok_spec), besides comparing them with the tracer model.
   ACROSS NODES (Node/Network.v): an acyclic network (nodes numbered so that every link goes from a smaller to a
   larger number) of nodes that each behave like the specification - a request is answered when it is the oldest
   of its node and its row is complete, with the join of the row or the node's own result when nothing was
   derived - joined by links that deliver in order (what C01 gives), any number of requests in flight, the steps
   of all nodes interleaved arbitrarily:
   - C02_network_once_in_order: at every node, in every reachable state, the ids that arrived are the ids answered
     followed by the ids pending, without repetition (answered at most once, in arrival order);
   - C02_network_justified: every answer ever given is its node's own result (nothing derived) or the join of
     the answers that the packets derived from the request had received EARLIER (or, from a node that has been
     closed, the dropped-packet error: teardown, C03) - so the answers do not depend
     on the schedule: they are the recursive evaluation over the derivation tree, which is what the harness's
     reference evaluation of a workflow computes;
   - C02_network_one_answer: over the whole network a packet has at most one recorded answer, and has one exactly
     when some node has answered it;
   - C02_network_source_order: when all outside requests enter at node 0 (the source's port), the answers delivered
     outside are, oldest first, exactly the requests node 0 has answered - a prefix of the requests injected, in
     injection order, without repetition (the source gets its answers in request order, each once);
   - C02_network_error_propagates (packets, packet.Join, dropped-packet error): an error among the answers to the
     packets derived from a request makes that request's answer an error - so an error anywhere below reaches the source;
   - C02_network_no_deadlock: while anything is pending some node can finish an action or answer (acyclicity is
     used here); C02_network_quiescent: a network that cannot move has answered everything it received, exactly
     once and in order.
   PARTIAL: that the real nodes joined by real ports ARE such a network is argued per component (the tracer refines
   the specification; the node loops keep the discipline; writers and readers are in-order and exactly-once by
   C01) and compared exactly with the implementation as a whole: real OneToOne / OneToMany / ManyToOne nodes in
   chains, fan-out, diamonds and fan-in with actions held open and released in random order, every source answer
   checked against the reference evaluation of the workflow.  The network model is run against those real
   workflows as well (CheckTracer.net_ok): the harness supplies the derivations of a real run in creation order
   (which inputs each action derived packets for; the own results of sinks, open ends and nodes that derive
   nothing) and the model - per-node FIFO, row-complete rule, join - must compute exactly the answers the real
   source received. *)
From Coq Require Import List Arith NArith ZArith Bool.
From Uf Require Import Packet.Writer Node.Tracer Node.TracerProofs Node.Spec Node.Refine Node.Loops.
From Uf Require Node.Network Node.NetworkOrder Node.NetworkPkt Packet.WriterProofs.
Import ListNotations.

Theorem C02_exactly_once_in_order : forall ops r,
  out_of r (t_run ops) ++ reads_of r (t_run ops) = issued r t_init ops.
Proof. exact t_run_ledger. Qed.
Print Assumptions C02_exactly_once_in_order.

Theorem C02_answers_complete : forall r reads st st' rest,
  NoDup reads -> flush_reads st r reads = (st', rest) ->
  exists done, reads = done ++ rest
    /\ t_out st' = t_out st ++ map (fun rd => (r, rd, join (slots (lst (nget rd (t_receives st)))))) done
    /\ (forall rd, In rd done -> exists rc, nget rd (t_receives st) = Some rc /\ has_nil rc = false)
    /\ match rest with
       | [] => True
       | rd :: _ => nget rd (t_receives st) = None \/ exists rc, nget rd (t_receives st) = Some rc /\ has_nil rc = true
       end
    /\ (forall k, ~ In k done -> nget k (t_receives st') = nget k (t_receives st)).
Proof. exact flush_reads_spec. Qed.
Print Assumptions C02_answers_complete.

Theorem C02_slot_alignment : forall q j d,
  fill_target (pending d) (map snd d) q j = Some (pending (mark q j d), map snd (mark q j d)).
Proof. exact fill_target_aligned. Qed.
Print Assumptions C02_slot_alignment.

(* non-vacuity, and the repaired schedule: two requests pipelined through a one-to-one node; the
   answer for the first arrives while the second is between Read and Link.  The first is answered
   with the downstream answer, the second is NOT answered until its own derived packet is. *)
Example C02_ex :
  let ops := [TRead 0 1 (PAtom 1); TLink 1 2 (PAtom 10); TWrite (Some 0) 2 true;
              TRead 0 3 (PAtom 3);
              TReceive 0 (Some (Pk (PAtom 100)));
              TLink 3 4 (PAtom 30); TWrite (Some 0) 4 true;
              TReceive 0 (Some (Pk (PErr [7%Z])))] in
  map (fun n => t_out (t_run (firstn n ops))) [5; 7; 8] =
  [[(0, 1, Pk (PAtom 100))]; [(0, 1, Pk (PAtom 100))]; [(0, 1, Pk (PAtom 100)); (0, 3, Pk (PErr [7%Z]))]].
Proof. vm_compute. reflexivity. Qed.

Theorem C02_tracer_refines_spec : forall ops, disciplined ops = true ->
  t_out (t_run ops) = s_out (s_run ops) /\ t_reads (t_run ops) = s_reads (s_run ops) /\
  t_writes (t_run ops) = s_writes (s_run ops) /\ t_crash (t_run ops) = false.
Proof. exact tracer_refines_spec. Qed.
Print Assumptions C02_tracer_refines_spec.

(* the only place where the specification answers: a prefix of the reader's queue, each request with a row that is
   present and complete (every derived packet has its answer), answered with the join of that row *)
Theorem C02_spec_answers : forall r l s s' rest, s_flush s r l = (s', rest) ->
  exists done, l = done ++ rest /\
    s_out s' = s_out s ++ map (fun rd => (r, rd, join (answers (lst (nget rd (s_rows s)))))) done /\
    (forall rd, In rd done -> exists rw, nget rd (s_rows s) = Some rw /\ complete rw = true).
Proof. exact s_flush_out. Qed.
Print Assumptions C02_spec_answers.

Theorem C02_discipline_invariant : forall s op, WF s -> allowed s op = true -> WF (s_step s op).
Proof. exact step_wf. Qed.
Print Assumptions C02_discipline_invariant.

(* non-vacuity: a one-to-many request (two derived packets, answered out of order, one of them with an error), a
   pipelined second request answered directly, and a packet derived from two requests of two readers: the sequence is
   disciplined, and the answers are the joins *)
Example C02_ex_spec :
  let ops := [TRead 0 1 (PAtom 1); TLink 1 2 (PAtom 10); TLink 1 3 (PAtom 11);
              TWrite (Some 0) 2 true; TWrite (Some 1) 3 true;
              TRead 0 4 (PAtom 4); TWrite None 4 false;
              TReceive 1 (Some (Pk (PErr [7%Z])));
              TReceive 0 (Some (Pk (PAtom 100)));
              TRead 0 5 (PAtom 5); TRead 1 6 (PAtom 6); TLink 5 7 (PAtom 50); TLink 6 7 (PAtom 50);
              TWrite (Some 0) 7 true; TReceive 0 (Some (Pk (PAtom 9)))] in
  disciplined ops = true /\
  s_out (s_run ops) = [(0, 1, Pk (PErr [7%Z])); (0, 4, Pk (PAtom 4)); (0, 5, Pk (PAtom 9)); (1, 6, Pk (PAtom 9))] /\
  t_out (t_run ops) = s_out (s_run ops).
Proof. vm_compute. repeat split; reflexivity. Qed.

Theorem C02_loops_disciplined : forall jobs ops, jobs_ok jobs -> exec (map job_ops jobs) ops -> disciplined ops = true.
Proof. exact loops_disciplined. Qed.
Print Assumptions C02_loops_disciplined.

Theorem C02_loops_refine : forall jobs ops, jobs_ok jobs -> exec (map job_ops jobs) ops ->
  t_out (t_run ops) = s_out (s_run ops) /\ t_crash (t_run ops) = false.
Proof. exact loops_refine. Qed.
Print Assumptions C02_loops_refine.

(* non-vacuity: two pipelined requests of one reader - the first fans out into two packets (one accepted downstream and
   answered later, one with nobody downstream), the second is answered directly - interleaved; the first answer is the
   join of the downstream answer and the unconnected packet's own payload, and it comes out first *)
Example C02_ex_loops :
  let j1 := mkjob 0 1 (PAtom 1) [(2, PAtom 10, Some 0, true); (3, PAtom 11, Some 1, false)] in
  let j2 := mkjob 0 4 (PAtom 4) [] in
  let ops := [TRead 0 1 (PAtom 1); TRead 0 4 (PAtom 4); TLink 1 2 (PAtom 10); TWrite None 4 false; TLink 1 3 (PAtom 11);
              TWrite (Some 0) 2 true; TReceive 0 (Some (Pk (PAtom 100))); TWrite (Some 1) 3 false] in
  jobs_ok [j1; j2] /\ exec (map job_ops [j1; j2]) ops /\
  s_out (s_run ops) = [(0, 1, Pk (PSlice [PAtom 100; PAtom 11])); (0, 4, Pk (PAtom 4))].
Proof.
  cbv zeta. split; [|split].
  - split; [repeat constructor; cbn; intuition congruence|]. cbn. repeat constructor; cbn; intuition congruence.
  - cbn [map job_ops j_reader j_req j_pay j_out link_op write_op q_of fst snd app].
    apply (ex_step [] _ _ [_]). apply (ex_step [_] _ _ []). apply (ex_step [] _ _ [_]). apply (ex_step [_] _ _ []).
    apply (ex_step [] _ _ [_]). apply (ex_step [] _ _ [_]). apply ex_recv. apply (ex_step [] _ _ [_]).
    apply ex_done. repeat constructor.
  - vm_compute. reflexivity.
Qed.

(* ---- across nodes ---- *)
Theorem C02_network_once_in_order : forall (ans : Type) (join : list ans -> ans) (drop : ans) (N : nat) ls n,
  let st := Network.run ans join drop N ls in
  Network.n_arr ans st n = Network.n_done ans st n ++ map (Network.q_id ans) (Network.n_q ans st n) /\ NoDup (Network.n_arr ans st n).
Proof. exact Network.answered_once_in_order. Qed.
Print Assumptions C02_network_once_in_order.

Theorem C02_network_justified : forall (ans : Type) (join : list ans -> ans) (drop : ans) (N : nat) ls,
  Network.ans_ok ans join drop (Network.n_der ans (Network.run ans join drop N ls)) (Network.n_ans ans (Network.run ans join drop N ls)).
Proof. exact Network.answers_justified. Qed.
Print Assumptions C02_network_justified.

Theorem C02_network_no_deadlock : forall (ans : Type) (join : list ans -> ans) (drop : ans) (N : nat) st,
  Network.Inv ans join drop N st -> Network.busy ans st ->
  (exists n, forall own, Network.step ans join drop N st (Network.LProc ans n own []) <> None) \/ (exists n, Network.step ans join drop N st (Network.LAns ans n) <> None).
Proof. exact Network.can_move. Qed.
Print Assumptions C02_network_no_deadlock.

Theorem C02_network_quiescent : forall (ans : Type) (join : list ans -> ans) (drop : ans) (N : nat) ls,
  let st := Network.run ans join drop N ls in
  (forall n own, Network.step ans join drop N st (Network.LProc ans n own []) = None) -> (forall n, Network.step ans join drop N st (Network.LAns ans n) = None) ->
  (exists own : ans, True) ->
  forall n, Network.n_q ans st n = [] /\ Network.n_done ans st n = Network.n_arr ans st n /\ NoDup (Network.n_done ans st n).
Proof. exact Network.quiescent_all_answered. Qed.
Print Assumptions C02_network_quiescent.

Theorem C02_network_one_answer : forall (ans : Type) (join : list ans -> ans) (drop : ans) (N : nat) ls,
  let st := Network.run ans join drop N ls in
  NoDup (map fst (Network.n_ans ans st)) /\ forall id, In id (map fst (Network.n_ans ans st)) <-> exists n, In id (Network.n_done ans st n).
Proof. exact Network.one_answer_per_packet. Qed.
Print Assumptions C02_network_one_answer.

Theorem C02_network_source_order : forall (ans : Type) (join : list ans -> ans) (drop : ans) (N : nat) ls,
  Forall (NetworkOrder.src_label ans) ls ->
  let st := Network.run ans join drop N ls in
  rev (map fst (Network.n_out ans st)) = Network.n_done ans st 0
  /\ Network.n_arr ans st 0 = Network.n_done ans st 0 ++ map (Network.q_id ans) (Network.n_q ans st 0)
  /\ NoDup (Network.n_arr ans st 0).
Proof. exact NetworkOrder.source_order. Qed.
Print Assumptions C02_network_source_order.

Theorem C02_network_error_propagates : forall N ls,
  let st := Network.run pkt join dropped N ls in
  forall id a own kids k x,
    In (id, a) (Network.n_ans pkt st) -> In (id, own, kids) (Network.n_der pkt st) -> In k kids -> In (k, x) (Network.n_ans pkt st) ->
    WriterProofs.is_err x = true -> WriterProofs.is_err a = true.
Proof. exact NetworkPkt.error_propagates. Qed.
Print Assumptions C02_network_error_propagates.

(* non-vacuity: a diamond 0 -> {1, 2} -> 3 with two requests pipelined; answers are sums.  The second request
   overtakes nowhere: node 0 answers request 0 first although request 1's branch finished earlier. *)
Definition c02_net_run : list (Network.lab nat) :=
  [Network.LIn nat 0; Network.LIn nat 0;
   Network.LProc nat 0 100 [1; 2];            (* request 0 fans out: packets 2 (to node 1) and 3 (to node 2) *)
   Network.LProc nat 0 200 [1];               (* request 1 goes to node 1 only: packet 4 *)
   Network.LProc nat 1 10 [3]; Network.LProc nat 1 11 [];   (* node 1: packet 2 -> packet 5 to node 3; packet 4 answered by itself *)
   Network.LProc nat 2 20 [3];                (* node 2: packet 3 -> packet 6 to node 3 *)
   Network.LAns nat 1;                        (* not enabled: packet 2 waits for 5 *)
   Network.LProc nat 3 7 []; Network.LProc nat 3 8 []; Network.LAns nat 3; Network.LAns nat 3;
   Network.LAns nat 1; Network.LAns nat 1; Network.LAns nat 2; Network.LAns nat 0; Network.LAns nat 0].
Example C02_ex_network :
  let st := Network.run nat (fun l => fold_right Nat.add 0 l) 999 4 c02_net_run in
  Network.n_out nat st = [(1, 11); (0, 15)] /\ Network.n_done nat st 0 = [0; 1] /\ Network.n_done nat st 1 = [2; 4] /\ Network.n_done nat st 3 = [5; 6]
  /\ Network.n_q nat st 0 = [] /\ Network.n_q nat st 1 = [] /\ Network.n_q nat st 2 = [] /\ Network.n_q nat st 3 = [].
Proof. vm_compute. repeat split; reflexivity. Qed.

(* non-vacuity for the last two: all requests enter at node 0; one branch of a fan-out fails *)
Example C02_ex_network_error :
  let ls := [Network.LIn pkt 0; Network.LProc pkt 0 PNone [1; 2]; Network.LProc pkt 1 (Pk (PErr [5%Z])) [];
             Network.LProc pkt 2 (Pk (PAtom 1%Z)) []; Network.LAns pkt 1; Network.LAns pkt 2; Network.LAns pkt 0] in
  Forall (NetworkOrder.src_label pkt) ls /\
  Network.n_out pkt (Network.run pkt join dropped 3 ls) = [(0, Pk (PErr [5%Z]))] /\
  Network.n_done pkt (Network.run pkt join dropped 3 ls) 0 = [0].
Proof. split; [repeat constructor|]. vm_compute. split; reflexivity. Qed.

(* non-vacuity for C02_network_no_deadlock: a reachable state with something pending meets its hypotheses *)
Example C02_ex_network_busy :
  let st := Network.run nat (fun l => fold_right Nat.add 0 l) 999 4 [Network.LIn nat 0; Network.LProc nat 0 100 [1; 2]] in
  Network.Inv nat (fun l => fold_right Nat.add 0 l) 999 4 st /\ Network.busy nat st.
Proof. split; [apply Network.run_inv|]. exists 0. vm_compute. discriminate. Qed.
