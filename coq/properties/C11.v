(* C11 - Indexes never change the result of a query, only its cost.
   Theorems: in every reachable state - whatever sequence of index creations and removals led to
   it - a find through the execution plan and index scans returns exactly what a full scan returns,
   for every filter whose evaluation raises no error on the stored documents; consequently two
   stores holding the same documents answer alike whatever their indexes.  Update and Delete select
   their documents with the same find.  The proof rests on plan soundness (the bounds computed for
   an index key contain the key of every matching document; induction over the filter) and on index
   completeness/soundness (an invariant over histories).
   Scope: indexes without a partial filter (see C11_partial below / known finding F-C11-b), index
   keys that are field names (not operators). *)
From Coq Require Import List NArith ZArith Bool.
From Uf Require Import Base.Order Value.Value Value.VMap
  Store.Filter Store.FilterProofs Store.StoreM Store.PlanProofs Store.StoreProofs.
Import ListNotations.

Theorem C11_index_independent : forall ops f,
  nopartial (s_run ops) -> plain_keys (s_run ops) ->
  (forall d, In d (entries (s_run ops)) -> exists b, mmatch f (vdoc d) = Ok b) ->
  st_find (s_run ops) (Some f) = st_find_ref (s_run ops) (Some f).
Proof. intros ops f NP PK NE. apply (find_indep _ f (s_run_inv ops) NP PK NE). Qed.
Print Assumptions C11_index_independent.

Theorem C11_same_documents_same_answers : forall ops1 ops2 f,
  entries (s_run ops1) = entries (s_run ops2) ->
  nopartial (s_run ops1) -> plain_keys (s_run ops1) -> nopartial (s_run ops2) -> plain_keys (s_run ops2) ->
  (forall d, In d (entries (s_run ops1)) -> exists b, mmatch f (vdoc d) = Ok b) ->
  st_find (s_run ops1) (Some f) = st_find (s_run ops2) (Some f).
Proof.
  intros ops1 ops2 f E NP1 PK1 NP2 PK2 NE.
  destruct (find_indep _ f (s_run_inv ops1) NP1 PK1 NE) as [_ R1].
  assert (NE2 : forall d, In d (entries (s_run ops2)) -> exists b, mmatch f (vdoc d) = Ok b) by (rewrite <- E; exact NE).
  destruct (find_indep _ f (s_run_inv ops2) NP2 PK2 NE2) as [_ R2].
  rewrite R1, R2, E. reflexivity.
Qed.
Print Assumptions C11_same_documents_same_answers.

(* plan soundness on its own: bounds never exclude a matching document *)
Theorem C11_plan_sound : forall f d k,
  is_op k = false -> mmatch f d = Ok true -> in_bound (bounds k f) (field' d k) = true.
Proof. exact bounds_sound. Qed.
Print Assumptions C11_plan_sound.

(* every reachable state satisfies the index invariant (complete, sound, unique keys) *)
Theorem C11_index_invariant : forall ops, sinv (s_run ops).
Proof. exact s_run_inv. Qed.
Print Assumptions C11_index_invariant.

(* The full statement (any index, partial ones included) is false of the faithful model: a partial
   index is admitted when its filter accepts the query's equality skeleton, which does not imply
   that it accepts the documents the query matches.  Witness (replayed on the implementation by the
   harness on every run; known finding F-C11-b): *)
Definition w_part : option value :=
  Some (VMap [(12638187200555641996%N, [(Some (VString [97%N]), Some (VMap [(11675262178011201286%N, [(Some (VString [36; 110; 101]%N), Some (VInt W0 3%Z))])]))])]).
Definition w_doc : list (N * list (option value * option value)) :=
  [(628021283683842752%N, [(Some (VString [105; 100]%N), Some (VInt W0 1%Z))]);
   (12638187200555641996%N, [(Some (VString [97%N]), Some (VInt W0 3%Z))]);
   (12638190499090526629%N, [(Some (VString [98%N]), Some (VInt W0 1%Z))])].
Definition w_query : value :=
  VMap [(12638190499090526629%N, [(Some (VString [98%N]), Some (VInt W0 1%Z))])].
Definition w_ops : list sop := [SIndex [[98%N]] false w_part; SInsert [w_doc]].

Theorem C11_partial_refuted :
  st_find (s_run w_ops) (Some w_query) = FDocs [] /\ st_find_ref (s_run w_ops) (Some w_query) = FDocs [w_doc].
Proof. vm_compute. split; reflexivity. Qed.
Print Assumptions C11_partial_refuted.

(* non-vacuity of the main theorem: a reachable state with a compound and a unique index that
   meets every hypothesis, and a query planned through an index *)
Example C11_ex :
  let d1 := w_doc in
  let ops := [SInsert [d1]; SIndex [[98%N]; [97%N]] false None; SIndex [[97%N]] true None] in
  nopartial (s_run ops) /\ explain (s_run ops) (Some w_query) <> [] /\
  st_find (s_run ops) (Some w_query) = FDocs [d1].
Proof.
  split; [|split].
  - intros ix H. vm_compute in H. destruct H as [<-|[<-|[<-|[]]]]; reflexivity.
  - vm_compute. discriminate.
  - vm_compute. reflexivity.
Qed.
