(* C20 - Shared engine objects are safe under concurrent use: the locking protocol.
   Lockset/generated/Skeleton.v is written by /verif/translator from the CURRENT source of /repo on
   every run (go/parser + go/types): for every root of execution in pkg/{process,packet,port,types,
   encoding,store,symbol,runtime} (exported API, methods reached only through interfaces, goroutine
   bodies, closures that run later) its control-flow paths as lists of lock operations and accesses
   to the mutable fields of the structs that own a mutex, with calls to methods of those structs
   inlined (so helpers that expect a lock are checked under their callers' locks).

   Checked here, by computation on that skeleton:
     C20_lockset     every access to a field that is written after construction happens with the
                     guard of that field held on the same object, exclusively for writes; no path
                     takes a lock it already holds, releases one it does not hold, or ends holding one;
     C20_lock_order  taking lock class B while holding lock class A always goes up a fixed ranking
                     (the order is acyclic), except the listed self-edge of Process (child before parent).
   Proved once, for any skeleton (Lockset/Soundness.v), in the interleaving semantics of threads that
   each run one checked path on shared objects:
     C20_no_race       no reachable state has two threads about to touch one field of one object, one writing;
     C20_no_self_wait  a thread that waits for a lock never holds that lock itself.
   Outside this protocol (measured by the race-detector workloads, see DESIGN.md): accesses through
   elements of slices and maps handed out of a critical section, public fields of plain structs,
   channels, atomics, the memory model itself; `base` expressions are taken as object identities. *)
From Coq Require Import List Arith NArith Bool Lia.
From Uf Require Import Lockset.Sync Lockset.Soundness Lockset.generated.Skeleton.
Import ListNotations.

Theorem C20_lockset : lockset_ok guards exempt units = true.
Proof. vm_compute. reflexivity. Qed.
Print Assumptions C20_lockset.

Theorem C20_lock_order : order_ok rank allowed_self units = true.
Proof. vm_compute. reflexivity. Qed.
Print Assumptions C20_lock_order.

(* any number of threads, each running any path of any unit of the skeleton (exempted accesses dropped), any schedule *)
Theorem C20_no_race : forall paths sched,
  (forall p, In p paths -> exists u ps p0, In (u, ps) units /\ In p0 ps /\ p = strip exempt u p0) ->
  ~ race (t_run paths sched).
Proof.
  intros paths sched H. apply (lockset_sound guards).
  intros p I. destruct (H p I) as [u [ps [p0 [Iu [Ip ->]]]]].
  pose proof C20_lockset as L. unfold lockset_ok in L.
  rewrite forallb_forall in L. specialize (L (u, ps) Iu). cbn in L.
  rewrite forallb_forall in L. exact (L p0 Ip).
Qed.
Print Assumptions C20_no_race.

Theorem C20_no_self_wait : forall paths sched i t b l w r,
  (forall p, In p paths -> exists u ps p0, In (u, ps) units /\ In p0 ps /\ p = strip exempt u p0) ->
  nth_error (t_run paths sched) i = Some t -> rest t = Acq b l w :: r -> holds_lock (held t) b l = false.
Proof.
  intros paths sched i t b l w r H. apply (no_self_wait guards).
  intros p I. destruct (H p I) as [u [ps [p0 [Iu [Ip ->]]]]].
  pose proof C20_lockset as L. unfold lockset_ok in L.
  rewrite forallb_forall in L. specialize (L (u, ps) Iu). cbn in L.
  rewrite forallb_forall in L. exact (L p0 Ip).
Qed.
Print Assumptions C20_no_self_wait.

(* non-vacuity: the skeleton is not empty, and a two-thread run of an unguarded writer is a race the check rejects *)
Example C20_nonempty : (100 <? length units) = true /\ (20 <? length guards) = true.
Proof. vm_compute. split; reflexivity. Qed.
Example C20_rejects_unguarded :
  path_ok [(7, 1)]%N [] [Acq 0 1 true; Acc 0 7 true; Rel 0 1 true]%N = true /\
  path_ok [(7, 1)]%N [] [Acq 0 1 false; Acc 0 7 true; Rel 0 1 false]%N = false /\
  path_ok [(7, 1)]%N [] [Acc 0 7 false]%N = false /\
  path_ok [(7, 1)]%N [] [Acq 0 1 true; Acq 0 1 true; Rel 0 1 true; Rel 0 1 true]%N = false.
Proof. vm_compute. repeat split; reflexivity. Qed.
