(* C19 - Observing a workflow with the debug agent never changes its answers.
   Models: theories/Runtime/Agent.v - the agent's frame bookkeeping (pkg/runtime/agent.go, hooks) as a
   function of the sequence of packet-hook firings of one process, under the pinned and the repaired
   matching rule; theories/Runtime/Breakpoint.v - pkg/runtime/breakpoint.go as a thread machine
   (OnFrame, Next, Done, Close; channels as rendezvous, done as a flag, rmu / wmu).

   Proved: for EVERY sequence of hook firings (any interleaving of any number of ports), the frames
   the agent holds for a port are, in order, the k-th packet that port's inbound hook saw paired with
   the k-th packet its outbound hook saw (the longer sequence padded with empty slots) - so, given
   that an endpoint answers in request order (C01, C02), each complete frame pairs a packet that
   entered the port with the packet that answered it on that same port; firings on other ports never
   touch a port's frames.  The pinned rule is refuted by a four-firing witness (two out-ports of one
   symbol answered in the opposite order).  For breakpoints: once a breakpoint is closed (Close,
   RemoveBreakpoint, Debugger.Close all end in close(done)), a packet paused in OnFrame can step at
   either of its two selects without a partner, reaches the end of OnFrame in two steps of its own,
   and `done` never reopens.

   Across processes (Runtime/AgentProc.v, compared with a real Agent driven by 2-3 processes that open, request,
   answer and exit with requests unanswered): C19_processes_independent - whether the agent lists a process and the
   frames it holds for it depend on that process's own accepts, firings and exit only, whatever other processes do in
   between; C19_live_process_frames - so the frames of a port of a live process are the pairing of the single-process
   theorem over that process's own firings.

   Transparency ("no response changes") is differential and measured, not proved: packet hooks are
   arbitrary Go code run inside the endpoints' critical sections; in the model they are observers by
   construction.  The harness runs the workflows and schedules of C02 with and without the agent. *)
From Coq Require Import List Arith Bool Lia.
From Uf Require Import Runtime.Agent Runtime.AgentProofs Runtime.Breakpoint Runtime.BreakpointProofs.
From Uf Require Runtime.AgentProc.
Import ListNotations.

Theorem C19_frames_are_the_zip : forall evs x,
  frames_of x (a_run rule_repaired evs) = zipl (ins_of x evs) (outs_of x evs).
Proof. exact frames_zip. Qed.
Print Assumptions C19_frames_are_the_zip.

Theorem C19_frames_pair : forall evs x k i o,
  nth_error (frames_of x (a_run rule_repaired evs)) k = Some (Some i, Some o) ->
  nth_error (ins_of x evs) k = Some i /\ nth_error (outs_of x evs) k = Some o.
Proof. exact frames_pair. Qed.
Print Assumptions C19_frames_pair.

Theorem C19_frames_local : forall evs e x,
  (match e with HIn y _ | HOut y _ => port_eqb y x = false end) ->
  frames_of x (a_run rule_repaired (evs ++ [e])) = frames_of x (a_run rule_repaired evs).
Proof. exact frames_local. Qed.
Print Assumptions C19_frames_local.

(* the pinned rule: requests 10 and 11 written on out-ports 1 and 2 of symbol 0, responses 21 (port 2)
   then 20 (port 1): the frame of port 1 pairs request 10 with response 21 *)
Theorem C19_pinned_rule_mispairs :
  let o1 := mkport 0 true 1 in let o2 := mkport 0 true 2 in
  let evs := [HOut o1 10; HOut o2 11; HIn o2 21; HIn o1 20] in
  frames_of o1 (a_run rule_pinned evs) = [(Some 21, Some 10)] /\
  frames_of o1 (a_run rule_repaired evs) = [(Some 20, Some 10)].
Proof. vm_compute. split; reflexivity. Qed.
Print Assumptions C19_pinned_rule_mispairs.

Theorem C19_closed_breakpoint_releases : forall st t,
  done st = true -> t < length (pcs st) ->
  (forall f, pc_of st t = F0 f -> exists st', b_step st (BSeeDone t) = Some st' /\ pc_of st' t = F1) /\
  (pc_of st t = F1 -> exists st', b_step st (BSeeDone t) = Some st' /\ pc_of st' t = FEnd).
Proof. exact closed_releases. Qed.
Print Assumptions C19_closed_breakpoint_releases.

Theorem C19_closed_in_two_steps : forall st t f,
  done st = true -> t < length (pcs st) -> pc_of st t = F0 f ->
  pc_of (b_next (b_next st (BSeeDone t)) (BSeeDone t)) t = FEnd.
Proof. exact closed_two_steps. Qed.
Print Assumptions C19_closed_in_two_steps.

Theorem C19_done_never_reopens : forall st l, done st = true -> done (b_next st l) = true.
Proof. exact done_monotone. Qed.
Print Assumptions C19_done_never_reopens.

(* non-vacuity: a packet pauses (its frame is handed to Next), is stepped (Done takes it back), a second
   packet pauses and the breakpoint is closed under it *)
Example C19_ex :
  let st := b_run [F0 7; NDLock; F0 8; DLock; NDLock; CWLock]
                  [BLock 1; BLock 1; BSendIn 0 1; BLock 3; BRecvOut 0 3; BLock 4; BLock 4; BSendIn 2 4; BLock 5; BLock 5; BSeeDone 2] in
  pcs st = [FEnd; NEnd true; FEnd; DEnd true; NEnd true; CEnd] /\ done st = true /\ cur st = None.
Proof. vm_compute. repeat split; reflexivity. Qed.

Theorem C19_processes_independent : forall g evs p,
  AgentProc.view p (AgentProc.g_run g evs) = AgentProc.view p (AgentProc.g_run g (filter (AgentProc.own p) evs)).
Proof. exact AgentProc.agent_processes_independent. Qed.
Print Assumptions C19_processes_independent.

(* a live process among others: from its accept on (it was unknown to the agent before), with no exit in between, the
   frames the agent holds for a port of that process pair the k-th packet the port's inbound hook saw with the k-th
   packet its outbound hook saw - whatever other processes do, start, or terminate meanwhile *)
Theorem C19_live_process_frames : forall pre post p x,
  AgentProc.untouched p pre -> AgentProc.no_exit p post ->
  frames_of x (AgentProc.frames_for p (AgentProc.g_run true (pre ++ AgentProc.PAccept p :: post)))
  = zipl (ins_of x (AgentProc.fires_of p post)) (outs_of x (AgentProc.fires_of p post)).
Proof. exact AgentProc.live_process_frames. Qed.
Print Assumptions C19_live_process_frames.
