(* C16 - Encoding a Go value and decoding it back returns the same value.
   Model: Codec/Codec.v - a universe of Go types (scalars of every width, string, []byte, time.Time,
   time.Duration, pointers, slices, arrays, string-keyed maps, structs with named / omitempty /
   inline fields, open `any` fields), Marshal and Unmarshal-into-a-fresh-value transcribed from
   pkg/types (repaired tree).
   Proved in Coq, for every type without inline fields, of any nesting depth, and every well-formed
   value of it (C16_roundtrip): Marshal succeeds; Unmarshal of the result succeeds; the decoded value
   encodes to the same engine value; and, when the type has no open field, the decoded value is the
   canonical form of the original (nil and empty containers identified, times in whole UTC
   milliseconds: known finding F-C16-a says exactly this is lost).  For open fields
   (C16_open_values): the generic view of ANY well-formed engine value - nulls anywhere, empty
   containers, mixed lists - encodes back to that engine value.
   Well-formed excludes: a pointer to a null-encoding pointee (known finding F-C16-b), a non-zero
   time within a millisecond of the zero time, a non-zero duration below a millisecond
   (F-C16-a's omitempty corner), duplicate keys in a struct.
   PARTIAL: inline fields (struct and map) are in the model and in the correspondence check, and
   C16_ex evaluates one; the general theorem does not cover them.  The JSON form and the
   spec -> Unstructured -> spec path are checked on the implementation by direct oracles. *)
From Coq Require Import List NArith ZArith Bool.
From Uf Require Import Codec.Codec Codec.CodecMaps Codec.CodecDyn Codec.CodecProofs.
Import ListNotations.

Theorem C16_roundtrip : forall t v, wf t v = true -> noinline t = true ->
  exists c v', enc t v = Some c /\ dec t c = Some v' /\ enc t v' = Some c
    /\ (noany t = true -> v' = canon t v).
Proof.
  intros t v Hw Hn. destruct (roundtrip v t Hw Hn) as [c [v' [r [E1 [_ [D1 [E2 [_ [_ C1]]]]]]]]].
  exists c, v'. unfold dec. rewrite D1. auto.
Qed.
Print Assumptions C16_roundtrip.

Theorem C16_open_values : forall c, cok c -> dec GAny c = Some (dyn_of c) /\ enc GAny (dyn_of c) = Some c.
Proof.
  intros c Hc. split; [destruct c; reflexivity | apply dyn_roundtrip, Hc].
Qed.
Print Assumptions C16_open_values.

(* non-vacuity: a struct with a nil pointer, an omitted zero field, a nil slice, an open field holding
   a list with a null, and a time; and one struct with an inline struct and an inline map standing
   BEFORE a named field (evaluated: outside the proved fragment) *)
Example C16_ex :
  let k := fun (s : N) => [s] in
  let t := GStruct [(k 97, GPtr (GInt W8), FPlain); (k 98, GUint W16, FOmit); (k 99, GSlice GString, FPlain);
                    (k 100, GAny, FPlain); (k 101, GTime, FPlain)]%N in
  let v := XStruct [XNil; XUint 0; XSlice true [];
                    XDyn (GSlice GAny) (XSlice false [XNil; XDyn (GInt W0) (XInt 7)]); XTime 1500000123 false] in
  wf t v = true /\ noinline t = true /\
  enc t v = Some (CMap [(k 97, CNil); (k 99, CSlice []); (k 100, CSlice [CNil; CInt W0 7]); (k 101, CInt W64 1500)])%N /\
  option_map (fun c => dec t c) (enc t v) =
    Some (Some (XStruct [XNil; XUint 0; XSlice false [];
                         XDyn (GSlice GAny) (XSlice false [XNil; XDyn (GInt W0) (XInt 7)]); XTime 1500000000 true])) /\
  let ti := GStruct [(k 120, GMap (GInt W0), FInline); (k 0, GStruct [(k 102, GBool, FPlain)], FInline); (k 103, GString, FPlain)]%N in
  let vi := XStruct [XMap false [(k 121, XInt 5)%N]; XStruct [XBool true]; XStr [104%N]] in
  option_map (fun c => dec ti c) (enc ti vi) = Some (Some vi).
Proof. vm_compute. repeat split; reflexivity. Qed.
