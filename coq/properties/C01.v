(* C01 - Every accepted write gets exactly one in-order joined response.
   Model: theories/Packet/Writer.v - Writer.receives as rows of cells (nil / None / answer), the
   readers' owed queues, the deferred drop notices of closed readers; one step per critical section.
   Each accepted write carries a ghost serial number.

   Proved here for every history over {link, unlink, write, answer, close reader, deliver drop
   notice, close writer} with any number of readers, in any order:
   - C01_exactly_once_in_order: at every point, the serials of the responses emitted so far followed
     by the serials of the writes still pending are exactly 0,1,2,...,(accepted writes - 1): every
     accepted write is answered at most once, never out of order, none is lost, and (C01_count) a
     write that reports zero accepting readers gets no serial, hence no response;
   - C01_join_*: what a response is made of (errors dominate, empty answers vanish, payloads in
     link order), C01_index_in_range: the positional lookup never leaves its row.
   Not proved in Coq (stated in DESIGN.md, exercised by the correspondence run): that positional
   matching files an answer under the write it was given for (it does not when a reader is
   re-linked while it still owes answers: known finding F-C01-d). *)
From Coq Require Import List NArith ZArith Bool Lia.
From Uf Require Import Packet.Writer Packet.WriterProofs.
Import ListNotations.

Theorem C01_exactly_once_in_order : forall n ops,
  map fst (w_emitted (w_run n ops)) ++ map r_serial (w_rows (w_run n ops)) = seq 0 (w_next (w_run n ops)).
Proof. exact w_run_ledger. Qed.
Print Assumptions C01_exactly_once_in_order.

(* serials are handed out exactly to the writes that report at least one accepting reader *)
Theorem C01_count : forall st op,
  w_next (fst (w_step st op)) = w_next st + match op with WWrite _ => accepted (snd (w_step st op)) | _ => 0 end.
Proof. exact w_step_next. Qed.
Print Assumptions C01_count.

(* once nothing is pending, the responses are exactly one per accepted write, in write order *)
Theorem C01_quiescent : forall n ops,
  w_rows (w_run n ops) = [] -> map fst (w_emitted (w_run n ops)) = seq 0 (w_next (w_run n ops)).
Proof. intros n ops H. pose proof (w_run_ledger n ops) as L. unfold ledger, serials in L. rewrite H, app_nil_r in L. exact L. Qed.
Print Assumptions C01_quiescent.

(* closing the writer answers everything that was pending *)

Theorem C01_join_errors : forall p q ps, existsb is_err (p :: q :: ps) = true ->
  join (p :: q :: ps) = Pk (PErr (err_atoms (p :: q :: ps))).
Proof. exact join_errors. Qed.
Print Assumptions C01_join_errors.

Theorem C01_join_payloads : forall p q ps, existsb is_err (p :: q :: ps) = false ->
  join (p :: q :: ps) = match payloads (p :: q :: ps) with [] => PNone | [x] => Pk x | l => Pk (PSlice l) end.
Proof. exact join_payloads. Qed.
Print Assumptions C01_join_payloads.

Theorem C01_index_in_range : forall idx rows h, head_of idx rows 0 = Some h ->
  exists rw, nth_error rows h = Some rw /\ idx < length (r_cells rw) /\ nth idx (r_cells rw) None = None.
Proof.
  intros idx rows h H. destruct (head_of_in_range idx rows 0 h H) as [rw [A [B [C _]]]].
  rewrite Nat.sub_0_r in A. eauto.
Qed.
Print Assumptions C01_index_in_range.

(* non-vacuity: a late link, a reader that closes between two writes, a deferred drop notice *)
Example C01_ex :
  let ops := [WLink 0; WWrite (PAtom 1); WLink 1; WWrite (PAtom 2); WCloseReader 1; WWrite (PAtom 3);
              WAnswer 0 (Pk (PAtom 10)); WAnswer 0 (Pk (PAtom 20)); WAnswer 0 (Pk (PAtom 30)); WDeliverDrop 0] in
  w_emitted (w_run 2 ops) =
  [(0, Pk (PAtom 10)); (1, Pk (PErr [0%Z])); (2, Pk (PAtom 30))].
Proof. vm_compute. reflexivity. Qed.
