(* C01 - Every accepted write gets exactly one in-order joined response.
   Model: theories/Packet/Writer.v - Writer.receives as rows of cells (nil / None / answer), the
   readers' owed queues, the deferred drop notices of closed readers; one step per critical section.
   Each accepted write carries a ghost serial number.

   Proved here for every history over {link, unlink, write, answer, close reader, deliver drop
   notice, close writer} with any number of readers, in any order:
   - C01_exactly_once_in_order: at every point, the serials of the responses emitted so far followed
     by the serials of the writes still pending are exactly 0,1,2,...,(accepted writes - 1): every
     accepted write is answered at most once, never out of order, none is lost, and (C01_count) a
     write that reports zero accepting readers gets no serial, hence no response;
   - C01_join_*: what a response is made of (errors dominate, empty answers vanish, payloads in
     link order), C01_index_in_range: the positional lookup never leaves its row.
   Not proved in Coq (stated in DESIGN.md, exercised by the correspondence run): that positional
   matching files an answer under the write it was given for (it does not when a reader is
   re-linked while it still owes answers: known finding F-C01-d). *)
From Coq Require Import List NArith ZArith Bool Lia.
From Uf Require Import Packet.Writer Packet.WriterProofs Packet.AttributionProofs.
Import ListNotations.

Theorem C01_exactly_once_in_order : forall n ops,
  map fst (w_emitted (w_run n ops)) ++ map r_serial (w_rows (w_run n ops)) = seq 0 (w_next (w_run n ops)).
Proof. exact w_run_ledger. Qed.
Print Assumptions C01_exactly_once_in_order.

(* serials are handed out exactly to the writes that report at least one accepting reader *)
Theorem C01_count : forall st op,
  w_next (fst (w_step st op)) = w_next st + match op with WWrite _ => accepted (snd (w_step st op)) | _ => 0 end.
Proof. exact w_step_next. Qed.
Print Assumptions C01_count.

(* once nothing is pending, the responses are exactly one per accepted write, in write order *)
Theorem C01_quiescent : forall n ops,
  w_rows (w_run n ops) = [] -> map fst (w_emitted (w_run n ops)) = seq 0 (w_next (w_run n ops)).
Proof. intros n ops H. pose proof (w_run_ledger n ops) as L. unfold ledger, serials in L. rewrite H, app_nil_r in L. exact L. Qed.
Print Assumptions C01_quiescent.

(* closing the writer answers everything that was pending *)

Theorem C01_join_errors : forall p q ps, existsb is_err (p :: q :: ps) = true ->
  join (p :: q :: ps) = Pk (PErr (err_atoms (p :: q :: ps))).
Proof. exact join_errors. Qed.
Print Assumptions C01_join_errors.

Theorem C01_join_payloads : forall p q ps, existsb is_err (p :: q :: ps) = false ->
  join (p :: q :: ps) = match payloads (p :: q :: ps) with [] => PNone | [x] => Pk x | l => Pk (PSlice l) end.
Proof. exact join_payloads. Qed.
Print Assumptions C01_join_payloads.

Theorem C01_index_in_range : forall idx rows h, head_of idx rows 0 = Some h ->
  exists rw, nth_error rows h = Some rw /\ idx < length (r_cells rw) /\ nth idx (r_cells rw) None = None.
Proof.
  intros idx rows h H. destruct (head_of_in_range idx rows 0 h H) as [rw [A [B [C _]]]].
  rewrite Nat.sub_0_r in A. eauto.
Qed.
Print Assumptions C01_index_in_range.

(* Attribution.  Writer.receive matches an answer to a write by POSITION (the first row that has a column for the
   reader and holds nil there).  For every history in which no reader is linked again while it still owes answers
   (ok_hist; the excluded case is finding F-C01-d, see C01_stale_relink_misattributes), in every reachable state:
   readers are linked at most once, no row is wider than the reader list, and for every linked reader the rows
   pending in its column are, oldest first, exactly the writes it still owes (its FIFO of owed serials); for a
   closed reader they are no more than its outstanding drop notices. *)
Theorem C01_pending_is_owed : forall n ops, ok_hist (w_init n) ops -> FInv (w_run n ops).
Proof. exact w_run_FInv. Qed.
Print Assumptions C01_pending_is_owed.

(* so an answer of reader r lands in the row of the oldest write r still owes: the row Writer.receive picks
   (head_of, the code's indexOfHead) carries the serial at the head of r's owed queue *)
Theorem C01_answer_attribution : forall st r idx k rest,
  FInv st -> w_done st = false ->
  nth_error (w_readers st) idx = Some r -> rd_done (get_reader st r) = false -> rd_owed (get_reader st r) = k :: rest ->
  exists pre rw post, w_rows st = pre ++ rw :: post /\ r_serial rw = k /\ head_of idx (w_rows st) 0 = Some (length pre) /\
    cell_open idx rw = true /\ filter (cell_open idx) pre = [].
Proof. exact answer_filed_under_oldest_owed. Qed.
Print Assumptions C01_answer_attribution.

(* the excluded case is real (finding F-C01-d): reader 0 is unlinked while it owes write 0, linked again, and its
   old answer is filed under write 1 *)
Theorem C01_stale_relink_misattributes :
  let ops := [WLink 0; WWrite (PAtom 1); WUnlink 0; WLink 0; WWrite (PAtom 2); WAnswer 0 (Pk (PAtom 10))] in
  ~ ok_hist (w_init 1) ops /\
  w_emitted (w_run 1 ops) = [(0, Pk (PErr [0%Z])); (1, Pk (PAtom 10))].
Proof.
  split; [|vm_compute; reflexivity].
  cbn. intros [_ [_ [_ [H _]]]]. vm_compute in H. specialize (H eq_refl). discriminate.
Qed.
Print Assumptions C01_stale_relink_misattributes.

(* non-vacuity: a late link, a reader that closes between two writes, a deferred drop notice *)
Example C01_ex :
  let ops := [WLink 0; WWrite (PAtom 1); WLink 1; WWrite (PAtom 2); WCloseReader 1; WWrite (PAtom 3);
              WAnswer 0 (Pk (PAtom 10)); WAnswer 0 (Pk (PAtom 20)); WAnswer 0 (Pk (PAtom 30)); WDeliverDrop 0] in
  w_emitted (w_run 2 ops) =
  [(0, Pk (PAtom 10)); (1, Pk (PErr [0%Z])); (2, Pk (PAtom 30))].
Proof. vm_compute. reflexivity. Qed.

(* the history above meets the hypothesis of C01_pending_is_owed *)
Example C01_ex_ok :
  ok_hist (w_init 2) [WLink 0; WWrite (PAtom 1); WLink 1; WWrite (PAtom 2); WCloseReader 1; WWrite (PAtom 3);
              WAnswer 0 (Pk (PAtom 10)); WAnswer 0 (Pk (PAtom 20)); WAnswer 0 (Pk (PAtom 30)); WDeliverDrop 0].
Proof. vm_compute. repeat split; auto. Qed.
