(* C04 - Process exit hooks run exactly once; exit cascades to children; Join waits.
   Model: theories/Process/Process.v - processes with status/error/hooks/values/WaitGroup counter;
   threads executing Exit as an atomic flip followed by the taken hooks in reverse order, a child
   being a hook whose invocation is a nested Exit.
   Proved for every history and interleaving (at the granularity of flips and user-hook entries):
   termination is permanent and the exit error is the one of the first Exit; the flip takes all
   hooks, so a terminated process holds none (no hook can be taken twice) and its values from before
   are gone; hooks run in reverse registration order (the frame is [rev taken]).
   C04_exactly_once is the log-level clause: by a conservation argument (every hook an AddExitHook call
   brought in is registered, or waiting in a frame of a thread that runs exit hooks, or in the log -
   exactly one of the three) each hook is entered at most once in any interleaving, only after its
   process has terminated and with that process's exit error, and exactly once when no thread has
   anything left to run.  C04_cascade and C04_join complete the statement: on complete states every child of a terminated
   process is terminated, and the WaitGroup counter is zero exactly when all children are. *)
From Coq Require Import List NArith ZArith Bool Lia.
From Uf Require Import Process.Process Process.ProcessProofs Process.OnceProofs.
Import ListNotations.

(* from termination on, status and error never change, whatever any thread does *)
Theorem C04_terminated_forever : forall st op pid,
  pid < length (procs st) -> p_term (get_proc st pid) = true ->
  p_term (get_proc (fst (p_step st op)) pid) = true /\
  p_err (get_proc (fst (p_step st op)) pid) = p_err (get_proc st pid).
Proof. intros st op pid L T. apply (proj2 (p_step_ext st op) pid L T). Qed.
Print Assumptions C04_terminated_forever.

(* the first Exit decides: flip on a running process fixes the error, empties hooks and values *)
Theorem C04_flip : forall st pid err st' taken,
  flip st pid err = (st', taken) -> pid < length (procs st) -> p_term (get_proc st pid) = false ->
  taken = p_hooks (get_proc st pid) /\
  p_term (get_proc st' pid) = true /\ p_err (get_proc st' pid) = err /\
  p_data (get_proc st' pid) = [] /\ p_hooks (get_proc st' pid) = [].
Proof. exact flip_spec. Qed.
Print Assumptions C04_flip.

(* a later Exit takes nothing: hooks cannot run twice *)
Theorem C04_second_exit_takes_nothing : forall st pid err,
  p_term (get_proc st pid) = true -> flip st pid err = (st, []).
Proof. intros st pid err T. unfold flip. rewrite T. reflexivity. Qed.
Print Assumptions C04_second_exit_takes_nothing.

(* in every reachable state a terminated process holds no hooks *)
Theorem C04_terminated_holds_no_hooks : forall n ops p,
  In p (procs (p_run n ops)) -> p_term p = true -> p_hooks p = [].
Proof. intros n ops. apply (p_run_nohooks n ops). Qed.
Print Assumptions C04_terminated_holds_no_hooks.

(* every exit hook runs exactly once, with its process's exit error, and not before the process terminates -
   for every interleaving (by any number of threads, at the granularity of the status flip and user-hook
   entries) of New / Fork / AddExitHook / Exit / hook returns / SetValue / RemoveValue whose thread and process
   numbers exist (ok_from) and whose hooks are distinct objects (NoDup of the ids that took effect):
   lg = number of log entries of the hook, reg = number of registrations of the hook over all processes *)
Theorem C04_exactly_once : forall n ops,
  ok_from (p_init n) ops -> NoDup (map fst (added (p_init n) ops)) ->
  let st := p_run n ops in
  (forall h, lg st h <= 1) /\
  (forall h e pid, In (h, e) (hlog st) -> In (h, pid) (added (p_init n) ops) ->
     p_term (get_proc st pid) = true /\ e = p_err (get_proc st pid)) /\
  ((forall t, In t (threads st) -> t_frames t = []) ->
   forall h pid, In (h, pid) (added (p_init n) ops) ->
     if p_term (get_proc st pid) then lg st h = 1 else lg st h = 0 /\ reg st h = 1).
Proof. exact exactly_once. Qed.
Print Assumptions C04_exactly_once.

(* exit cascades to the children (and so, level by level, to every descendant): once no thread has anything
   left to run, every process forked from a terminated process is terminated *)
Theorem C04_cascade : forall n ops,
  ok_from (p_init n) ops ->
  let st := p_run n ops in
  (forall t, In t (threads st) -> t_frames t = []) ->
  forall c p, c < length (procs st) -> p_parent (get_proc st c) = Some p ->
    p_term (get_proc st p) = true -> p_term (get_proc st c) = true.
Proof. exact cascade. Qed.
Print Assumptions C04_cascade.

(* Join waits for the children: once no thread has anything left to run, the WaitGroup counter of a process is
   zero (Join returns) exactly when every process forked from it has terminated *)
Theorem C04_join : forall n ops,
  ok_from (p_init n) ops ->
  let st := p_run n ops in
  (forall t, In t (threads st) -> t_frames t = []) ->
  forall p, p < length (procs st) ->
    (p_wait (get_proc st p) = 0 <->
     forall c, c < length (procs st) -> p_parent (get_proc st c) = Some p -> p_term (get_proc st c) = true).
Proof. exact join_waits. Qed.
Print Assumptions C04_join.

(* non-vacuity: two threads, a fork, a concurrent Exit with another error while a hook is held,
   a hook added after termination *)
Example C04_ex :
  let ops := [PNew; PAddHook 0 0 1; PAddHook 0 0 2; PFork 0 0; PAddHook 0 1 3;
              PExit 0 0 4; PExit 1 0 2; PAddHook 1 0 5; PStep 0; PStep 1; PStep 0; PStep 0] in
  hlog (p_run 2 ops) = [(3, 4); (5, 4); (2, 4); (1, 4)] /\
  map (fun p => (p_term p, p_err p, p_wait p)) (procs (p_run 2 ops)) = [(true, 4, 0); (true, 4, 0)].
Proof. vm_compute. split; reflexivity. Qed.

(* the history above meets the hypotheses of C04_exactly_once, and ends with no thread running *)
Example C04_ex_hyps :
  let ops := [PNew; PAddHook 0 0 1; PAddHook 0 0 2; PFork 0 0; PAddHook 0 1 3;
              PExit 0 0 4; PExit 1 0 2; PAddHook 1 0 5; PStep 0; PStep 1; PStep 0; PStep 0] in
  added (p_init 2) ops = [(1, 0); (2, 0); (3, 1); (5, 0)] /\
  map t_frames (threads (p_run 2 ops)) = [[]; []].
Proof. vm_compute. split; reflexivity. Qed.
