(* C15 - Maps are persistent dictionaries: correct lookups, snapshots never change.
   Model: theories/Value/VMap.v - the hash table of pkg/types/map.go as hash-ordered buckets, each
   bucket sorted by Compare, lookups by the code's binary search; a handle store models object
   identity (Set/Delete on an unchanged immutable map return the map itself) and in-place mutation
   of mutable maps.  Reference: association list keyed by value equality (d_set/d_del/d_get).
   Quantifier: every finite history of {new, set, delete, clear, mutable, immutable} on any
   objects, keys and values of any kind (colliding hashes included), nil keys and values. *)
From Coq Require Import List NArith ZArith Bool Sorting.Sorted.
From Uf Require Import Base.Order Value.Value Value.Laws Value.VMap Value.VMapProofs.
Import ListNotations.

(* after any history, every live object agrees with the reference dictionary on Has, Get, Len *)
Theorem C15_dict : forall (ops : list mop) (h : nat) (o : mapobj),
  nth_error (m_run ops) h = Some o ->
  exists r, nth_error (r_run ops) h = Some r /\ mo_mut o = do_mut r /\
    (forall k, t_has k (mo_tab o) = d_has k (do_dict r) /\ t_get k (mo_tab o) = d_get k (do_dict r)) /\
    t_len (mo_tab o) = length (do_dict r).
Proof.
  intros ops h o Hn. pose proof (F2_nth _ _ _ h (run_refines ops)) as N. rewrite Hn in N.
  destruct (nth_error (r_run ops) h) as [r|]; [|contradiction].
  destruct N as [Mut [W [Nd [G L]]]]. exists r. repeat split; auto.
  - rewrite t_has_getv, d_has_getv, G. reflexivity.
  - rewrite t_get_getv, d_get_getv, G. reflexivity.
Qed.
Print Assumptions C15_dict.

(* every operation returns the same object (old or fresh) as the reference semantics *)
Theorem C15_same_object : forall (ops : list mop) (op : mop),
  snd (m_step (m_run ops) op) = snd (r_step (r_run ops) op).
Proof. exact run_handles. Qed.
Print Assumptions C15_same_object.

(* listings (Range, hence Keys/Values/Pairs): every listed pair is a binding of the reference
   dictionary, no two listed keys are equal, and the number of listed pairs is the dictionary size;
   iteration order is ascending (hash, key) *)
Theorem C15_listing : forall (ops : list mop) (h : nat) (o : mapobj),
  nth_error (m_run ops) h = Some o ->
  exists r, nth_error (r_run ops) h = Some r /\
    (forall p, In p (t_range (mo_tab o)) -> d_has (fst p) (do_dict r) = true /\ d_get (fst p) (do_dict r) = snd p) /\
    ForallOrdPairs (fun p q => oequal (fst p) (fst q) = false) (t_range (mo_tab o)) /\
    length (t_range (mo_tab o)) = length (do_dict r) /\
    StronglySorted range_lt (t_range (mo_tab o)).
Proof.
  intros ops h o Hn. pose proof (F2_nth _ _ _ h (run_refines ops)) as N. rewrite Hn in N.
  destruct (nth_error (r_run ops) h) as [r|]; [|contradiction].
  destruct N as [Mut [W [Nd [G L]]]]. exists r. split; auto. split; [|split; [|split]].
  - intros p Hp. pose proof (t_range_getv _ p W Hp) as E. rewrite G in E.
    rewrite d_has_getv, d_get_getv, E. auto.
  - apply t_range_distinct, W.
  - exact L.
  - apply t_range_sorted, W.
Qed.
Print Assumptions C15_listing.

(* persistence: an operation changes at most the mutable object it is applied to; every other
   object - every immutable map, every snapshot, every map something was derived from - is unchanged *)
Theorem C15_snapshot_frame : forall (ops : list mop) (op : mop) (h : nat) (o : mapobj),
  nth_error (m_run ops) h = Some o ->
  (mo_mut o = false \/ target op <> Some h) ->
  nth_error (m_run (ops ++ [op])) h = Some o.
Proof.
  intros ops op h o Hn Hc. unfold m_run. rewrite fold_left_app. simpl. apply step_frame; auto.
Qed.
Print Assumptions C15_snapshot_frame.

(* the representation invariant the lookups rely on holds in every reachable state *)
Theorem C15_wf : forall (ops : list mop) (h : nat) (o : mapobj),
  nth_error (m_run ops) h = Some o -> twf (mo_tab o).
Proof.
  intros ops h o Hn. pose proof (F2_nth _ _ _ h (run_refines ops)) as N. rewrite Hn in N.
  destruct (nth_error (r_run ops) h) as [r|]; [|contradiction]. apply N.
Qed.
Print Assumptions C15_wf.

(* the code's binary search finds exactly what a linear scan by equality finds *)
Theorem C15_binary_search : forall k b, bsorted b -> b_search k b = b_find k b.
Proof. exact b_search_find. Qed.
Print Assumptions C15_binary_search.

(* non-vacuity: colliding keys, an overwrite, a snapshot that must not move *)
Example C15_ex :
  let k1 := Some (VInt W8 1) in let k2 := Some (VUint W8 1) in
  let ops := [MNew true; MSet 0 k1 (Some (VString [97%N])); MSet 0 k2 (Some (VString [98%N]));
              MImmutable 0; MSet 0 k1 (Some (VString [99%N])); MSet 1 k1 (Some (VString [100%N]))] in
  map (fun o => (mo_mut o, t_get k1 (mo_tab o), t_get k2 (mo_tab o), t_len (mo_tab o))) (m_run ops) =
  [(true, Some (VString [99%N]), Some (VString [98%N]), 2);
   (false, Some (VString [97%N]), Some (VString [98%N]), 2);
   (false, Some (VString [100%N]), Some (VString [98%N]), 2)].
Proof. vm_compute. reflexivity. Qed.
