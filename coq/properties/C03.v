(* C03 - Teardown at any point releases every waiting requester with a real packet.
   Model: Packet/Writer.v (one writer, its readers, Reader.Close with its deferred drop notices,
   Writer.Close) extended in Packet/Teardown.v with the pump to Writer.Receive() (repaired: it hands
   over everything queued before closing the channel) and a consumer that takes responses whenever
   it likes.
   Proved in Coq, for every history of link / unlink / write / answer / reader close / delayed drop
   notice / writer close interleaved with takes at arbitrary points:
   - C03_closed_all_answered: once the writer is closed, every write it ever accepted has its
     response queued - exactly one per accepted write, in write order (the real joined answer if
     the row completed, a dropped-packet error otherwise);
   - C03_takes_in_order: whatever the interleaving, what the requester has taken is a prefix of
     that queue: nothing is lost, duplicated or reordered between the writer and the requester,
     whether or not the requester was already waiting when the writer closed (the repaired defect);
   - C03_take_after_drain: when everything queued has been taken, a take on a closed writer reports
     the closed channel and a take on an open one waits - a requester is never handed a nil packet
     in place of an answer it is owed.
   - C03_node_close_releases (Node/CloseProofs.v): when a node is closed (Tracer.Close) after any sequence of calls
     that keeps the node discipline, every request the node has read is answered exactly once by the time the close
     returns - with its real answer before, or with a dropped-packet error at the close - and the tracer keeps
     nothing; the real Tracer.Close is compared with the model on sequences closed with requests still waiting.
   PARTIAL: port and process teardown (port close with late listeners, exit hooks) reduce to closes of readers and
   writers, which the first three theorems cover per writer, but their composition into a workflow is not modelled; they are enumerated on the implementation: src -> A -> B -> sink with
   actions held open, a request brought to each point of its way (in A, in B, at the sink), with a
   pipelined second request and a request of another process on the same nodes, then one or two of
   ten teardown actions; every requester must return within 1.5 s with its real answer or a
   dropped-packet error, without panic, and unaffected requesters must get their real answer. *)
From Coq Require Import List Arith NArith ZArith Bool.
From Uf Require Import Packet.Writer Packet.WriterProofs Packet.Teardown.
From Coq Require Import Permutation.
From Uf Require Node.Tracer Node.TracerProofs Node.Spec Node.Refine Node.CloseProofs.
Import ListNotations.

Theorem C03_closed_all_answered : forall n ops,
  w_done (w_run n ops) = true -> map fst (w_emitted (w_run n ops)) = seq 0 (w_next (w_run n ops)).
Proof. exact closed_all_answered. Qed.
Print Assumptions C03_closed_all_answered.

Theorem C03_takes_in_order : forall ops st st' ts,
  td_taken st <= length (w_emitted (td_w st)) ->
  td_run st ops = (st', ts) ->
  td_taken st' <= length (w_emitted (td_w st'))
  /\ firstn (td_taken st') (map snd (w_emitted (td_w st'))) = firstn (td_taken st) (map snd (w_emitted (td_w st))) ++ gots ts
  /\ td_w st' = fold_left (fun s o => fst (w_step s o)) (wops ops) (td_w st).
Proof. exact takes_are_queue_prefix. Qed.
Print Assumptions C03_takes_in_order.

Theorem C03_take_after_drain : forall st,
  td_taken st = length (w_emitted (td_w st)) ->
  snd (td_step st TdTake) = Some (if w_done (td_w st) then Closed else Blocked).
Proof.
  intros st H. cbn. replace (nth_error (w_emitted (td_w st)) (td_taken st)) with (@None (nat * pkt)); [reflexivity|].
  symmetry. apply nth_error_None. rewrite H. auto.
Qed.
Print Assumptions C03_take_after_drain.

(* non-vacuity: two writes pending on one reader, the writer is closed while nobody waits; the
   requester then takes: two dropped-packet errors, then the closed channel *)
Example C03_ex :
  snd (td_run (td_init 1) [TdW (WLink 0); TdW (WWrite (PAtom 1)); TdW (WWrite (PAtom 2)); TdW WCloseWriter; TdTake; TdTake; TdTake]) =
  [Got dropped; Got dropped; Closed].
Proof. vm_compute. reflexivity. Qed.

Theorem C03_node_close_releases : forall ops r, Node.Spec.disciplined ops = true ->
  Permutation (Node.TracerProofs.out_of r (Node.Tracer.t_close (Node.Tracer.t_run ops)))
              (Node.TracerProofs.issued r Node.Tracer.t_init ops) /\
  Node.Tracer.t_reads (Node.Tracer.t_close (Node.Tracer.t_run ops)) = [] /\
  Node.Tracer.t_reader (Node.Tracer.t_close (Node.Tracer.t_run ops)) = [] /\
  Node.Tracer.t_receives (Node.Tracer.t_close (Node.Tracer.t_run ops)) = [] /\
  Node.Tracer.t_sources (Node.Tracer.t_close (Node.Tracer.t_run ops)) = [] /\
  Node.Tracer.t_targets (Node.Tracer.t_close (Node.Tracer.t_run ops)) = [] /\
  Node.Tracer.t_writes (Node.Tracer.t_close (Node.Tracer.t_run ops)) = [].
Proof. exact Node.CloseProofs.close_releases_all. Qed.
Print Assumptions C03_node_close_releases.
