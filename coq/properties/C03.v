(* C03 - Teardown at any point releases every waiting requester with a real packet.
   Model: Packet/Writer.v (one writer, its readers, Reader.Close with its deferred drop notices,
   Writer.Close) extended in Packet/Teardown.v with the pump to Writer.Receive() (repaired: it hands
   over everything queued before closing the channel) and a consumer that takes responses whenever
   it likes.
   Proved in Coq, for every history of link / unlink / write / answer / reader close / delayed drop
   notice / writer close interleaved with takes at arbitrary points:
   - C03_closed_all_answered: once the writer is closed, every write it ever accepted has its
     response queued - exactly one per accepted write, in write order (the real joined answer if
     the row completed, a dropped-packet error otherwise);
   - C03_takes_in_order: whatever the interleaving, what the requester has taken is a prefix of
     that queue: nothing is lost, duplicated or reordered between the writer and the requester,
     whether or not the requester was already waiting when the writer closed (the repaired defect);
   - C03_take_after_drain: when everything queued has been taken, a take on a closed writer reports
     the closed channel and a take on an open one waits - a requester is never handed a nil packet
     in place of an answer it is owed.
   - C03_node_close_releases (Node/CloseProofs.v): when a node is closed (Tracer.Close) after any sequence of calls
     that keeps the node discipline, every request the node has read is answered exactly once by the time the close
     returns - with its real answer before, or with a dropped-packet error at the close - and the tracer keeps
     nothing; the real Tracer.Close is compared with the model on sequences closed with requests still waiting.
   - C03_network_teardown (Node/Network.v): at the level of a workflow - an acyclic network of specification nodes
     (C02) with any number of requests in flight - closing every node at ANY point of ANY run, each closed node
     answering what it holds with the dropped-packet error, leaves nothing pending anywhere and has answered every
     request that ever arrived at any node exactly once (real answer before, dropped-packet error or real answer
     after); every answer ever given is the dropped-packet error, the node's own result, or the join of earlier
     answers to the derived packets.  C03_network_teardown_one_answer: after the teardown every packet that ever
     arrived anywhere has exactly one recorded answer.  C03_network_closed_never_waits: a closed node can answer what
     it holds at once, whatever the state of the other nodes (release does not depend on anybody downstream).
   PARTIAL: port and process teardown (port close with late listeners, exit hooks) reduce to closes of readers and
   writers, which the first three theorems cover per writer, and to node closes (the two theorems above); that the
   real teardown IS that composition is enumerated on the implementation: src -> A -> B -> sink with
   actions held open, a request brought to each point of its way (in A, in B, at the sink), with a
   pipelined second request and a request of another process on the same nodes, then one or two of
   ten teardown actions; every requester must return within 1.5 s with its real answer or a
   dropped-packet error, without panic, and unaffected requesters must get their real answer. *)
From Coq Require Import List Arith NArith ZArith Bool.
From Uf Require Import Packet.Writer Packet.WriterProofs Packet.Teardown.
From Coq Require Import Permutation.
From Uf Require Node.Tracer Node.TracerProofs Node.Spec Node.Refine Node.CloseProofs Node.Network.
Import ListNotations.

Theorem C03_closed_all_answered : forall n ops,
  w_done (w_run n ops) = true -> map fst (w_emitted (w_run n ops)) = seq 0 (w_next (w_run n ops)).
Proof. exact closed_all_answered. Qed.
Print Assumptions C03_closed_all_answered.

Theorem C03_takes_in_order : forall ops st st' ts,
  td_taken st <= length (w_emitted (td_w st)) ->
  td_run st ops = (st', ts) ->
  td_taken st' <= length (w_emitted (td_w st'))
  /\ firstn (td_taken st') (map snd (w_emitted (td_w st'))) = firstn (td_taken st) (map snd (w_emitted (td_w st))) ++ gots ts
  /\ td_w st' = fold_left (fun s o => fst (w_step s o)) (wops ops) (td_w st).
Proof. exact takes_are_queue_prefix. Qed.
Print Assumptions C03_takes_in_order.

Theorem C03_take_after_drain : forall st,
  td_taken st = length (w_emitted (td_w st)) ->
  snd (td_step st TdTake) = Some (if w_done (td_w st) then Closed else Blocked).
Proof.
  intros st H. cbn. replace (nth_error (w_emitted (td_w st)) (td_taken st)) with (@None (nat * pkt)); [reflexivity|].
  symmetry. apply nth_error_None. rewrite H. auto.
Qed.
Print Assumptions C03_take_after_drain.

(* non-vacuity: two writes pending on one reader, the writer is closed while nobody waits; the
   requester then takes: two dropped-packet errors, then the closed channel *)
Example C03_ex :
  snd (td_run (td_init 1) [TdW (WLink 0); TdW (WWrite (PAtom 1)); TdW (WWrite (PAtom 2)); TdW WCloseWriter; TdTake; TdTake; TdTake]) =
  [Got dropped; Got dropped; Closed].
Proof. vm_compute. reflexivity. Qed.

Theorem C03_node_close_releases : forall ops r, Node.Spec.disciplined ops = true ->
  Permutation (Node.TracerProofs.out_of r (Node.Tracer.t_close (Node.Tracer.t_run ops)))
              (Node.TracerProofs.issued r Node.Tracer.t_init ops) /\
  Node.Tracer.t_reads (Node.Tracer.t_close (Node.Tracer.t_run ops)) = [] /\
  Node.Tracer.t_reader (Node.Tracer.t_close (Node.Tracer.t_run ops)) = [] /\
  Node.Tracer.t_receives (Node.Tracer.t_close (Node.Tracer.t_run ops)) = [] /\
  Node.Tracer.t_sources (Node.Tracer.t_close (Node.Tracer.t_run ops)) = [] /\
  Node.Tracer.t_targets (Node.Tracer.t_close (Node.Tracer.t_run ops)) = [] /\
  Node.Tracer.t_writes (Node.Tracer.t_close (Node.Tracer.t_run ops)) = [].
Proof. exact Node.CloseProofs.close_releases_all. Qed.
Print Assumptions C03_node_close_releases.

(* ---- teardown of a whole workflow ---- *)
Theorem C03_network_teardown : forall (ans : Type) (join : list ans -> ans) (drop : ans) (N : nat) ls,
  let st := Network.run ans join drop N ls in
  let st' := Network.teardown ans join drop N st in
  (forall n, Network.n_q ans st' n = [] /\ Network.n_done ans st' n = Network.n_arr ans st n /\ NoDup (Network.n_done ans st' n))
  /\ Network.ans_ok ans join drop (Network.n_der ans st') (Network.n_ans ans st').
Proof. exact Network.teardown_any_run. Qed.
Print Assumptions C03_network_teardown.

Theorem C03_network_teardown_one_answer : forall (ans : Type) (join : list ans -> ans) (drop : ans) (N : nat) ls,
  let st' := Network.teardown ans join drop N (Network.run ans join drop N ls) in
  NoDup (map fst (Network.n_ans ans st')) /\
  forall n id, In id (Network.n_arr ans (Network.run ans join drop N ls) n) -> In id (map fst (Network.n_ans ans st')).
Proof. exact Network.teardown_one_answer. Qed.
Print Assumptions C03_network_teardown_one_answer.

Theorem C03_network_closed_never_waits : forall (ans : Type) (join : list ans -> ans) (drop : ans) (N : nat) st n,
  Network.n_closed ans st n = true -> Network.n_q ans st n <> [] -> Network.step ans join drop N st (Network.LDrop ans n) <> None.
Proof. exact Network.closed_can_drop. Qed.
Print Assumptions C03_network_closed_never_waits.

(* non-vacuity: a diamond 0 -> {1, 2} -> 3 torn down with two requests in flight (one inside node 0's action, one
   waiting for node 3): every node ends with nothing pending, the outside gets one answer per request *)
Example C03_ex_network :
  let run := Network.run nat (fun l => fold_right Nat.add 0 l) 999 4
               [Network.LIn nat 0; Network.LIn nat 0; Network.LProc nat 0 100 [1; 2]; Network.LProc nat 1 10 [3]; Network.LProc nat 2 20 []; Network.LAns nat 2] in
  let st' := Network.teardown nat (fun l => fold_right Nat.add 0 l) 999 4 run in
  map (fun n => length (Network.n_q nat run n)) [0; 1; 2; 3] = [2; 1; 0; 1]
  /\ map (fun n => Network.n_q nat st' n) [0; 1; 2; 3] = [[]; []; []; []]
  /\ Network.n_out nat st' = [(1, 999); (0, 999)]
  /\ Network.n_done nat st' 0 = [0; 1] /\ Network.n_done nat st' 3 = [4].
Proof. vm_compute. repeat split; reflexivity. Qed.
