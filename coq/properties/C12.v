(* C12 - Rejected store mutations change nothing; ids and unique keys stay unique. *)
From Coq Require Import List NArith ZArith Bool Sorting.Sorted.
From Uf Require Import Base.Order Value.Value Value.VMap
  Store.Filter Store.FilterProofs Store.StoreM Store.PlanProofs Store.StoreProofs.
Import ListNotations.

(* a rejected insertion leaves the whole store state (documents, every index, streams) as it was *)
Theorem C12_insert_rejected_changes_nothing : forall ops d st' e,
  seg_store (s_run ops) d = (st', Some e) -> st' = s_run ops.
Proof.
  intros ops d st' e H. pose proof (seg_store_inv (s_run ops) d (s_run_inv ops)) as [_ A].
  rewrite H in A. cbn [fst snd] in A. apply (A e eq_refl).
Qed.
Print Assumptions C12_insert_rejected_changes_nothing.

Theorem C12_update_rejected_changes_nothing : forall ops d st' e,
  seg_swap (s_run ops) d = (st', Some e) -> st' = s_run ops.
Proof.
  intros ops d st' e H. pose proof (seg_swap_inv (s_run ops) d (s_run_inv ops)) as [_ A].
  rewrite H in A. cbn [fst snd] in A. apply (A e eq_refl).
Qed.
Print Assumptions C12_update_rejected_changes_nothing.

(* Insert of one document at the store level: rejected -> state unchanged, no event logged *)
Theorem C12_store_insert_atomic : forall ops d st' e,
  s_step (s_run ops) (SInsert [d]) = (st', RErr e) -> st' = s_run ops.
Proof.
  intros ops d st' e H. cbn [s_step do_insert] in H.
  pose proof (seg_store_inv (s_run ops) d (s_run_inv ops)) as [_ A].
  destruct (seg_store (s_run ops) d) as [st1 [e1|]]; cbn [fst snd] in *.
  - injection H as <- _. apply (A e1 eq_refl).
  - discriminate.
Qed.
Print Assumptions C12_store_insert_atomic.

(* an index that the data violates is rejected; the documents and all other indexes are intact
   (queries are then undisturbed by C11) *)
Theorem C12_index_rejected : forall ops keys uniq flt st' e,
  st_index (s_run ops) keys uniq flt = (st', Some e) ->
  st' = st_unindex (s_run ops) keys /\ entries st' = entries (s_run ops) /\ sinv st'.
Proof.
  intros ops keys uniq flt st' e H.
  pose proof (st_index_inv (s_run ops) keys uniq flt (s_run_inv ops)) as [I A].
  rewrite H in I, A. cbn [fst snd] in *. rewrite (A e eq_refl) in *. auto.
Qed.
Print Assumptions C12_index_rejected.

(* at no time do two stored documents share an id *)
Theorem C12_unique_ids : forall ops d d',
  In d (entries (s_run ops)) -> In d' (entries (s_run ops)) ->
  id_eqb (doc_id d) (doc_id d') = true -> d = d'.
Proof.
  intros ops d d' Hd Hd' E. pose proof (s_run_inv ops) as [Hs _].
  pose proof (e_find_complete (doc_id d') _ d Hs Hd E) as F1.
  pose proof (e_find_complete (doc_id d') _ d' Hs Hd' (id_eqb_refl _)) as F2.
  congruence.
Qed.
Print Assumptions C12_unique_ids.

Lemma fop_in {A} (R : A -> A -> Prop) l a b : ForallOrdPairs R l -> In a l -> In b l -> a = b \/ R a b \/ R b a.
Proof.
  induction 1 as [|x l Hx H IH]; [intros []|]. rewrite Forall_forall in Hx.
  intros [<-|Ha] [<-|Hb]; auto.
Qed.

(* ... nor a key of a unique index *)
Theorem C12_unique_keys : forall ops ix d d',
  In ix (indexes (s_run ops)) -> iuniq ix = true ->
  In d (entries (s_run ops)) -> In d' (entries (s_run ops)) ->
  idx_pass ix d = true -> idx_pass ix d' = true ->
  path_eqb (path_of (ikeys ix) d) (path_of (ikeys ix) d') = true -> d = d'.
Proof.
  intros ops ix d d' Hix U Hd Hd' P P' E. pose proof (s_run_inv ops) as [Hs [_ HF]].
  rewrite Forall_forall in HF. destruct (HF ix Hix) as [C [_ Uq]].
  destruct (C d Hd P) as [t [Ht Et]]. destruct (C d' Hd' P') as [t' [Ht' Et']].
  unfold teq, tuple_of in Et, Et'. cbn [fst snd] in Et, Et'.
  apply andb_prop in Et. apply andb_prop in Et'. destruct Et as [Ep Ei]. destruct Et' as [Ep' Ei'].
  assert (PP : path_eqb (fst t) (fst t') = true).
  { eapply path_eqb_trans; [exact Ep|]. eapply path_eqb_trans; [exact E|]. rewrite path_eqb_sym. exact Ep'. }
  destruct (fop_in _ _ t t' (Uq U) Ht Ht') as [<-|[R|R]]; unfold pdistinct in *.
  - eapply C12_unique_ids; eauto. rewrite id_eqb_sym in Ei. eapply id_eqb_trans; eauto.
  - congruence.
  - rewrite path_eqb_sym in R. congruence.
Qed.
Print Assumptions C12_unique_keys.
