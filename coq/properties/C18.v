(* C18 - Environment binding substitutes exactly what is referenced and nothing else.
   Model: theories/Template/Template.v - JSON-like documents; Template.Execute as a structural map
   over the document that renders every string (values and map keys) with the text/template engine
   and keeps everything else; Meta.Bind (selection of the value by id / name / anonymously, error
   for an identified entry without a value) and Unstructured.Build.
   The text/template engine is a Section variable [render] with ONE recorded assumption
   (render_plain): a string without "{{" renders to itself.  The theorems hold for every engine with
   that property; the correspondence run instantiates it with a Gallina engine for the
   {{ . }} / {{ .NAME }} fragment (Render.v), for which the assumption is proved. *)
From Coq Require Import List NArith ZArith Bool.
From Uf Require Import Template.Template Template.TemplateProofs Template.Render.
Import ListNotations.

(* data without a template action comes back equal: any nesting, nulls, empty containers, scalars *)
Theorem C18_identity : forall (render : list N -> jdoc -> tres (list N)),
  (forall s data, has_action s = false -> render s data = TOk s) ->
  forall env fields, plain fields = true -> build render env fields = TOk fields.
Proof. intros render H env fields P. apply build_identity; auto. Qed.
Print Assumptions C18_identity.

(* nothing but strings changes: the result has the shape of the input (same scalars, same list
   lengths, same number of map entries), whatever the engine does *)
Theorem C18_only_strings_change : forall (render : list N -> jdoc -> tres (list N)) data d d',
  exec render data d = TOk d' -> same_shape d d' = true.
Proof. intros render data d d' H. eapply exec_shape; eauto. Qed.
Print Assumptions C18_only_strings_change.

(* a spec naming a variable that no value provides is rejected *)
Theorem C18_missing_rejected : forall (render : list N -> jdoc -> tres (list N)) ns e rest vals,
  pick ns e vals = None -> ent_identified e = true -> bind render ns (e :: rest) vals = TErr.
Proof. intros. apply bind_missing; auto. Qed.
Print Assumptions C18_missing_rejected.

(* the engine used by the correspondence run satisfies the recorded assumption *)
Theorem C18_engine_assumption : forall s data, has_action s = false -> render_impl s data = TOk s.
Proof. exact render_impl_plain. Qed.
Print Assumptions C18_engine_assumption.

(* totality ("no input makes it panic") is by construction in Gallina: exec, bind and build are total
   functions; on the implementation it is observed by the correspondence run (RPanic never matches). *)

Example C18_ex :
  let env := [mkenv [65%N] 0 [] (JStr [123; 123; 32; 46; 32; 125; 125]%N)] in   (* A: "{{ . }}", anonymous *)
  let vals := [mkval 0 [] [] (JNum 7)] in
  let fields := JMap [([102%N], JList [JNull; JStr [120; 123; 123; 46; 65; 125; 125]%N; JNum 3])] in  (* "x{{.A}}" *)
  match bind render_impl [110; 115]%N env vals with
  | TOk env' => build render_impl env' fields
  | TErr => TErr
  end = TOk (JMap [([102%N], JList [JNull; JStr [120; 55]%N; JNum 3])]).
Proof. vm_compute. reflexivity. Qed.
