(* C14 - Value equality, ordering and hashing obey their algebraic laws.
   Model: theories/Value/Value.v (transcription of pkg/types Equal/Compare/Hash, repaired tree).
   Quantifier: every term of type [value] (every kind, width, bit pattern incl. NaN/+-0/Inf,
   any nesting; nil is [None]); no well-formedness hypothesis is needed.
   "None of these results changes during a value's lifetime" is purity: in the model the three
   functions are Gallina functions of the value; on the implementation it is probed by the
   correspondence run (re-evaluation after caches are filled and after derived maps are mutated). *)
From Coq Require Import List NArith ZArith Bool Lia.
From Uf Require Import Base.Order Value.Value Value.Laws.
Import ListNotations.

Theorem C14_eq_refl : forall a : ovalue, oequal a a = true.
Proof. exact law_eq_refl. Qed.
Print Assumptions C14_eq_refl.

Theorem C14_eq_sym : forall a b : ovalue, oequal a b = oequal b a.
Proof. exact law_eq_sym. Qed.
Print Assumptions C14_eq_sym.

Theorem C14_eq_trans : forall a b c : ovalue, oequal a b = true -> oequal b c = true -> oequal a c = true.
Proof. exact law_eq_trans. Qed.
Print Assumptions C14_eq_trans.

(* Compare(a,b) = -Compare(b,a) *)
Theorem C14_cmp_antisym : forall a b : ovalue, cmp_int (ocmp a b) = (- cmp_int (ocmp b a))%Z.
Proof. intros a b. rewrite (law_cmp_antisym a b). destruct (ocmp b a); reflexivity. Qed.
Print Assumptions C14_cmp_antisym.

(* transitivity of the preorder a <= b  :=  Compare(a,b) <= 0 *)
Theorem C14_cmp_trans : forall a b c : ovalue,
  (cmp_int (ocmp a b) <= 0)%Z -> (cmp_int (ocmp b c) <= 0)%Z -> (cmp_int (ocmp a c) <= 0)%Z.
Proof.
  intros a b c H1 H2. pose proof (law_cmp_trans a b c) as T.
  destruct (ocmp a b), (ocmp b c), (ocmp a c); simpl in *; try lia; exfalso; apply T; congruence.
Qed.
Print Assumptions C14_cmp_trans.

Theorem C14_eq_cmp0 : forall a b : ovalue, oequal a b = true -> cmp_int (ocmp a b) = 0%Z.
Proof. intros a b H. rewrite (law_eq_cmp a b H). reflexivity. Qed.
Print Assumptions C14_eq_cmp0.

Theorem C14_eq_hash : forall a b : ovalue, oequal a b = true -> ohash a = ohash b.
Proof. exact law_eq_hash. Qed.
Print Assumptions C14_eq_hash.

(* strengthening used by C15 and C11: the ordering separates exactly the unequal values *)
Theorem C14_cmp0_eq : forall a b : ovalue, ocmp a b = Eq -> oequal a b = true.
Proof. exact law_cmp_eq. Qed.
Print Assumptions C14_cmp0_eq.

(* non-vacuity: concrete non-trivial instances *)
Example C14_ex_zero : oequal (Some (VF64 0)) (Some (VF64 9223372036854775808)) = true
                      /\ ohash (Some (VF64 0)) = ohash (Some (VF64 9223372036854775808)).
Proof. vm_compute. split; reflexivity. Qed.
Example C14_ex_nan : oequal (Some (VF64 nan64)) (Some (VF64 18444492273895866368)) = true.
Proof. vm_compute. reflexivity. Qed.
Example C14_ex_collide :
  ohash (Some (VInt W8 1)) = ohash (Some (VUint W8 1)) /\ oequal (Some (VInt W8 1)) (Some (VUint W8 1)) = false.
Proof. vm_compute. split; reflexivity. Qed.
Example C14_ex_maps :
  let m1 := Some (VMap [(12638152016183539244%N, [(Some (VInt W8 1), Some (VString [97%N]))])]) in
  let m2 := Some (VMap [(12638152016183539244%N, [(Some (VUint W8 1), Some (VString [97%N]))])]) in
  oequal m1 m2 = false /\ ocmp m1 m2 = Lt /\ ocmp m2 m1 = Gt.
Proof. vm_compute. repeat split; reflexivity. Qed.
