(* C07 - A symbol is active exactly when its whole reference closure is present.
   Same model as C06.  Proved in Coq: the structure of the notifications of one removal - the unload
   notifications come first (the dependents of the symbol, then the symbol), the node is closed after
   them (C07_unload_before_close) - and the table invariant of C06 for every reachable state.
   C07_activation_test_is_closure: the activation test decides "reference closure present" (any state).
   C07_load_only_closed / C07_unload_only_closed: hooks fire only for symbols whose closure is present.
   C07_walk_is_referrers: the list a load / unload walks holds exactly the symbols that reach the start symbol
   through the reference index (cycles included).
   C07_load_exactly / C07_unload_exactly: a load (unload) whose flows succeed notifies EXACTLY the symbols that
   reach the start symbol through references and pass the activation test - no more, no fewer.
   C07_active_exactly: along EVERY history of Insert / Free / Close in which references carry an id or a name (not
   both), a name is used by one symbol of a namespace at a time, every inserted symbol is a new instance and the
   lifecycle flows succeed, the instances with a load notification and no later unload are, after every operation,
   EXACTLY the present symbols whose whole reference closure is present (and nothing else is active).
   C07_close_unloads_all: after Close no symbol is left and none is active.
   (Proof: the reference index is exactly the reverse of the resolved references - Table/RefsProofs.v; the walk of an
   operation is the backward closure of the symbol being inserted or removed; adding a symbol completes exactly the
   closures of symbols that reach it and leaves the others as they were; removing it breaks exactly those.)
   C07_alternation: along the same histories every load notification finds its instance inactive and every unload
   notification finds it active, so for each instance the notifications strictly alternate, starting with a load
   (uses: the walk never lists a symbol twice, cycles included).
   The history condition is computable (wf2_from_b); every generated history of the correspondence run meets it. *)
From Coq Require Import List NArith ZArith Bool.
From Uf Require Import Table.Table Table.TableProofs Table.ClosureProofs Table.OrderProofs Table.RefsProofs Table.ActiveProofs.
Import ListNotations.

Theorem C07_unload_before_close : forall st id sb, find_sym st id = Some sb ->
  exists us, Forall unload_ev us /\
    match snd (free st id) with
    | TFail _ => events (fst (free st id)) = events st ++ us
    | TDone _ => events (fst (free st id)) = events st ++ us ++ (if s_node sb then [ECloseNode (s_inst sb)] else [])
    end.
Proof. exact free_events. Qed.
Print Assumptions C07_unload_before_close.

Theorem C07_table_invariant : forall ops, fresh_ops [] ops -> tinv (t_run ops).
Proof. exact t_run_inv. Qed.
Print Assumptions C07_table_invariant.

(* the activation test (isActivated: depth-first walk over the port references with a visited set) decides
   exactly "the reference closure is present": every symbol reachable through resolved port references
   (closure_ok quantifies over all paths) has a node and all its references resolve to present symbols of its
   namespace - for every table state with one symbol per id; the walk never runs out of fuel *)
Theorem C07_activation_test_is_closure : forall st s,
  NoDup (map s_id (syms st)) -> In s (syms st) ->
  (is_activated st s = true <-> closure_ok st s).
Proof. exact is_activated_iff_closure. Qed.
Print Assumptions C07_activation_test_is_closure.

(* so a load hook only fires for a symbol whose closure is present at that moment, and an unload hook only for
   one whose closure is still present (load / unload run over the symbol and its referrers and skip the rest) *)
Theorem C07_load_only_closed : forall st sb,
  NoDup (map s_id (syms st)) ->
  exists es, events (fst (load st sb)) = events st ++ es /\
    forall i, In (ELoad i) es -> exists s, In s (linked st sb) /\ s_inst s = i /\ (In s (syms st) -> closure_ok st s).
Proof. exact load_only_closed. Qed.
Print Assumptions C07_load_only_closed.

Theorem C07_unload_only_closed : forall st sb,
  NoDup (map s_id (syms st)) ->
  exists es, events (fst (unload st sb)) = events st ++ es /\
    forall i, In (EUnload i) es -> exists s, In s (linked st sb) /\ s_inst s = i /\ (In s (syms st) -> closure_ok st s).
Proof. exact unload_only_closed. Qed.
Print Assumptions C07_unload_only_closed.

(* non-vacuity and the repaired defect: two referrers of one target through out-ports of the same
   name; removing one referrer and then the target unloads the other referrer as well, and it is
   loaded exactly once when the target returns *)
Example C07_ex :
  let ref_to_3 := [(1, [mkpref (Some 3) None 0])] in
  let a := fun inst => mksym inst 1 0 None ref_to_3 true [1; 2] [0] None in
  let b := fun inst => mksym inst 2 0 None ref_to_3 true [1; 2] [0] None in
  let t := fun inst => mksym inst 3 0 None [] true [1; 2] [0] None in
  let ops := [TInsert (t 0); TInsert (a 1); TInsert (b 2); TFree 1; TFree 3; TInsert (t 3)] in
  events (t_run ops) =
  [ELoad 0; ELoad 1; ELoad 2; EUnload 1; ECloseNode 1; EUnload 2; EUnload 0; ECloseNode 0; ELoad 3; ELoad 2].
Proof. vm_compute. reflexivity. Qed.

(* the list one load / unload walks: exactly the symbols that reach the start symbol through the reference index *)
Theorem C07_walk_is_referrers : forall st sb i, In i (ids (linked st sb)) <-> reachable st sb i.
Proof. exact linked_members. Qed.
Print Assumptions C07_walk_is_referrers.

(* a load whose flows succeed notifies exactly the walked symbols that pass the activation test *)
Theorem C07_load_exactly : forall st sb, snd (load st sb) = None ->
  exists es, events (fst (load st sb)) = events st ++ es /\
    forall i, In (ELoad i) es <->
      exists s, In s (linked st sb) /\ s_inst s = i /\ reachable st sb (s_id s) /\ is_activated st s = true.
Proof. exact load_exactly. Qed.
Print Assumptions C07_load_exactly.

Theorem C07_unload_exactly : forall st sb, snd (unload st sb) = None ->
  exists es, events (fst (unload st sb)) = events st ++ es /\
    forall i, In (EUnload i) es <->
      exists s, In s (linked st sb) /\ s_inst s = i /\ reachable st sb (s_id s) /\ is_activated st s = true.
Proof. exact unload_exactly. Qed.
Print Assumptions C07_unload_exactly.

Theorem C07_active_exactly : forall ops, wf2_from t_init ops ->
  (forall s, In s (syms (t_run ops)) -> (In (s_inst s) (active_insts (events (t_run ops))) <-> closure_ok (t_run ops) s)) /\
  (forall i, In i (active_insts (events (t_run ops))) -> exists s, In s (syms (t_run ops)) /\ s_inst s = i).
Proof. exact active_exactly. Qed.
Print Assumptions C07_active_exactly.

Theorem C07_close_unloads_all : forall ops, wf2_from t_init ops ->
  syms (t_step (t_run ops) TClose) = [] /\ active_insts (events (t_step (t_run ops) TClose)) = [].
Proof. exact close_unloads_all. Qed.
Print Assumptions C07_close_unloads_all.

(* non-vacuity: a chain c -> b -> a (b by name), built out of order, a replaced, then removed: the history is well
   formed, and the active instances are what the theorem says *)
Example C07_ex_active :
  let a := mksym 0 1 0 (Some 5) [] true [1; 2] [0] None in
  let b := mksym 1 2 0 None [(1, [mkpref None (Some 5) 0])] true [1; 2] [0] None in
  let c := mksym 2 3 0 None [(1, [mkpref (Some 2) None 0])] true [1; 2] [0] None in
  let a' := mksym 3 1 0 (Some 5) [] true [1; 2] [0] None in
  let ops := [TInsert c; TInsert b; TInsert a; TInsert a'; TFree 1] in
  wf2_from t_init ops /\
  map (fun n => active_insts (events (t_run (firstn n ops)))) [1; 2; 3; 4; 5] = [[]; []; [0; 1; 2]; [3; 1; 2]; []].
Proof. cbv zeta. split; [apply wf2_from_b_sound; vm_compute; reflexivity|vm_compute; reflexivity]. Qed.

Theorem C07_alternation : forall ops, wf2_from t_init ops ->
  forall p e q, events (t_run ops) = p ++ e :: q ->
  match e with ELoad i => ~ In i (active_insts p) | EUnload i => In i (active_insts p) | _ => True end.
Proof. intros ops W p e q E. exact (notifications_alternate ops W p e q E). Qed.
Print Assumptions C07_alternation.
