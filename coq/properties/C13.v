(* C13 - Watchers see each matching successful mutation exactly once, in order.
   The model keeps a ghost log of the mutations applied (appended by emit, which the code calls
   exactly after a successful Store/Swap/Delete) and, per watcher, the position of the log at
   which it was opened and the number of events its consumer has read. *)
From Coq Require Import List NArith ZArith Bool.
From Uf Require Import Base.Order Value.Value Value.VMap
  Store.Filter Store.FilterProofs Store.StoreM Store.PlanProofs Store.StoreProofs Store.Stream.
Import ListNotations.

(* after any history: the events an open watcher still has to read are exactly the (operation, id)
   of the logged mutations since it was opened whose document matches its filter, in log order,
   minus those already read - one event per matching mutation, none for anything else *)
Theorem C13_events : forall ops i w,
  nth_error (streams (s_run ops)) i = Some w -> wclosed w = false ->
  wevents w = skipn (wdrained w) (wall (wfilter w) (skipn (wstart w) (slog (s_run ops)))).
Proof.
  intros ops i w Hn Cl. pose proof (s_run_winv ops) as H. unfold winv in H. rewrite Forall_forall in H.
  apply (H w (nth_error_In _ _ Hn) Cl).
Qed.
Print Assumptions C13_events.

(* reading returns exactly the pending events *)
Theorem C13_drain : forall st i w,
  nth_error (streams st) i = Some w -> snd (s_step st (SDrain i)) = REvents (wevents w).
Proof. intros st i w H. cbn [s_step]. rewrite H. reflexivity. Qed.
Print Assumptions C13_drain.

(* the log receives one insert entry per stored document, in order, and none for a rejected one *)
Theorem C13_log_inserts : forall st docs,
  exists k, k <= length docs /\
    slog (fst (do_insert st docs)) = slog st ++ map (fun d => (ev_insert, d)) (firstn k docs) /\
    (snd (do_insert st docs) = ROk <-> k = length docs).
Proof. intros st docs. apply do_insert_log. Qed.
Print Assumptions C13_log_inserts.

(* a rejected mutation logs nothing and reaches no watcher *)
Theorem C13_rejected_silent : forall ops d st' e,
  s_step (s_run ops) (SInsert [d]) = (st', RErr e) ->
  streams st' = streams (s_run ops) /\ slog st' = slog (s_run ops).
Proof.
  intros ops d st' e H. cbn [s_step do_insert] in H.
  destruct (seg_store_ws (s_run ops) d) as [A B].
  destruct (seg_store (s_run ops) d) as [st1 [e1|]]; cbn [fst] in *; [|discriminate].
  injection H as <- _. auto.
Qed.
Print Assumptions C13_rejected_silent.

(* opening, reading or closing one watcher leaves the others' pending events alone *)
Theorem C13_isolation : forall st i j w,
  i <> j -> nth_error (streams st) j = Some w ->
  nth_error (streams (fst (s_step st (SCloseWatch i)))) j = Some w /\
  nth_error (streams (fst (s_step st (SDrain i)))) j = Some w /\
  nth_error (streams (fst (s_step st (SWatch None)))) j = Some w.
Proof.
  intros st i j w Ne Hn.
  assert (G : forall (g : nat * wstream -> wstream) (l : list wstream) m n,
            (forall k x, k <> i -> g (k, x) = x) -> n + m <> i -> nth_error l m = Some w ->
            nth_error (map g (combine (List.seq n (length l)) l)) m = Some w).
  { intros g l. induction l as [|x l IH]; intros m n Hg Hj Hw; destruct m; cbn in *; try discriminate.
    - injection Hw as ->. rewrite Hg; auto. rewrite <- plus_n_O in Hj. auto.
    - apply (IH m (S n)); auto. rewrite <- plus_n_Sm in Hj. exact Hj. }
  split; [|split]; cbn [s_step fst streams].
  - apply G; auto. intros k x Hk. cbn [fst snd]. apply Nat.eqb_neq in Hk. rewrite Hk. reflexivity.
  - destruct (nth_error (streams st) i); cbn [fst streams]; auto.
    apply G; auto. intros k x Hk. cbn [fst snd]. apply Nat.eqb_neq in Hk. rewrite Hk. reflexivity.
  - rewrite nth_error_app1; auto. apply nth_error_Some. congruence.
Qed.
Print Assumptions C13_isolation.

(* the pump between writers and a consumer is a FIFO queue: delivered ++ buffered = accepted *)
Theorem C13_pump_fifo : forall (E : Type) (ss : list (pstep E)), p_inv E (p_run E ss).
Proof. exact pump_fifo. Qed.
Print Assumptions C13_pump_fifo.
