(* C17 - Decoding is a pure function of the value and the target type.
   Model: theories/Codec/Group.v - DecoderGroup.Decode (repaired tree) over abstract members that map
   (source value, target content) to (new target content, answer), with the per-source-type success
   cache as explicit state.
   Theorem: if rejection is determined by the source type and leaves the target untouched
   (the shape `if s, ok := source.(Kind); ok {...}; return ErrUnsupportedType` of the primitive
   decoders), then for every cache reachable by any history of decodes the result (answer and target)
   equals that of a cold group: the first member that handles the source type decides.
   Scope (see DESIGN.md): the composite decoders of pkg/types (slice, map, struct, pointer) do NOT meet
   that hypothesis - they may answer ErrUnsupportedType propagated from an element after writing to
   the target; the correspondence run measures how often (hyp_* counters in the evidence).  For them
   purity is checked directly on the implementation (cold vs. warm vs. concurrent), not proved.
   The group algorithm itself is tied to the code exactly: a real encoding.DecoderGroup over synthetic
   members (including ones that violate the hypothesis) is compared with the model on every run. *)
From Coq Require Import List NArith ZArith Bool.
From Uf Require Import Codec.Group Codec.GroupProofs.
Import ListNotations.

Theorem C17_pure_partial :
  forall (V T K : Type) (kind : V -> K) (K_eqb : K -> K -> bool),
  (forall a b, K_eqb a b = true <-> a = b) ->
  forall (members : list (member V T)) (sup : nat -> K -> bool),
  (forall i d, nth_error members i = Some d -> forall v t,
     (snd (d v t) = AUnsupported <-> sup i (kind v) = false) /\ (sup i (kind v) = false -> fst (d v t) = t)) ->
  forall warmup1 warmup2 t0 v t,
    fst (g_decode V T K kind K_eqb members (g_run V T K kind K_eqb members [] t0 warmup1) v t) =
    fst (g_decode V T K kind K_eqb members (g_run V T K kind K_eqb members [] t0 warmup2) v t).
Proof.
  intros V T K kind K_eqb HK members sup Hsup w1 w2 t0 v t.
  apply (decode_history_independent V T K kind K_eqb HK members sup Hsup).
Qed.
Print Assumptions C17_pure_partial.

(* and that common result is the cold one: the first member that handles the source type decides *)
Theorem C17_cold_result :
  forall (V T K : Type) (kind : V -> K) (K_eqb : K -> K -> bool),
  (forall a b, K_eqb a b = true <-> a = b) ->
  forall (members : list (member V T)) (sup : nat -> K -> bool),
  (forall i d, nth_error members i = Some d -> forall v t,
     (snd (d v t) = AUnsupported <-> sup i (kind v) = false) /\ (sup i (kind v) = false -> fst (d v t) = t)) ->
  forall warmup t0 v t,
    fst (g_decode V T K kind K_eqb members (g_run V T K kind K_eqb members [] t0 warmup) v t) =
    cold V T K kind members sup v t.
Proof.
  intros V T K kind K_eqb HK members sup Hsup w t0 v t.
  pose proof (decode_pure V T K kind K_eqb HK members sup Hsup _ v t
                (run_cache_ok V T K kind K_eqb HK members sup Hsup t0 w [] (cache_ok_nil V T K K_eqb members sup))) as P.
  destruct (g_decode V T K kind K_eqb members _ v t) as [[t' a] c']. cbn [fst]. apply P.
Qed.
Print Assumptions C17_cold_result.

(* the algorithm of the pinned tree was not pure: concrete two-member witness, and the repaired one is *)
Theorem C17_cache_refuted :
  let ms := [m_first; m_second] in
  let k := fun _ : nat => tt in
  let keq := fun _ _ : unit => true in
  fst (g_decode_old nat nat unit k keq ms [] 3 0) = (100, AHard 1) /\
  fst (g_decode_old nat nat unit k keq ms (snd (g_decode_old nat nat unit k keq ms [] 2 0)) 3 0) = (1103, AOk) /\
  fst (g_decode nat nat unit k keq ms [] 3 0) =
  fst (g_decode nat nat unit k keq ms (snd (g_decode nat nat unit k keq ms [] 2 0)) 3 0).
Proof. exact old_decode_depends_on_cache. Qed.
Print Assumptions C17_cache_refuted.
