(* C08 - Activation runs dependencies first and wraps hooks in init/begin, term/final.
   Same model as C06/C07, with the lifecycle flows (exec) and their errors.
   Proved in Coq, for every state and symbol:
   - C08_activation_wrapping / C08_deactivation_wrapping: the notifications of one activation are
     the requests of the init flow, then - only if that flow did not fail - the load hooks once and
     the requests of the begin flow; symmetrically term / unload / final;
   - C08_error_aborts: once a flow has failed nothing further is notified and the error is kept;
     C08_error_returned: the error an Insert returns is the error of a failed flow.
   - C08_linked_sorted: for every table state whose references are acyclic and every start symbol, the list one
     operation walks ([linked]: breadth-first in-degree count + Kahn's algorithm, with the model's fuel shown
     sufficient) holds exactly the symbols that reach the start symbol through references, once each, and every
     symbol in it comes after all the symbols of the list it refers to;
     C08_load_dependencies_first / C08_unload_dependents_first: hence the load notifications of one load come
     dependencies first, the unload notifications of one unload dependents first;
     C08_ordered_part: without the acyclicity assumption the part Kahn's loop produced is still ordered; only the
     remainder (symbols on or behind a reference cycle - the implementation appends them in map order) is not.
   Besides the proofs a Go oracle evaluates the order on the notifications of every operation of every generated
   history, and the implementation's per-symbol notification sequences are compared with the model. *)
From Coq Require Import List NArith ZArith Bool.
From Uf Require Import Table.Table Table.TableProofs Table.OrderProofs.
Import ListNotations.

Theorem C08_activation_wrapping : forall st s,
  exists i b, events (fst (activate st s)) =
    events st ++ repeat (EExec (s_inst s) port_init) i ++
    match snd (exec st s port_init) with
    | Some _ => []
    | None => ELoad (s_inst s) :: repeat (EExec (s_inst s) port_begin) b
    end.
Proof. exact activate_shape. Qed.
Print Assumptions C08_activation_wrapping.

Theorem C08_deactivation_wrapping : forall st s,
  exists t f, events (fst (deactivate st s)) =
    events st ++ repeat (EExec (s_inst s) port_term) t ++
    match snd (exec st s port_term) with
    | Some _ => []
    | None => EUnload (s_inst s) :: repeat (EExec (s_inst s) port_final) f
    end.
Proof. exact deactivate_shape. Qed.
Print Assumptions C08_deactivation_wrapping.

Theorem C08_error_aborts : forall f l st e, life_fold_from f l (st, Some e) = (st, Some e).
Proof. intros. apply life_fold_abort. Qed.
Print Assumptions C08_error_aborts.

Theorem C08_error_returned : forall st sb e, snd (insert st sb) = TFail e ->
  (exists st', free st (s_id sb) = (st', TFail e)) \/ (exists st2, snd (load st2 sb) = Some e).
Proof. exact insert_error_is_flow_error. Qed.
Print Assumptions C08_error_returned.

(* non-vacuity: a chain with lifecycle responders, one of which fails *)
Example C08_ex :
  let r_init := mksym 0 7 0 None [] true [1; 2] [0] None in
  let r_begin_fails := mksym 1 8 0 None [] true [1; 2] [0] (Some 3) in
  let tgt := mksym 2 2 0 None [(10, [mkpref (Some 7) None 0])] true [1; 2] [0] None in
  let src := mksym 3 1 0 None [(1, [mkpref (Some 2) None 0]); (11, [mkpref (Some 8) None 0])] true [1; 2] [0] None in
  let ops := [TInsert r_init; TInsert r_begin_fails; TInsert src; TInsert tgt] in
  events (t_run ops) = [ELoad 0; ELoad 1; EExec 2 10; ELoad 2; ELoad 3; EExec 3 11] /\
  snd (t_step_res (t_run [TInsert r_init; TInsert r_begin_fails; TInsert src]) (TInsert tgt)) = TFail 3.
Proof. vm_compute. split; reflexivity. Qed.

Theorem C08_linked_sorted : forall st sb, acyclic st ->
  dep_sorted st (linked st sb) /\ NoDup (ids (linked st sb)) /\ (forall i, In i (ids (linked st sb)) <-> reachable st sb i).
Proof. exact linked_sorted. Qed.
Print Assumptions C08_linked_sorted.

Theorem C08_load_dependencies_first : forall st sb, acyclic st ->
  exists l', subseq l' (linked st sb) /\
    loads (events (fst (load st sb))) = loads (events st) ++ map s_inst l' /\ dep_sorted st l'.
Proof. exact load_dependencies_first. Qed.
Print Assumptions C08_load_dependencies_first.

Theorem C08_unload_dependents_first : forall st sb, acyclic st ->
  exists l', subseq l' (linked st sb) /\
    unloads (events (fst (unload st sb))) = unloads (events st) ++ map s_inst (rev l') /\ dep_sorted st l'.
Proof. exact unload_dependents_first. Qed.
Print Assumptions C08_unload_dependents_first.

Theorem C08_ordered_part : forall st sb,
  exists out rest V, linked st sb = out ++ rest /\ (forall i, In i V <-> reachable st sb i) /\
    forall pre v post, out = pre ++ v :: post -> pre = [] \/ allpreds st V (s_id v) pre.
Proof. exact linked_ordered_part. Qed.
Print Assumptions C08_ordered_part.

(* non-vacuity: a diamond (top refers to a and b, both refer to base); the table is acyclic, the walk from base
   is base, a, b, top, and inserting base last loads the four instances in that order *)
Example C08_ex_order :
  let base := mksym 0 1 0 None [] true [1; 2] [0] None in
  let a := mksym 1 2 0 None [(1, [mkpref (Some 1) None 0])] true [1; 2] [0] None in
  let b := mksym 2 3 0 None [(1, [mkpref (Some 1) None 0])] true [1; 2] [0] None in
  let top := mksym 3 4 0 None [(1, [mkpref (Some 2) None 0]); (2, [mkpref (Some 3) None 0])] true [1; 2] [0] None in
  let st := t_run [TInsert top; TInsert a; TInsert b; TInsert base] in
  acyclic st /\ ids (linked st base) = [1; 2; 3; 4] /\ events st = [ELoad 0; ELoad 1; ELoad 2; ELoad 3].
Proof.
  cbv zeta. split; [apply (acyc_check_sound _ (fun i => i)); vm_compute; reflexivity|].
  vm_compute. split; reflexivity.
Qed.
