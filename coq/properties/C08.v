(* C08 - Activation runs dependencies first and wraps hooks in init/begin, term/final.
   Same model as C06/C07, with the lifecycle flows (exec) and their errors.
   Proved in Coq, for every state and symbol:
   - C08_activation_wrapping / C08_deactivation_wrapping: the notifications of one activation are
     the requests of the init flow, then - only if that flow did not fail - the load hooks once and
     the requests of the begin flow; symmetrically term / unload / final;
   - C08_error_aborts: once a flow has failed nothing further is notified and the error is kept;
     C08_error_returned: the error an Insert returns is the error of a failed flow.
   PARTIAL: "a symbol is activated only after every symbol it references" (correctness of the
   Kahn-style ordering in [linked]) is not proved; it is evaluated by a Go oracle on the notifications
   of every operation of every generated history (acyclic universes, responders that succeed or fail)
   and the implementation's per-symbol notification sequences are compared with the model. *)
From Coq Require Import List NArith ZArith Bool.
From Uf Require Import Table.Table Table.TableProofs.
Import ListNotations.

Theorem C08_activation_wrapping : forall st s,
  exists i b, events (fst (activate st s)) =
    events st ++ repeat (EExec (s_inst s) port_init) i ++
    match snd (exec st s port_init) with
    | Some _ => []
    | None => ELoad (s_inst s) :: repeat (EExec (s_inst s) port_begin) b
    end.
Proof. exact activate_shape. Qed.
Print Assumptions C08_activation_wrapping.

Theorem C08_deactivation_wrapping : forall st s,
  exists t f, events (fst (deactivate st s)) =
    events st ++ repeat (EExec (s_inst s) port_term) t ++
    match snd (exec st s port_term) with
    | Some _ => []
    | None => EUnload (s_inst s) :: repeat (EExec (s_inst s) port_final) f
    end.
Proof. exact deactivate_shape. Qed.
Print Assumptions C08_deactivation_wrapping.

Theorem C08_error_aborts : forall f l st e, life_fold_from f l (st, Some e) = (st, Some e).
Proof. intros. apply life_fold_abort. Qed.
Print Assumptions C08_error_aborts.

Theorem C08_error_returned : forall st sb e, snd (insert st sb) = TFail e ->
  (exists st', free st (s_id sb) = (st', TFail e)) \/ (exists st2, snd (load st2 sb) = Some e).
Proof. exact insert_error_is_flow_error. Qed.
Print Assumptions C08_error_returned.

(* non-vacuity: a chain with lifecycle responders, one of which fails *)
Example C08_ex :
  let r_init := mksym 0 7 0 None [] true [1; 2] [0] None in
  let r_begin_fails := mksym 1 8 0 None [] true [1; 2] [0] (Some 3) in
  let tgt := mksym 2 2 0 None [(10, [mkpref (Some 7) None 0])] true [1; 2] [0] None in
  let src := mksym 3 1 0 None [(1, [mkpref (Some 2) None 0]); (11, [mkpref (Some 8) None 0])] true [1; 2] [0] None in
  let ops := [TInsert r_init; TInsert r_begin_fails; TInsert src; TInsert tgt] in
  events (t_run ops) = [ELoad 0; ELoad 1; EExec 2 10; ELoad 2; ELoad 3; EExec 3 11] /\
  snd (t_step_res (t_run [TInsert r_init; TInsert r_begin_fails; TInsert src]) (TInsert tgt)) = TFail 3.
Proof. vm_compute. split; reflexivity. Qed.
