(* C09 - Runtime converges to the stores: one symbol per spec, rebound, nothing extra.
   Model: Runtime/Load.v (Load as one atomic step - the repaired Runtime serialises Loads - and the
   two event handlers of Reconcile, over abstract spec and value stores).
   Proved in Coq, for every table, every store content with unique spec ids, every filter:
   - C09_load_exact: after Load(nil) the table maps each id to exactly the binding of the spec stored
     under it in the runtime's namespace against the current values, and to nothing otherwise;
   - C09_load_targeted: a Load with a filter does that for the ids the filter covers and leaves the
     other symbols as they are (this is what Reconcile relies on);
   - C09_load_twice_quiet: a second Load with nothing changed returns the same table and emits no
     load or unload notification;
   - C09_reconcile_history: along any history of insert / update / delete on both stores in which
     each change is followed by the handling of its event, the table is at every quiet point exactly
     what the stores prescribe (namespaces of specs and of values being fixed for life).
   - C09_reconcile_backlog: along ANY history in which changes to the two stores, explicit Loads and
     the handling of pending events interleave arbitrarily - several changes may pile up before an
     event is handled, and the two handlers (spec events, value events) take turns in any order, each
     taking the oldest event of its own stream - the table is, whenever both streams have run dry,
     exactly what the stores prescribe (C09_backlog_invariant is the invariant that carries this:
     every id is waiting in the spec stream, or is bound against a snapshot of the value store that
     differs from the present one only under ids still waiting in the value stream).  Conditions: an
     id keeps its namespace for life, value ids are non-zero, and in the quiet state no two values of
     the runtime's namespace share a name (the deployment's unique index on namespace+name).
   Not in the model: each Load is one atomic step (the repaired Runtime serialises Loads), so the
   two handler goroutines interleave at the granularity of whole events; the stream plumbing
   (C13) and the table (C06-C08) are proved separately.  A symbol whose Bind failed is compared by
   id, namespace, kind, body and has-node only (its partially bound environment depends on Go's map
   order). *)
From Coq Require Import List NArith Bool Lia.
From Uf Require Import Runtime.Load Runtime.LoadProofs Runtime.ReconcileProofs Runtime.Backlog.
Import ListNotations.

Theorem C09_load_exact : forall cfg specs vals tab,
  spec_ids_nodup specs -> ids_nodup tab -> table_ns cfg tab ->
  forall id, t_lookup id (fst (load cfg FAll specs vals tab)) = expected cfg specs vals id.
Proof. exact load_all_exact. Qed.
Print Assumptions C09_load_exact.

Theorem C09_load_targeted : forall cfg f specs vals tab,
  spec_ids_nodup specs -> ids_nodup tab -> table_ns cfg tab ->
  let tab' := fst (load cfg f specs vals tab) in
  (forall id, fmatch f id = true -> t_lookup id tab' = expected cfg specs vals id)
  /\ (forall id, fmatch f id = false -> t_lookup id tab' = t_lookup id tab)
  /\ ids_nodup tab' /\ table_ns cfg tab'.
Proof. exact load_targeted. Qed.
Print Assumptions C09_load_targeted.

Theorem C09_load_twice_quiet : forall cfg f specs vals tab,
  spec_ids_nodup specs -> ids_nodup tab -> table_ns cfg tab ->
  let tab' := fst (load cfg f specs vals tab) in
  load cfg f specs vals tab' = (tab', []).
Proof. exact load_twice_quiet. Qed.
Print Assumptions C09_load_twice_quiet.

Theorem C09_reconcile_history : forall cfg ops st,
  good cfg st -> history_ok cfg st ops -> good cfg (fold_left (settled_after cfg) ops st).
Proof. exact reconcile_history. Qed.
Print Assumptions C09_reconcile_history.

Theorem C09_backlog_invariant : forall cfg ops st,
  Binv cfg st -> hist_ok cfg st ops -> Binv cfg (r_after cfg st ops).
Proof. exact backlog_history. Qed.
Print Assumptions C09_backlog_invariant.

Theorem C09_reconcile_backlog : forall cfg ops,
  hist_ok cfg r_init ops ->
  let st := r_after cfg r_init ops in
  r_sq st = [] -> r_vq st = [] -> names_unique cfg (r_vals st) ->
  forall id, t_lookup id (r_tab st) = expected cfg (r_specs st) (r_vals st) id.
Proof. exact reconcile_backlog. Qed.
Print Assumptions C09_reconcile_backlog.

(* non-vacuity: a history with a backlog (three value changes and a spec change pending at once,
   handlers taking turns) meets the hypotheses, ends quiet, and its values have distinct names *)
Definition c09_burst : list rop :=
  [OValPut (mkval 1 1 2 10); OSpecPut (mkspec 1 1 1 1 [mkeref 1 0 2] 0); OValPut (mkval 1 1 3 11);
   OValPut (mkval 2 1 2 12); OProcVal; OSpecPut (mkspec 2 1 1 1 [mkeref 1 2 0] 0); OProcSpec; OProcVal;
   OValDel 1; OProcSpec; ODrain].
Example C09_ex_backlog :
  let cfg := mkcfg 1 None in
  let st := r_after cfg r_init c09_burst in
  hist_ok cfg r_init c09_burst /\ r_sq st = [] /\ r_vq st = [] /\ names_unique cfg (r_vals st)
  /\ map y_id (r_tab st) = [1; 2] /\ map y_ok (r_tab st) = [true; true].
Proof.
  split; [|split; [|split; [|split; [|split]]]]; try (vm_compute; reflexivity).
  - cbn. repeat split; auto; intros q H; try tauto;
      repeat (destruct H as [<-|H]; [cbn; auto; try lia|]); try tauto.
  - intros a b Ha Hb. vm_compute in Ha, Hb. destruct Ha as [<-|[]], Hb as [<-|[]]. reflexivity.
Qed.

(* non-vacuity: the empty runtime is a good state, and a concrete history meets history_ok
   (ReconcileProofs.history_ok_example); a concrete run: a spec bound by name is rebound when the
   value changes, unbound (and its node gone) when the value is deleted, and a second Load is quiet *)
Example C09_ex :
  let cfg := mkcfg 1 None in
  let ops := [OValPut (mkval 1 1 2 10); OSpecPut (mkspec 1 1 1 1 [mkeref 1 0 2] 0); OLoad FAll; OLoad FAll;
              OValPut (mkval 1 1 2 11); OProcVal; OValDel 1; OProcVal] in
  map snd (r_run cfg r_init ops) =
  [[]; []; [ELoad 1]; []; []; [EUnload 1; ELoad 1]; []; [EUnload 1]].
Proof. vm_compute. reflexivity. Qed.
