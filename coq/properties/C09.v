(* C09 - Runtime converges to the stores: one symbol per spec, rebound, nothing extra.
   Model: Runtime/Load.v (Load as one atomic step - the repaired Runtime serialises Loads - and the
   two event handlers of Reconcile, over abstract spec and value stores).
   Proved in Coq, for every table, every store content with unique spec ids, every filter:
   - C09_load_exact: after Load(nil) the table maps each id to exactly the binding of the spec stored
     under it in the runtime's namespace against the current values, and to nothing otherwise;
   - C09_load_targeted: a Load with a filter does that for the ids the filter covers and leaves the
     other symbols as they are (this is what Reconcile relies on);
   - C09_load_twice_quiet: a second Load with nothing changed returns the same table and emits no
     load or unload notification;
   - C09_reconcile_history: along any history of insert / update / delete on both stores in which
     each change is followed by the handling of its event, the table is at every quiet point exactly
     what the stores prescribe (namespaces of specs and of values being fixed for life).
   PARTIAL: the schedule in which several changes pile up before their events are handled, and the
   interleaving of the two handler goroutines, are not proved; they are exercised on the
   implementation (bursts of changes, then the quiescent table is compared with the model's, which
   handles the backlog in one particular order).  A symbol whose Bind failed is compared by id,
   namespace, kind, body and has-node only (its partially bound environment depends on Go's map
   order). *)
From Coq Require Import List NArith Bool.
From Uf Require Import Runtime.Load Runtime.LoadProofs Runtime.ReconcileProofs.
Import ListNotations.

Theorem C09_load_exact : forall cfg specs vals tab,
  spec_ids_nodup specs -> ids_nodup tab -> table_ns cfg tab ->
  forall id, t_lookup id (fst (load cfg FAll specs vals tab)) = expected cfg specs vals id.
Proof. exact load_all_exact. Qed.
Print Assumptions C09_load_exact.

Theorem C09_load_targeted : forall cfg f specs vals tab,
  spec_ids_nodup specs -> ids_nodup tab -> table_ns cfg tab ->
  let tab' := fst (load cfg f specs vals tab) in
  (forall id, fmatch f id = true -> t_lookup id tab' = expected cfg specs vals id)
  /\ (forall id, fmatch f id = false -> t_lookup id tab' = t_lookup id tab)
  /\ ids_nodup tab' /\ table_ns cfg tab'.
Proof. exact load_targeted. Qed.
Print Assumptions C09_load_targeted.

Theorem C09_load_twice_quiet : forall cfg f specs vals tab,
  spec_ids_nodup specs -> ids_nodup tab -> table_ns cfg tab ->
  let tab' := fst (load cfg f specs vals tab) in
  load cfg f specs vals tab' = (tab', []).
Proof. exact load_twice_quiet. Qed.
Print Assumptions C09_load_twice_quiet.

Theorem C09_reconcile_history : forall cfg ops st,
  good cfg st -> history_ok cfg st ops -> good cfg (fold_left (settled_after cfg) ops st).
Proof. exact reconcile_history. Qed.
Print Assumptions C09_reconcile_history.

(* non-vacuity: the empty runtime is a good state, and a concrete history meets history_ok
   (ReconcileProofs.history_ok_example); a concrete run: a spec bound by name is rebound when the
   value changes, unbound (and its node gone) when the value is deleted, and a second Load is quiet *)
Example C09_ex :
  let cfg := mkcfg 1 None in
  let ops := [OValPut (mkval 1 1 2 10); OSpecPut (mkspec 1 1 1 1 [mkeref 1 0 2] 0); OLoad FAll; OLoad FAll;
              OValPut (mkval 1 1 2 11); OProcVal; OValDel 1; OProcVal] in
  map snd (r_run cfg r_init ops) =
  [[]; []; [ELoad 1]; []; []; [EUnload 1; ELoad 1]; []; [EUnload 1]].
Proof. vm_compute. reflexivity. Qed.
