(* C05 - Nothing created for a process outlives it; process-local stores never wedge.
   Model: theories/Process/Local.v - pkg/process/local.go (Local[T]: eager / lazy / storeHooks under
   l.mu, the lazy cell's own mutex) and the per-process endpoint maps of pkg/port (InPort.readers,
   OutPort.writers under the port's mutex), with processes reduced to what they are used for here
   (alive flag, exit hooks, the atomic flip of Exit; C04 is the full account), at LOCK granularity:
   every Lock/RLock, every critical section, every Unlock, every call of user code (store hooks,
   initialisers, open hooks, user exit hooks) is one instruction of a thread, and a history is any
   list of "thread t calls method m" / "new process" / "thread t performs its next instruction (if it
   can)".  So the theorems quantify over all interleavings of Store / LoadOrStore / Load / Delete /
   AddStoreHook / RemoveStoreHook / Keys / Close / port Open / port Close / AddExitHook with Exit,
   any number of threads, processes and ports.

   op_ok only excludes MStoreOld, the transcription of the pinned Store (AddExitHook called with
   l.mu held), which is kept in the model to show what the repaired defect was.

   The debug agent (Runtime/AgentProc.v: accept, the exit hook it registers, the guard of the packet hooks):
   C05_agent_no_residue - for every sequence of accepts, packet-hook firings and exits of any number of
   processes, in any order (firings after the exit included: a closing reader hands out drop notices after the
   agent's exit hook has run; accepts after the exit included), the agent lists no terminated process and holds no
   frames entry for one; C05_pinned_agent_keeps_frames - the unguarded hooks of the pinned tree re-create the
   entry (the defect repaired by b2cab63).  The model is compared with a real Agent in C19's correspondence run.

   Not covered by these theorems (measured on the implementation by the harness, see DESIGN.md):
   goroutines; tracer tables across a whole workflow. *)
From Coq Require Import List Arith NArith Bool Lia.
From Uf Require Import Process.Local Process.LocalProofs.
From Uf Require Import Packet.Writer Node.Tracer Node.Spec Node.Refine Node.Residue.
From Uf Require Runtime.Agent Runtime.AgentProc.
Import ListNotations.

(* no interleaving wedges: unless every thread has returned, some thread can take a step
   (user code is assumed to return: a callback is a step that is always enabled) *)
Theorem C05_no_deadlock : forall n ports ops,
  Forall op_ok ops ->
  let st := l_run n ports ops in
  (forall j, j < length (threads st) -> cont (get_thread st j) = []) \/
  (exists t, t < length (threads st) /\ enabled st t = true).
Proof. exact run_no_deadlock. Qed.
Print Assumptions C05_no_deadlock.

(* the pinned Store on a terminated process: the thread waits for the lock it holds itself *)
Theorem C05_pinned_store_wedges :
  let st := fold_left m_step [MNew; MStart 0 (MExit 0); MStart 0 (MStoreOld 0 5)] (l_init 2 []) in
  cont (get_thread st 0) <> [] /\ enabled st 0 = false /\ enabled st 1 = false.
Proof. vm_compute. repeat split; discriminate. Qed.
Print Assumptions C05_pinned_store_wedges.

(* the locks of the model exclude: a writer of a lock is alone on it *)
Theorem C05_locks_exclude : forall n ports ops,
  Forall op_ok ops -> MInv (l_run n ports ops).
Proof. exact run_mutex. Qed.
Print Assumptions C05_locks_exclude.

(* a lazily initialised value is computed at most once: per cell at most one run ever, and per
   process at most one run more than the number of times its entry was deleted (Delete, the exit
   hook, Close) *)
Theorem C05_lazy_at_most_once : forall n ports ops,
  Forall op_ok ops ->
  (forall g, count_inits_cell g (log (l_run n ports ops)) <= 1) /\
  (forall p, count_inits p (log (l_run n ports ops)) <= count_dels p (log (l_run n ports ops)) + 1).
Proof. intros n ports ops F. split; intros; [apply run_cell_once|apply run_proc_once]; exact F. Qed.
Print Assumptions C05_lazy_at_most_once.

(* once every thread has returned, a terminated process has nothing left: no value, no lazy cell, no
   waiters in the store and no endpoint in any port - whatever the interleaving with Exit was *)
Theorem C05_no_residue : forall n ports ops r p,
  Forall op_ok ops ->
  let st := l_run n ports ops in
  (forall j, j < length (threads st) -> cont (get_thread st j) = []) ->
  alive (get_proc st p) = false -> ~ present st r p.
Proof. exact run_no_residue. Qed.
Print Assumptions C05_no_residue.

(* non-vacuity: two threads; a waiter, a lazy value computed while a second LoadOrStore waits for the
   cell's mutex, an out-port linked to an in-port opened for the process, then Exit: every thread has
   returned, the initialiser ran once, nothing is left *)
Example C05_ex :
  let st := fold_left m_step
    [MNew; MStart 0 (MAddHook 0 7); MStart 0 (MLoadOrStore 0 3 false); MStart 1 (MLoadOrStore 0 4 false);
     MResume 0; MResume 0; MStart 1 (MOpen 1 0); MResume 1; MResume 1; MStart 0 (MExit 0)] (l_init 2 [(false, []); (true, [0])]) in
  map cont (threads st) = [[]; []] /\ count_inits 0 (log st) = 1 /\
  eager st = [] /\ lazy st = [] /\ shooks st = [] /\ pents st = [] /\ alive (get_proc st 0) = false.
Proof. vm_compute. repeat split; reflexivity. Qed.

(* the tracer of a node: once every request it has read is answered and no written packet is outstanding, it holds
   nothing - for every call sequence that keeps the node discipline (C02; the real nodes' sequences are checked) *)
Theorem C05_tracer_no_residue : forall ops, disciplined ops = true ->
  s_reader (s_run ops) = [] -> s_wr (s_run ops) = [] ->
  (forall r, lst (nget r (t_reads (t_run ops))) = []) /\
  (forall w, lst (nget w (t_writes (t_run ops))) = []) /\
  (forall p, nget p (t_receives (t_run ops)) = None) /\
  (forall p, nget p (t_targets (t_run ops)) = None) /\
  (forall p, nget p (t_sources (t_run ops)) = None) /\
  t_reader (t_run ops) = [].
Proof. exact tracer_no_residue. Qed.
Print Assumptions C05_tracer_no_residue.

(* the debug agent keeps nothing of a terminated process, whatever fires afterwards *)
Theorem C05_agent_no_residue : forall evs p,
  In p (AgentProc.g_dead (AgentProc.g_run true evs)) ->
  ~ In p (AgentProc.g_procs (AgentProc.g_run true evs))
  /\ AgentProc.fget p (AgentProc.g_frames (AgentProc.g_run true evs)) = None
  /\ AgentProc.frames_for p (AgentProc.g_run true evs) = [].
Proof. exact AgentProc.agent_no_residue. Qed.
Print Assumptions C05_agent_no_residue.

Theorem C05_pinned_agent_keeps_frames :
  exists evs p, In p (AgentProc.g_dead (AgentProc.g_run false evs)) /\ AgentProc.frames_for p (AgentProc.g_run false evs) <> [].
Proof. exact AgentProc.pinned_agent_keeps_frames. Qed.
Print Assumptions C05_pinned_agent_keeps_frames.

(* non-vacuity: a process that exits with a request unanswered; the drop notice fires after the exit *)
Example C05_ex_agent :
  let evs := [AgentProc.PAccept 1; AgentProc.PFire 1 (Agent.HIn (Agent.mkport 0 false 0) 7); AgentProc.PAccept 2;
              AgentProc.PExit 1; AgentProc.PFire 1 (Agent.HOut (Agent.mkport 0 false 0) 8); AgentProc.PFire 2 (Agent.HIn (Agent.mkport 0 false 0) 9)] in
  AgentProc.g_dead (AgentProc.g_run true evs) = [1] /\ AgentProc.g_procs (AgentProc.g_run true evs) = [2]
  /\ length (AgentProc.frames_for 2 (AgentProc.g_run true evs)) = 1 /\ AgentProc.frames_for 1 (AgentProc.g_run true evs) = [].
Proof. vm_compute. repeat split; reflexivity. Qed.
