(* Soundness of the lockset check for the interleaving semantics of Sync.v: if every thread runs a
   path that passes path_ok from the empty lock set, then in no reachable state are two threads about
   to access the same field of the same object with one of them writing; and every thread that waits
   waits for a lock somebody else holds (a path never waits for a lock it holds itself). *)
From Coq Require Import List Arith NArith Bool Lia.
From Uf Require Import Lockset.Sync.
Import ListNotations.

Lemma nth_error_set_nth {A} (l : list A) i j x :
  nth_error (set_nth i x l) j = if Nat.eqb j i then (match nth_error l j with Some _ => Some x | None => None end) else nth_error l j.
Proof.
  revert i j. induction l as [|a l IH]; intros [|i] [|j]; cbn; auto.
  - destruct (Nat.eqb j i); reflexivity.
Qed.

Lemma holds_w_holds held b l : holds_lock_w held b l = true -> holds_lock held b l = true.
Proof.
  unfold holds_lock_w, holds_lock. induction held as [|[[b' l'] w] t IH]; cbn; auto.
  intros H. apply orb_true_iff in H. apply orb_true_iff. destruct H as [H|H]; auto.
  left. apply andb_true_iff in H. tauto.
Qed.

Lemma holds_remove1 h held b l : holds_lock (remove1 h held) b l = true -> holds_lock held b l = true.
Proof.
  unfold holds_lock. induction held as [|x t IH]; cbn; auto.
  destruct (hold_eqb h x); cbn; intros H; apply orb_true_iff.
  - right. exact H.
  - apply orb_true_iff in H. destruct H; auto.
Qed.
Lemma holds_w_remove1 h held b l : holds_lock_w (remove1 h held) b l = true -> holds_lock_w held b l = true.
Proof.
  unfold holds_lock_w. induction held as [|x t IH]; cbn; auto.
  destruct (hold_eqb h x); cbn; intros H; apply orb_true_iff.
  - right. exact H.
  - apply orb_true_iff in H. destruct H; auto.
Qed.

Lemma in_combine_seq {A} (ts : list A) s j t :
  nth_error ts j = Some t -> In (s + j, t) (combine (seq s (length ts)) ts).
Proof.
  revert s j. induction ts as [|a ts IH]; intros s [|j] H; cbn in *; try discriminate.
  - inversion H; subst. left. f_equal. lia.
  - right. replace (s + S j) with (S s + j) by lia. apply IH, H.
Qed.

Lemma others_hold_false ts i b l ow j tj :
  others_hold ts i b l ow = false -> j <> i -> nth_error ts j = Some tj ->
  (if ow then holds_lock_w (held tj) b l else holds_lock (held tj) b l) = false.
Proof.
  intros H N E. unfold others_hold in H.
  pose proof (in_combine_seq ts 0 j tj E) as I. cbn in I.
  destruct (if ow then holds_lock_w (held tj) b l else holds_lock (held tj) b l) eqn:X; auto.
  exfalso. assert (Y : existsb (fun jt : nat * thread => negb (Nat.eqb (fst jt) i) &&
      (if ow then holds_lock_w (held (snd jt)) b l else holds_lock (held (snd jt)) b l))
      (combine (seq 0 (length ts)) ts) = true).
  { apply existsb_exists. exists (j, tj). split; auto. cbn.
    destruct (Nat.eqb j i) eqn:Eq; [apply Nat.eqb_eq in Eq; congruence|]. cbn. exact X. }
  congruence.
Qed.

Section Sound.
  Variable guards : list (N * N).

  Definition P1 (ts : list thread) : Prop :=
    forall i t, nth_error ts i = Some t -> path_ok guards (held t) (rest t) = true.
  Definition P2 (ts : list thread) : Prop :=
    forall i j ti tj b l, i <> j -> nth_error ts i = Some ti -> nth_error ts j = Some tj ->
      holds_lock_w (held ti) b l = true -> holds_lock (held tj) b l = false.

  Lemma holds_cons_other (h : list hold) b l w b0 l0 :
    (b0, l0) <> (b, l) -> holds_lock ((b, l, w) :: h) b0 l0 = holds_lock h b0 l0.
  Proof.
    intros N. unfold holds_lock. cbn.
    destruct (N.eqb b0 b) eqn:E1; destruct (N.eqb l0 l) eqn:E2; cbn; auto.
    apply N.eqb_eq in E1, E2. subst. congruence.
  Qed.
  Lemma holds_w_cons_other (h : list hold) b l w b0 l0 :
    (b0, l0) <> (b, l) -> holds_lock_w ((b, l, w) :: h) b0 l0 = holds_lock_w h b0 l0.
  Proof.
    intros N. unfold holds_lock_w. cbn.
    destruct (N.eqb b0 b) eqn:E1; destruct (N.eqb l0 l) eqn:E2; cbn; auto.
    apply N.eqb_eq in E1, E2. subst. congruence.
  Qed.

  Lemma pair_dec (a b : N * N) : {a = b} + {a <> b}.
  Proof. decide equality; apply N.eq_dec. Qed.

  Lemma step_P ts i : P1 ts -> P2 ts -> P1 (t_step ts i) /\ P2 (t_step ts i).
  Proof.
    intros H1 H2. unfold t_step. destruct (nth_error ts i) as [t|] eqn:Ei; [|split; assumption].
    pose proof (H1 i t Ei) as Ok.
    destruct (rest t) as [|e r] eqn:Er; [split; assumption|].
    destruct e as [b l w|b l w|b f w]; cbn in Ok.
    - (* Acq *)
      destruct (others_hold ts i b l (negb w)) eqn:OH; [split; assumption|].
      apply andb_true_iff in Ok. destruct Ok as [NotHeld Ok].
      split.
      + intros k tk Ek. rewrite nth_error_set_nth in Ek. destruct (Nat.eqb k i) eqn:Eki; [|apply H1 with (i := k); exact Ek].
        apply Nat.eqb_eq in Eki. subst k. rewrite Ei in Ek. inversion Ek; subst. exact Ok.
      + intros k j tk tj b0 l0 Nkj Ek Ej Hw. rewrite nth_error_set_nth in Ek, Ej.
        destruct (Nat.eqb k i) eqn:Eki; destruct (Nat.eqb j i) eqn:Eji.
        * apply Nat.eqb_eq in Eki, Eji. congruence.
        * apply Nat.eqb_eq in Eki. subst k. rewrite Ei in Ek. inversion Ek; subst. cbn [held] in Hw.
          apply Nat.eqb_neq in Eji.
          destruct (pair_dec (b0, l0) (b, l)) as [E|N].
          -- inversion E; subst.
             pose proof (others_hold_false ts i b l (negb w) j tj OH Eji Ej) as X.
             destruct w; cbn in X; [exact X|].
             (* the new hold is a read hold: the write hold must be an old one of i *)
             assert (Hw' : holds_lock_w (held t) b l = true).
             { unfold holds_lock_w in *. cbn [existsb] in Hw. rewrite andb_false_r in Hw. exact Hw. }
             apply (H2 i j t tj b l); auto.
          -- rewrite holds_w_cons_other in Hw by exact N. apply (H2 i j t tj b0 l0); auto.
        * apply Nat.eqb_eq in Eji. subst j. rewrite Ei in Ej. inversion Ej; subst. cbn [held].
          apply Nat.eqb_neq in Eki.
          destruct (pair_dec (b0, l0) (b, l)) as [E|N].
          -- inversion E; subst. exfalso.
             pose proof (others_hold_false ts i b l (negb w) k tk OH Eki Ek) as X.
             destruct w; cbn in X.
             ++ apply holds_w_holds in Hw. congruence.
             ++ congruence.
          -- rewrite holds_cons_other by exact N. apply (H2 k i tk t b0 l0); auto.
        * apply (H2 k j tk tj b0 l0); auto.
    - (* Rel *)
      apply andb_true_iff in Ok. destruct Ok as [_ Ok].
      split.
      + intros k tk Ek. rewrite nth_error_set_nth in Ek. destruct (Nat.eqb k i) eqn:Eki; [|apply H1 with (i := k); exact Ek].
        apply Nat.eqb_eq in Eki. subst k. rewrite Ei in Ek. inversion Ek; subst. exact Ok.
      + intros k j tk tj b0 l0 Nkj Ek Ej Hw. rewrite nth_error_set_nth in Ek, Ej.
        destruct (Nat.eqb k i) eqn:Eki; destruct (Nat.eqb j i) eqn:Eji.
        * apply Nat.eqb_eq in Eki, Eji. congruence.
        * apply Nat.eqb_eq in Eki. subst k. rewrite Ei in Ek. inversion Ek; subst. cbn [held] in Hw.
          apply holds_w_remove1 in Hw. apply (H2 i j t tj b0 l0); auto.
        * apply Nat.eqb_eq in Eji. subst j. rewrite Ei in Ej. inversion Ej; subst. cbn [held].
          destruct (holds_lock (remove1 (b, l, w) (held t)) b0 l0) eqn:X; auto.
          apply holds_remove1 in X. rewrite (H2 k i tk t b0 l0) in X; auto.
        * apply (H2 k j tk tj b0 l0); auto.
    - (* Acc *)
      apply andb_true_iff in Ok. destruct Ok as [_ Ok].
      split.
      + intros k tk Ek. rewrite nth_error_set_nth in Ek. destruct (Nat.eqb k i) eqn:Eki; [|apply H1 with (i := k); exact Ek].
        apply Nat.eqb_eq in Eki. subst k. rewrite Ei in Ek. inversion Ek; subst. exact Ok.
      + intros k j tk tj b0 l0 Nkj Ek Ej Hw. rewrite nth_error_set_nth in Ek, Ej.
        destruct (Nat.eqb k i) eqn:Eki; destruct (Nat.eqb j i) eqn:Eji.
        * apply Nat.eqb_eq in Eki, Eji. congruence.
        * apply Nat.eqb_eq in Eki. subst k. rewrite Ei in Ek. inversion Ek; subst. cbn [held] in Hw. apply (H2 i j t tj b0 l0); auto.
        * apply Nat.eqb_eq in Eji. subst j. rewrite Ei in Ej. inversion Ej; subst. cbn [held]. apply (H2 k i tk t b0 l0); auto.
        * apply (H2 k j tk tj b0 l0); auto.
  Qed.

  Lemma run_P paths sched :
    (forall p, In p paths -> path_ok guards [] p = true) ->
    P1 (t_run paths sched) /\ P2 (t_run paths sched).
  Proof.
    intros Hp. unfold t_run.
    assert (G : forall ts, P1 ts /\ P2 ts -> P1 (fold_left t_step sched ts) /\ P2 (fold_left t_step sched ts)).
    { induction sched as [|i sched IH]; intros ts H; cbn; auto. apply IH. destruct H. apply step_P; auto. }
    apply G. split.
    - intros i t E. apply nth_error_In in E. apply in_map_iff in E. destruct E as [p [<- I]]. cbn. apply Hp, I.
    - intros i j ti tj b l _ Ei _ Hw. apply nth_error_In in Ei. apply in_map_iff in Ei. destruct Ei as [p [<- _]]. cbn in Hw. discriminate.
  Qed.

  Theorem lockset_sound paths sched :
    (forall p, In p paths -> path_ok guards [] p = true) -> ~ race (t_run paths sched).
  Proof.
    intros Hp [i [j [ti [tj [b [f [w1 [w2 [r1 [r2 [N [Ei [Ej [R1 [R2 W]]]]]]]]]]]]]]].
    destruct (run_P paths sched Hp) as [H1 H2].
    pose proof (H1 i ti Ei) as O1. pose proof (H1 j tj Ej) as O2. rewrite R1 in O1. rewrite R2 in O2. cbn in O1, O2.
    apply andb_true_iff in O1, O2. destruct O1 as [C1 _]. destruct O2 as [C2 _].
    unfold covered in C1, C2. destruct (lookup f guards) as [g|]; [|discriminate].
    destruct w1.
    - pose proof (H2 i j ti tj b g N Ei Ej C1) as X.
      destruct w2; [apply holds_w_holds in C2|]; rewrite X in C2; discriminate.
    - cbn in W. subst w2. assert (N' : j <> i) by congruence.
      rewrite (H2 j i tj ti b g N' Ej Ei C2) in C1. discriminate.
  Qed.

  (* a checked path never asks for a lock it already holds: whoever waits, waits for somebody else *)
  Theorem no_self_wait paths sched i t b l w r :
    (forall p, In p paths -> path_ok guards [] p = true) ->
    nth_error (t_run paths sched) i = Some t -> rest t = Acq b l w :: r -> holds_lock (held t) b l = false.
  Proof.
    intros Hp E R. destruct (run_P paths sched Hp) as [H1 _].
    pose proof (H1 i t E) as O. rewrite R in O. cbn in O. apply andb_true_iff in O. destruct O as [O _].
    apply negb_true_iff in O. exact O.
  Qed.
End Sound.
