(* Lock-protocol skeletons and their checks.
   An event is a lock operation or a field access of a shared object, as the translator found it in
   the source: `base` identifies the object expression (text of the receiver / selector chain, after
   inlining), `lock` / `field` are class-qualified names; all as numbers (the generated file lists
   the names).  A path is one control-flow path of a function unit; a unit is a root of execution
   (exported method, method reached through an interface, goroutine body, closure that runs later). *)
From Coq Require Import List Arith NArith Bool Lia.
Import ListNotations.

Inductive ev :=
| Acq (base lock : N) (w : bool)     (* Lock / RLock *)
| Rel (base lock : N) (w : bool)     (* Unlock / RUnlock *)
| Acc (base field : N) (w : bool).   (* read / write of a guarded field *)

Definition hold := (N * N * bool)%type.   (* (base, lock, write-mode) *)

Definition hold_eqb (a b : hold) : bool :=
  let '(b1, l1, w1) := a in let '(b2, l2, w2) := b in N.eqb b1 b2 && N.eqb l1 l2 && Bool.eqb w1 w2.

Fixpoint remove1 (h : hold) (l : list hold) : list hold :=
  match l with
  | [] => []
  | x :: t => if hold_eqb h x then t else x :: remove1 h t
  end.

Definition holds_lock (held : list hold) (b l : N) : bool :=
  existsb (fun h => let '(b', l', _) := h in N.eqb b b' && N.eqb l l') held.
Definition holds_lock_w (held : list hold) (b l : N) : bool :=
  existsb (fun h => let '(b', l', w) := h in N.eqb b b' && N.eqb l l' && w) held.

Fixpoint lookup (k : N) (l : list (N * N)) : option N :=
  match l with
  | [] => None
  | (k', v) :: t => if N.eqb k k' then Some v else lookup k t
  end.

(* an access is covered when the field's guard is held on the same object, exclusively for a write *)
Definition covered (guards : list (N * N)) (held : list hold) (b f : N) (w : bool) : bool :=
  match lookup f guards with
  | None => false
  | Some g => if w then holds_lock_w held b g else holds_lock held b g
  end.

(* the static check of one path, from a given set of held locks: every access covered, no lock taken
   twice on one object (self-deadlock), every release matches a hold, nothing held at the end *)
Fixpoint path_ok (guards : list (N * N)) (held : list hold) (p : list ev) : bool :=
  match p with
  | [] => match held with [] => true | _ => false end
  | Acq b l w :: r => negb (holds_lock held b l) && path_ok guards ((b, l, w) :: held) r
  | Rel b l w :: r => existsb (hold_eqb (b, l, w)) held && path_ok guards (remove1 (b, l, w) held) r
  | Acc b f w :: r => covered guards held b f w && path_ok guards held r
  end.

Definition exempt_ok (exempt : list (N * N)) (u : N) (f : N) : bool :=
  existsb (fun x => N.eqb (fst x) u && N.eqb (snd x) f) exempt.

(* exempted accesses (unit, field) are dropped before the check; they are listed, with the reason, in the generated file *)
Definition strip (exempt : list (N * N)) (u : N) (p : list ev) : list ev :=
  filter (fun e => match e with Acc _ f _ => negb (exempt_ok exempt u f) | _ => true end) p.

Definition lockset_ok (guards exempt : list (N * N)) (units : list (N * list (list ev))) : bool :=
  forallb (fun u => forallb (fun p => path_ok guards [] (strip exempt (fst u) p)) (snd u)) units.

(* ---- lock order: taking lock class B while holding lock class A is an edge A -> B ---- *)
Fixpoint edges_of (held : list hold) (p : list ev) : list (N * N) :=
  match p with
  | [] => []
  | Acq b l w :: r => map (fun h => (snd (fst h), l)) held ++ edges_of ((b, l, w) :: held) r
  | Rel b l w :: r => edges_of (remove1 (b, l, w) held) r
  | Acc _ _ _ :: r => edges_of held r
  end.

Definition all_edges (units : list (N * list (list ev))) : list (N * N) :=
  flat_map (fun u => flat_map (edges_of []) (snd u)) units.

Definition edge_eqb (a b : N * N) : bool := N.eqb (fst a) (fst b) && N.eqb (snd a) (snd b).

(* `rank` is a ranking of the lock classes (given by the generated file); the order is acyclic when every
   edge goes strictly up, except the self-edges listed as allowed (one class, two objects, ordered otherwise) *)
Definition order_ok (rank : list (N * N)) (allowed_self : list N) (units : list (N * list (list ev))) : bool :=
  forallb (fun e =>
    if N.eqb (fst e) (snd e) then existsb (N.eqb (fst e)) allowed_self
    else match lookup (fst e) rank, lookup (snd e) rank with
         | Some a, Some b => N.ltb a b
         | _, _ => false
         end) (all_edges units).

(* ---- interleaving semantics of threads that each run one path ---- *)
Record thread := mkt { held : list hold; rest : list ev }.

Definition others_hold (ts : list thread) (i : nat) (b l : N) (only_w : bool) : bool :=
  existsb (fun jt => negb (Nat.eqb (fst jt) i) &&
                     (if only_w then holds_lock_w (held (snd jt)) b l else holds_lock (held (snd jt)) b l))
          (combine (seq 0 (length ts)) ts).

Fixpoint set_nth {A} (n : nat) (x : A) (l : list A) : list A :=
  match l, n with
  | [], _ => []
  | _ :: t, O => x :: t
  | a :: t, S n' => a :: set_nth n' x t
  end.

Definition t_step (ts : list thread) (i : nat) : list thread :=
  match nth_error ts i with
  | None => ts
  | Some t =>
      match rest t with
      | [] => ts
      | Acq b l w :: r =>
          (* Lock waits while anybody else holds the lock; RLock while somebody else holds it for writing *)
          if others_hold ts i b l (negb w) then ts else set_nth i (mkt ((b, l, w) :: held t) r) ts
      | Rel b l w :: r => set_nth i (mkt (remove1 (b, l, w) (held t)) r) ts
      | Acc _ _ _ :: r => set_nth i (mkt (held t) r) ts
      end
  end.

Definition t_run (paths : list (list ev)) (sched : list nat) : list thread :=
  fold_left t_step sched (map (mkt []) paths).

(* two threads are about to touch the same field of the same object, one of them writing *)
Definition race (ts : list thread) : Prop :=
  exists i j ti tj b f w1 w2 r1 r2,
    i <> j /\ nth_error ts i = Some ti /\ nth_error ts j = Some tj /\
    rest ti = Acc b f w1 :: r1 /\ rest tj = Acc b f w2 :: r2 /\ (w1 || w2) = true.
