(* Model of pkg/process/local.go (Local[T]) and of the per-process endpoint maps of pkg/port
   (InPort.readers, OutPort.writers), together with the part of pkg/process they lean on
   (status flip, exit hooks), at LOCK granularity.

   A thread is a continuation: a list of instructions.  Every method is a template
   [Acq lock mode; Body b]: the body is the code executed while the lock is held; executing it
   updates the shared maps and returns the rest of the method (its Rel and whatever the code does
   after unlocking, which depends on what the body saw - `if !ok { proc.AddExitHook(...) }`).
   User code (store hooks, lazy initialisers, open hooks, user exit hooks) is a callback
   instruction Cb at which the harness can hold the real goroutine.  A lock is held by the threads
   whose `held` field names it, so there is no separate lock table to keep consistent.

   All schedules = all lists of thread ids (step st t performs one instruction of thread t when it
   is enabled and nothing otherwise). *)
From Coq Require Import List NArith Bool Lia.
Import ListNotations.

Inductive res := RLocal | RPort (n : nat).            (* the store; port number n (in- or out-port) *)
Inductive lockid := LRes (r : res) | LLazy (g : nat). (* Local.mu / port.mu ; the mutex of lazy cell g *)
Inductive mode := MW | MR.

Definition res_eqb (a b : res) : bool :=
  match a, b with
  | RLocal, RLocal => true
  | RPort n, RPort m => Nat.eqb n m
  | _, _ => false
  end.
Definition lockid_eqb (a b : lockid) : bool :=
  match a, b with
  | LRes r, LRes r' => res_eqb r r'
  | LLazy g, LLazy g' => Nat.eqb g g'
  | _, _ => false
  end.

(* exit hooks of a process: the cleanup closure registered by a store or a port, or a user hook *)
Inductive hookitem := HClean (r : res) | HUserExit (k : nat).

Inductive body :=
(* Local[T] *)
| BLoad (p : nat)
| BStore (p v : nat)
| BStoreOld (p v : nat)            (* the pinned Store: AddExitHook called with l.mu held *)
| BDelete (p : nat) (user : bool)  (* Delete called by the user (result returned) or by the exit hook *)
| BLos1 (p f : nat) (fails : bool) (* LoadOrStore: read-locked fast path *)
| BLos2 (p f : nat) (fails : bool) (* second look; find or create the lazy cell *)
| BLzEnter (p g : nat)             (* lazy.Do with the cell's mutex held: done? *)
| BLzDone (p g : nat)              (* the initialiser returned: record the result *)
| BLos3 (p g : nat)                (* store the computed value, drop the cell, take the waiters *)
| BAddHook (p h : nat)
| BRemHook (p h : nat)
| BKeys
| BCloseLocal
(* ports *)
| BOpen0 (r p : nat)               (* proc.Status() == Terminated ? (no port lock) *)
| BOpen1 (r p : nat)               (* read-locked lookup *)
| BOpen2 (r p : nat)               (* second look; create the endpoint *)
| BPortDel (r p : nat)             (* the exit hook's critical section *)
| BPortClose (r : nat)
| BUnlink (o r : nat)              (* the close hook of in-port r: out-port o forgets its link to r *)
(* process *)
| BHook (p : nat) (h : hookitem)   (* proc.AddExitHook(h): runs h at once on a terminated process *)
| BExit (p : nat).                 (* proc.Exit: flip and take the hooks *)

Inductive cbkind :=
| CbStoreHook (h v : nat)          (* hook.Store(v) *)
| CbInit (g : nat)                 (* the initialiser of cell g runs (with the cell's mutex held) *)
| CbOpen (r p : nat)               (* openHooks.Open(proc) *)
| CbUserExit (k : nat).

Inductive retval :=
| RUnit | RBool (b : bool) | RLoad (v : option nat) | RLos (v : nat) (err : bool) | RKeys (l : list nat)
| ROpen (fresh : bool) | ROpenClosed.

Inductive instr :=
| Acq (l : lockid) (m : mode)
| Rel (l : lockid) (m : mode)
| Body (b : body)
| Cb (k : cbkind)
| Ret (v : retval).

Inductive event :=
| ECb (t : nat) (k : cbkind)       (* thread t returned from callback k *)
| ERet (t : nat) (v : retval)
| EInit (p g f : nat)              (* the initialiser f of cell g ran for process p *)
| EDel (p : nat)                   (* the store dropped everything it held for p *)
| EClear.                          (* Local.Close *)

Record cell := mkcell { c_proc : nat; c_fn : nat; c_fails : bool; c_done : bool }.
Record thread := mkthr { held : option (lockid * mode); cont : list instr }.
Record proc := mkproc { alive : bool; phooks : list hookitem }.

Record lstate := mkls {
  eager : list (nat * nat);            (* Local.eager: process -> value *)
  lazy : list (nat * nat);             (* Local.lazy: process -> cell *)
  shooks : list (nat * list nat);      (* Local.storeHooks: process -> waiters (possibly empty) *)
  cells : list cell;
  pents : list (nat * nat);            (* (port, process): the port holds an endpoint for the process *)
  pcfg : list (bool * list nat);       (* per port: is it an out-port; the in-ports it was linked to at the start *)
  pdyn : list (list nat * bool);       (* per port: the in-ports it is linked to now; not closed yet (it still has its open hook and close hooks) *)
  procs : list proc;
  threads : list thread;
  log : list event
}.

(* ---- association lists ---- *)
Fixpoint alookup {A} (k : nat) (l : list (nat * A)) : option A :=
  match l with
  | [] => None
  | (k', v) :: t => if Nat.eqb k k' then Some v else alookup k t
  end.
Definition aremove {A} (k : nat) (l : list (nat * A)) : list (nat * A) :=
  filter (fun kv => negb (Nat.eqb (fst kv) k)) l.
Definition aset {A} (k : nat) (v : A) (l : list (nat * A)) : list (nat * A) := (k, v) :: aremove k l.

Fixpoint set_nth {A} (n : nat) (x : A) (l : list A) : list A :=
  match l, n with
  | [], _ => []
  | _ :: t, O => x :: t
  | a :: t, S n' => a :: set_nth n' x t
  end.

Definition pent_eqb (a b : nat * nat) : bool := Nat.eqb (fst a) (fst b) && Nat.eqb (snd a) (snd b).
Definition has_pent (st : lstate) (r p : nat) : bool := existsb (pent_eqb (r, p)) (pents st).

Fixpoint remove_first (h : nat) (l : list nat) : list nat :=
  match l with
  | [] => []
  | x :: t => if Nat.eqb x h then t else x :: remove_first h t
  end.

Fixpoint insert_sorted (x : nat) (l : list nat) : list nat :=
  match l with
  | [] => [x]
  | y :: t => if Nat.leb x y then x :: l else y :: insert_sorted x t
  end.
Definition sort_nat (l : list nat) : list nat := fold_right insert_sorted [] l.

(* ---- state updates ---- *)
Definition get_thread (st : lstate) (t : nat) : thread := nth t (threads st) (mkthr None []).
Definition get_proc (st : lstate) (p : nat) : proc := nth p (procs st) (mkproc false []).
Definition get_cell (st : lstate) (g : nat) : cell := nth g (cells st) (mkcell 0 0 false true).
Definition port_out (st : lstate) (r : nat) : bool := fst (nth r (pcfg st) (false, [])).
Definition port_ins (st : lstate) (r : nat) : list nat := fst (nth r (pdyn st) ([], false)).
Definition port_open (st : lstate) (r : nat) : bool := snd (nth r (pdyn st) ([], false)).
Definition port_ins0 (st : lstate) (r : nat) : list nat := snd (nth r (pcfg st) (false, [])).

Definition with_local (st : lstate) e l s : lstate :=
  mkls e l s (cells st) (pents st) (pcfg st) (pdyn st) (procs st) (threads st) (log st).
Definition with_cells (st : lstate) c : lstate :=
  mkls (eager st) (lazy st) (shooks st) c (pents st) (pcfg st) (pdyn st) (procs st) (threads st) (log st).
Definition with_pents (st : lstate) pe : lstate :=
  mkls (eager st) (lazy st) (shooks st) (cells st) pe (pcfg st) (pdyn st) (procs st) (threads st) (log st).
Definition with_procs (st : lstate) ps : lstate :=
  mkls (eager st) (lazy st) (shooks st) (cells st) (pents st) (pcfg st) (pdyn st) ps (threads st) (log st).
Definition with_threads (st : lstate) ts : lstate :=
  mkls (eager st) (lazy st) (shooks st) (cells st) (pents st) (pcfg st) (pdyn st) (procs st) ts (log st).
Definition with_pdyn (st : lstate) pd : lstate :=
  mkls (eager st) (lazy st) (shooks st) (cells st) (pents st) (pcfg st) pd (procs st) (threads st) (log st).
Definition add_log (st : lstate) (e : event) : lstate :=
  mkls (eager st) (lazy st) (shooks st) (cells st) (pents st) (pcfg st) (pdyn st) (procs st) (threads st) (log st ++ [e]).

(* ---- the code of the closures ---- *)
Definition lock_of_res (r : res) : lockid := LRes r.

(* what an exit hook does when it runs *)
Definition hook_prog (p : nat) (h : hookitem) : list instr :=
  match h with
  | HClean RLocal => [Acq (LRes RLocal) MW; Body (BDelete p false)]
  | HClean (RPort r) => [Acq (LRes (RPort r)) MW; Body (BPortDel r p)]
  | HUserExit k => [Cb (CbUserExit k)]
  end.

(* the lock a body runs under (None: no lock of the model - the process's own mutex is C04's) *)
Definition lock_of (b : body) : option (lockid * mode) :=
  match b with
  | BLoad _ | BKeys | BLos1 _ _ _ => Some (LRes RLocal, MR)
  | BStore _ _ | BStoreOld _ _ | BDelete _ _ | BLos2 _ _ _ | BLos3 _ _ | BAddHook _ _ | BRemHook _ _ | BCloseLocal =>
      Some (LRes RLocal, MW)
  | BLzEnter _ g | BLzDone _ g => Some (LLazy g, MW)
  | BOpen1 r _ => Some (LRes (RPort r), MR)
  | BOpen2 r _ | BPortDel r _ | BPortClose r => Some (LRes (RPort r), MW)
  | BUnlink o _ => Some (LRes (RPort o), MW)
  | BOpen0 _ _ | BHook _ _ | BExit _ => None
  end.

Definition LW := (LRes RLocal).

(* what follows lazy.Do in LoadOrStore, given the cell *)
Definition after_do (p g : nat) (c : cell) : list instr :=
  if c_fails c then [Ret (RLos 0 true)] else [Acq LW MW; Body (BLos3 p g)].

(* exec b st = (st', rest of the method) *)
Definition exec (b : body) (st : lstate) : lstate * list instr :=
  match b with
  | BLoad p => (st, [Rel LW MR; Ret (RLoad (alookup p (eager st)))])
  | BKeys => (st, [Rel LW MR; Ret (RKeys (sort_nat (map fst (eager st))))])
  | BStore p v =>
      let ok := match alookup p (eager st) with Some _ => true | None => false end in
      let hs := match alookup p (shooks st) with Some l => l | None => [] end in
      (with_local st (aset p v (eager st)) (lazy st) (aremove p (shooks st)),
       Rel LW MW :: (if ok then [] else [Body (BHook p (HClean RLocal))]) ++
       map (fun h => Cb (CbStoreHook h v)) hs ++ [Ret RUnit])
  | BStoreOld p v =>
      let ok := match alookup p (eager st) with Some _ => true | None => false end in
      let hs := match alookup p (shooks st) with Some l => l | None => [] end in
      (with_local st (aset p v (eager st)) (lazy st) (aremove p (shooks st)),
       (if ok then [] else [Body (BHook p (HClean RLocal))]) ++ Rel LW MW ::
       map (fun h => Cb (CbStoreHook h v)) hs ++ [Ret RUnit])
  | BDelete p user =>
      let ok := match alookup p (eager st) with Some _ => true | None => false end in
      (add_log (with_local st (aremove p (eager st)) (aremove p (lazy st)) (aremove p (shooks st))) (EDel p),
       Rel LW MW :: (if user then [Ret (RBool ok)] else []))
  | BLos1 p f fails =>
      match alookup p (eager st) with
      | Some v => (st, [Rel LW MR; Ret (RLos v false)])
      | None => (st, [Rel LW MR; Acq LW MW; Body (BLos2 p f fails)])
      end
  | BLos2 p f fails =>
      match alookup p (eager st) with
      | Some v => (st, [Rel LW MW; Ret (RLos v false)])
      | None =>
          match alookup p (lazy st) with
          | Some g => (st, [Rel LW MW; Acq (LLazy g) MW; Body (BLzEnter p g)])
          | None =>
              let g := length (cells st) in
              (with_cells (with_local st (eager st) (aset p g (lazy st)) (shooks st))
                          (cells st ++ [mkcell p f fails false]),
               [Rel LW MW; Body (BHook p (HClean RLocal)); Acq (LLazy g) MW; Body (BLzEnter p g)])
          end
      end
  | BLzEnter p g =>
      let c := get_cell st g in
      if c_done c then (st, Rel (LLazy g) MW :: after_do p g c)
      else (st, [Cb (CbInit g); Body (BLzDone p g)])
  | BLzDone p g =>
      let c := get_cell st g in
      (add_log (with_cells st (set_nth g (mkcell (c_proc c) (c_fn c) (c_fails c) true) (cells st)))
               (EInit (c_proc c) g (c_fn c)),
       Rel (LLazy g) MW :: after_do p g c)
  | BLos3 p g =>
      let v := c_fn (get_cell st g) in
      let hs := match alookup p (shooks st) with Some l => l | None => [] end in
      (with_local st (aset p v (eager st)) (aremove p (lazy st)) (aremove p (shooks st)),
       Rel LW MW :: Body (BHook p (HClean RLocal)) :: map (fun h => Cb (CbStoreHook h v)) hs ++ [Ret (RLos v false)])
  | BAddHook p h =>
      match alookup p (eager st) with
      | Some v => (st, [Rel LW MW; Cb (CbStoreHook h v); Ret (RBool true)])
      | None =>
          let hs := match alookup p (shooks st) with Some l => l | None => [] end in
          if existsb (Nat.eqb h) hs then (st, [Rel LW MW; Ret (RBool false)])
          else
            (with_local st (eager st) (lazy st) (aset p (hs ++ [h]) (shooks st)),
             Rel LW MW :: (match hs with [] => [Body (BHook p (HClean RLocal))] | _ => [] end) ++ [Ret (RBool true)])
      end
  | BRemHook p h =>
      match alookup p (shooks st) with
      | None => (st, [Rel LW MW; Ret (RBool false)])
      | Some hs =>
          if existsb (Nat.eqb h) hs
          then (with_local st (eager st) (lazy st) (aset p (remove_first h hs) (shooks st)), [Rel LW MW; Ret (RBool true)])
          else (st, [Rel LW MW; Ret (RBool false)])
      end
  | BCloseLocal => (add_log (with_local st [] [] []) EClear, [Rel LW MW; Ret RUnit])
  | BOpen0 r p =>
      if alive (get_proc st p) then (st, [Acq (LRes (RPort r)) MR; Body (BOpen1 r p)])
      else (st, [Ret ROpenClosed])
  | BOpen1 r p =>
      if has_pent st r p then (st, [Rel (LRes (RPort r)) MR; Ret (ROpen false)])
      else (st, [Rel (LRes (RPort r)) MR; Acq (LRes (RPort r)) MW; Body (BOpen2 r p)])
  | BOpen2 r p =>
      if has_pent st r p then (st, [Rel (LRes (RPort r)) MW; Ret (ROpen false)])
      else
        let hook := if port_open st r then [Cb (CbOpen r p)] else [] in
        (with_pents st ((r, p) :: pents st),
         Rel (LRes (RPort r)) MW ::
         (if port_out st r
          then hook ++ Body (BHook p (HClean (RPort r))) :: map (fun i => Body (BOpen0 i p)) (port_ins st r)
          else Body (BHook p (HClean (RPort r))) :: hook) ++ [Ret (ROpen true)])
  | BPortDel r p =>
      (with_pents st (filter (fun e => negb (pent_eqb (r, p) e)) (pents st)), [Rel (LRes (RPort r)) MW])
  | BPortClose r =>
      (* Close forgets links, open hooks and close hooks.  InPort.Close also forgets its readers and runs its
         close hooks (every out-port that ever linked to it unlinks); OutPort.Close keeps its (closed) writers
         until their process exits *)
      let st1 := with_pdyn st (set_nth r ([], false) (pdyn st)) in
      if port_out st r then (st1, [Rel (LRes (RPort r)) MW; Ret RUnit])
      else
        (with_pents st1 (filter (fun e => negb (Nat.eqb (fst e) r)) (pents st)),
         Rel (LRes (RPort r)) MW ::
         (if port_open st r
          then flat_map (fun o => if port_out st o && existsb (Nat.eqb r) (port_ins0 st o)
                                  then [Acq (LRes (RPort o)) MW; Body (BUnlink o r)] else [])
                        (rev (seq 0 (length (pcfg st))))
          else []) ++ [Ret RUnit])
  | BUnlink o r =>
      (with_pdyn st (set_nth o (filter (fun i => negb (Nat.eqb i r)) (port_ins st o), port_open st o) (pdyn st)),
       [Rel (LRes (RPort o)) MW])
  | BHook p h =>
      let pr := get_proc st p in
      if alive pr then (with_procs st (set_nth p (mkproc true (phooks pr ++ [h])) (procs st)), [])
      else (st, hook_prog p h)
  | BExit p =>
      let pr := get_proc st p in
      if alive pr then (with_procs st (set_nth p (mkproc false []) (procs st)),
                        flat_map (hook_prog p) (rev (phooks pr)))
      else (st, [])
  end.

(* ---- locks ---- *)
Definition holds (l : lockid) (t : thread) : bool :=
  match held t with Some (l', _) => lockid_eqb l l' | None => false end.
Definition holds_w (l : lockid) (t : thread) : bool :=
  match held t with Some (l', MW) => lockid_eqb l l' | _ => false end.

Definition can_acquire (st : lstate) (l : lockid) (m : mode) : bool :=
  match m with
  | MW => negb (existsb (holds l) (threads st))
  | MR => negb (existsb (holds_w l) (threads st))
  end.

Definition enabled (st : lstate) (t : nat) : bool :=
  match cont (get_thread st t) with
  | [] => false
  | Acq l m :: _ => can_acquire st l m
  | _ => true
  end.

Definition set_thread (st : lstate) (t : nat) (th : thread) : lstate := with_threads st (set_nth t th (threads st)).

(* one instruction of thread t (nothing when it is finished or waits for a lock) *)
Definition step (st : lstate) (t : nat) : lstate :=
  let th := get_thread st t in
  match cont th with
  | [] => st
  | Acq l m :: c => if can_acquire st l m then set_thread st t (mkthr (Some (l, m)) c) else st
  | Rel l m :: c => set_thread st t (mkthr None c)
  | Body b :: c => let '(st', frag) := exec b st in set_thread st' t (mkthr (held th) (frag ++ c))
  | Cb k :: c => set_thread (add_log st (ECb t k)) t (mkthr (held th) c)
  | Ret v :: c => set_thread (add_log st (ERet t v)) t (mkthr (held th) c)
  end.

(* ---- the public methods ---- *)
Inductive meth :=
| MLoad (p : nat) | MStore (p v : nat) | MStoreOld (p v : nat) | MDelete (p : nat)
| MLoadOrStore (p f : nat) (fails : bool)
| MAddHook (p h : nat) | MRemHook (p h : nat) | MKeys | MCloseLocal
| MOpen (r p : nat) | MPortClose (r : nat)
| MExit (p : nat) | MAddExitHook (p k : nat).

Definition template (m : meth) : list instr :=
  match m with
  | MLoad p => [Acq LW MR; Body (BLoad p)]
  | MStore p v => [Acq LW MW; Body (BStore p v)]
  | MStoreOld p v => [Acq LW MW; Body (BStoreOld p v)]
  | MDelete p => [Acq LW MW; Body (BDelete p true)]
  | MLoadOrStore p f fails => [Acq LW MR; Body (BLos1 p f fails)]
  | MAddHook p h => [Acq LW MW; Body (BAddHook p h)]
  | MRemHook p h => [Acq LW MW; Body (BRemHook p h)]
  | MKeys => [Acq LW MR; Body BKeys]
  | MCloseLocal => [Acq LW MW; Body BCloseLocal]
  | MOpen r p => [Body (BOpen0 r p); Ret RUnit]
  | MPortClose r => [Acq (LRes (RPort r)) MW; Body (BPortClose r)]
  | MExit p => [Body (BExit p); Ret RUnit]
  | MAddExitHook p k => [Body (BHook p (HUserExit k)); Ret RUnit]
  end.

(* operations of a history: a thread calls a method (appended to what it still has to do), a new
   process is created, or the scheduler lets a thread perform one instruction *)
Inductive lop :=
| LCall (t : nat) (m : meth)
| LNewProc
| LStep (t : nat).

Definition l_step (st : lstate) (op : lop) : lstate :=
  match op with
  | LCall t m =>
      if Nat.ltb t (length (threads st))
      then let th := get_thread st t in set_thread st t (mkthr (held th) (cont th ++ template m))
      else st
  | LNewProc => with_procs st (procs st ++ [mkproc true []])
  | LStep t => step st t
  end.

Definition l_init (nthreads : nat) (ports : list (bool * list nat)) : lstate :=
  mkls [] [] [] [] [] ports (map (fun c => (snd c, true)) ports) [] (repeat (mkthr None []) nthreads) [].
Definition l_run (nthreads : nat) (ports : list (bool * list nat)) (ops : list lop) : lstate :=
  fold_left l_step ops (l_init nthreads ports).

(* ---- what the properties talk about ---- *)
Definition finished (st : lstate) : Prop := forall th, In th (threads st) -> cont th = [].

Definition present (st : lstate) (r : res) (p : nat) : Prop :=
  match r with
  | RLocal => alookup p (eager st) <> None \/ alookup p (lazy st) <> None \/ alookup p (shooks st) <> None
  | RPort n => has_pent st n p = true
  end.

Definition count_inits (p : nat) (l : list event) : nat :=
  length (filter (fun e => match e with EInit p' _ _ => Nat.eqb p p' | _ => false end) l).
Definition count_inits_cell (g : nat) (l : list event) : nat :=
  length (filter (fun e => match e with EInit _ g' _ => Nat.eqb g g' | _ => false end) l).
Definition count_dels (p : nat) (l : list event) : nat :=
  length (filter (fun e => match e with EDel p' => Nat.eqb p p' | EClear => true | _ => false end) l).

(* ---- macro steps for the correspondence: the harness can only hold a goroutine inside user
   code, so it observes the system between "thread t runs until it enters a callback, finishes
   or has to wait for a lock" ---- *)
Definition at_cb (st : lstate) (t : nat) : bool :=
  match cont (get_thread st t) with Cb _ :: _ => true | _ => false end.

Fixpoint run_free (fuel : nat) (st : lstate) (t : nat) : lstate :=
  match fuel with
  | O => st
  | S f => if at_cb st t then st else if enabled st t then run_free f (step st t) t else st
  end.

Definition FUEL := 400.

(* let every thread that is not inside a callback run as far as it can (threads that were waiting
   for a lock go on by themselves once it is free) *)
Fixpoint settle_pass (st : lstate) (ts : list nat) : lstate :=
  match ts with
  | [] => st
  | t :: rest => settle_pass (run_free FUEL st t) rest
  end.
Definition settle (st : lstate) : lstate :=
  let ts := seq 0 (length (threads st)) in settle_pass (settle_pass st ts) ts.

Inductive mop :=
| MStart (t : nat) (m : meth)   (* an idle worker calls a method *)
| MResume (t : nat)             (* the callback a worker is held in returns *)
| MNew.

Definition m_step (st : lstate) (op : mop) : lstate :=
  match op with
  | MStart t m => settle (run_free FUEL (l_step st (LCall t m)) t)
  | MResume t => if at_cb st t then settle (run_free FUEL (step st t) t) else st
  | MNew => l_step st LNewProc
  end.
