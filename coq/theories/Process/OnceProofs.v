(* Exit hooks run exactly once (C04, log level).
   Every user hook that an AddExitHook call brought into the system is, at any time, in exactly one
   place: registered on its process, waiting in a frame of a thread that is running exit hooks, or in
   the log of entered hooks (a parked hook has been logged and replaced by HParked).  So the log holds
   each hook at most once, and once no thread has anything left to run, a hook is in the log exactly
   when it is no longer registered. *)
From Coq Require Import List Arith NArith ZArith Bool Lia.
From Uf Require Import Process.Process Process.ProcessProofs.
Import ListNotations.

Definition is_user (id : nat) (h : hook) : bool := match h with HUser x => Nat.eqb x id | _ => false end.
Definition cnt (id : nat) (l : list hook) : nat := length (filter (is_user id) l).
Definition reg (st : pstate) (id : nat) : nat := list_sum (map (fun p => cnt id (p_hooks p)) (procs st)).
Definition fcnt (id : nat) (t : thread) : nat := list_sum (map (fun f => cnt id (fst f)) (t_frames t)).
Definition usr (st : pstate) (id : nat) : nat := list_sum (map (fcnt id) (threads st)).
Definition lg (st : pstate) (id : nat) : nat := length (filter (fun e => Nat.eqb (fst e) id) (hlog st)).
Definition tok (st : pstate) (id : nat) : nat := reg st id + usr st id + lg st id.

Lemma cnt_app id a b : cnt id (a ++ b) = cnt id a + cnt id b.
Proof. unfold cnt. rewrite filter_app, app_length. reflexivity. Qed.
Lemma cnt_rev id l : cnt id (rev l) = cnt id l.
Proof.
  induction l as [|a l IH]; [reflexivity|].
  change (rev (a :: l)) with (rev l ++ [a]). rewrite cnt_app, IH. unfold cnt. cbn. destruct (is_user id a); cbn; lia.
Qed.

Lemma list_sum_set_nth {A} (f : A -> nat) n x l d :
  n < length l -> list_sum (map f (set_nth n x l)) + f (nth n l d) = list_sum (map f l) + f x.
Proof.
  unfold list_sum. revert n. induction l as [|a l IH]; intros [|n] H; cbn in *; try lia.
  specialize (IH n ltac:(lia)). lia.
Qed.

Lemma set_nth_oob {A} n (x : A) l : length l <= n -> set_nth n x l = l.
Proof. revert n. induction l as [|a l IH]; intros [|n] H; cbn in *; auto; try lia. f_equal. apply IH. lia. Qed.

(* replacing thread tid (in range) *)
Lemma usr_upd_thread st tid t id :
  tid < length (threads st) ->
  usr (upd_thread st tid t) id + fcnt id (get_thread st tid) = usr st id + fcnt id t.
Proof. intros H. unfold usr, upd_thread, get_thread. cbn [threads]. apply list_sum_set_nth, H. Qed.

Lemma reg_upd_proc st pid p id :
  pid < length (procs st) ->
  reg (upd_proc st pid p) id + cnt id (p_hooks (get_proc st pid)) = reg st id + cnt id (p_hooks p).
Proof.
  intros H. unfold reg, upd_proc, get_proc. cbn [procs].
  apply (list_sum_set_nth (fun p => cnt id (p_hooks p))), H.
Qed.

Lemma reg_upd_proc_same st pid p id :
  p_hooks p = p_hooks (get_proc st pid) -> reg (upd_proc st pid p) id = reg st id.
Proof.
  intros E. destruct (Nat.lt_ge_cases pid (length (procs st))) as [H|H].
  - pose proof (reg_upd_proc st pid p id H). rewrite E in *. lia.
  - unfold upd_proc, reg. cbn [procs]. rewrite set_nth_oob by exact H. reflexivity.
Qed.

(* the flip moves the hooks of the process out of the registry *)
Lemma flip_tok st pid err id :
  reg (fst (flip st pid err)) id + cnt id (snd (flip st pid err)) = reg st id /\
  threads (fst (flip st pid err)) = threads st /\ hlog (fst (flip st pid err)) = hlog st.
Proof.
  unfold flip. destruct (p_term (get_proc st pid)) eqn:T; cbn [fst snd]; [cbn; auto|].
  split; [|split; reflexivity].
  destruct (Nat.lt_ge_cases pid (length (procs st))) as [H|H].
  - pose proof (reg_upd_proc st pid (mkproc true err [] [] (p_parent (get_proc st pid)) (p_wait (get_proc st pid))) id H) as X.
    cbn [p_hooks] in X. change (cnt id []) with 0 in X. lia.
  - unfold get_proc in T. rewrite nth_overflow in T by exact H. discriminate.
Qed.

Definition tid_ok (st : pstate) (tid : nat) : Prop := tid < length (threads st).

Lemma length_threads_upd st tid t : length (threads (upd_thread st tid t)) = length (threads st).
Proof. unfold upd_thread. cbn. apply set_nth_length. Qed.
Lemma length_threads_updp st pid p : length (threads (upd_proc st pid p)) = length (threads st).
Proof. reflexivity. Qed.

Lemma get_thread_upd_same st tid t : tid < length (threads st) -> get_thread (upd_thread st tid t) tid = t.
Proof. intros H. unfold get_thread, upd_thread. cbn [threads]. apply nth_set_nth_same, H. Qed.

(* running hooks conserves the tokens *)
Lemma advance_tok fuel : forall st tid id,
  tid < length (threads st) ->
  tok (advance fuel st tid) id = tok st id /\ length (threads (advance fuel st tid)) = length (threads st).
Proof.
  induction fuel as [|fuel IH]; intros st tid id L; cbn [advance]; [auto|].
  destruct (t_frames (get_thread st tid)) as [|[[|h hs] err] rest] eqn:F; [auto| |].
  - (* empty frame *)
    destruct (IH (upd_thread st tid (mkthread rest)) tid id) as [E1 E2]; [rewrite length_threads_upd; exact L|].
    rewrite E1, E2, length_threads_upd. split; [|reflexivity].
    pose proof (usr_upd_thread st tid (mkthread rest) id L) as U.
    unfold fcnt in U. rewrite F in U. cbn [t_frames map list_sum fold_right fst] in U. change (cnt id []) with 0 in U. unfold tok.
    change (reg (upd_thread st tid (mkthread rest)) id) with (reg st id).
    change (lg (upd_thread st tid (mkthread rest)) id) with (lg st id). lia.
  - destruct h as [x|c|par|x].
    + (* HUser x: entered *)
      split; [|cbn; apply set_nth_length].
      set (st' := mkps (procs st) (set_nth tid (mkthread ((HParked x :: hs, err) :: rest)) (threads st)) (hlog st ++ [(x, err)])).
      assert (U : usr st' id + fcnt id (get_thread st tid) = usr st id + fcnt id (mkthread ((HParked x :: hs, err) :: rest))).
      { apply (usr_upd_thread st tid _ id L). }
      unfold fcnt in U. rewrite F in U. cbn [t_frames map list_sum fold_right fst] in U.
      unfold tok. change (reg st' id) with (reg st id).
      assert (Lg : lg st' id = lg st id + (if Nat.eqb x id then 1 else 0)).
      { unfold lg, st'. cbn [hlog]. rewrite filter_app, app_length. cbn. destruct (Nat.eqb x id); reflexivity. }
      rewrite Lg. change (cnt id (HParked x :: hs)) with (cnt id hs) in U.
      assert (C : cnt id (HUser x :: hs) = cnt id hs + (if Nat.eqb x id then 1 else 0)).
      { unfold cnt. cbn [filter is_user]. destruct (Nat.eqb x id); cbn [length]; lia. }
      rewrite C in U. lia.
    + (* HChild c *)
      destruct (flip st c err) as [st1 taken] eqn:FL.
      pose proof (flip_tok st c err id) as [R [T H]]. rewrite FL in R, T, H. cbn [fst snd] in R, T, H.
      assert (L1 : tid < length (threads st1)) by (rewrite T; exact L).
      destruct (IH (upd_thread st1 tid (mkthread ((rev taken, err) :: (hs, err) :: rest))) tid id) as [E1 E2];
        [rewrite length_threads_upd; exact L1|].
      rewrite E1, E2, length_threads_upd, T. split; [|reflexivity].
      pose proof (usr_upd_thread st1 tid (mkthread ((rev taken, err) :: (hs, err) :: rest)) id L1) as U.
      assert (G : get_thread st1 tid = get_thread st tid) by (unfold get_thread; rewrite T; reflexivity).
      unfold fcnt in U. rewrite G, F in U. cbn [t_frames map list_sum fold_right fst] in U. rewrite cnt_rev in U.
      unfold tok.
      change (reg (upd_thread st1 tid (mkthread ((rev taken, err) :: (hs, err) :: rest))) id) with (reg st1 id).
      change (lg (upd_thread st1 tid (mkthread ((rev taken, err) :: (hs, err) :: rest))) id) with (lg st1 id).
      assert (Us : usr st1 id = usr st id) by (unfold usr; rewrite T; reflexivity).
      assert (Ls : lg st1 id = lg st id) by (unfold lg; rewrite H; reflexivity).
      change (cnt id (HChild c :: hs)) with (cnt id hs) in U. lia.
    + (* HWaitDone *)
      set (pp := get_proc st par).
      set (st1 := upd_proc st par (mkproc (p_term pp) (p_err pp) (p_hooks pp) (p_data pp) (p_parent pp) (pred (p_wait pp)))).
      destruct (IH (upd_thread st1 tid (mkthread ((hs, err) :: rest))) tid id) as [E1 E2];
        [rewrite length_threads_upd; exact L|].
      rewrite E1, E2, length_threads_upd. split; [|reflexivity].
      pose proof (usr_upd_thread st1 tid (mkthread ((hs, err) :: rest)) id L) as U.
      assert (G : get_thread st1 tid = get_thread st tid) by reflexivity.
      unfold fcnt in U. rewrite G, F in U. cbn [t_frames map list_sum fold_right fst] in U.
      unfold tok.
      change (reg (upd_thread st1 tid (mkthread ((hs, err) :: rest))) id) with (reg st1 id).
      change (lg (upd_thread st1 tid (mkthread ((hs, err) :: rest))) id) with (lg st id).
      assert (Rs : reg st1 id = reg st id) by (apply reg_upd_proc_same; reflexivity).
      assert (Us : usr st1 id = usr st id) by reflexivity.
      change (cnt id (HWaitDone par :: hs)) with (cnt id hs) in U. lia.
    + (* HParked: already entered *)
      auto.
Qed.

(* ---------- operations ---------- *)
(* the AddExitHook calls that bring a hook into the system: on a terminated process (it runs at once) or
   registered on a running one; a call by a busy thread or with a hook that is already registered does nothing *)
Definition effect (st : pstate) (op : pop) : list (nat * nat) :=
  match op with
  | PAddHook tid pid h =>
      if idle st tid && (p_term (get_proc st pid) || negb (existsb (hook_eqb (HUser h)) (p_hooks (get_proc st pid))))
      then [(h, pid)] else []
  | _ => []
  end.
Definition addc (id : nat) (l : list (nat * nat)) : nat := length (filter (fun e => Nat.eqb (fst e) id) l).

Definition op_tid (op : pop) : option nat :=
  match op with
  | PFork t _ | PAddHook t _ _ | PExit t _ _ | PStep t => Some t
  | _ => None
  end.
Definition op_in_range (n : nat) (op : pop) : Prop := match op_tid op with Some t => t < n | None => True end.

Lemma idle_fcnt st tid id : idle st tid = true -> fcnt id (get_thread st tid) = 0.
Proof. unfold idle, fcnt. destruct (t_frames (get_thread st tid)); [reflexivity|discriminate]. Qed.

Lemma reg_app st ps id :
  reg (mkps (procs st ++ ps) (threads st) (hlog st)) id = reg st id + list_sum (map (fun p => cnt id (p_hooks p)) ps).
Proof. unfold reg. cbn [procs]. rewrite map_app. unfold list_sum. rewrite fold_right_app.
  induction (map (fun p => cnt id (p_hooks p)) (procs st)) as [|a l IH]; cbn; [reflexivity|]. rewrite IH. lia.
Qed.

(* push a frame on an idle thread and run *)
Lemma push_run_tok st tid fr id fuel :
  tid < length (threads st) -> idle st tid = true ->
  tok (advance fuel (upd_thread st tid (mkthread [fr])) tid) id = tok st id + cnt id (fst fr) /\
  length (threads (advance fuel (upd_thread st tid (mkthread [fr])) tid)) = length (threads st).
Proof.
  intros L I. destruct (advance_tok fuel (upd_thread st tid (mkthread [fr])) tid id) as [E1 E2]; [rewrite length_threads_upd; exact L|].
  rewrite E1, E2, length_threads_upd. split; [|reflexivity].
  pose proof (usr_upd_thread st tid (mkthread [fr]) id L) as U. rewrite (idle_fcnt st tid id I) in U.
  unfold fcnt in U. cbn [t_frames map list_sum fold_right] in U. unfold tok.
  change (reg (upd_thread st tid (mkthread [fr])) id) with (reg st id).
  change (lg (upd_thread st tid (mkthread [fr])) id) with (lg st id). lia.
Qed.

Lemma hook_eqb_user h l : existsb (hook_eqb (HUser h)) l = false -> cnt h l = 0.
Proof.
  unfold cnt. induction l as [|a l IH]; cbn; auto. intros H. apply orb_false_iff in H. destruct H as [H1 H2].
  destruct a; cbn in *; auto. rewrite Nat.eqb_sym, H1. auto.
Qed.

Lemma p_step_tok st op id :
  op_in_range (length (threads st)) op ->
  tok (fst (p_step st op)) id = tok st id + addc id (effect st op) /\
  length (threads (fst (p_step st op))) = length (threads st).
Proof.
  intros R. destruct op as [|tid pid|tid pid h|tid pid err|tid|pid k v|pid k]; cbn [p_step effect]; cbn in R.
  - (* PNew *) cbn [fst]. split; [|reflexivity]. unfold tok. rewrite reg_app.
    change (usr (mkps (procs st ++ [mkproc false 0 [] [] None 0]) (threads st) (hlog st)) id) with (usr st id).
    change (lg (mkps (procs st ++ [mkproc false 0 [] [] None 0]) (threads st) (hlog st)) id) with (lg st id).
    change (addc id []) with 0.
    change (list_sum (map (fun p => cnt id (p_hooks p)) [mkproc false 0 [] [] None 0])) with 0. lia.
  - (* PFork *)
    unfold addc. cbn [filter length]. rewrite Nat.add_0_r.
    destruct (idle st tid) eqn:I; cbn [negb]; [|auto].
    set (p := get_proc st pid).
    set (p' := mkproc (p_term p) (p_err p) (p_hooks p) (p_data p) (p_parent p) (S (p_wait p))).
    set (st1 := mkps (set_nth pid p' (procs st) ++ [mkproc false 0 [HWaitDone pid] [] (Some pid) 0]) (threads st) (hlog st)).
    assert (T1 : tok st1 id = tok st id).
    { unfold tok. change (usr st1 id) with (usr st id). change (lg st1 id) with (lg st id).
      change st1 with (mkps (procs (upd_proc st pid p') ++ [mkproc false 0 [HWaitDone pid] [] (Some pid) 0]) (threads (upd_proc st pid p')) (hlog (upd_proc st pid p'))).
      rewrite reg_app. rewrite (reg_upd_proc_same st pid p' id eq_refl). cbn. lia. }
    destruct (p_term (get_proc st1 pid)) eqn:T.
    + destruct (flip st1 (length (procs st)) (p_err (get_proc st1 pid))) as [st2 taken] eqn:FL.
      pose proof (flip_tok st1 (length (procs st)) (p_err (get_proc st1 pid)) id) as [Rg [Th Hl]].
      rewrite FL in Rg, Th, Hl. cbn [fst snd] in Rg, Th, Hl. cbn [fst].
      assert (L2 : tid < length (threads st2)) by (rewrite Th; exact R).
      assert (I2 : idle st2 tid = true) by (unfold idle, get_thread in *; rewrite Th; exact I).
      destruct (push_run_tok st2 tid (rev taken, p_err (get_proc st1 pid)) id (fuel_of st2) L2 I2) as [E1 E2].
      rewrite E1, E2, Th. split; [|reflexivity]. cbn [fst]. rewrite cnt_rev.
      unfold tok in *. assert (usr st2 id = usr st1 id) by (unfold usr; rewrite Th; reflexivity).
      assert (lg st2 id = lg st1 id) by (unfold lg; rewrite Hl; reflexivity). lia.
    + cbn [fst]. split; [|reflexivity]. rewrite <- T1.
      set (p1 := get_proc st1 pid).
      unfold tok.
      change (usr (upd_proc st1 pid (mkproc false (p_err p1) (p_hooks p1 ++ [HChild (length (procs st))]) (p_data p1) (p_parent p1) (p_wait p1))) id) with (usr st1 id).
      change (lg (upd_proc st1 pid (mkproc false (p_err p1) (p_hooks p1 ++ [HChild (length (procs st))]) (p_data p1) (p_parent p1) (p_wait p1))) id) with (lg st1 id).
      destruct (Nat.lt_ge_cases pid (length (procs st1))) as [Hp|Hp].
      * pose proof (reg_upd_proc st1 pid (mkproc false (p_err p1) (p_hooks p1 ++ [HChild (length (procs st))]) (p_data p1) (p_parent p1) (p_wait p1)) id Hp) as X.
        cbn [p_hooks] in X. rewrite cnt_app in X. change (cnt id [HChild (length (procs st))]) with 0 in X. fold p1 in X. lia.
      * unfold upd_proc. cbn [procs]. rewrite set_nth_oob by exact Hp. reflexivity.
  - (* PAddHook *)
    destruct (idle st tid) eqn:I; cbn [negb andb]; [|unfold addc; cbn; rewrite Nat.add_0_r; auto].
    destruct (p_term (get_proc st pid)) eqn:T; cbn [orb fst].
    + destruct (push_run_tok st tid ([HUser h], p_err (get_proc st pid)) id (fuel_of st) R I) as [E1 E2].
      rewrite E1, E2. split; [|reflexivity]. cbn [fst]. unfold cnt, addc. cbn. destruct (Nat.eqb h id); reflexivity.
    + destruct (existsb (hook_eqb (HUser h)) (p_hooks (get_proc st pid))) eqn:D; cbn [negb fst].
      * unfold addc. cbn. rewrite Nat.add_0_r. auto.
      * split; [|reflexivity]. set (p := get_proc st pid).
        unfold tok.
        change (usr (upd_proc st pid (mkproc false (p_err p) (p_hooks p ++ [HUser h]) (p_data p) (p_parent p) (p_wait p))) id) with (usr st id).
        change (lg (upd_proc st pid (mkproc false (p_err p) (p_hooks p ++ [HUser h]) (p_data p) (p_parent p) (p_wait p))) id) with (lg st id).
        assert (Hp : pid < length (procs st)).
        { destruct (Nat.lt_ge_cases pid (length (procs st))) as [Hp|Hp]; auto.
          unfold get_proc in T. rewrite nth_overflow in T by exact Hp. discriminate. }
        pose proof (reg_upd_proc st pid (mkproc false (p_err p) (p_hooks p ++ [HUser h]) (p_data p) (p_parent p) (p_wait p)) id Hp) as X.
        cbn [p_hooks] in X. rewrite cnt_app in X. fold p in X.
        assert (C : cnt id [HUser h] = addc id [(h, pid)]) by (unfold cnt, addc; cbn; destruct (Nat.eqb h id); reflexivity).
        lia.
  - (* PExit *)
    unfold addc. cbn [filter length]. rewrite Nat.add_0_r.
    destruct (idle st tid) eqn:I; cbn [negb]; [|auto].
    destruct (flip st pid err) as [st1 taken] eqn:FL.
    pose proof (flip_tok st pid err id) as [Rg [Th Hl]]. rewrite FL in Rg, Th, Hl. cbn [fst snd] in Rg, Th, Hl. cbn [fst].
    assert (L2 : tid < length (threads st1)) by (rewrite Th; exact R).
    assert (I2 : idle st1 tid = true) by (unfold idle, get_thread in *; rewrite Th; exact I).
    destruct (push_run_tok st1 tid (rev taken, err) id (fuel_of st1) L2 I2) as [E1 E2].
    rewrite E1, E2, Th. split; [|reflexivity]. cbn [fst]. rewrite cnt_rev.
    unfold tok in *. assert (usr st1 id = usr st id) by (unfold usr; rewrite Th; reflexivity).
    assert (lg st1 id = lg st id) by (unfold lg; rewrite Hl; reflexivity). lia.
  - (* PStep *)
    unfold addc. cbn [filter length]. rewrite Nat.add_0_r.
    destruct (t_frames (get_thread st tid)) as [|[[|[x|c|par|x] hs] err] rest] eqn:F; cbn [fst]; auto.
    destruct (advance_tok (fuel_of (upd_thread st tid (mkthread ((hs, err) :: rest)))) (upd_thread st tid (mkthread ((hs, err) :: rest))) tid id) as [E1 E2];
      [rewrite length_threads_upd; exact R|].
    rewrite E1, E2, length_threads_upd. split; [|reflexivity].
    pose proof (usr_upd_thread st tid (mkthread ((hs, err) :: rest)) id R) as U.
    unfold fcnt in U. rewrite F in U. cbn [t_frames map list_sum fold_right fst] in U.
    change (cnt id (HParked x :: hs)) with (cnt id hs) in U. unfold tok.
    change (reg (upd_thread st tid (mkthread ((hs, err) :: rest))) id) with (reg st id).
    change (lg (upd_thread st tid (mkthread ((hs, err) :: rest))) id) with (lg st id). lia.
  - (* PSet *) cbn [fst]. change (addc id []) with 0. rewrite Nat.add_0_r. split; [|reflexivity]. unfold tok.
    rewrite reg_upd_proc_same by reflexivity. reflexivity.
  - (* PRemove *) cbn [fst]. change (addc id []) with 0. rewrite Nat.add_0_r. split; [|reflexivity]. unfold tok.
    rewrite reg_upd_proc_same by reflexivity. reflexivity.
Qed.

(* ---------- histories ---------- *)
Fixpoint added (st : pstate) (ops : list pop) : list (nat * nat) :=
  match ops with
  | [] => []
  | op :: r => effect st op ++ added (fst (p_step st op)) r
  end.

Lemma addc_app id a b : addc id (a ++ b) = addc id a + addc id b.
Proof. unfold addc. rewrite filter_app, app_length. reflexivity. Qed.

Lemma run_tok_from st ops id :
  Forall (op_in_range (length (threads st))) ops ->
  tok (fold_left (fun st op => fst (p_step st op)) ops st) id = tok st id + addc id (added st ops).
Proof.
  revert st. induction ops as [|op ops IH]; intros st F; cbn [fold_left added].
  - unfold addc. cbn. lia.
  - inversion F as [|? ? R F']; subst. destruct (p_step_tok st op id R) as [E L].
    rewrite IH by (rewrite L; exact F'). rewrite E, addc_app. lia.
Qed.

Lemma length_repeat_threads n : length (threads (p_init n)) = n.
Proof. unfold p_init. cbn. apply repeat_length. Qed.

Lemma tok_init n id : tok (p_init n) id = 0.
Proof.
  assert (Z : list_sum (map (fcnt id) (repeat (mkthread []) n)) = 0).
  { unfold list_sum. induction n as [|n IHn]; [reflexivity|]. cbn [repeat map fold_right]. rewrite IHn. reflexivity. }
  unfold tok. change (usr (p_init n) id) with (list_sum (map (fcnt id) (repeat (mkthread []) n))). rewrite Z. reflexivity.
Qed.

Theorem run_tok n ops id :
  Forall (op_in_range n) ops -> tok (p_run n ops) id = addc id (added (p_init n) ops).
Proof.
  intros F. unfold p_run. rewrite run_tok_from by (rewrite length_repeat_threads; exact F).
  rewrite tok_init. reflexivity.
Qed.

Lemma addc_nodup id l : NoDup (map fst l) -> addc id l <= 1.
Proof.
  unfold addc. induction l as [|[h p] l IH]; cbn; intros N; [lia|].
  inversion N as [|? ? NI N']; subst. specialize (IH N').
  destruct (Nat.eqb h id) eqn:E; cbn; [|exact IH].
  apply Nat.eqb_eq in E. subst h.
  assert (Z : length (filter (fun e : nat * nat => Nat.eqb (fst e) id) l) = 0).
  { destruct (filter (fun e : nat * nat => Nat.eqb (fst e) id) l) as [|[h' p'] r] eqn:Fl; [reflexivity|].
    exfalso. apply NI. assert (I : In (h', p') (filter (fun e : nat * nat => Nat.eqb (fst e) id) l)) by (rewrite Fl; left; reflexivity).
    apply filter_In in I. destruct I as [I E]. cbn in E. apply Nat.eqb_eq in E. subst h'.
    apply in_map_iff. exists (id, p'). split; auto. }
  lia.
Qed.

Lemma addc_in id p l : In (id, p) l -> 1 <= addc id l.
Proof.
  unfold addc. induction l as [|[h q] l IH]; cbn; intros I; [contradiction|].
  destruct I as [E|I].
  - inversion E; subst. rewrite Nat.eqb_refl. cbn. lia.
  - specialize (IH I). destruct (Nat.eqb h id); cbn; lia.
Qed.

(* each hook is entered at most once, whatever the interleaving *)
Theorem at_most_once n ops id :
  Forall (op_in_range n) ops -> NoDup (map fst (added (p_init n) ops)) -> lg (p_run n ops) id <= 1.
Proof.
  intros F N. pose proof (run_tok n ops id F) as T. pose proof (addc_nodup id _ N). unfold tok in T. lia.
Qed.

(* ---------- who owns a hook, and with which error it runs ---------- *)
Definition op_pid (op : pop) : option nat :=
  match op with
  | PFork _ p | PAddHook _ p _ | PExit _ p _ | PSet p _ _ | PRemove p _ => Some p
  | _ => None
  end.
Definition op_ok (st : pstate) (op : pop) : Prop :=
  op_in_range (length (threads st)) op /\ match op_pid op with Some p => p < length (procs st) | None => True end.
Fixpoint ok_from (st : pstate) (ops : list pop) : Prop :=
  match ops with
  | [] => True
  | op :: r => op_ok st op /\ ok_from (fst (p_step st op)) r
  end.

Definition owned (A : list (nat * nat)) (st : pstate) (h e : nat) : Prop :=
  exists pid, In (h, pid) A /\ pid < length (procs st) /\ p_term (get_proc st pid) = true /\ p_err (get_proc st pid) = e.

Definition Own (A : list (nat * nat)) (st : pstate) : Prop :=
  (forall i h, i < length (procs st) -> In (HUser h) (p_hooks (get_proc st i)) -> In (h, i) A) /\
  (forall t hs e h, In t (threads st) -> In (hs, e) (t_frames t) -> In (HUser h) hs -> owned A st h e) /\
  (forall h e, In (h, e) (hlog st) -> owned A st h e).

Lemma owned_ext A st st' h e : ext st st' -> owned A st h e -> owned A st' h e.
Proof.
  intros [L X] [pid [I [Lp [T E]]]]. destruct (X pid Lp T) as [T' E']. exists pid. split; [exact I|]. split; [lia|]. split; [exact T'|congruence].
Qed.
Lemma owned_mono A A' st h e : (forall x, In x A -> In x A') -> owned A st h e -> owned A' st h e.
Proof. intros M [pid [I R]]. exists pid. split; auto. Qed.

Lemma in_threads_upd st tid t x : In x (threads (upd_thread st tid t)) -> x = t \/ In x (threads st).
Proof. unfold upd_thread. cbn [threads]. apply in_set_nth. Qed.

Lemma get_thread_in st tid : tid < length (threads st) -> In (get_thread st tid) (threads st).
Proof. intros H. unfold get_thread. apply nth_In, H. Qed.

(* Own through the flip of a process: its registered hooks become owned with the flip's error *)
Lemma flip_own A st pid err :
  Own A st -> pid < length (procs st) ->
  Own A (fst (flip st pid err)) /\
  (forall h, In (HUser h) (snd (flip st pid err)) -> owned A (fst (flip st pid err)) h err).
Proof.
  intros [O1 [O2 O3]] Lp. pose proof (flip_ext st pid err) as X.
  unfold flip in *. destruct (p_term (get_proc st pid)) eqn:T; cbn [fst snd] in *.
  - split; [repeat split; auto|]. intros h [].
  - set (st' := upd_proc st pid (mkproc true err [] [] (p_parent (get_proc st pid)) (p_wait (get_proc st pid)))) in *.
    assert (Len : length (procs st') = length (procs st)) by (unfold st', upd_proc; cbn; apply set_nth_length).
    split.
    + split; [|split].
      * intros i h Li I. rewrite Len in Li. destruct (Nat.eq_dec pid i) as [->|N].
        -- unfold st' in I. rewrite get_upd_same in I by exact Li. cbn in I. contradiction.
        -- unfold st' in I. rewrite get_upd_other in I by exact N. apply O1; auto.
      * intros t hs e h It Ifr Ih. apply (owned_ext A st st'); auto. apply (O2 t hs e h); auto.
      * intros h e I. apply (owned_ext A st st'); auto.
    + intros h Ih. exists pid. split; [apply O1; auto|]. rewrite Len. split; auto.
      unfold st'. rewrite get_upd_same by exact Lp. cbn. auto.
Qed.

Lemma in_rev_elim {A} (x : A) l : In x (rev l) -> In x l.
Proof. intros H. apply in_rev. exact H. Qed.

(* Own through running hooks; children (HChild c) must be in range, which Fork guarantees *)
Definition kids_ok (st : pstate) : Prop :=
  (forall t hs e c, In t (threads st) -> In (hs, e) (t_frames t) -> In (HChild c) hs -> c < length (procs st)) /\
  (forall i c, i < length (procs st) -> In (HChild c) (p_hooks (get_proc st i)) -> c < length (procs st)).

Lemma advance_own A fuel : forall st tid,
  tid < length (threads st) -> Own A st -> kids_ok st ->
  Own A (advance fuel st tid) /\ kids_ok (advance fuel st tid).
Proof.
  induction fuel as [|fuel IH]; intros st tid L O K; cbn [advance]; [auto|].
  destruct (t_frames (get_thread st tid)) as [|[[|h hs] err] rest] eqn:F; [auto| |].
  - (* empty frame popped *)
    apply IH; [rewrite length_threads_upd; exact L| |].
    + destruct O as [O1 [O2 O3]]. split; [exact O1|split; [|exact O3]].
      intros t hs e h It Ifr Ih. apply in_threads_upd in It. destruct It as [->|It]; [|apply (O2 t hs e h); auto].
      cbn in Ifr. apply (O2 (get_thread st tid) hs e h); auto using get_thread_in. rewrite F. right. exact Ifr.
    + destruct K as [K1 K2]. split; [|exact K2].
      intros t hs e c It Ifr Ih. apply in_threads_upd in It. destruct It as [->|It]; [|apply (K1 t hs e c); auto].
      cbn in Ifr. apply (K1 (get_thread st tid) hs e c); auto using get_thread_in. rewrite F. right. exact Ifr.
  - pose proof (get_thread_in st tid L) as It0.
    destruct h as [x|c|par|x].
    + (* entered *)
      destruct O as [O1 [O2 O3]]. destruct K as [K1 K2].
      assert (OW : owned A st x err).
      { apply (O2 (get_thread st tid) (HUser x :: hs) err x); auto. rewrite F. left. reflexivity. left. reflexivity. }
      split; [split; [exact O1|split]|split; [|exact K2]].
      * intros t hs' e h It Ifr Ih. cbn [threads] in It. apply in_set_nth in It. destruct It as [->|It].
        -- cbn in Ifr. destruct Ifr as [E|Ifr].
           ++ inversion E; subst. destruct Ih as [E'|Ih]; [discriminate|].
              apply (O2 (get_thread st tid) (HUser x :: hs) e h); auto. rewrite F. left. reflexivity. right. exact Ih.
           ++ apply (O2 (get_thread st tid) hs' e h); auto. rewrite F. right. exact Ifr.
        -- apply (O2 t hs' e h); auto.
      * intros h e I. cbn [hlog] in I. apply in_app_or in I. destruct I as [I|[E|[]]]; [apply O3; exact I|].
        inversion E; subst. exact OW.
      * intros t hs' e c It Ifr Ih. cbn [threads] in It. apply in_set_nth in It. destruct It as [->|It].
        -- cbn in Ifr. destruct Ifr as [E|Ifr].
           ++ inversion E; subst. destruct Ih as [E'|Ih]; [discriminate|].
              apply (K1 (get_thread st tid) (HUser x :: hs) e c); auto. rewrite F. left. reflexivity. right. exact Ih.
           ++ apply (K1 (get_thread st tid) hs' e c); auto. rewrite F. right. exact Ifr.
        -- apply (K1 t hs' e c); auto.
    + (* HChild c *)
      assert (Lc : c < length (procs st)).
      { destruct K as [K1 _]. apply (K1 (get_thread st tid) (HChild c :: hs) err c); auto. rewrite F. left. reflexivity. left. reflexivity. }
      destruct (flip_own A st c err O Lc) as [O' TK]. pose proof (flip_ext st c err) as X.
      pose proof (flip_tok st c err 0) as [_ [Th _]].
      assert (TakenFrom : forall x, In x (snd (flip st c err)) -> In x (p_hooks (get_proc st c))).
      { unfold flip. destruct (p_term (get_proc st c)); cbn; auto. intros x []. }
      assert (Len : length (procs (fst (flip st c err))) = length (procs st)).
      { unfold flip. destruct (p_term (get_proc st c)); cbn [fst]; auto. unfold upd_proc. cbn. apply set_nth_length. }
      assert (Hooks' : forall i x, i < length (procs st) -> In x (p_hooks (get_proc (fst (flip st c err)) i)) -> In x (p_hooks (get_proc st i))).
      { intros i x Li. unfold flip. destruct (p_term (get_proc st c)); cbn [fst]; auto.
        destruct (Nat.eq_dec c i) as [->|N]; [rewrite get_upd_same by exact Li; cbn; contradiction|rewrite get_upd_other by exact N; auto]. }
      destruct (flip st c err) as [st1 taken] eqn:FL. cbn [fst snd] in *.
      apply IH; [rewrite length_threads_upd, Th; exact L| |].
      * destruct O' as [O1 [O2 O3]]. split; [exact O1|split; [|exact O3]].
        intros t hs' e h It Ifr Ih. apply in_threads_upd in It. destruct It as [->|It]; [|apply (O2 t hs' e h); auto].
        cbn in Ifr. destruct Ifr as [E|[E|Ifr]].
        -- inversion E; subst. apply TK. apply in_rev_elim in Ih. exact Ih.
        -- inversion E; subst. apply (owned_ext A st st1); auto. destruct O as [_ [O2' _]].
           apply (O2' (get_thread st tid) (HChild c :: hs') e h); auto. rewrite F. left. reflexivity. right. exact Ih.
        -- apply (owned_ext A st st1); auto. destruct O as [_ [O2' _]].
           apply (O2' (get_thread st tid) hs' e h); auto. rewrite F. right. exact Ifr.
      * destruct K as [K1 K2]. split.
        -- intros t hs' e c' It Ifr Ih. cbn [procs upd_thread]. rewrite Len. apply in_threads_upd in It. destruct It as [->|It].
           ++ cbn in Ifr. destruct Ifr as [E|[E|Ifr]].
              ** inversion E; subst. apply in_rev_elim in Ih. apply (K2 c c'); auto.
              ** inversion E; subst. apply (K1 (get_thread st tid) (HChild c :: hs') e c'); auto. rewrite F. left. reflexivity. right. exact Ih.
              ** apply (K1 (get_thread st tid) hs' e c'); auto. rewrite F. right. exact Ifr.
           ++ rewrite Th in It. apply (K1 t hs' e c'); auto.
        -- intros i c' Li Ih. cbn [procs upd_thread] in *. rewrite Len in *. apply (K2 i c'); auto.
    + (* HWaitDone *)
      set (pp := get_proc st par).
      set (p' := mkproc (p_term pp) (p_err pp) (p_hooks pp) (p_data pp) (p_parent pp) (pred (p_wait pp))).
      assert (X : ext st (upd_proc st par p')) by (apply ext_upd; cbn; auto).
      assert (Len : length (procs (upd_proc st par p')) = length (procs st)) by (unfold upd_proc; cbn; apply set_nth_length).
      assert (Hooks' : forall i, i < length (procs st) -> p_hooks (get_proc (upd_proc st par p') i) = p_hooks (get_proc st i)).
      { intros i Li. destruct (Nat.eq_dec par i) as [->|N]; [rewrite get_upd_same by exact Li; reflexivity|rewrite get_upd_other by exact N; reflexivity]. }
      apply IH; [rewrite length_threads_upd; exact L| |].
      * destruct O as [O1 [O2 O3]]. split; [|split].
        -- intros i h Li I. cbn [procs upd_thread] in Li. rewrite Len in Li.
           change (get_proc (upd_thread (upd_proc st par p') tid (mkthread ((hs, err) :: rest))) i) with (get_proc (upd_proc st par p') i) in I.
           rewrite Hooks' in I by exact Li. apply O1; auto.
        -- intros t hs' e h It Ifr Ih. apply (owned_ext A st); [exact X|].
           apply in_threads_upd in It. destruct It as [->|It]; [|apply (O2 t hs' e h); auto].
           cbn in Ifr. destruct Ifr as [E|Ifr].
           ++ inversion E; subst. apply (O2 (get_thread st tid) (HWaitDone par :: hs') e h); auto. rewrite F. left. reflexivity. right. exact Ih.
           ++ apply (O2 (get_thread st tid) hs' e h); auto. rewrite F. right. exact Ifr.
        -- intros h e I. apply (owned_ext A st); [exact X|]. apply O3. exact I.
      * destruct K as [K1 K2]. split.
        -- intros t hs' e c It Ifr Ih. cbn [procs upd_thread]. rewrite Len. apply in_threads_upd in It. destruct It as [->|It]; [|apply (K1 t hs' e c); auto].
           cbn in Ifr. destruct Ifr as [E|Ifr].
           ++ inversion E; subst. apply (K1 (get_thread st tid) (HWaitDone par :: hs') e c); auto. rewrite F. left. reflexivity. right. exact Ih.
           ++ apply (K1 (get_thread st tid) hs' e c); auto. rewrite F. right. exact Ifr.
        -- intros i c Li Ih. cbn [procs upd_thread] in *. rewrite Len in *.
           change (get_proc (upd_thread (upd_proc st par p') tid (mkthread ((hs, err) :: rest))) i) with (get_proc (upd_proc st par p') i) in Ih.
           rewrite Hooks' in Ih by exact Li. apply (K2 i c); auto.
    + (* HParked *) auto.
Qed.

Lemma Own_mono A A' st : (forall x, In x A -> In x A') -> Own A st -> Own A' st.
Proof.
  intros M [O1 [O2 O3]]. split; [|split].
  - intros i h Li I. apply M, O1; auto.
  - intros t hs e h It Ifr Ih. eapply owned_mono; [exact M|]. apply (O2 t hs e h); auto.
  - intros h e I. eapply owned_mono; [exact M|]. apply O3, I.
Qed.

Lemma push_own A st tid fr e :
  Own A st -> kids_ok st -> idle st tid = true ->
  (forall h, In (HUser h) fr -> owned A st h e) -> (forall c, In (HChild c) fr -> c < length (procs st)) ->
  Own A (upd_thread st tid (mkthread [(fr, e)])) /\ kids_ok (upd_thread st tid (mkthread [(fr, e)])).
Proof.
  intros [O1 [O2 O3]] [K1 K2] I HU HC. split; [split; [exact O1|split; [|exact O3]]|split; [|exact K2]].
  - intros t hs e' h It Ifr Ih. apply in_threads_upd in It. destruct It as [->|It]; [|apply (O2 t hs e' h); auto].
    cbn in Ifr. destruct Ifr as [E|[]]. inversion E; subst. apply HU, Ih.
  - intros t hs e' c It Ifr Ih. apply in_threads_upd in It. destruct It as [->|It]; [|apply (K1 t hs e' c); auto].
    cbn in Ifr. destruct Ifr as [E|[]]. inversion E; subst. apply HC, Ih.
Qed.

Lemma Own_ext_procs A st st' :
  ext st st' -> threads st' = threads st -> hlog st' = hlog st ->
  (forall i h, i < length (procs st') -> In (HUser h) (p_hooks (get_proc st' i)) -> i < length (procs st) /\ In (HUser h) (p_hooks (get_proc st i))) ->
  (forall i c, i < length (procs st') -> In (HChild c) (p_hooks (get_proc st' i)) -> c < length (procs st')) ->
  Own A st -> kids_ok st -> Own A st' /\ kids_ok st'.
Proof.
  intros X Th Hl HkU HkC [O1 [O2 O3]] [K1 K2]. destruct X as [Ln X']. split; [split; [|split]|split].
  - intros i h Li I. destruct (HkU i h Li I) as [Li' I']. apply O1; auto.
  - intros t hs e h It Ifr Ih. rewrite Th in It. apply (owned_ext A st st'); [split; auto|]. apply (O2 t hs e h); auto.
  - intros h e I. rewrite Hl in I. apply (owned_ext A st st'); [split; auto|]. apply O3, I.
  - intros t hs e c It Ifr Ih. rewrite Th in It. pose proof (K1 t hs e c It Ifr Ih). lia.
  - exact HkC.
Qed.

Lemma upd_same_hooks A st pid p' :
  p_hooks p' = p_hooks (get_proc st pid) ->
  (p_term (get_proc st pid) = true -> p_term p' = true /\ p_err p' = p_err (get_proc st pid)) ->
  Own A st -> kids_ok st -> Own A (upd_proc st pid p') /\ kids_ok (upd_proc st pid p').
Proof.
  intros Hh Ht O K.
  assert (Len : length (procs (upd_proc st pid p')) = length (procs st)) by (unfold upd_proc; cbn; apply set_nth_length).
  assert (G : forall i, i < length (procs st) -> p_hooks (get_proc (upd_proc st pid p') i) = p_hooks (get_proc st i)).
  { intros i Li. destruct (Nat.eq_dec pid i) as [->|N]; [rewrite get_upd_same by exact Li; exact Hh|rewrite get_upd_other by exact N; reflexivity]. }
  apply (Own_ext_procs A st); auto.
  - apply ext_upd. exact Ht.
  - intros i h Li I. rewrite Len in Li. rewrite G in I by exact Li. auto.
  - intros i c Li I. rewrite Len in *. rewrite G in I by exact Li. destruct K as [_ K2]. apply (K2 i c); auto.
Qed.

Lemma p_step_own A st op :
  op_ok st op -> Own A st -> kids_ok st ->
  Own (A ++ effect st op) (fst (p_step st op)) /\ kids_ok (fst (p_step st op)).
Proof.
  intros [R Rp] O K. destruct op as [|tid pid|tid pid h|tid pid err|tid|pid k v|pid k]; cbn [p_step effect]; cbn in R, Rp; rewrite ?app_nil_r.
  - (* PNew *)
    cbn [fst]. apply (Own_ext_procs A st); auto; [apply ext_app| |].
    + intros i h Li I. cbn [procs] in Li. rewrite app_length in Li. cbn in Li.
      destruct (Nat.lt_ge_cases i (length (procs st))) as [H|H].
      * unfold get_proc in I. cbn [procs] in I. rewrite app_nth1 in I by exact H. auto.
      * assert (i = length (procs st)) by lia. subst i. unfold get_proc in I. cbn [procs] in I.
        rewrite app_nth2, Nat.sub_diag in I by lia. cbn in I. contradiction.
    + intros i c Li I. cbn [procs] in *. rewrite app_length in *. cbn in Li.
      destruct (Nat.lt_ge_cases i (length (procs st))) as [H|H].
      * unfold get_proc in I. cbn [procs] in I. rewrite app_nth1 in I by exact H. destruct K as [_ K2]. pose proof (K2 i c H I). cbn. lia.
      * assert (i = length (procs st)) by lia. subst i. unfold get_proc in I. cbn [procs] in I.
        rewrite app_nth2, Nat.sub_diag in I by lia. cbn in I. contradiction.
  - (* PFork *)
    destruct (idle st tid) eqn:I; cbn [negb]; [|auto].
    set (p := get_proc st pid).
    set (p' := mkproc (p_term p) (p_err p) (p_hooks p) (p_data p) (p_parent p) (S (p_wait p))).
    set (st1 := mkps (set_nth pid p' (procs st) ++ [mkproc false 0 [HWaitDone pid] [] (Some pid) 0]) (threads st) (hlog st)).
    assert (Len1 : length (procs st1) = S (length (procs st))) by (cbn; rewrite app_length, set_nth_length; cbn; lia).
    assert (G1 : forall i, i < length (procs st) -> p_hooks (get_proc st1 i) = p_hooks (get_proc st i) /\
                                                  p_term (get_proc st1 i) = p_term (get_proc st i) /\ p_err (get_proc st1 i) = p_err (get_proc st i)).
    { intros i Li. unfold get_proc, st1. cbn [procs]. rewrite app_nth1 by (rewrite set_nth_length; exact Li).
      destruct (Nat.eq_dec pid i) as [->|N]; [rewrite nth_set_nth_same by exact Li; cbn; auto|rewrite nth_set_nth_other by exact N; auto]. }
    assert (Gc : get_proc st1 (length (procs st)) = mkproc false 0 [HWaitDone pid] [] (Some pid) 0).
    { unfold get_proc, st1. cbn [procs]. rewrite app_nth2 by (rewrite set_nth_length; lia). rewrite set_nth_length, Nat.sub_diag. reflexivity. }
    assert (X1 : ext st st1).
    { split; [lia|]. intros q Lq T. destruct (G1 q Lq) as [_ [T1 E1]]. split; congruence. }
    assert (OK1 : Own A st1 /\ kids_ok st1).
    { apply (Own_ext_procs A st); auto.
      - intros i h Li Ix. rewrite Len1 in Li. destruct (Nat.lt_ge_cases i (length (procs st))) as [H|H].
        + destruct (G1 i H) as [Hk _]. rewrite Hk in Ix. auto.
        + assert (i = length (procs st)) by lia. subst i. rewrite Gc in Ix. cbn in Ix. destruct Ix as [E|[]]. discriminate.
      - intros i c Li Ix. rewrite Len1 in *. destruct (Nat.lt_ge_cases i (length (procs st))) as [H|H].
        + destruct (G1 i H) as [Hk _]. rewrite Hk in Ix. destruct K as [_ K2]. pose proof (K2 i c H Ix). lia.
        + assert (i = length (procs st)) by lia. subst i. rewrite Gc in Ix. cbn in Ix. destruct Ix as [E|[]]. discriminate. }
    destruct OK1 as [O1 K1].
    destruct (p_term (get_proc st1 pid)) eqn:T.
    + (* the parent has terminated: the child is flipped at once with the parent's error *)
      assert (Lc : length (procs st) < length (procs st1)) by lia.
      destruct (flip_own A st1 (length (procs st)) (p_err (get_proc st1 pid)) O1 Lc) as [O2 TK].
      pose proof (flip_tok st1 (length (procs st)) (p_err (get_proc st1 pid)) 0) as [_ [Th _]].
      assert (Tk : snd (flip st1 (length (procs st)) (p_err (get_proc st1 pid))) = [HWaitDone pid]).
      { unfold flip. rewrite Gc. cbn. reflexivity. }
      assert (K2 : kids_ok (fst (flip st1 (length (procs st)) (p_err (get_proc st1 pid))))).
      { unfold flip. rewrite Gc. cbn [p_term fst]. destruct K1 as [K1a K1b]. split.
        - intros t hs e c It Ifr Ih. cbn [procs upd_proc threads] in *. rewrite set_nth_length. apply (K1a t hs e c); auto.
        - intros i c Li Ih. cbn [procs upd_proc] in Li. rewrite set_nth_length in Li. cbn [procs upd_proc]. rewrite set_nth_length.
          destruct (Nat.eq_dec (length (procs st)) i) as [<-|N].
          + rewrite get_upd_same in Ih by exact Lc. cbn in Ih. contradiction.
          + rewrite get_upd_other in Ih by exact N. apply (K1b i c); auto. }
      destruct (flip st1 (length (procs st)) (p_err (get_proc st1 pid))) as [st2 taken] eqn:FL. cbn [fst snd] in *. subst taken.
      assert (I2 : idle st2 tid = true) by (unfold idle, get_thread in *; rewrite Th; exact I).
      destruct (push_own A st2 tid (rev [HWaitDone pid]) (p_err (get_proc st1 pid)) O2 K2 I2) as [O3 K3].
      { intros h Ih. cbn in Ih. destruct Ih as [E|[]]. discriminate. }
      { intros c Ih. cbn in Ih. destruct Ih as [E|[]]. discriminate. }
      apply advance_own; auto. rewrite length_threads_upd, Th. exact R.
    + cbn [fst]. set (p1 := get_proc st1 pid).
      assert (Lp1 : pid < length (procs st1)) by lia.
      assert (Len2 : length (procs (upd_proc st1 pid (mkproc false (p_err p1) (p_hooks p1 ++ [HChild (length (procs st))]) (p_data p1) (p_parent p1) (p_wait p1)))) = length (procs st1))
        by (unfold upd_proc; cbn [procs]; apply set_nth_length).
      apply (Own_ext_procs A st1); auto.
      * apply ext_upd. intros T'. fold p1 in T'. unfold p1 in T'. congruence.
      * intros i h Li Ix. rewrite Len2 in Li. split; [exact Li|].
        destruct (Nat.eq_dec pid i) as [<-|N]; [|rewrite get_upd_other in Ix by exact N; exact Ix].
        rewrite get_upd_same in Ix by exact Li. cbn in Ix. apply in_app_or in Ix. destruct Ix as [Ix|[E|[]]]; [exact Ix|discriminate].
      * intros i c Li Ix. rewrite Len2 in *. destruct (Nat.eq_dec pid i) as [<-|N].
        -- rewrite get_upd_same in Ix by exact Li. cbn in Ix. apply in_app_or in Ix. destruct Ix as [Ix|[E|[]]].
           ++ destruct K1 as [_ K1b]. apply (K1b pid c); auto.
           ++ inversion E; subst. lia.
        -- rewrite get_upd_other in Ix by exact N. destruct K1 as [_ K1b]. apply (K1b i c); auto.
  - (* PAddHook *)
    destruct (idle st tid) eqn:I; cbn [negb andb]; [|rewrite app_nil_r; auto].
    destruct (p_term (get_proc st pid)) eqn:T; cbn [orb fst].
    + assert (O' : Own (A ++ [(h, pid)]) st) by (apply (Own_mono A); auto; intros x Ix; apply in_or_app; auto).
      destruct (push_own (A ++ [(h, pid)]) st tid [HUser h] (p_err (get_proc st pid)) O' K I) as [O2 K2].
      { intros h' Ih. destruct Ih as [E|[]]. inversion E; subst. exists pid. split; [apply in_or_app; right; left; reflexivity|]. auto. }
      { intros c Ih. destruct Ih as [E|[]]. discriminate. }
      apply advance_own; auto. rewrite length_threads_upd. exact R.
    + destruct (existsb (hook_eqb (HUser h)) (p_hooks (get_proc st pid))) eqn:D; cbn [negb fst]; [rewrite app_nil_r; auto|].
      set (p := get_proc st pid).
      assert (Len2 : length (procs (upd_proc st pid (mkproc false (p_err p) (p_hooks p ++ [HUser h]) (p_data p) (p_parent p) (p_wait p)))) = length (procs st))
        by (unfold upd_proc; cbn [procs]; apply set_nth_length).
      assert (O' : Own (A ++ [(h, pid)]) st) by (apply (Own_mono A); auto; intros x Ix; apply in_or_app; auto).
      destruct O' as [O1 [O2 O3]]. destruct K as [K1 K2].
      assert (X : ext st (upd_proc st pid (mkproc false (p_err p) (p_hooks p ++ [HUser h]) (p_data p) (p_parent p) (p_wait p)))).
      { apply ext_upd. intros T'. congruence. }
      split; [split; [|split]|split].
      * intros i h' Li Ix. rewrite Len2 in Li. destruct (Nat.eq_dec pid i) as [<-|N]; [|rewrite get_upd_other in Ix by exact N; apply O1; auto].
        rewrite get_upd_same in Ix by exact Li. cbn in Ix. apply in_app_or in Ix. destruct Ix as [Ix|[E|[]]]; [apply O1; auto|].
        inversion E; subst. apply in_or_app. right. left. reflexivity.
      * intros t hs e h' It Ifr Ih. eapply owned_ext; [exact X|]. apply (O2 t hs e h'); auto.
      * intros h' e Il. eapply owned_ext; [exact X|]. apply O3. exact Il.
      * intros t hs e c It Ifr Ih. rewrite Len2. apply (K1 t hs e c); auto.
      * intros i c Li Ix. rewrite Len2 in *. destruct (Nat.eq_dec pid i) as [<-|N]; [|rewrite get_upd_other in Ix by exact N; apply (K2 i c); auto].
        rewrite get_upd_same in Ix by exact Li. cbn in Ix. apply in_app_or in Ix. destruct Ix as [Ix|[E|[]]]; [apply (K2 pid c); auto|discriminate].
  - (* PExit *)
    destruct (idle st tid) eqn:I; cbn [negb]; [|auto].
    destruct (flip_own A st pid err O Rp) as [O2 TK].
    pose proof (flip_tok st pid err 0) as [_ [Th _]].
    assert (Kf : kids_ok (fst (flip st pid err)) /\ forall c, In (HChild c) (snd (flip st pid err)) -> c < length (procs (fst (flip st pid err)))).
    { destruct K as [K1 K2]. unfold flip. destruct (p_term (get_proc st pid)); cbn [fst snd]; [split; [split; auto|intros c []]|].
      split; [split|].
      - intros t hs e c It Ifr Ih. cbn [procs upd_proc threads] in *. rewrite set_nth_length. apply (K1 t hs e c); auto.
      - intros i c Li Ih. cbn [procs upd_proc] in Li. rewrite set_nth_length in Li. cbn [procs upd_proc]. rewrite set_nth_length.
        destruct (Nat.eq_dec pid i) as [<-|N]; [rewrite get_upd_same in Ih by exact Li; cbn in Ih; contradiction|].
        rewrite get_upd_other in Ih by exact N. apply (K2 i c); auto.
      - intros c Ih. cbn [procs upd_proc]. rewrite set_nth_length. apply (K2 pid c); auto. }
    destruct Kf as [K2 KC].
    destruct (flip st pid err) as [st1 taken] eqn:FL. cbn [fst snd] in *.
    assert (I2 : idle st1 tid = true) by (unfold idle, get_thread in *; rewrite Th; exact I).
    destruct (push_own A st1 tid (rev taken) err O2 K2 I2) as [O3 K3].
    { intros h Ih. apply in_rev_elim in Ih. apply TK, Ih. }
    { intros c Ih. apply in_rev_elim in Ih. apply KC, Ih. }
    apply advance_own; auto. rewrite length_threads_upd, Th. exact R.
  - (* PStep *)
    destruct (t_frames (get_thread st tid)) as [|[[|[x|c|par|x] hs] err] rest] eqn:F; cbn [fst]; auto.
    pose proof (get_thread_in st tid R) as It0.
    apply advance_own; [rewrite length_threads_upd; exact R| |].
    + destruct O as [O1 [O2 O3]]. split; [exact O1|split; [|exact O3]].
      intros t hs' e h It Ifr Ih. apply in_threads_upd in It. destruct It as [->|It]; [|apply (O2 t hs' e h); auto].
      cbn in Ifr. destruct Ifr as [E|Ifr].
      * inversion E; subst. apply (O2 (get_thread st tid) (HParked x :: hs') e h); auto. rewrite F. left. reflexivity. right. exact Ih.
      * apply (O2 (get_thread st tid) hs' e h); auto. rewrite F. right. exact Ifr.
    + destruct K as [K1 K2]. split; [|exact K2].
      intros t hs' e c It Ifr Ih. apply in_threads_upd in It. destruct It as [->|It]; [|apply (K1 t hs' e c); auto].
      cbn in Ifr. destruct Ifr as [E|Ifr].
      * inversion E; subst. apply (K1 (get_thread st tid) (HParked x :: hs') e c); auto. rewrite F. left. reflexivity. right. exact Ih.
      * apply (K1 (get_thread st tid) hs' e c); auto. rewrite F. right. exact Ifr.
  - (* PSet *) cbn [fst]. apply upd_same_hooks; auto.
  - (* PRemove *) cbn [fst]. apply upd_same_hooks; auto.
Qed.

Lemma run_own_from A st ops :
  ok_from st ops -> Own A st -> kids_ok st ->
  Own (A ++ added st ops) (fold_left (fun st op => fst (p_step st op)) ops st) /\
  kids_ok (fold_left (fun st op => fst (p_step st op)) ops st).
Proof.
  revert A st. induction ops as [|op ops IH]; intros A st OK O K; cbn [fold_left added].
  - rewrite app_nil_r. auto.
  - destruct OK as [OKop OKr]. destruct (p_step_own A st op OKop O K) as [O' K'].
    rewrite app_assoc. apply IH; auto.
Qed.

Theorem run_own n ops :
  ok_from (p_init n) ops -> Own (added (p_init n) ops) (p_run n ops) /\ kids_ok (p_run n ops).
Proof.
  intros OK. unfold p_run. apply (run_own_from [] (p_init n) ops OK).
  - split; [|split]; cbn.
    + intros i h Li. lia.
    + intros t hs e h It Ifr. apply repeat_spec in It. subst t. contradiction.
    + intros h e [].
  - split; cbn.
    + intros t hs e c It Ifr. apply repeat_spec in It. subst t. contradiction.
    + intros i c Li. lia.
Qed.

Lemma ok_from_range st ops : ok_from st ops -> Forall (op_in_range (length (threads st))) ops.
Proof.
  revert st. induction ops as [|op ops IH]; intros st OK; constructor.
  - destruct OK as [[R _] _]. exact R.
  - destruct OK as [[R _] OKr]. specialize (IH _ OKr).
    destruct (p_step_tok st op 0 R) as [_ L]. rewrite L in IH. exact IH.
Qed.

Lemma usr_zero st id : (forall t, In t (threads st) -> t_frames t = []) -> usr st id = 0.
Proof.
  unfold usr. intros H. induction (threads st) as [|t ts IH]; [reflexivity|].
  cbn [map list_sum fold_right]. unfold list_sum in IH. rewrite IH by (intros x Ix; apply H; right; exact Ix).
  unfold fcnt. rewrite (H t) by (left; reflexivity). reflexivity.
Qed.

Lemma reg_zero st id : (forall i, i < length (procs st) -> ~ In (HUser id) (p_hooks (get_proc st i))) -> reg st id = 0.
Proof.
  unfold reg, get_proc. generalize (procs st). intros ps H. induction ps as [|p ps IH]; [reflexivity|].
  cbn [map list_sum fold_right]. unfold list_sum in IH. rewrite IH.
  - assert (Z : cnt id (p_hooks p) = 0).
    { unfold cnt. specialize (H 0 (Nat.lt_0_succ _)). cbn in H.
      induction (p_hooks p) as [|h hs IHh]; [reflexivity|]. cbn. destruct h as [x| | |]; cbn; try (apply IHh; intros I; apply H; right; exact I).
      destruct (Nat.eqb x id) eqn:E; [apply Nat.eqb_eq in E; subst; exfalso; apply H; left; reflexivity|].
      apply IHh. intros I. apply H. right. exact I. }
    rewrite Z. reflexivity.
  - intros i Li. apply (H (S i)). cbn. lia.
Qed.

Lemma lg_in st id : 1 <= lg st id -> exists e, In (id, e) (hlog st).
Proof.
  unfold lg. intros H. destruct (filter (fun e => Nat.eqb (fst e) id) (hlog st)) as [|[h e] r] eqn:F; [cbn in H; lia|].
  assert (I : In (h, e) (filter (fun e => Nat.eqb (fst e) id) (hlog st))) by (rewrite F; left; reflexivity).
  apply filter_In in I. destruct I as [I E]. cbn in E. apply Nat.eqb_eq in E. subst h. exists e. exact I.
Qed.

Lemma nodup_fst_inj (A : list (nat * nat)) h p q : NoDup (map fst A) -> In (h, p) A -> In (h, q) A -> p = q.
Proof.
  induction A as [|[h' p'] A IH]; cbn; intros N I1 I2; [contradiction|].
  inversion N as [|? ? NI N']; subst.
  destruct I1 as [E1|I1]; destruct I2 as [E2|I2].
  - congruence.
  - inversion E1; subst. exfalso. apply NI. apply in_map_iff. exists (h, q). auto.
  - inversion E2; subst. exfalso. apply NI. apply in_map_iff. exists (h, p). auto.
  - apply IH; auto.
Qed.

(* Every exit hook runs exactly once, with its process's exit error, and not before the process terminates:
   for every interleaving of Fork / AddExitHook / Exit / hook returns by any number of threads, with distinct hooks,
   (1) no hook is ever entered twice; (2) a hook is entered only with the exit error of the process it was added to,
   which has terminated; (3) once no thread has anything left to run, a hook has been entered exactly once if its
   process has terminated, and not at all (it is still registered, once) if the process is still running. *)
Theorem exactly_once n ops :
  ok_from (p_init n) ops -> NoDup (map fst (added (p_init n) ops)) ->
  let st := p_run n ops in
  (forall h, lg st h <= 1) /\
  (forall h e pid, In (h, e) (hlog st) -> In (h, pid) (added (p_init n) ops) ->
     p_term (get_proc st pid) = true /\ e = p_err (get_proc st pid)) /\
  ((forall t, In t (threads st) -> t_frames t = []) ->
   forall h pid, In (h, pid) (added (p_init n) ops) ->
     if p_term (get_proc st pid) then lg st h = 1 else lg st h = 0 /\ reg st h = 1).
Proof.
  intros OK N st.
  pose proof (ok_from_range _ _ OK) as F. rewrite length_repeat_threads in F.
  destruct (run_own n ops OK) as [[O1 [O2 O3]] _]. fold st in O1, O2, O3.
  assert (Logged : forall h e pid, In (h, e) (hlog st) -> In (h, pid) (added (p_init n) ops) ->
                   p_term (get_proc st pid) = true /\ e = p_err (get_proc st pid)).
  { intros h e pid Il Ia. destruct (O3 h e Il) as [q [Iq [_ [T E]]]].
    assert (q = pid) by (eapply nodup_fst_inj; eauto). subst q. auto. }
  split; [intros h; apply at_most_once; auto|]. split; [exact Logged|].
  intros Done h pid Ia.
  pose proof (run_tok n ops h F) as T. fold st in T. unfold tok in T. rewrite (usr_zero st h Done) in T.
  pose proof (addc_nodup h _ N) as U. pose proof (addc_in h pid _ Ia) as Lo.
  destruct (p_term (get_proc st pid)) eqn:Tm.
  - (* terminated: registered nowhere *)
    assert (Z : reg st h = 0).
    { apply reg_zero. intros i Li I. pose proof (O1 i h Li I) as Ii.
      assert (i = pid) by (eapply nodup_fst_inj; eauto). subst i.
      pose proof (p_run_nohooks n ops) as NH. fold st in NH.
      rewrite (nohooks_get st pid NH Tm) in I. contradiction. }
    lia.
  - (* still running: never entered *)
    assert (Z : lg st h = 0).
    { destruct (lg st h) eqn:Lg; [reflexivity|]. exfalso.
      destruct (lg_in st h) as [e Ie]; [lia|]. destruct (Logged h e pid Ie Ia) as [T' _]. congruence. }
    lia.
Qed.

(* ---------- exit cascades to the children; Join waits for them ---------- *)
Definition is_child (c : nat) (h : hook) : bool := match h with HChild x => Nat.eqb x c | _ => false end.
Definition is_wait (p : nat) (h : hook) : bool := match h with HWaitDone x => Nat.eqb x p | _ => false end.

Definition in_frames (st : pstate) (h : hook) : Prop :=
  exists j fr, j < length (threads st) /\ In fr (t_frames (get_thread st j)) /\ In h (fst fr).

(* a forked child that is still running is reachable from its parent: the parent holds it as a hook, or a thread
   that is running the parent's hooks still has it to do *)
Definition Casc (st : pstate) : Prop :=
  forall c p, c < length (procs st) -> p_parent (get_proc st c) = Some p ->
    p < length (procs st) /\
    (p_term (get_proc st c) = true \/ In (HChild c) (p_hooks (get_proc st p)) \/ in_frames st (HChild c)).

Lemma get_thread_upd_other st tid t j : j <> tid -> get_thread (upd_thread st tid t) j = get_thread st j.
Proof. intros N. unfold get_thread, upd_thread. cbn [threads]. apply nth_set_nth_other. congruence. Qed.

Lemma in_frames_upd st tid t h :
  tid < length (threads st) ->
  (forall fr, In fr (t_frames (get_thread st tid)) -> In h (fst fr) -> exists fr', In fr' (t_frames t) /\ In h (fst fr')) ->
  in_frames st h -> in_frames (upd_thread st tid t) h.
Proof.
  intros L Keep [j [fr [Lj [Ifr Ih]]]]. destruct (Nat.eq_dec j tid) as [->|N].
  - destruct (Keep fr Ifr Ih) as [fr' [I1 I2]]. exists tid, fr'. rewrite length_threads_upd, get_thread_upd_same by exact L. auto.
  - exists j, fr. rewrite length_threads_upd, get_thread_upd_other by exact N. auto.
Qed.

Lemma in_frames_new st tid t h fr :
  tid < length (threads st) -> In fr (t_frames t) -> In h (fst fr) -> in_frames (upd_thread st tid t) h.
Proof. intros L I1 I2. exists tid, fr. rewrite length_threads_upd, get_thread_upd_same by exact L. auto. Qed.

Lemma in_frames_procs st st' h : threads st' = threads st -> in_frames st h -> in_frames st' h.
Proof. intros E [j [fr [Lj [Ifr Ih]]]]. exists j, fr. unfold get_thread in *. rewrite E. auto. Qed.

Lemma Casc_same st st' :
  procs st' = procs st -> threads st' = threads st -> Casc st -> Casc st'.
Proof.
  intros Ep Et H c p Lc Pp. unfold get_proc in *. rewrite Ep in *. destruct (H c p Lc Pp) as [Lp D]. split; auto.
  destruct D as [D|[D|D]]; auto. right. right. eapply in_frames_procs; eauto.
Qed.

(* an update of one process that keeps its parent, never un-terminates it and only adds hooks *)
Lemma Casc_upd st pid p' :
  pid < length (procs st) ->
  p_parent p' = p_parent (get_proc st pid) ->
  (p_term (get_proc st pid) = true -> p_term p' = true) ->
  (forall c, In (HChild c) (p_hooks (get_proc st pid)) -> In (HChild c) (p_hooks p')) ->
  Casc st -> Casc (upd_proc st pid p').
Proof.
  intros Lp Par Tm Hk H c p Lc Pp.
  assert (Len : length (procs (upd_proc st pid p')) = length (procs st)) by (unfold upd_proc; cbn; apply set_nth_length).
  rewrite Len in *.
  assert (Pp' : p_parent (get_proc st c) = Some p).
  { destruct (Nat.eq_dec pid c) as [->|N]; [rewrite get_upd_same in Pp by exact Lc; congruence|rewrite get_upd_other in Pp by exact N; exact Pp]. }
  destruct (H c p Lc Pp') as [Lq D]. split; auto.
  destruct D as [D|[D|D]].
  - left. destruct (Nat.eq_dec pid c) as [->|N]; [rewrite get_upd_same by exact Lc; auto|rewrite get_upd_other by exact N; exact D].
  - right. left. destruct (Nat.eq_dec pid p) as [->|N]; [rewrite get_upd_same by exact Lq; auto|rewrite get_upd_other by exact N; exact D].
  - right. right. eapply in_frames_procs; [|exact D]. reflexivity.
Qed.

(* the flip of q: q is terminated; what q held is in `taken` *)
Lemma Casc_flip st q err :
  q < length (procs st) -> Casc st ->
  forall c p, c < length (procs (fst (flip st q err))) -> p_parent (get_proc (fst (flip st q err)) c) = Some p ->
    p < length (procs (fst (flip st q err))) /\
    (p_term (get_proc (fst (flip st q err)) c) = true \/ In (HChild c) (p_hooks (get_proc (fst (flip st q err)) p)) \/
     in_frames (fst (flip st q err)) (HChild c) \/ In (HChild c) (snd (flip st q err))).
Proof.
  intros Lq H c p. unfold flip. destruct (p_term (get_proc st q)) eqn:T; cbn [fst snd].
  - intros Lc Pp. destruct (H c p Lc Pp) as [Lp D]. split; auto. tauto.
  - set (q' := mkproc true err [] [] (p_parent (get_proc st q)) (p_wait (get_proc st q))).
    assert (Len : length (procs (upd_proc st q q')) = length (procs st)) by (unfold upd_proc; cbn; apply set_nth_length).
    rewrite Len. intros Lc Pp.
    assert (Pp' : p_parent (get_proc st c) = Some p).
    { destruct (Nat.eq_dec q c) as [->|N]; [rewrite get_upd_same in Pp by exact Lc; exact Pp|rewrite get_upd_other in Pp by exact N; exact Pp]. }
    destruct (H c p Lc Pp') as [Lp D]. split; auto.
    destruct D as [D|[D|D]].
    + left. destruct (Nat.eq_dec q c) as [->|N]; [rewrite get_upd_same by exact Lc; reflexivity|rewrite get_upd_other by exact N; exact D].
    + destruct (Nat.eq_dec q p) as [->|N]; [right; right; right; exact D|].
      right. left. rewrite get_upd_other by exact N. exact D.
    + right. right. left. eapply in_frames_procs; [|exact D]. reflexivity.
Qed.

Lemma advance_casc fuel : forall st tid,
  tid < length (threads st) -> Casc st -> kids_ok st -> Casc (advance fuel st tid).
Proof.
  induction fuel as [|fuel IH]; intros st tid L H K; cbn [advance]; [exact H|].
  destruct (t_frames (get_thread st tid)) as [|[[|h hs] err] rest] eqn:F; [exact H| |].
  - (* empty frame *)
    apply IH; [rewrite length_threads_upd; exact L| |].
    + intros c p Lc Pp. destruct (H c p Lc Pp) as [Lp D]. split; auto. destruct D as [D|[D|D]]; auto.
      right. right. apply in_frames_upd; auto. intros fr Ifr Ih. rewrite F in Ifr. destruct Ifr as [<-|Ifr]; [contradiction|].
      exists fr. auto.
    + destruct K as [K1 K2]. split; [|exact K2]. intros t hs e c It Ifr Ih. apply in_threads_upd in It.
      destruct It as [->|It]; [|apply (K1 t hs e c); auto]. cbn in Ifr.
      apply (K1 (get_thread st tid) hs e c); auto using get_thread_in. rewrite F. right. exact Ifr.
  - destruct h as [x|c0|par|x].
    + (* entered *)
      apply (Casc_same (upd_thread st tid (mkthread ((HParked x :: hs, err) :: rest)))); [reflexivity|reflexivity|].
      intros c p Lc Pp. destruct (H c p Lc Pp) as [Lp D]. split; auto. destruct D as [D|[D|D]]; auto.
      right. right. apply in_frames_upd; auto. intros fr Ifr Ih. rewrite F in Ifr. destruct Ifr as [<-|Ifr].
      * exists (HParked x :: hs, err). split; [left; reflexivity|]. cbn in *. destruct Ih as [E|Ih]; [discriminate|right; exact Ih].
      * exists fr. split; [right; exact Ifr|exact Ih].
    + (* HChild c0: the child is flipped, its hooks are the next frame *)
      assert (Lc0 : c0 < length (procs st)).
      { destruct K as [K1 _]. apply (K1 (get_thread st tid) (HChild c0 :: hs) err c0); auto using get_thread_in. rewrite F. left. reflexivity. left. reflexivity. }
      pose proof (Casc_flip st c0 err Lc0 H) as CF.
      pose proof (flip_tok st c0 err 0) as [_ [Th _]].
      assert (Tm : p_term (get_proc (fst (flip st c0 err)) c0) = true).
      { unfold flip. destruct (p_term (get_proc st c0)) eqn:T; cbn [fst]; auto. rewrite get_upd_same by exact Lc0. reflexivity. }
      assert (Len : length (procs (fst (flip st c0 err))) = length (procs st)).
      { unfold flip. destruct (p_term (get_proc st c0)); cbn [fst]; auto. unfold upd_proc. cbn. apply set_nth_length. }
      assert (KF : kids_ok (fst (flip st c0 err)) /\ forall c, In (HChild c) (snd (flip st c0 err)) -> c < length (procs st)).
      { destruct K as [K1 K2]. unfold flip. destruct (p_term (get_proc st c0)); cbn [fst snd]; [split; [split; auto|intros c []]|].
        split; [split|].
        - intros t hs' e c It Ifr Ih. cbn [procs upd_proc threads] in *. rewrite set_nth_length. apply (K1 t hs' e c); auto.
        - intros i c Li Ih. cbn [procs upd_proc] in Li. rewrite set_nth_length in Li. cbn [procs upd_proc]. rewrite set_nth_length.
          destruct (Nat.eq_dec c0 i) as [<-|N]; [rewrite get_upd_same in Ih by exact Li; cbn in Ih; contradiction|].
          rewrite get_upd_other in Ih by exact N. apply (K2 i c); auto.
        - intros c Ih. apply (K2 c0 c); auto. }
      destruct KF as [KF KT].
      destruct (flip st c0 err) as [st1 taken] eqn:FL. cbn [fst snd] in *.
      assert (L1 : tid < length (threads st1)) by (rewrite Th; exact L).
      assert (G1 : get_thread st1 tid = get_thread st tid) by (unfold get_thread; rewrite Th; reflexivity).
      apply IH; [rewrite length_threads_upd; exact L1| |].
      * intros c p Lc Pp. cbn [procs upd_thread] in Lc.
        change (get_proc (upd_thread st1 tid (mkthread ((rev taken, err) :: (hs, err) :: rest))) c) with (get_proc st1 c) in Pp.
        destruct (CF c p Lc Pp) as [Lp D]. split; auto.
        change (get_proc (upd_thread st1 tid (mkthread ((rev taken, err) :: (hs, err) :: rest))) c) with (get_proc st1 c).
        change (get_proc (upd_thread st1 tid (mkthread ((rev taken, err) :: (hs, err) :: rest))) p) with (get_proc st1 p).
        destruct D as [D|[D|[D|D]]]; auto.
        -- destruct (Nat.eq_dec c c0) as [->|N]; [left; exact Tm|].
           right. right. apply in_frames_upd; auto. intros fr Ifr Ih. rewrite G1, F in Ifr. destruct Ifr as [<-|Ifr].
           ++ exists (hs, err). split; [right; left; reflexivity|]. cbn in *. destruct Ih as [E|Ih]; [inversion E; congruence|exact Ih].
           ++ exists fr. split; [right; right; exact Ifr|exact Ih].
        -- right. right. apply (in_frames_new st1 tid _ _ (rev taken, err)); auto. left. reflexivity. cbn. apply -> in_rev. exact D.
      * destruct KF as [K1 K2]. split; [|exact K2].
        intros t hs' e c It Ifr Ih. cbn [procs upd_thread]. rewrite Len. apply in_threads_upd in It. destruct It as [->|It].
        -- cbn in Ifr. destruct Ifr as [E|[E|Ifr]].
           ++ inversion E; subst. apply in_rev_elim in Ih. apply KT, Ih.
           ++ inversion E; subst. destruct K as [Ka _]. apply (Ka (get_thread st tid) (HChild c0 :: hs') e c); auto using get_thread_in. rewrite F. left. reflexivity. right. exact Ih.
           ++ destruct K as [Ka _]. apply (Ka (get_thread st tid) hs' e c); auto using get_thread_in. rewrite F. right. exact Ifr.
        -- rewrite <- Len. apply (K1 t hs' e c); auto.
    + (* HWaitDone *)
      set (pp := get_proc st par).
      set (p' := mkproc (p_term pp) (p_err pp) (p_hooks pp) (p_data pp) (p_parent pp) (pred (p_wait pp))).
      assert (Len : length (procs (upd_proc st par p')) = length (procs st)) by (unfold upd_proc; cbn; apply set_nth_length).
      assert (C1 : Casc (upd_proc st par p')).
      { destruct (Nat.lt_ge_cases par (length (procs st))) as [Lp|Lp].
        - apply Casc_upd; auto.
        - unfold upd_proc. rewrite set_nth_oob by exact Lp. destruct st; exact H. }
      assert (K1' : kids_ok (upd_proc st par p')).
      { destruct K as [K1 K2]. split.
        - intros t hs' e c It Ifr Ih. rewrite Len. apply (K1 t hs' e c); auto.
        - intros i c Li Ih. rewrite Len in *. destruct (Nat.eq_dec par i) as [->|N]; [rewrite get_upd_same in Ih by exact Li; apply (K2 i c); auto|].
          rewrite get_upd_other in Ih by exact N. apply (K2 i c); auto. }
      apply IH; [rewrite length_threads_upd; exact L| |].
      * intros c p Lc Pp. destruct (C1 c p Lc Pp) as [Lp D]. split; auto. destruct D as [D|[D|D]]; auto.
        right. right. apply in_frames_upd; auto. intros fr Ifr Ih.
        change (get_thread (upd_proc st par p') tid) with (get_thread st tid) in Ifr. rewrite F in Ifr. destruct Ifr as [<-|Ifr].
        -- exists (hs, err). split; [left; reflexivity|]. cbn in *. destruct Ih as [E|Ih]; [discriminate|exact Ih].
        -- exists fr. split; [right; exact Ifr|exact Ih].
      * destruct K1' as [Ka Kb]. split; [|exact Kb].
        intros t hs' e c It Ifr Ih. apply in_threads_upd in It. destruct It as [->|It]; [|apply (Ka t hs' e c); auto].
        cbn in Ifr. destruct K as [K1 _]. cbn [procs upd_thread]. rewrite Len. destruct Ifr as [E|Ifr].
        -- inversion E; subst. apply (K1 (get_thread st tid) (HWaitDone par :: hs') e c); auto using get_thread_in. rewrite F. left. reflexivity. right. exact Ih.
        -- apply (K1 (get_thread st tid) hs' e c); auto using get_thread_in. rewrite F. right. exact Ifr.
    + (* HParked *) exact H.
Qed.

Lemma in_frames_idle st tid h : idle st tid = true -> tid < length (threads st) ->
  forall fr, In fr (t_frames (get_thread st tid)) -> In h (fst fr) -> False.
Proof. unfold idle. intros I _ fr Ifr. destruct (t_frames (get_thread st tid)); [contradiction|discriminate]. Qed.

(* push a frame on an idle thread *)
Lemma Casc_push st tid fr :
  tid < length (threads st) -> idle st tid = true -> Casc st -> Casc (upd_thread st tid (mkthread [fr])).
Proof.
  intros L I H c p Lc Pp. destruct (H c p Lc Pp) as [Lp D]. split; auto. destruct D as [D|[D|D]]; auto.
  right. right. apply in_frames_upd; auto. intros fr' Ifr Ih. exfalso. eapply in_frames_idle; eauto.
Qed.

Lemma p_step_casc st op :
  op_ok st op -> Casc st -> kids_ok st -> Casc (fst (p_step st op)).
Proof.
  intros [R Rp] H K. destruct op as [|tid pid|tid pid h|tid pid err|tid|pid k v|pid k]; cbn [p_step]; cbn in R, Rp.
  - (* PNew *)
    cbn [fst]. intros c p Lc Pp. cbn [procs] in Lc. rewrite app_length in Lc. cbn in Lc.
    destruct (Nat.lt_ge_cases c (length (procs st))) as [Hc|Hc].
    + unfold get_proc in Pp. cbn [procs] in Pp. rewrite app_nth1 in Pp by exact Hc.
      destruct (H c p Hc Pp) as [Lp D]. cbn [procs]. rewrite app_length. split; [lia|].
      unfold get_proc. cbn [procs]. rewrite !app_nth1 by assumption. destruct D as [D|[D|D]]; auto.
    + assert (c = length (procs st)) by lia. subst c. unfold get_proc in Pp. cbn [procs] in Pp.
      rewrite app_nth2, Nat.sub_diag in Pp by lia. cbn in Pp. discriminate.
  - (* PFork *)
    destruct (idle st tid) eqn:I; cbn [negb]; [|exact H].
    set (p := get_proc st pid).
    set (p' := mkproc (p_term p) (p_err p) (p_hooks p) (p_data p) (p_parent p) (S (p_wait p))).
    set (st1 := mkps (set_nth pid p' (procs st) ++ [mkproc false 0 [HWaitDone pid] [] (Some pid) 0]) (threads st) (hlog st)).
    assert (Len1 : length (procs st1) = S (length (procs st))) by (cbn; rewrite app_length, set_nth_length; cbn; lia).
    assert (G1 : forall i, i < length (procs st) -> p_hooks (get_proc st1 i) = p_hooks (get_proc st i) /\
                   p_term (get_proc st1 i) = p_term (get_proc st i) /\ p_parent (get_proc st1 i) = p_parent (get_proc st i)).
    { intros i Li. unfold get_proc, st1. cbn [procs]. rewrite app_nth1 by (rewrite set_nth_length; exact Li).
      destruct (Nat.eq_dec pid i) as [->|N]; [rewrite nth_set_nth_same by exact Li; cbn; auto|rewrite nth_set_nth_other by exact N; auto]. }
    assert (Gc : get_proc st1 (length (procs st)) = mkproc false 0 [HWaitDone pid] [] (Some pid) 0).
    { unfold get_proc, st1. cbn [procs]. rewrite app_nth2 by (rewrite set_nth_length; lia). rewrite set_nth_length, Nat.sub_diag. reflexivity. }
    (* st1 satisfies the invariant for every pair but the new child *)
    assert (C1 : forall c q, c < length (procs st) -> p_parent (get_proc st1 c) = Some q ->
                 q < length (procs st1) /\ (p_term (get_proc st1 c) = true \/ In (HChild c) (p_hooks (get_proc st1 q)) \/ in_frames st1 (HChild c))).
    { intros c q Lc Pq. destruct (G1 c Lc) as [_ [Tc Pc]]. rewrite Pc in Pq. destruct (H c q Lc Pq) as [Lq D]. split; [lia|].
      destruct (G1 q Lq) as [Hq _]. rewrite Tc, Hq. destruct D as [D|[D|D]]; auto. }
    assert (K1 : kids_ok st1).
    { destruct K as [Ka Kb]. split.
      - intros t hs e c It Ifr Ih. rewrite Len1. pose proof (Ka t hs e c It Ifr Ih). lia.
      - intros i c Li Ih. rewrite Len1 in *. destruct (Nat.lt_ge_cases i (length (procs st))) as [Hi|Hi].
        + destruct (G1 i Hi) as [Hk _]. rewrite Hk in Ih. pose proof (Kb i c Hi Ih). lia.
        + assert (i = length (procs st)) by lia. subst i. rewrite Gc in Ih. cbn in Ih. destruct Ih as [E|[]]. discriminate. }
    destruct (p_term (get_proc st1 pid)) eqn:T.
    + (* parent terminated: the child is flipped at once *)
      assert (Lc : length (procs st) < length (procs st1)) by lia.
      pose proof (flip_tok st1 (length (procs st)) (p_err (get_proc st1 pid)) 0) as [_ [Th _]].
      assert (FS : fst (flip st1 (length (procs st)) (p_err (get_proc st1 pid))) =
                   upd_proc st1 (length (procs st)) (mkproc true (p_err (get_proc st1 pid)) [] [] (Some pid) 0) /\
                   snd (flip st1 (length (procs st)) (p_err (get_proc st1 pid))) = [HWaitDone pid]).
      { unfold flip. rewrite Gc. cbn. auto. }
      destruct FS as [F1 F2].
      destruct (flip st1 (length (procs st)) (p_err (get_proc st1 pid))) as [st2 taken] eqn:FL. cbn [fst snd] in *. subst st2 taken.
      set (st2 := upd_proc st1 (length (procs st)) (mkproc true (p_err (get_proc st1 pid)) [] [] (Some pid) 0)) in *.
      assert (Len2 : length (procs st2) = length (procs st1)) by (unfold st2, upd_proc; cbn [procs]; apply set_nth_length).
      assert (C2 : Casc st2).
      { intros c q Lc2 Pq. rewrite Len2, Len1 in Lc2. destruct (Nat.lt_ge_cases c (length (procs st))) as [Hc|Hc].
        - assert (Nc : length (procs st) <> c) by lia.
          unfold st2 in Pq. rewrite get_upd_other in Pq by exact Nc. destruct (C1 c q Hc Pq) as [Lq D]. rewrite Len2. split; auto.
          unfold st2. rewrite get_upd_other by exact Nc.
          destruct D as [D|[D|D]]; auto.
          right. left. destruct (Nat.eq_dec (length (procs st)) q) as [<-|Nq]; [rewrite Gc in D; cbn in D; destruct D as [E|[]]; discriminate|].
          rewrite get_upd_other by exact Nq. exact D.
        - assert (c = length (procs st)) by lia. subst c. unfold st2 in Pq. rewrite get_upd_same in Pq by exact Lc. cbn in Pq. inversion Pq; subst q.
          rewrite Len2. split; [lia|]. left. unfold st2. rewrite get_upd_same by exact Lc. reflexivity. }
      assert (K2 : kids_ok st2).
      { destruct K1 as [Ka Kb]. split.
        - intros t hs e c It Ifr Ih. rewrite Len2. apply (Ka t hs e c); auto.
        - intros i c Li Ih. rewrite Len2 in *. destruct (Nat.eq_dec (length (procs st)) i) as [<-|N].
          + unfold st2 in Ih. rewrite get_upd_same in Ih by exact Lc. cbn in Ih. contradiction.
          + unfold st2 in Ih. rewrite get_upd_other in Ih by exact N. apply (Kb i c); auto. }
      assert (I2 : idle st2 tid = true) by exact I.
      assert (L2 : tid < length (threads st2)) by exact R.
      apply advance_casc; [rewrite length_threads_upd; exact L2|apply Casc_push; auto|].
      destruct K2 as [Ka Kb]. split; [|exact Kb].
      intros t hs e c It Ifr Ih. apply in_threads_upd in It. destruct It as [->|It]; [|apply (Ka t hs e c); auto].
      cbn in Ifr. destruct Ifr as [E|[]]. inversion E; subst. cbn in Ih. destruct Ih as [E'|[]]. discriminate.
    + cbn [fst]. set (p1 := get_proc st1 pid).
      assert (Lp1 : pid < length (procs st1)) by lia.
      set (p2 := mkproc false (p_err p1) (p_hooks p1 ++ [HChild (length (procs st))]) (p_data p1) (p_parent p1) (p_wait p1)).
      assert (Len2 : length (procs (upd_proc st1 pid p2)) = length (procs st1)) by (unfold upd_proc; cbn [procs]; apply set_nth_length).
      intros c q Lc Pq. rewrite Len2, Len1 in Lc. rewrite Len2.
      destruct (Nat.lt_ge_cases c (length (procs st))) as [Hc|Hc].
      * assert (Pq1 : p_parent (get_proc st1 c) = Some q).
        { destruct (Nat.eq_dec pid c) as [<-|N]; [rewrite get_upd_same in Pq by exact Lp1; exact Pq|rewrite get_upd_other in Pq by exact N; exact Pq]. }
        destruct (C1 c q Hc Pq1) as [Lq D]. split; auto.
        destruct D as [D|[D|D]].
        -- left. destruct (Nat.eq_dec pid c) as [<-|N]; [rewrite get_upd_same by exact Lp1; cbn; unfold p1 in *; congruence|rewrite get_upd_other by exact N; exact D].
        -- right. left. destruct (Nat.eq_dec pid q) as [<-|N]; [rewrite get_upd_same by exact Lp1; cbn; apply in_or_app; left; exact D|rewrite get_upd_other by exact N; exact D].
        -- right. right. eapply in_frames_procs; [|exact D]. reflexivity.
      * assert (c = length (procs st)) by lia. subst c.
        assert (Nc : pid <> length (procs st)) by lia.
        rewrite get_upd_other in Pq by exact Nc. rewrite Gc in Pq. cbn in Pq. inversion Pq; subst q.
        split; [exact Lp1|]. right. left. rewrite get_upd_same by exact Lp1. cbn. apply in_or_app. right. left. reflexivity.
  - (* PAddHook *)
    destruct (idle st tid) eqn:I; cbn [negb]; [|exact H].
    destruct (p_term (get_proc st pid)) eqn:T; cbn [fst].
    + apply advance_casc; [rewrite length_threads_upd; exact R|apply Casc_push; auto|].
      destruct K as [Ka Kb]. split; [|exact Kb].
      intros t hs e c It Ifr Ih. apply in_threads_upd in It. destruct It as [->|It]; [|apply (Ka t hs e c); auto].
      cbn in Ifr. destruct Ifr as [E|[]]. inversion E; subst. cbn in Ih. destruct Ih as [E'|[]]. discriminate.
    + destruct (existsb (hook_eqb (HUser h)) (p_hooks (get_proc st pid))); cbn [fst]; [exact H|].
      apply Casc_upd; [exact Rp|reflexivity|intros T'; congruence|intros c Ic; cbn; apply in_or_app; left; exact Ic|exact H].
  - (* PExit *)
    destruct (idle st tid) eqn:I; cbn [negb]; [|exact H].
    pose proof (Casc_flip st pid err Rp H) as CF.
    pose proof (flip_tok st pid err 0) as [_ [Th _]].
    assert (Len : length (procs (fst (flip st pid err))) = length (procs st)).
    { unfold flip. destruct (p_term (get_proc st pid)); cbn [fst]; auto. unfold upd_proc. cbn. apply set_nth_length. }
    assert (KF : kids_ok (fst (flip st pid err)) /\ forall c, In (HChild c) (snd (flip st pid err)) -> c < length (procs st)).
    { destruct K as [K1 K2]. unfold flip. destruct (p_term (get_proc st pid)); cbn [fst snd]; [split; [split; auto|intros c []]|].
      split; [split|].
      - intros t hs' e c It Ifr Ih. cbn [procs upd_proc threads] in *. rewrite set_nth_length. apply (K1 t hs' e c); auto.
      - intros i c Li Ih. cbn [procs upd_proc] in Li. rewrite set_nth_length in Li. cbn [procs upd_proc]. rewrite set_nth_length.
        destruct (Nat.eq_dec pid i) as [<-|N]; [rewrite get_upd_same in Ih by exact Li; cbn in Ih; contradiction|].
        rewrite get_upd_other in Ih by exact N. apply (K2 i c); auto.
      - intros c Ih. apply (K2 pid c); auto. }
    destruct KF as [KF KT].
    destruct (flip st pid err) as [st1 taken] eqn:FL. cbn [fst snd] in *.
    assert (L1 : tid < length (threads st1)) by (rewrite Th; exact R).
    assert (I1 : idle st1 tid = true) by (unfold idle, get_thread in *; rewrite Th; exact I).
    apply advance_casc; [rewrite length_threads_upd; exact L1| |].
    + intros c p Lc Pp. cbn [procs upd_thread] in Lc.
      change (get_proc (upd_thread st1 tid (mkthread [(rev taken, err)])) c) with (get_proc st1 c) in Pp.
      destruct (CF c p Lc Pp) as [Lp D]. split; auto.
      change (get_proc (upd_thread st1 tid (mkthread [(rev taken, err)])) c) with (get_proc st1 c).
      change (get_proc (upd_thread st1 tid (mkthread [(rev taken, err)])) p) with (get_proc st1 p).
      destruct D as [D|[D|[D|D]]]; auto.
      * right. right. apply in_frames_upd; auto. intros fr Ifr Ih. exfalso. eapply in_frames_idle; eauto.
      * right. right. apply (in_frames_new st1 tid _ _ (rev taken, err)); auto. left. reflexivity. cbn. apply -> in_rev. exact D.
    + destruct KF as [Ka Kb]. split; [|exact Kb].
      intros t hs e c It Ifr Ih. apply in_threads_upd in It. destruct It as [->|It]; [|apply (Ka t hs e c); auto].
      cbn in Ifr. destruct Ifr as [E|[]]. inversion E; subst. cbn [procs upd_thread]. rewrite Len. apply in_rev_elim in Ih. apply KT, Ih.
  - (* PStep *)
    destruct (t_frames (get_thread st tid)) as [|[[|[x|c0|par|x] hs] err] rest] eqn:F; cbn [fst]; auto.
    apply advance_casc; [rewrite length_threads_upd; exact R| |].
    + intros c p Lc Pp. destruct (H c p Lc Pp) as [Lp D]. split; auto. destruct D as [D|[D|D]]; auto.
      right. right. apply in_frames_upd; auto. intros fr Ifr Ih. rewrite F in Ifr. destruct Ifr as [<-|Ifr].
      * exists (hs, err). split; [left; reflexivity|]. cbn in *. destruct Ih as [E|Ih]; [discriminate|exact Ih].
      * exists fr. split; [right; exact Ifr|exact Ih].
    + destruct K as [K1 K2]. split; [|exact K2].
      intros t hs' e c It Ifr Ih. apply in_threads_upd in It. destruct It as [->|It]; [|apply (K1 t hs' e c); auto].
      cbn in Ifr. destruct Ifr as [E|Ifr].
      * inversion E; subst. apply (K1 (get_thread st tid) (HParked x :: hs') e c); auto using get_thread_in. rewrite F. left. reflexivity. right. exact Ih.
      * apply (K1 (get_thread st tid) hs' e c); auto using get_thread_in. rewrite F. right. exact Ifr.
  - (* PSet *) cbn [fst]. apply Casc_upd; auto.
  - (* PRemove *) cbn [fst]. apply Casc_upd; auto.
Qed.

Lemma run_casc_from st ops :
  ok_from st ops -> Casc st -> kids_ok st -> Own [] st ->
  Casc (fold_left (fun st op => fst (p_step st op)) ops st).
Proof.
  assert (G : forall A st, ok_from st ops -> Casc st -> kids_ok st -> Own A st ->
              Casc (fold_left (fun st op => fst (p_step st op)) ops st)).
  { induction ops as [|op ops IH]; intros A st0 OK C K O; cbn [fold_left]; [exact C|].
    destruct OK as [OKop OKr]. destruct (p_step_own A st0 op OKop O K) as [O' K'].
    apply (IH (A ++ effect st0 op)); auto. apply p_step_casc; auto. }
  intros OK C K O. apply (G [] st); auto.
Qed.

(* exit cascades: once no thread has anything left to run, every child forked from a terminated process
   is terminated (and so, level by level, every descendant) *)
Theorem cascade n ops :
  ok_from (p_init n) ops ->
  let st := p_run n ops in
  (forall t, In t (threads st) -> t_frames t = []) ->
  forall c p, c < length (procs st) -> p_parent (get_proc st c) = Some p ->
    p_term (get_proc st p) = true -> p_term (get_proc st c) = true.
Proof.
  intros OK st Done c p Lc Pp Tp.
  assert (C : Casc st).
  { unfold st, p_run. apply run_casc_from; auto.
    - intros c' p' Lc'. cbn in Lc'. lia.
    - split; cbn; [intros t hs e c' It; apply repeat_spec in It; subst t; contradiction|intros i c' Li; lia].
    - split; [|split]; cbn; [intros i h Li; lia|intros t hs e h It; apply repeat_spec in It; subst t; contradiction|intros h e []]. }
  destruct (C c p Lc Pp) as [Lp [D|[D|D]]]; auto.
  - pose proof (p_run_nohooks n ops) as NH. fold st in NH. rewrite (nohooks_get st p NH Tp) in D. contradiction.
  - destruct D as [j [fr [Lj [Ifr _]]]]. rewrite (Done (get_thread st j)) in Ifr by (apply get_thread_in; exact Lj). contradiction.
Qed.

(* ---------- Join: the WaitGroup counter counts the children that have not terminated ---------- *)
Definition cntw (p : nat) (l : list hook) : nat := length (filter (is_wait p) l).
Definition wreg (st : pstate) (p : nat) : nat := list_sum (map (fun q => cntw p (p_hooks q)) (procs st)).
Definition wfcnt (p : nat) (t : thread) : nat := list_sum (map (fun f => cntw p (fst f)) (t_frames t)).
Definition wfr (st : pstate) (p : nat) : nat := list_sum (map (wfcnt p) (threads st)).

Lemma cntw_app p a b : cntw p (a ++ b) = cntw p a + cntw p b.
Proof. unfold cntw. rewrite filter_app, app_length. reflexivity. Qed.
Lemma cntw_rev p l : cntw p (rev l) = cntw p l.
Proof.
  induction l as [|a l IH]; [reflexivity|].
  change (rev (a :: l)) with (rev l ++ [a]). rewrite cntw_app, IH. unfold cntw. cbn. destruct (is_wait p a); cbn; lia.
Qed.

Lemma wfr_upd_thread st tid t p :
  tid < length (threads st) ->
  wfr (upd_thread st tid t) p + wfcnt p (get_thread st tid) = wfr st p + wfcnt p t.
Proof. intros H. unfold wfr, upd_thread, get_thread. cbn [threads]. apply list_sum_set_nth, H. Qed.

Lemma wreg_upd_proc st q x p :
  q < length (procs st) ->
  wreg (upd_proc st q x) p + cntw p (p_hooks (get_proc st q)) = wreg st p + cntw p (p_hooks x).
Proof.
  intros H. unfold wreg, upd_proc, get_proc. cbn [procs].
  apply (list_sum_set_nth (fun q => cntw p (p_hooks q))), H.
Qed.

(* the counter of p equals the number of WaitDone(p) hooks still in the system; every WaitDone names an existing process *)
Definition WInv (st : pstate) : Prop :=
  (forall p, p < length (procs st) -> p_wait (get_proc st p) = wreg st p + wfr st p) /\
  (forall q par, q < length (procs st) -> In (HWaitDone par) (p_hooks (get_proc st q)) -> par < length (procs st)) /\
  (forall j fr par, j < length (threads st) -> In fr (t_frames (get_thread st j)) -> In (HWaitDone par) (fst fr) -> par < length (procs st)).

Lemma cntw_pos p l : In (HWaitDone p) l -> 1 <= cntw p l.
Proof.
  unfold cntw. induction l as [|a l IH]; cbn; intros I; [contradiction|].
  destruct I as [->|I]; [cbn; rewrite Nat.eqb_refl; cbn; lia|].
  specialize (IH I). destruct (is_wait p a); cbn; lia.
Qed.

Lemma flip_w st q err p :
  wreg (fst (flip st q err)) p + cntw p (snd (flip st q err)) = wreg st p /\
  length (procs (fst (flip st q err))) = length (procs st) /\
  (forall i, p_wait (get_proc (fst (flip st q err)) i) = p_wait (get_proc st i)) /\
  (forall i h, i < length (procs st) -> In h (p_hooks (get_proc (fst (flip st q err)) i)) -> In h (p_hooks (get_proc st i))) /\
  (forall h, In h (snd (flip st q err)) -> q < length (procs st) /\ In h (p_hooks (get_proc st q))).
Proof.
  unfold flip. destruct (p_term (get_proc st q)) eqn:T; cbn [fst snd].
  - split; [change (cntw p []) with 0; lia|]. split; [reflexivity|]. split; [reflexivity|]. split; [auto|intros h []].
  - destruct (Nat.lt_ge_cases q (length (procs st))) as [H|H].
    2:{ unfold get_proc in T. rewrite nth_overflow in T by exact H. discriminate. }
    set (q' := mkproc true err [] [] (p_parent (get_proc st q)) (p_wait (get_proc st q))).
    split; [|split; [|split; [|split]]].
    + pose proof (wreg_upd_proc st q q' p H) as X. cbn [p_hooks q'] in X. change (cntw p []) with 0 in X. lia.
    + unfold upd_proc. cbn. apply set_nth_length.
    + intros i. destruct (Nat.eq_dec q i) as [->|N]; [rewrite get_upd_same by exact H; reflexivity|rewrite get_upd_other by exact N; reflexivity].
    + intros i h Li. destruct (Nat.eq_dec q i) as [->|N]; [rewrite get_upd_same by exact Li; cbn; contradiction|rewrite get_upd_other by exact N; auto].
    + intros h Ih. auto.
Qed.

Lemma wreg_same_hooks st q x p : p_hooks x = p_hooks (get_proc st q) -> wreg (upd_proc st q x) p = wreg st p.
Proof.
  intros E. destruct (Nat.lt_ge_cases q (length (procs st))) as [H|H].
  - pose proof (wreg_upd_proc st q x p H). rewrite E in *. lia.
  - unfold upd_proc, wreg. cbn [procs]. rewrite set_nth_oob by exact H. reflexivity.
Qed.

Lemma advance_winv fuel : forall st tid,
  tid < length (threads st) -> WInv st -> WInv (advance fuel st tid).
Proof.
  induction fuel as [|fuel IH]; intros st tid L W; cbn [advance]; [exact W|].
  destruct (t_frames (get_thread st tid)) as [|[[|h hs] err] rest] eqn:F; [exact W| |].
  - (* empty frame *)
    apply IH; [rewrite length_threads_upd; exact L|].
    destruct W as [W1 [W2 W3]]. split; [|split; [exact W2|]].
    + intros p Lp. change (get_proc (upd_thread st tid (mkthread rest)) p) with (get_proc st p).
      change (wreg (upd_thread st tid (mkthread rest)) p) with (wreg st p).
      pose proof (wfr_upd_thread st tid (mkthread rest) p L) as U. unfold wfcnt in U. rewrite F in U.
      cbn [t_frames map list_sum fold_right fst] in U. change (cntw p []) with 0 in U. rewrite (W1 p Lp). lia.
    + intros j fr par Lj Ifr Ih. rewrite length_threads_upd in Lj. destruct (Nat.eq_dec j tid) as [->|N].
      * rewrite get_thread_upd_same in Ifr by exact L. cbn in Ifr. apply (W3 tid fr par); auto. rewrite F. right. exact Ifr.
      * rewrite get_thread_upd_other in Ifr by exact N. apply (W3 j fr par); auto.
  - destruct h as [x|c0|par|x].
    + (* entered *)
      destruct W as [W1 [W2 W3]].
      set (st' := mkps (procs st) (set_nth tid (mkthread ((HParked x :: hs, err) :: rest)) (threads st)) (hlog st ++ [(x, err)])).
      split; [|split; [exact W2|]].
      * intros p Lp. change (get_proc st' p) with (get_proc st p). change (wreg st' p) with (wreg st p).
        assert (U : wfr st' p + wfcnt p (get_thread st tid) = wfr st p + wfcnt p (mkthread ((HParked x :: hs, err) :: rest))).
        { apply (wfr_upd_thread st tid _ p L). }
        unfold wfcnt in U. rewrite F in U. cbn [t_frames map list_sum fold_right fst] in U.
        change (cntw p (HUser x :: hs)) with (cntw p hs) in U. change (cntw p (HParked x :: hs)) with (cntw p hs) in U.
        rewrite (W1 p Lp). lia.
      * intros j fr par Lj Ifr Ih. unfold st' in Lj. cbn [threads] in Lj. rewrite set_nth_length in Lj.
        change (get_thread st' j) with (get_thread (upd_thread st tid (mkthread ((HParked x :: hs, err) :: rest))) j) in Ifr.
        destruct (Nat.eq_dec j tid) as [->|N].
        -- rewrite get_thread_upd_same in Ifr by exact L. cbn in Ifr. destruct Ifr as [<-|Ifr].
           ++ cbn in Ih. destruct Ih as [E|Ih]; [discriminate|]. apply (W3 tid (HUser x :: hs, err) par); auto. rewrite F. left. reflexivity. right. exact Ih.
           ++ apply (W3 tid fr par); auto. rewrite F. right. exact Ifr.
        -- rewrite get_thread_upd_other in Ifr by exact N. apply (W3 j fr par); auto.
    + (* HChild *)
      destruct W as [W1 [W2 W3]].
      pose proof (flip_tok st c0 err 0) as [_ [Th _]].
      assert (FW : forall p, wreg (fst (flip st c0 err)) p + cntw p (snd (flip st c0 err)) = wreg st p) by (intros p; apply flip_w).
      destruct (flip_w st c0 err 0) as [_ [Len [Wt [Hk Tk]]]].
      destruct (flip st c0 err) as [st1 taken] eqn:FL. cbn [fst snd] in *.
      assert (L1 : tid < length (threads st1)) by (rewrite Th; exact L).
      assert (G1 : get_thread st1 tid = get_thread st tid) by (unfold get_thread; rewrite Th; reflexivity).
      apply IH; [rewrite length_threads_upd; exact L1|].
      split; [|split].
      * intros p Lp. cbn [procs upd_thread] in Lp. rewrite Len in Lp.
        change (get_proc (upd_thread st1 tid (mkthread ((rev taken, err) :: (hs, err) :: rest))) p) with (get_proc st1 p).
        change (wreg (upd_thread st1 tid (mkthread ((rev taken, err) :: (hs, err) :: rest))) p) with (wreg st1 p).
        pose proof (wfr_upd_thread st1 tid (mkthread ((rev taken, err) :: (hs, err) :: rest)) p L1) as U.
        unfold wfcnt in U. rewrite G1, F in U. cbn [t_frames map list_sum fold_right fst] in U. rewrite cntw_rev in U.
        change (cntw p (HChild c0 :: hs)) with (cntw p hs) in U.
        assert (Us : wfr st1 p = wfr st p) by (unfold wfr; rewrite Th; reflexivity).
        rewrite Wt, (W1 p Lp). pose proof (FW p). lia.
      * intros q par Lq Ih. cbn [procs upd_thread] in *. rewrite Len in *.
        change (get_proc (upd_thread st1 tid (mkthread ((rev taken, err) :: (hs, err) :: rest))) q) with (get_proc st1 q) in Ih.
        apply (W2 q par); auto.
      * intros j fr par Lj Ifr Ih. rewrite length_threads_upd, Th in Lj. cbn [procs upd_thread]. rewrite Len.
        destruct (Nat.eq_dec j tid) as [->|N].
        -- rewrite get_thread_upd_same in Ifr by exact L1. cbn in Ifr. destruct Ifr as [<-|[<-|Ifr]].
           ++ cbn in Ih. apply in_rev_elim in Ih. destruct (Tk _ Ih) as [Lc Ic]. apply (W2 c0 par); auto.
           ++ apply (W3 tid (HChild c0 :: hs, err) par); auto. rewrite F. left. reflexivity. right. exact Ih.
           ++ apply (W3 tid fr par); auto. rewrite F. right. exact Ifr.
        -- rewrite get_thread_upd_other in Ifr by exact N. unfold get_thread in Ifr. rewrite Th in Ifr. apply (W3 j fr par); auto.
    + (* HWaitDone par: the counter goes down with the token *)
      destruct W as [W1 [W2 W3]].
      assert (Lpar : par < length (procs st)).
      { apply (W3 tid (HWaitDone par :: hs, err) par); auto. rewrite F. left. reflexivity. left. reflexivity. }
      set (pp := get_proc st par).
      set (p' := mkproc (p_term pp) (p_err pp) (p_hooks pp) (p_data pp) (p_parent pp) (pred (p_wait pp))).
      assert (Len : length (procs (upd_proc st par p')) = length (procs st)) by (unfold upd_proc; cbn; apply set_nth_length).
      apply IH; [rewrite length_threads_upd; exact L|].
      split; [|split].
      * intros p Lp. cbn [procs upd_thread] in Lp. rewrite Len in Lp.
        change (get_proc (upd_thread (upd_proc st par p') tid (mkthread ((hs, err) :: rest))) p) with (get_proc (upd_proc st par p') p).
        change (wreg (upd_thread (upd_proc st par p') tid (mkthread ((hs, err) :: rest))) p) with (wreg (upd_proc st par p') p).
        rewrite (wreg_same_hooks st par p' p eq_refl).
        pose proof (wfr_upd_thread (upd_proc st par p') tid (mkthread ((hs, err) :: rest)) p L) as U.
        change (get_thread (upd_proc st par p') tid) with (get_thread st tid) in U.
        change (wfr (upd_proc st par p') p) with (wfr st p) in U.
        unfold wfcnt in U. rewrite F in U. cbn [t_frames map list_sum fold_right fst] in U.
        pose proof (W1 p Lp) as Wp.
        destruct (Nat.eq_dec par p) as [->|N].
        -- rewrite get_upd_same by exact Lp. cbn [p_wait p'].
           assert (C : cntw p (HWaitDone p :: hs) = S (cntw p hs)) by (unfold cntw; cbn; rewrite Nat.eqb_refl; reflexivity).
           rewrite C in U. fold pp in Wp. unfold pp in *. lia.
        -- rewrite get_upd_other by exact N.
           assert (C : cntw p (HWaitDone par :: hs) = cntw p hs).
           { unfold cntw. cbn. destruct (Nat.eqb par p) eqn:E; [apply Nat.eqb_eq in E; congruence|reflexivity]. }
           rewrite C in U. lia.
      * intros q par' Lq Ih. cbn [procs upd_thread] in *. rewrite Len in *.
        change (get_proc (upd_thread (upd_proc st par p') tid (mkthread ((hs, err) :: rest))) q) with (get_proc (upd_proc st par p') q) in Ih.
        destruct (Nat.eq_dec par q) as [->|N]; [rewrite get_upd_same in Ih by exact Lq; apply (W2 q par'); auto|].
        rewrite get_upd_other in Ih by exact N. apply (W2 q par'); auto.
      * intros j fr par' Lj Ifr Ih. rewrite length_threads_upd in Lj. cbn [procs upd_thread]. rewrite Len.
        destruct (Nat.eq_dec j tid) as [->|N].
        -- rewrite get_thread_upd_same in Ifr by exact L. cbn in Ifr. destruct Ifr as [<-|Ifr].
           ++ apply (W3 tid (HWaitDone par :: hs, err) par'); auto. rewrite F. left. reflexivity. right. exact Ih.
           ++ apply (W3 tid fr par'); auto. rewrite F. right. exact Ifr.
        -- rewrite get_thread_upd_other in Ifr by exact N. apply (W3 j fr par'); auto.
    + (* HParked *) exact W.
Qed.

Definition parent_is (q : proc) (p : nat) : bool := match p_parent q with Some x => Nat.eqb x p | None => false end.
(* a running process carries exactly one WaitDone hook, for its parent *)
Definition TokInv (st : pstate) : Prop :=
  forall q p, q < length (procs st) -> p_term (get_proc st q) = false ->
    cntw p (p_hooks (get_proc st q)) = if parent_is (get_proc st q) p then 1 else 0.

Lemma TokInv_upd st i x :
  i < length (procs st) ->
  (p_term x = false -> p_term (get_proc st i) = false /\ p_parent x = p_parent (get_proc st i) /\
                       forall p, cntw p (p_hooks x) = cntw p (p_hooks (get_proc st i))) ->
  TokInv st -> TokInv (upd_proc st i x).
Proof.
  intros Li Hx H q p Lq T. assert (Len : length (procs (upd_proc st i x)) = length (procs st)) by (unfold upd_proc; cbn; apply set_nth_length).
  rewrite Len in Lq. destruct (Nat.eq_dec i q) as [->|N].
  - rewrite get_upd_same in * by exact Lq. destruct (Hx T) as [T0 [P0 C0]]. rewrite C0. unfold parent_is. rewrite P0. apply (H q p Lq T0).
  - rewrite get_upd_other in * by exact N. apply H; auto.
Qed.

Lemma flip_tokinv st q err : TokInv st -> TokInv (fst (flip st q err)).
Proof.
  intros H. unfold flip. destruct (p_term (get_proc st q)) eqn:T; cbn [fst]; [exact H|].
  destruct (Nat.lt_ge_cases q (length (procs st))) as [Lq|Lq].
  - apply TokInv_upd; auto. cbn. discriminate.
  - unfold upd_proc. rewrite set_nth_oob by exact Lq. destruct st; exact H.
Qed.

Lemma TokInv_threads st st' : procs st' = procs st -> TokInv st -> TokInv st'.
Proof. intros E H q p. unfold get_proc. rewrite E. apply H. Qed.

Lemma advance_tokinv fuel : forall st tid, TokInv st -> TokInv (advance fuel st tid).
Proof.
  induction fuel as [|fuel IH]; intros st tid H; cbn [advance]; [exact H|].
  destruct (t_frames (get_thread st tid)) as [|[[|h hs] err] rest]; [exact H| |].
  - apply IH. exact H.
  - destruct h as [x|c0|par|x]; [exact H| | |exact H].
    + pose proof (flip_tokinv st c0 err H) as F. destruct (flip st c0 err) as [st1 taken]. cbn [fst] in F. apply IH. exact F.
    + apply IH.
      set (pp := get_proc st par).
      set (p' := mkproc (p_term pp) (p_err pp) (p_hooks pp) (p_data pp) (p_parent pp) (pred (p_wait pp))).
      apply (TokInv_threads (upd_proc st par p')); [reflexivity|].
      destruct (Nat.lt_ge_cases par (length (procs st))) as [Lp|Lp].
      * apply TokInv_upd; auto.
      * unfold upd_proc. rewrite set_nth_oob by exact Lp. destruct st; exact H.
Qed.

Lemma cntw_single p par : cntw p [HWaitDone par] = if Nat.eqb par p then 1 else 0.
Proof. unfold cntw. cbn. destruct (Nat.eqb par p); reflexivity. Qed.

Lemma p_step_tokinv st op : op_ok st op -> TokInv st -> TokInv (fst (p_step st op)).
Proof.
  intros [R Rp] H. destruct op as [|tid pid|tid pid h|tid pid err|tid|pid k v|pid k]; cbn [p_step]; cbn in R, Rp.
  - cbn [fst]. intros q p Lq T. cbn [procs] in Lq. rewrite app_length in Lq. cbn in Lq.
    destruct (Nat.lt_ge_cases q (length (procs st))) as [Hq|Hq].
    + unfold get_proc in *. cbn [procs] in *. rewrite app_nth1 in * by exact Hq. apply H; auto.
    + assert (q = length (procs st)) by lia. subst q. unfold get_proc. cbn [procs]. rewrite app_nth2, Nat.sub_diag by lia. reflexivity.
  - destruct (idle st tid); cbn [negb]; [|exact H].
    set (p0 := get_proc st pid).
    set (p' := mkproc (p_term p0) (p_err p0) (p_hooks p0) (p_data p0) (p_parent p0) (S (p_wait p0))).
    set (st1 := mkps (set_nth pid p' (procs st) ++ [mkproc false 0 [HWaitDone pid] [] (Some pid) 0]) (threads st) (hlog st)).
    assert (T1 : TokInv st1).
    { intros q p Lq T. cbn [procs st1] in Lq. rewrite app_length, set_nth_length in Lq. cbn in Lq.
      destruct (Nat.lt_ge_cases q (length (procs st))) as [Hq|Hq].
      - assert (G : get_proc st1 q = get_proc (upd_proc st pid p') q).
        { unfold get_proc, st1, upd_proc. cbn [procs]. rewrite app_nth1 by (rewrite set_nth_length; exact Hq). reflexivity. }
        rewrite G in *. apply (TokInv_upd st pid p'); auto. cbn. auto. unfold upd_proc. cbn. rewrite set_nth_length. exact Hq.
      - assert (q = length (procs st)) by lia. subst q.
        assert (G : get_proc st1 (length (procs st)) = mkproc false 0 [HWaitDone pid] [] (Some pid) 0).
        { unfold get_proc, st1. cbn [procs]. rewrite app_nth2 by (rewrite set_nth_length; lia). rewrite set_nth_length, Nat.sub_diag. reflexivity. }
        rewrite G. cbn [p_hooks]. rewrite cntw_single. unfold parent_is. cbn. reflexivity. }
    destruct (p_term (get_proc st1 pid)) eqn:T.
    + pose proof (flip_tokinv st1 (length (procs st)) (p_err (get_proc st1 pid)) T1) as F.
      destruct (flip st1 (length (procs st)) (p_err (get_proc st1 pid))) as [st2 taken]. cbn [fst] in *.
      apply advance_tokinv. apply (TokInv_threads st2); [reflexivity|exact F].
    + cbn [fst]. assert (Lp1 : pid < length (procs st1)) by (cbn; rewrite app_length, set_nth_length; cbn; lia).
      apply TokInv_upd; auto. cbn [p_term p_parent p_hooks]. intros _. split; [exact T|]. split; [reflexivity|].
      intros p. rewrite cntw_app. change (cntw p [HChild (length (procs st))]) with 0. lia.
  - destruct (idle st tid); cbn [negb]; [|exact H].
    destruct (p_term (get_proc st pid)) eqn:T; cbn [fst].
    + apply advance_tokinv. apply (TokInv_threads st); [reflexivity|exact H].
    + destruct (existsb (hook_eqb (HUser h)) (p_hooks (get_proc st pid))); cbn [fst]; [exact H|].
      apply TokInv_upd; auto. cbn [p_term p_parent p_hooks]. intros _. split; [exact T|]. split; [reflexivity|].
      intros p. rewrite cntw_app. change (cntw p [HUser h]) with 0. lia.
  - destruct (idle st tid); cbn [negb]; [|exact H].
    pose proof (flip_tokinv st pid err H) as F. destruct (flip st pid err) as [st1 taken]. cbn [fst] in *.
    apply advance_tokinv. apply (TokInv_threads st1); [reflexivity|exact F].
  - destruct (t_frames (get_thread st tid)) as [|[[|[x|c0|par|x] hs] err] rest]; cbn [fst]; auto.
    apply advance_tokinv. apply (TokInv_threads st); [reflexivity|exact H].
  - cbn [fst]. apply TokInv_upd; auto.
  - cbn [fst]. apply TokInv_upd; auto.
Qed.

Lemma wreg_app st ps p :
  wreg (mkps (procs st ++ ps) (threads st) (hlog st)) p = wreg st p + list_sum (map (fun q => cntw p (p_hooks q)) ps).
Proof. unfold wreg. cbn [procs]. rewrite map_app. unfold list_sum. rewrite fold_right_app.
  induction (map (fun q => cntw p (p_hooks q)) (procs st)) as [|a l IH]; cbn; [reflexivity|]. rewrite IH. lia.
Qed.

Lemma idle_wfcnt st tid p : idle st tid = true -> wfcnt p (get_thread st tid) = 0.
Proof. unfold idle, wfcnt. destruct (t_frames (get_thread st tid)); [reflexivity|discriminate]. Qed.

(* push a frame on an idle thread *)
Lemma WInv_push st tid fr e :
  tid < length (threads st) -> idle st tid = true ->
  (forall p, p < length (procs st) -> p_wait (get_proc st p) = wreg st p + wfr st p + cntw p fr) ->
  (forall q par, q < length (procs st) -> In (HWaitDone par) (p_hooks (get_proc st q)) -> par < length (procs st)) ->
  (forall j fr par, j < length (threads st) -> In fr (t_frames (get_thread st j)) -> In (HWaitDone par) (fst fr) -> par < length (procs st)) ->
  (forall par, In (HWaitDone par) fr -> par < length (procs st)) ->
  WInv (upd_thread st tid (mkthread [(fr, e)])).
Proof.
  intros L I W1 W2 W3 Wf. split; [|split; [exact W2|]].
  - intros p Lp. change (get_proc (upd_thread st tid (mkthread [(fr, e)])) p) with (get_proc st p).
    change (wreg (upd_thread st tid (mkthread [(fr, e)])) p) with (wreg st p).
    pose proof (wfr_upd_thread st tid (mkthread [(fr, e)]) p L) as U. rewrite (idle_wfcnt st tid p I) in U.
    unfold wfcnt in U. cbn [t_frames map list_sum fold_right fst] in U. rewrite (W1 p Lp). lia.
  - intros j fr' par Lj Ifr Ih. rewrite length_threads_upd in Lj. destruct (Nat.eq_dec j tid) as [->|N].
    + rewrite get_thread_upd_same in Ifr by exact L. cbn in Ifr. destruct Ifr as [<-|[]]. apply Wf, Ih.
    + rewrite get_thread_upd_other in Ifr by exact N. apply (W3 j fr' par); auto.
Qed.

Lemma list_sum_zero {A} (f : A -> nat) l : (forall x, In x l -> f x = 0) -> list_sum (map f l) = 0.
Proof.
  unfold list_sum. induction l as [|a l IH]; intros H; [reflexivity|]. cbn [map fold_right].
  rewrite (H a) by (left; reflexivity). rewrite IH; [reflexivity|]. intros x I. apply H. right. exact I.
Qed.
Lemma list_sum_zero_inv {A} (f : A -> nat) l x : list_sum (map f l) = 0 -> In x l -> f x = 0.
Proof.
  unfold list_sum. induction l as [|a l IH]; intros H I; [contradiction|]. cbn [map fold_right] in H.
  destruct I as [->|I]; [lia|]. apply IH; [lia|exact I].
Qed.

Lemma cntw_zero p l : ~ In (HWaitDone p) l -> cntw p l = 0.
Proof.
  unfold cntw. induction l as [|a l IH]; intros N; [reflexivity|]. cbn.
  destruct a as [x|x|x|x]; cbn; try (apply IH; intros I; apply N; right; exact I).
  destruct (Nat.eqb x p) eqn:E; [apply Nat.eqb_eq in E; subst; exfalso; apply N; left; reflexivity|].
  apply IH. intros I. apply N. right. exact I.
Qed.

(* no WaitDone names a process that does not exist *)
Lemma WInv_fresh st p :
  (forall q par, q < length (procs st) -> In (HWaitDone par) (p_hooks (get_proc st q)) -> par < length (procs st)) ->
  (forall j fr par, j < length (threads st) -> In fr (t_frames (get_thread st j)) -> In (HWaitDone par) (fst fr) -> par < length (procs st)) ->
  length (procs st) <= p -> wreg st p = 0 /\ wfr st p = 0.
Proof.
  intros W2 W3 Lp. split.
  - apply list_sum_zero. intros q Iq. apply cntw_zero. intros I.
    destruct (In_nth _ _ (mkproc true 0 [] [] None 0) Iq) as [i [Li Ei]].
    pose proof (W2 i p Li) as X. unfold get_proc in X. rewrite Ei in X. specialize (X I). lia.
  - apply list_sum_zero. intros t It. apply list_sum_zero. intros fr Ifr. apply cntw_zero. intros I.
    destruct (In_nth _ _ (mkthread []) It) as [j [Lj Ej]].
    pose proof (W3 j fr p Lj) as X. unfold get_thread in X. rewrite Ej in X. specialize (X Ifr I). lia.
Qed.

(* replacing a process by one with the same counter and the same WaitDone hooks *)
Lemma WInv_upd st i x :
  i < length (procs st) -> p_wait x = p_wait (get_proc st i) ->
  (forall p, cntw p (p_hooks x) = cntw p (p_hooks (get_proc st i))) ->
  (forall par, In (HWaitDone par) (p_hooks x) -> In (HWaitDone par) (p_hooks (get_proc st i))) ->
  WInv st -> WInv (upd_proc st i x).
Proof.
  intros Li Ew Ec Eh [W1 [W2 W3]].
  assert (Len : length (procs (upd_proc st i x)) = length (procs st)) by (unfold upd_proc; cbn; apply set_nth_length).
  split; [|split].
  - intros p Lp. rewrite Len in Lp. change (wfr (upd_proc st i x) p) with (wfr st p).
    pose proof (wreg_upd_proc st i x p Li) as X. rewrite Ec in X.
    destruct (Nat.eq_dec i p) as [->|N]; [rewrite get_upd_same by exact Lp; rewrite Ew, (W1 p Lp); lia|].
    rewrite get_upd_other by exact N. rewrite (W1 p Lp). lia.
  - intros q par Lq Ih. rewrite Len in *. destruct (Nat.eq_dec i q) as [->|N].
    + rewrite get_upd_same in Ih by exact Lq. apply (W2 q par); auto.
    + rewrite get_upd_other in Ih by exact N. apply (W2 q par); auto.
  - intros j fr par Lj Ifr Ih. rewrite Len. apply (W3 j fr par); auto.
Qed.

Lemma p_step_winv st op : op_ok st op -> WInv st -> WInv (fst (p_step st op)).
Proof.
  intros [R Rp] [W1 [W2 W3]]. destruct op as [|tid pid|tid pid h|tid pid err|tid|pid k v|pid k]; cbn [p_step]; cbn in R, Rp.
  - (* PNew *)
    cbn [fst]. split; [|split].
    + intros p Lp. rewrite wreg_app. cbn [procs] in Lp. rewrite app_length in Lp. cbn in Lp.
      change (list_sum (map (fun q => cntw p (p_hooks q)) [mkproc false 0 [] [] None 0])) with 0.
      change (wfr (mkps (procs st ++ [mkproc false 0 [] [] None 0]) (threads st) (hlog st)) p) with (wfr st p).
      destruct (Nat.lt_ge_cases p (length (procs st))) as [Hp|Hp].
      * unfold get_proc. cbn [procs]. rewrite app_nth1 by exact Hp. fold (get_proc st p). rewrite (W1 p Hp). lia.
      * assert (p = length (procs st)) by lia. subst p. unfold get_proc. cbn [procs]. rewrite app_nth2, Nat.sub_diag by lia. cbn [nth p_wait].
        destruct (WInv_fresh st (length (procs st)) W2 W3 (Nat.le_refl _)) as [Z1 Z2]. lia.
    + intros q par Lq Ih. cbn [procs] in *. rewrite app_length in *. cbn in Lq.
      destruct (Nat.lt_ge_cases q (length (procs st))) as [Hq|Hq].
      * unfold get_proc in Ih. cbn [procs] in Ih. rewrite app_nth1 in Ih by exact Hq. pose proof (W2 q par Hq Ih). cbn. lia.
      * assert (q = length (procs st)) by lia. subst q. unfold get_proc in Ih. cbn [procs] in Ih. rewrite app_nth2, Nat.sub_diag in Ih by lia. cbn in Ih. contradiction.
    + intros j fr par Lj Ifr Ih. cbn [procs]. rewrite app_length. pose proof (W3 j fr par Lj Ifr Ih). lia.
  - (* PFork *)
    destruct (idle st tid) eqn:I; cbn [negb]; [|split; [exact W1|split; [exact W2|exact W3]]].
    set (p0 := get_proc st pid).
    set (p' := mkproc (p_term p0) (p_err p0) (p_hooks p0) (p_data p0) (p_parent p0) (S (p_wait p0))).
    set (st1 := mkps (set_nth pid p' (procs st) ++ [mkproc false 0 [HWaitDone pid] [] (Some pid) 0]) (threads st) (hlog st)).
    assert (Len1 : length (procs st1) = S (length (procs st))) by (cbn; rewrite app_length, set_nth_length; cbn; lia).
    assert (G1 : forall i, i < length (procs st) -> get_proc st1 i = get_proc (upd_proc st pid p') i).
    { intros i Li. unfold get_proc, st1, upd_proc. cbn [procs]. rewrite app_nth1 by (rewrite set_nth_length; exact Li). reflexivity. }
    assert (Gc : get_proc st1 (length (procs st)) = mkproc false 0 [HWaitDone pid] [] (Some pid) 0).
    { unfold get_proc, st1. cbn [procs]. rewrite app_nth2 by (rewrite set_nth_length; lia). rewrite set_nth_length, Nat.sub_diag. reflexivity. }
    assert (WR : forall p, wreg st1 p = wreg st p + (if Nat.eqb pid p then 1 else 0)).
    { intros p. change st1 with (mkps (procs (upd_proc st pid p') ++ [mkproc false 0 [HWaitDone pid] [] (Some pid) 0]) (threads (upd_proc st pid p')) (hlog (upd_proc st pid p'))).
      rewrite wreg_app, (wreg_same_hooks st pid p' p eq_refl). cbn [map list_sum fold_right p_hooks]. rewrite cntw_single. lia. }
    assert (W1' : forall p, p < length (procs st1) -> p_wait (get_proc st1 p) = wreg st1 p + wfr st1 p).
    { intros p Lp. rewrite Len1 in Lp. rewrite WR. change (wfr st1 p) with (wfr st p).
      destruct (Nat.lt_ge_cases p (length (procs st))) as [Hp|Hp].
      - rewrite (G1 p Hp). destruct (Nat.eq_dec pid p) as [->|N].
        + rewrite get_upd_same by exact Hp. cbn [p_wait p']. rewrite Nat.eqb_refl. unfold p0. rewrite (W1 p Hp). lia.
        + rewrite get_upd_other by exact N. destruct (Nat.eqb pid p) eqn:E; [apply Nat.eqb_eq in E; congruence|]. rewrite (W1 p Hp). lia.
      - assert (p = length (procs st)) by lia. subst p. rewrite Gc. cbn [p_wait].
        destruct (WInv_fresh st (length (procs st)) W2 W3 (Nat.le_refl _)) as [Z1 Z2].
        destruct (Nat.eqb pid (length (procs st))) eqn:E; [apply Nat.eqb_eq in E; lia|]. lia. }
    assert (W2' : forall q par, q < length (procs st1) -> In (HWaitDone par) (p_hooks (get_proc st1 q)) -> par < length (procs st1)).
    { intros q par Lq Ih. rewrite Len1 in *. destruct (Nat.lt_ge_cases q (length (procs st))) as [Hq|Hq].
      - rewrite (G1 q Hq) in Ih. destruct (Nat.eq_dec pid q) as [->|N].
        + rewrite get_upd_same in Ih by exact Hq. cbn in Ih. pose proof (W2 q par Hq Ih). lia.
        + rewrite get_upd_other in Ih by exact N. pose proof (W2 q par Hq Ih). lia.
      - assert (q = length (procs st)) by lia. subst q. rewrite Gc in Ih. cbn in Ih. destruct Ih as [E|[]]. inversion E; subst. lia. }
    assert (W3' : forall j fr par, j < length (threads st1) -> In fr (t_frames (get_thread st1 j)) -> In (HWaitDone par) (fst fr) -> par < length (procs st1)).
    { intros j fr par Lj Ifr Ih. rewrite Len1. pose proof (W3 j fr par Lj Ifr Ih). lia. }
    destruct (p_term (get_proc st1 pid)) eqn:T.
    + (* parent terminated: the child is flipped and its WaitDone runs on this thread *)
      assert (Lc : length (procs st) < length (procs st1)) by lia.
      assert (FS : flip st1 (length (procs st)) (p_err (get_proc st1 pid)) =
                   (upd_proc st1 (length (procs st)) (mkproc true (p_err (get_proc st1 pid)) [] [] (Some pid) 0), [HWaitDone pid])).
      { unfold flip. rewrite Gc. cbn. reflexivity. }
      rewrite FS. cbn [fst].
      set (st2 := upd_proc st1 (length (procs st)) (mkproc true (p_err (get_proc st1 pid)) [] [] (Some pid) 0)).
      assert (Len2 : length (procs st2) = length (procs st1)) by (unfold st2, upd_proc; cbn [procs]; apply set_nth_length).
      apply advance_winv; [rewrite length_threads_upd; exact R|].
      apply WInv_push; [exact R|exact I| | | |].
      * intros p Lp. rewrite Len2 in Lp. change (wfr st2 p) with (wfr st1 p).
        pose proof (wreg_upd_proc st1 (length (procs st)) (mkproc true (p_err (get_proc st1 pid)) [] [] (Some pid) 0) p Lc) as X.
        rewrite Gc in X. cbn [p_hooks] in X. change (cntw p []) with 0 in X. fold st2 in X. rewrite cntw_rev.
        destruct (Nat.eq_dec (length (procs st)) p) as [<-|N].
        -- unfold st2. rewrite get_upd_same by exact Lc. cbn [p_wait]. pose proof (W1' _ Lc) as Y. rewrite Gc in Y. cbn [p_wait] in Y. fold st2. lia.
        -- unfold st2. rewrite get_upd_other by exact N. fold st2. rewrite (W1' p Lp). lia.
      * intros q par Lq Ih. rewrite Len2 in *. destruct (Nat.eq_dec (length (procs st)) q) as [<-|N].
        -- unfold st2 in Ih. rewrite get_upd_same in Ih by exact Lc. cbn in Ih. contradiction.
        -- unfold st2 in Ih. rewrite get_upd_other in Ih by exact N. apply (W2' q par); auto.
      * intros j fr par Lj Ifr Ih. rewrite Len2. apply (W3' j fr par); auto.
      * intros par Ih. cbn in Ih. destruct Ih as [E|[]]. inversion E; subst. rewrite Len2. lia.
    + cbn [fst]. set (p1 := get_proc st1 pid).
      assert (Lp1 : pid < length (procs st1)) by lia.
      apply WInv_upd; [exact Lp1|reflexivity| | |split; [exact W1'|split; [exact W2'|exact W3']]].
      * intros p. cbn [p_hooks]. rewrite cntw_app. change (cntw p [HChild (length (procs st))]) with 0. fold p1. lia.
      * intros par Ih. cbn [p_hooks] in Ih. apply in_app_or in Ih. destruct Ih as [Ih|[E|[]]]; [exact Ih|discriminate].
  - (* PAddHook *)
    destruct (idle st tid) eqn:I; cbn [negb]; [|split; [exact W1|split; [exact W2|exact W3]]].
    destruct (p_term (get_proc st pid)) eqn:T; cbn [fst].
    + apply advance_winv; [rewrite length_threads_upd; exact R|].
      apply WInv_push; auto.
      * intros p Lp. change (cntw p [HUser h]) with 0. rewrite (W1 p Lp). lia.
      * intros par Ih. destruct Ih as [E|[]]. discriminate.
    + destruct (existsb (hook_eqb (HUser h)) (p_hooks (get_proc st pid))); cbn [fst]; [split; [exact W1|split; [exact W2|exact W3]]|].
      apply WInv_upd; [exact Rp|reflexivity| | |split; [exact W1|split; [exact W2|exact W3]]].
      * intros p. cbn [p_hooks]. rewrite cntw_app. change (cntw p [HUser h]) with 0. lia.
      * intros par Ih. cbn [p_hooks] in Ih. apply in_app_or in Ih. destruct Ih as [Ih|[E|[]]]; [exact Ih|discriminate].
  - (* PExit *)
    destruct (idle st tid) eqn:I; cbn [negb]; [|split; [exact W1|split; [exact W2|exact W3]]].
    pose proof (flip_tok st pid err 0) as [_ [Th _]].
    assert (FW : forall p, wreg (fst (flip st pid err)) p + cntw p (snd (flip st pid err)) = wreg st p) by (intros p; apply flip_w).
    destruct (flip_w st pid err 0) as [_ [Len [Wt [Hk Tk]]]].
    destruct (flip st pid err) as [st1 taken] eqn:FL. cbn [fst snd] in *.
    assert (L1 : tid < length (threads st1)) by (rewrite Th; exact R).
    assert (I1 : idle st1 tid = true) by (unfold idle, get_thread in *; rewrite Th; exact I).
    apply advance_winv; [rewrite length_threads_upd; exact L1|].
    apply WInv_push; auto.
    + intros p Lp. rewrite Len in Lp. rewrite cntw_rev, Wt, (W1 p Lp).
      assert (Us : wfr st1 p = wfr st p) by (unfold wfr; rewrite Th; reflexivity). pose proof (FW p). lia.
    + intros q par Lq Ih. rewrite Len in *. apply (W2 q par); auto.
    + intros j fr par Lj Ifr Ih. rewrite Len. rewrite Th in Lj. unfold get_thread in Ifr. rewrite Th in Ifr. apply (W3 j fr par); auto.
    + intros par Ih. apply in_rev_elim in Ih. destruct (Tk _ Ih) as [Lq Iq]. rewrite Len. apply (W2 pid par); auto.
  - (* PStep *)
    destruct (t_frames (get_thread st tid)) as [|[[|[x|c0|par|x] hs] err] rest] eqn:F; cbn [fst]; try (split; [exact W1|split; [exact W2|exact W3]]).
    apply advance_winv; [rewrite length_threads_upd; exact R|].
    split; [|split; [exact W2|]].
    + intros p Lp. change (get_proc (upd_thread st tid (mkthread ((hs, err) :: rest))) p) with (get_proc st p).
      change (wreg (upd_thread st tid (mkthread ((hs, err) :: rest))) p) with (wreg st p).
      pose proof (wfr_upd_thread st tid (mkthread ((hs, err) :: rest)) p R) as U. unfold wfcnt in U. rewrite F in U.
      cbn [t_frames map list_sum fold_right fst] in U. change (cntw p (HParked x :: hs)) with (cntw p hs) in U. rewrite (W1 p Lp). lia.
    + intros j fr par Lj Ifr Ih. rewrite length_threads_upd in Lj. destruct (Nat.eq_dec j tid) as [->|N].
      * rewrite get_thread_upd_same in Ifr by exact R. cbn in Ifr. destruct Ifr as [<-|Ifr].
        -- apply (W3 tid (HParked x :: hs, err) par); auto. rewrite F. left. reflexivity. right. exact Ih.
        -- apply (W3 tid fr par); auto. rewrite F. right. exact Ifr.
      * rewrite get_thread_upd_other in Ifr by exact N. apply (W3 j fr par); auto.
  - (* PSet *) cbn [fst]. apply WInv_upd; auto. split; [exact W1|split; [exact W2|exact W3]].
  - (* PRemove *) cbn [fst]. apply WInv_upd; auto. split; [exact W1|split; [exact W2|exact W3]].
Qed.

Lemma run_inv_from st ops :
  ok_from st ops -> WInv st -> TokInv st ->
  WInv (fold_left (fun st op => fst (p_step st op)) ops st) /\ TokInv (fold_left (fun st op => fst (p_step st op)) ops st).
Proof.
  revert st. induction ops as [|op ops IH]; intros st OK W T; cbn [fold_left]; [auto|].
  destruct OK as [OKop OKr]. apply IH; auto using p_step_winv, p_step_tokinv.
Qed.

Lemma wfr_zero st p : (forall t, In t (threads st) -> t_frames t = []) -> wfr st p = 0.
Proof.
  intros H. apply list_sum_zero. intros t It. unfold wfcnt. rewrite (H t It). reflexivity.
Qed.

(* Join: once no thread has anything left to run, the WaitGroup counter of a process is zero - Join returns -
   exactly when every process forked from it has terminated *)
Theorem join_waits n ops :
  ok_from (p_init n) ops ->
  let st := p_run n ops in
  (forall t, In t (threads st) -> t_frames t = []) ->
  forall p, p < length (procs st) ->
    (p_wait (get_proc st p) = 0 <->
     forall c, c < length (procs st) -> p_parent (get_proc st c) = Some p -> p_term (get_proc st c) = true).
Proof.
  intros OK st Done p Lp.
  destruct (run_inv_from (p_init n) ops OK) as [[W1 _] TI].
  { split; [|split]; cbn; [intros q Lq; lia|intros q par Lq; lia|intros j fr par Lj Ifr; rewrite nth_repeat in Ifr; contradiction]. }
  { intros q q' Lq. cbn in Lq. lia. }
  fold (p_run n ops) in W1, TI. fold st in W1, TI.
  rewrite (W1 p Lp), (wfr_zero st p Done), Nat.add_0_r.
  pose proof (p_run_nohooks n ops) as NH. fold st in NH.
  split.
  - intros Z c Lc Pc. destruct (p_term (get_proc st c)) eqn:T; [reflexivity|]. exfalso.
    assert (Ic : In (get_proc st c) (procs st)) by (unfold get_proc; apply nth_In; exact Lc).
    pose proof (list_sum_zero_inv (fun q => cntw p (p_hooks q)) (procs st) (get_proc st c) Z Ic) as X. cbn beta in X.
    rewrite (TI c p Lc T) in X. unfold parent_is in X. rewrite Pc, Nat.eqb_refl in X. discriminate.
  - intros H. apply list_sum_zero. intros q Iq. destruct (In_nth _ _ (mkproc true 0 [] [] None 0) Iq) as [c [Lc Ec]].
    fold (get_proc st c) in Ec. subst q. destruct (p_term (get_proc st c)) eqn:T.
    + rewrite (nohooks_get st c NH T). reflexivity.
    + rewrite (TI c p Lc T). unfold parent_is. destruct (p_parent (get_proc st c)) as [x|] eqn:Pc; [|reflexivity].
      destruct (Nat.eqb x p) eqn:E; [|reflexivity]. apply Nat.eqb_eq in E. subst x. rewrite (H c Lc Pc) in T. discriminate.
Qed.
