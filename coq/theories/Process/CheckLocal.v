(* Correspondence checker for C05: the macro-step model (a worker runs until it enters user code,
   returns, or has to wait for a lock) against what the harness observed on real process.Local,
   port.InPort / port.OutPort and process.Process objects. *)
From Coq Require Import List Arith NArith Bool.
From Uf Require Import Process.Local.
Import ListNotations.

Fixpoint mismatches_from {A} (ok : A -> bool) (i : nat) (l : list A) : list nat :=
  match l with
  | [] => []
  | c :: t => if ok c then mismatches_from ok (S i) t else i :: mismatches_from ok (S i) t
  end.
Definition mismatches {A} (ok : A -> bool) (l : list A) : list nat := mismatches_from ok 0 l.

Fixpoint list_eqb {A} (f : A -> A -> bool) (l l' : list A) : bool :=
  match l, l' with
  | [], [] => true
  | a :: t, b :: t' => f a b && list_eqb f t t'
  | _, _ => false
  end.

(* an observable event: (worker, kind, payload) *)
Definition oev := (nat * nat * list nat)%type.
Definition oev_eqb (a b : oev) : bool :=
  let '(t1, k1, p1) := a in let '(t2, k2, p2) := b in
  Nat.eqb t1 t2 && Nat.eqb k1 k2 && list_eqb Nat.eqb p1 p2.

Definition b2n (b : bool) : nat := if b then 1 else 0.

(* callbacks are logged when they return; the ghost events (EInit, EDel, EClear) and the results of
   port opens (which reader/writer object came back) are not observed *)
Definition view_event (st : lstate) (e : event) : list oev :=
  match e with
  | ECb t (CbStoreHook h v) => [(t, 1, [h; v])]
  | ECb t (CbInit g) => [(t, 2, [c_proc (get_cell st g); c_fn (get_cell st g)])]
  | ECb t (CbOpen r p) => [(t, 3, [r; p])]
  | ECb t (CbUserExit k) => [(t, 4, [k])]
  | ERet t RUnit => [(t, 10, [])]
  | ERet t (RBool b) => [(t, 11, [b2n b])]
  | ERet t (RLoad None) => [(t, 12, [])]
  | ERet t (RLoad (Some v)) => [(t, 12, [v])]
  | ERet t (RLos v err) => [(t, 13, [v; b2n err])]
  | ERet t (RKeys l) => [(t, 14, l)]
  | _ => []
  end.

Definition status (st : lstate) (t : nat) : nat :=
  match cont (get_thread st t) with
  | [] => 0
  | Cb _ :: _ => 1
  | _ => 2
  end.

Record obs05 := mkobs05 {
  o_status : list nat;            (* per worker: 0 returned, 1 held in user code, 2 waits for a lock *)
  o_sizes : nat * nat * nat;      (* len(eager), len(lazy), len(storeHooks) *)
  o_ports : list nat;             (* endpoints per port *)
  o_alive : list bool;            (* per process: still running *)
  o_events : list oev             (* since the previous step *)
}.

Record c05case := mk05 { c05threads : nat; c05ports : list (bool * list nat); c05steps : list (mop * obs05) }.

Definition count_port (st : lstate) (r : nat) : nat := length (filter (fun e => Nat.eqb (fst e) r) (pents st)).

Definition per_thread_ok (n : nat) (a b : list oev) : bool :=
  forallb (fun t => list_eqb oev_eqb (filter (fun e => Nat.eqb (fst (fst e)) t) a)
                                     (filter (fun e => Nat.eqb (fst (fst e)) t) b)) (seq 0 n).

Fixpoint c05run (st : lstate) (steps : list (mop * obs05)) : bool :=
  match steps with
  | [] => true
  | (op, ob) :: rest =>
      let st' := m_step st op in
      let n := length (threads st') in
      let new_events := flat_map (view_event st') (skipn (length (log st)) (log st')) in
      list_eqb Nat.eqb (map (status st') (seq 0 n)) (o_status ob) &&
      (let '(a, b, c) := o_sizes ob in
       Nat.eqb (length (eager st')) a && Nat.eqb (length (lazy st')) b && Nat.eqb (length (shooks st')) c) &&
      list_eqb Nat.eqb (map (count_port st') (seq 0 (length (pcfg st')))) (o_ports ob) &&
      list_eqb Bool.eqb (map alive (procs st')) (o_alive ob) &&
      per_thread_ok n new_events (o_events ob) &&
      c05run st' rest
  end.

Definition c05ok (c : c05case) : bool := c05run (l_init (c05threads c) (c05ports c)) (c05steps c).

(* diagnosis: index of the first step that differs and what the model expected there *)
Fixpoint c05first (st : lstate) (steps : list (mop * obs05)) (i : nat) :=
  match steps with
  | [] => None
  | (op, ob) :: rest =>
      let st' := m_step st op in
      if c05run st [(op, ob)] then c05first st' rest (S i)
      else Some (i, map (status st') (seq 0 (length (threads st'))),
                 (length (eager st'), length (lazy st'), length (shooks st')),
                 map (count_port st') (seq 0 (length (pcfg st'))),
                 flat_map (view_event st') (skipn (length (log st)) (log st')))
  end.
