(* Invariants of the process model (C04): termination is permanent, the exit error is fixed by the
   first Exit, a terminated process holds no hooks (they are taken exactly once, by the flip) and
   no values of its own from before the flip. *)
From Coq Require Import List NArith ZArith Bool Lia.
From Uf Require Import Process.Process.
Import ListNotations.

(* "st' extends st": same or more processes; terminated ones keep status and error *)
Definition ext (st st' : pstate) : Prop :=
  length (procs st) <= length (procs st') /\
  forall pid, pid < length (procs st) -> p_term (get_proc st pid) = true ->
              p_term (get_proc st' pid) = true /\ p_err (get_proc st' pid) = p_err (get_proc st pid).

Lemma ext_refl st : ext st st.
Proof. split; auto. Qed.

Lemma ext_trans a b c : ext a b -> ext b c -> ext a c.
Proof.
  intros [L1 H1] [L2 H2]. split; [lia|]. intros pid Hp T.
  destruct (H1 pid Hp T) as [T1 E1]. destruct (H2 pid ltac:(lia) T1) as [T2 E2]. split; congruence.
Qed.

Lemma set_nth_length {A} n (x : A) l : length (set_nth n x l) = length l.
Proof. revert n. induction l; intros [|n]; simpl; auto. Qed.

Lemma nth_set_nth_same {A} n (x d : A) l : n < length l -> nth n (set_nth n x l) d = x.
Proof. revert n. induction l; intros [|n] H; simpl in *; auto; try lia. apply IHl. lia. Qed.

Lemma nth_set_nth_other {A} n m (x d : A) l : n <> m -> nth m (set_nth n x l) d = nth m l d.
Proof. revert n m. induction l; intros [|n] [|m] H; simpl; auto; try congruence. Qed.

Lemma get_upd_same st pid p : pid < length (procs st) -> get_proc (upd_proc st pid p) pid = p.
Proof. intros H. unfold get_proc, upd_proc. cbn [procs]. apply nth_set_nth_same. exact H. Qed.

Lemma get_upd_other st pid q p : pid <> q -> get_proc (upd_proc st pid p) q = get_proc st q.
Proof. intros H. unfold get_proc, upd_proc. cbn [procs]. apply nth_set_nth_other. exact H. Qed.

(* replacing a process by one with the same status and error, or terminating a running one *)
Lemma ext_upd st pid p :
  (p_term (get_proc st pid) = true -> p_term p = true /\ p_err p = p_err (get_proc st pid)) ->
  ext st (upd_proc st pid p).
Proof.
  intros H. split; [unfold upd_proc; cbn [procs]; rewrite set_nth_length; lia|].
  intros q Hq T. destruct (Nat.eq_dec pid q) as [->|Ne].
  - rewrite get_upd_same by exact Hq. apply H. exact T.
  - rewrite get_upd_other by exact Ne. auto.
Qed.

Lemma ext_upd_thread st tid t : ext st (upd_thread st tid t).
Proof. split; auto. Qed.

Lemma flip_ext st pid err : ext st (fst (flip st pid err)).
Proof.
  unfold flip. destruct (p_term (get_proc st pid)) eqn:T; cbn [fst]; [apply ext_refl|].
  apply ext_upd. congruence.
Qed.

Lemma advance_ext fuel : forall st tid, ext st (advance fuel st tid).
Proof.
  induction fuel as [|fuel IH]; intros st tid; cbn [advance]; [apply ext_refl|].
  destruct (t_frames (get_thread st tid)) as [|[[|h hs] err] rest]; [apply ext_refl| |].
  - eapply ext_trans; [|apply IH]. apply ext_upd_thread.
  - destruct h.
    + split; auto.
    + pose proof (flip_ext st pid err) as F. destruct (flip st pid err) as [st1 taken]. cbn [fst] in F.
      eapply ext_trans; [exact F|]. eapply ext_trans; [|apply IH]. apply ext_upd_thread.
    + eapply ext_trans; [|apply IH]. eapply ext_trans; [|apply ext_upd_thread].
      apply ext_upd. cbn. auto.
    + apply ext_refl.
Qed.

Lemma ext_app st (ps : list proc) : ext st (mkps (procs st ++ ps) (threads st) (hlog st)).
Proof.
  split; [cbn; rewrite app_length; lia|]. intros pid Hp T. unfold get_proc. cbn [procs].
  rewrite app_nth1 by exact Hp. auto.
Qed.

Theorem p_step_ext st op : ext st (fst (p_step st op)).
Proof.
  destruct op; cbn [p_step].
  - apply ext_app.
  - destruct (negb (idle st tid)); [apply ext_refl|].
    set (p := get_proc st pid).
    set (st1 := mkps (set_nth pid (mkproc (p_term p) (p_err p) (p_hooks p) (p_data p) (p_parent p) (S (p_wait p))) (procs st)
                       ++ [mkproc false 0 [HWaitDone pid] [] (Some pid) 0]) (threads st) (hlog st)).
    assert (E1 : ext st st1).
    { eapply ext_trans; [apply (ext_upd st pid (mkproc (p_term p) (p_err p) (p_hooks p) (p_data p) (p_parent p) (S (p_wait p))))|].
      - cbn. auto.
      - apply (ext_app (upd_proc st pid _)). }
    destruct (p_term (get_proc st1 pid)) eqn:T.
    + pose proof (flip_ext st1 (length (procs st)) (p_err (get_proc st1 pid))) as F.
      destruct (flip st1 _ _) as [st2 taken]. cbn [fst] in *.
      eapply ext_trans; [exact E1|]. eapply ext_trans; [exact F|]. eapply ext_trans; [|apply advance_ext]. apply ext_upd_thread.
    + cbn [fst]. eapply ext_trans; [exact E1|]. apply ext_upd. congruence.
  - destruct (negb (idle st tid)); [apply ext_refl|].
    destruct (p_term (get_proc st pid)) eqn:T; cbn [fst].
    + eapply ext_trans; [|apply advance_ext]. apply ext_upd_thread.
    + destruct (existsb _ _); cbn [fst]; [apply ext_refl|]. apply ext_upd. congruence.
  - destruct (negb (idle st tid)); [apply ext_refl|].
    pose proof (flip_ext st pid err) as F. destruct (flip st pid err) as [st1 taken]. cbn [fst] in *.
    eapply ext_trans; [exact F|]. eapply ext_trans; [|apply advance_ext]. apply ext_upd_thread.
  - destruct (t_frames (get_thread st tid)) as [|[[|[] hs] err] rest]; cbn [fst]; try apply ext_refl.
    eapply ext_trans; [|apply advance_ext]. apply ext_upd_thread.
  - apply ext_upd. cbn. auto.
  - apply ext_upd. cbn. auto.
Qed.

(* ---- a terminated process holds no hooks ---- *)
Definition nohooks (st : pstate) : Prop :=
  forall p, In p (procs st) -> p_term p = true -> p_hooks p = [].

Lemma in_set_nth {A} n (x : A) l y : In y (set_nth n x l) -> y = x \/ In y l.
Proof. revert n. induction l; intros [|n]; simpl; intros H; auto; destruct H; auto. destruct (IHl _ H); auto. Qed.

Lemma nohooks_upd st pid p : nohooks st -> (p_term p = true -> p_hooks p = []) -> nohooks (upd_proc st pid p).
Proof.
  intros H Hp q Hq T. unfold upd_proc in Hq. cbn [procs] in Hq.
  destruct (in_set_nth _ _ _ _ Hq) as [->|Hin]; auto.
Qed.

Lemma flip_nohooks st pid err : nohooks st -> nohooks (fst (flip st pid err)).
Proof.
  intros H. unfold flip. destruct (p_term (get_proc st pid)); cbn [fst]; auto.
  apply nohooks_upd; auto.
Qed.

Lemma nth_in_or_default {A} n (l : list A) d : In (nth n l d) l \/ nth n l d = d.
Proof. destruct (nth_in_or_default n l d); auto. Qed.

Lemma advance_nohooks fuel : forall st tid, nohooks st -> nohooks (advance fuel st tid).
Proof.
  induction fuel as [|fuel IH]; intros st tid H; cbn [advance]; [exact H|].
  destruct (t_frames (get_thread st tid)) as [|[[|h hs] err] rest]; [exact H| |].
  - apply IH. exact H.
  - destruct h; [exact H| | |exact H].
    + pose proof (flip_nohooks st pid err H) as F. destruct (flip st pid err) as [st1 taken]. cbn [fst] in F.
      apply IH. exact F.
    + apply IH. unfold upd_thread. cbn [procs]. apply (nohooks_upd st pid); auto. cbn [p_term p_hooks].
      intros T. destruct (nth_in_or_default pid (procs st) (mkproc true 0 [] [] None 0)) as [Hin|E].
      * apply (H _ Hin T).
      * unfold get_proc. rewrite E. reflexivity.
Qed.

Lemma nohooks_get st pid : nohooks st -> p_term (get_proc st pid) = true -> p_hooks (get_proc st pid) = [].
Proof.
  intros H T. unfold get_proc in *.
  destruct (nth_in_or_default pid (procs st) (mkproc true 0 [] [] None 0)) as [Hin|E]; [apply (H _ Hin T)|].
  rewrite E. reflexivity.
Qed.

Theorem p_step_nohooks st op : nohooks st -> nohooks (fst (p_step st op)).
Proof.
  intros H. destruct op; cbn [p_step].
  - intros p Hp T. cbn [procs] in Hp. apply in_app_or in Hp. destruct Hp as [Hp|[<-|[]]]; auto; discriminate.
  - destruct (negb (idle st tid)); auto.
    set (p := get_proc st pid).
    set (st1 := mkps (set_nth pid (mkproc (p_term p) (p_err p) (p_hooks p) (p_data p) (p_parent p) (S (p_wait p))) (procs st)
                       ++ [mkproc false 0 [HWaitDone pid] [] (Some pid) 0]) (threads st) (hlog st)).
    assert (N1 : nohooks st1).
    { intros q Hq T. cbn [procs st1] in Hq. apply in_app_or in Hq. destruct Hq as [Hq|[<-|[]]]; [|discriminate].
      destruct (in_set_nth _ _ _ _ Hq) as [->|Hin]; auto. cbn [p_term p_hooks] in *. apply nohooks_get; auto. }
    destruct (p_term (get_proc st1 pid)) eqn:T.
    + pose proof (flip_nohooks st1 (length (procs st)) (p_err (get_proc st1 pid)) N1) as F.
      destruct (flip st1 _ _) as [st2 taken]. cbn [fst] in *. apply advance_nohooks. exact F.
    + cbn [fst]. apply nohooks_upd; auto. discriminate.
  - destruct (negb (idle st tid)); auto.
    destruct (p_term (get_proc st pid)) eqn:T; cbn [fst].
    + apply advance_nohooks. exact H.
    + destruct (existsb _ _); cbn [fst]; auto. apply nohooks_upd; auto. discriminate.
  - destruct (negb (idle st tid)); auto.
    pose proof (flip_nohooks st pid err H) as F. destruct (flip st pid err) as [st1 taken]. cbn [fst] in *.
    apply advance_nohooks. exact F.
  - destruct (t_frames (get_thread st tid)) as [|[[|[] hs] err] rest]; cbn [fst]; auto.
    apply advance_nohooks. exact H.
  - apply nohooks_upd; auto. cbn. apply nohooks_get. exact H.
  - apply nohooks_upd; auto. cbn. apply nohooks_get. exact H.
Qed.

Theorem p_run_nohooks n ops : nohooks (p_run n ops).
Proof.
  unfold p_run. assert (G : forall st, nohooks st -> nohooks (fold_left (fun st op => fst (p_step st op)) ops st)).
  { induction ops as [|op ops IH]; intros st H; cbn [fold_left]; auto. apply IH, p_step_nohooks, H. }
  apply G. intros p [].
Qed.

(* the flip takes the hooks, clears the values, fixes the error; hooks then run in reverse order *)
Lemma flip_spec st pid err st' taken : flip st pid err = (st', taken) -> pid < length (procs st) ->
  p_term (get_proc st pid) = false ->
  taken = p_hooks (get_proc st pid) /\
  p_term (get_proc st' pid) = true /\ p_err (get_proc st' pid) = err /\
  p_data (get_proc st' pid) = [] /\ p_hooks (get_proc st' pid) = [].
Proof.
  unfold flip. intros H L T. rewrite T in H. injection H as <- <-.
  rewrite get_upd_same by exact L. cbn. auto.
Qed.
