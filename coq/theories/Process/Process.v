(* Model of pkg/process/process.go: status flip, exit hooks, Fork/Join, values.
   Threads: a call of Exit is an atomic "flip" (the critical section that takes the hooks and marks
   the process terminated) followed by the hooks in reverse order; a child registered on its parent
   is a hook whose invocation is a nested Exit.  A thread advances to the next *user* hook invocation
   (internal hooks - child flips, WaitGroup.Done - run in between), which is the granularity at
   which the harness can hold the real code. *)
From Coq Require Import List NArith ZArith Bool Lia.
Import ListNotations.

Inductive hook :=
| HUser (id : nat)        (* a hook function supplied by the user *)
| HChild (pid : nat)      (* Fork: the child is registered on the parent *)
| HWaitDone (pid : nat)   (* Fork: the child's own first hook, parent.wait.Done() *)
| HParked (id : nat).     (* a user hook that has been entered (logged) and has not returned yet: only ever the head of a thread's top frame *)

Definition hook_eqb (a b : hook) : bool :=
  match a, b with
  | HUser x, HUser y | HChild x, HChild y | HWaitDone x, HWaitDone y | HParked x, HParked y => Nat.eqb x y
  | _, _ => false
  end.

Record proc := mkproc {
  p_term : bool;                   (* StatusTerminated *)
  p_err : nat;                     (* exit error (0 = nil) *)
  p_hooks : list hook;             (* registration order *)
  p_data : list (nat * nat);
  p_parent : option nat;
  p_wait : nat                     (* WaitGroup counter *)
}.

(* a thread: frames of hooks still to run (each with the error of the Exit that took them);
   the head hook of the top frame, when it is a user hook, has been entered and is parked *)
Record thread := mkthread { t_frames : list (list hook * nat) }.

Record pstate := mkps {
  procs : list proc;
  threads : list thread;
  hlog : list (nat * nat)          (* user hook invocations: (hook id, error received) *)
}.

Inductive pop :=
| PNew                                   (* process.New() *)
| PFork (tid pid : nat)                  (* pid.Fork() on thread tid *)
| PAddHook (tid pid h : nat)             (* pid.AddExitHook(user hook h) *)
| PExit (tid pid err : nat)              (* thread tid calls pid.Exit(err) *)
| PStep (tid : nat)                      (* release the parked user hook of thread tid *)
| PSet (pid k v : nat)
| PRemove (pid k : nat).

Definition get_proc (st : pstate) (pid : nat) : proc := nth pid (procs st) (mkproc true 0 [] [] None 0).

Fixpoint set_nth {A} (n : nat) (x : A) (l : list A) : list A :=
  match l, n with
  | [], _ => []
  | _ :: t, O => x :: t
  | a :: t, S n' => a :: set_nth n' x t
  end.

Definition upd_proc (st : pstate) (pid : nat) (p : proc) : pstate :=
  mkps (set_nth pid p (procs st)) (threads st) (hlog st).

Definition get_thread (st : pstate) (tid : nat) : thread := nth tid (threads st) (mkthread []).
Definition upd_thread (st : pstate) (tid : nat) (t : thread) : pstate :=
  mkps (procs st) (set_nth tid t (threads st)) (hlog st).

(* the critical section of Exit: returns the hooks taken (registration order) *)
Definition flip (st : pstate) (pid err : nat) : pstate * list hook :=
  let p := get_proc st pid in
  if p_term p then (st, [])
  else (upd_proc st pid (mkproc true err [] [] (p_parent p) (p_wait p)), p_hooks p).

(* run internal hooks of thread tid until a user hook is entered (logged, parked) or nothing is left *)
Fixpoint advance (fuel : nat) (st : pstate) (tid : nat) : pstate :=
  match fuel with
  | O => st
  | S fuel' =>
      match t_frames (get_thread st tid) with
      | [] => st
      | ([], _) :: rest => advance fuel' (upd_thread st tid (mkthread rest)) tid
      | (h :: hs, err) :: rest =>
          match h with
          | HUser id =>
              (* entered: logged; stays at the head (parked) until PStep *)
              mkps (procs st) (set_nth tid (mkthread ((HParked id :: hs, err) :: rest)) (threads st)) (hlog st ++ [(id, err)])
          | HParked _ => st
          | HWaitDone parent =>
              let pp := get_proc st parent in
              let st1 := upd_proc st parent (mkproc (p_term pp) (p_err pp) (p_hooks pp) (p_data pp) (p_parent pp) (pred (p_wait pp))) in
              advance fuel' (upd_thread st1 tid (mkthread ((hs, err) :: rest))) tid
          | HChild c =>
              let '(st1, taken) := flip st c err in
              advance fuel' (upd_thread st1 tid (mkthread ((rev taken, err) :: (hs, err) :: rest))) tid
          end
      end
  end.

Definition fuel_of (st : pstate) : nat :=
  S (2 * (length (procs st) + fold_left (fun n p => n + length (p_hooks p)) (procs st) 0 +
          fold_left (fun n t => n + fold_left (fun m f => m + S (length (fst f))) (t_frames t) 0) (threads st) 0)).

Definition idle (st : pstate) (tid : nat) : bool :=
  match t_frames (get_thread st tid) with [] => true | _ => false end.

Inductive pres := PUnit | PBool (b : bool) | PPid (n : nat).

Definition p_step (st : pstate) (op : pop) : pstate * pres :=
  match op with
  | PNew => (mkps (procs st ++ [mkproc false 0 [] [] None 0]) (threads st) (hlog st), PPid (length (procs st)))
  | PFork tid pid =>
      if negb (idle st tid) then (st, PUnit) else
      let p := get_proc st pid in
      let c := length (procs st) in
      let st1 := mkps (set_nth pid (mkproc (p_term p) (p_err p) (p_hooks p) (p_data p) (p_parent p) (S (p_wait p))) (procs st)
                       ++ [mkproc false 0 [HWaitDone pid] [] (Some pid) 0]) (threads st) (hlog st) in
      let p1 := get_proc st1 pid in
      if p_term p1 then
        (* AddExitHook on a terminated parent runs the hook (the child's Exit) at once *)
        let '(st2, taken) := flip st1 c (p_err p1) in
        (advance (fuel_of st2) (upd_thread st2 tid (mkthread [(rev taken, p_err p1)])) tid, PPid c)
      else
        (upd_proc st1 pid (mkproc false (p_err p1) (p_hooks p1 ++ [HChild c]) (p_data p1) (p_parent p1) (p_wait p1)), PPid c)
  | PAddHook tid pid h =>
      if negb (idle st tid) then (st, PUnit) else
      let p := get_proc st pid in
      if p_term p then
        (advance (fuel_of st) (upd_thread st tid (mkthread [([HUser h], p_err p)])) tid, PBool false)
      else if existsb (hook_eqb (HUser h)) (p_hooks p) then (st, PBool false)
      else (upd_proc st pid (mkproc false (p_err p) (p_hooks p ++ [HUser h]) (p_data p) (p_parent p) (p_wait p)), PBool true)
  | PExit tid pid err =>
      if negb (idle st tid) then (st, PUnit) else
      let '(st1, taken) := flip st pid err in
      (advance (fuel_of st1) (upd_thread st1 tid (mkthread [(rev taken, err)])) tid, PUnit)
  | PStep tid =>
      match t_frames (get_thread st tid) with
      | (HParked _ :: hs, err) :: rest =>
          let st1 := upd_thread st tid (mkthread ((hs, err) :: rest)) in
          (advance (fuel_of st1) st1 tid, PUnit)
      | _ => (st, PUnit)
      end
  | PSet pid k v =>
      let p := get_proc st pid in
      (upd_proc st pid (mkproc (p_term p) (p_err p) (p_hooks p)
                               ((k, v) :: filter (fun kv => negb (Nat.eqb (fst kv) k)) (p_data p)) (p_parent p) (p_wait p)), PUnit)
  | PRemove pid k =>
      let p := get_proc st pid in
      (upd_proc st pid (mkproc (p_term p) (p_err p) (p_hooks p)
                               (filter (fun kv => negb (Nat.eqb (fst kv) k)) (p_data p)) (p_parent p) (p_wait p)), PUnit)
  end.

Definition p_init (nthreads : nat) : pstate := mkps [] (repeat (mkthread []) nthreads) [].
Definition p_run (nthreads : nat) (ops : list pop) : pstate := fold_left (fun st op => fst (p_step st op)) ops (p_init nthreads).

(* observers used by the correspondence: Status, Err (0 = nil; terminated with nil error reads as Canceled,
   rendered by the harness as error 0 + terminated), own keys, whether Join would return *)
Definition p_view (p : proc) : bool * nat * list nat * nat :=
  (p_term p, p_err p, map fst (p_data p), p_wait p).
