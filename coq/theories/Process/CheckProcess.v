(* Correspondence checker for C04. *)
From Coq Require Import List NArith ZArith Bool.
From Uf Require Import Process.Process.
Import ListNotations.

Fixpoint mismatches_from {A} (ok : A -> bool) (i : nat) (l : list A) : list nat :=
  match l with
  | [] => []
  | c :: t => if ok c then mismatches_from ok (S i) t else i :: mismatches_from ok (S i) t
  end.
Definition mismatches {A} (ok : A -> bool) (l : list A) : list nat := mismatches_from ok 0 l.

Fixpoint list_eqb {A} (f : A -> A -> bool) (l l' : list A) : bool :=
  match l, l' with
  | [], [] => true
  | a :: t, b :: t' => f a b && list_eqb f t t'
  | _, _ => false
  end.

(* observed after every step: the hook log so far and, per process, (terminated, Err code, sorted own keys, Join would return) *)
Record obs04 := mkobs04 {
  o_log : list (nat * nat);
  o_procs : list (bool * nat * list nat);
  o_join : option (nat * bool)     (* a Join probe on one process: (pid, returned) *)
}.

(* c04join: at the end of the history, for every process, whether Join returned *)
Record c04case := mk04 { c04threads : nat; c04steps : list (pop * obs04); c04join : list bool }.

(* Err(): the exit error if there is one, Canceled (99) for a terminated process without, else nil (0) *)
Definition err_code (p : proc) : nat :=
  if Nat.eqb (p_err p) 0 then (if p_term p then 99 else 0) else p_err p.

Fixpoint insert_sorted (x : nat) (l : list nat) : list nat :=
  match l with
  | [] => [x]
  | y :: t => if Nat.leb x y then x :: l else y :: insert_sorted x t
  end.
Definition sort_nat (l : list nat) : list nat := fold_right insert_sorted [] l.

Definition view (p : proc) : bool * nat * list nat :=
  (p_term p, err_code p, sort_nat (map fst (p_data p))).

Definition view_eqb (a b : bool * nat * list nat) : bool :=
  let '(t1, e1, k1) := a in let '(t2, e2, k2) := b in
  Bool.eqb t1 t2 && Nat.eqb e1 e2 && list_eqb Nat.eqb k1 k2.

Definition pair_eqb (a b : nat * nat) : bool := Nat.eqb (fst a) (fst b) && Nat.eqb (snd a) (snd b).

Fixpoint c04run (st : pstate) (steps : list (pop * obs04)) (joins : list bool) : bool :=
  match steps with
  | [] => list_eqb Bool.eqb (map (fun p => Nat.eqb (p_wait p) 0) (procs st)) joins
  | (op, ob) :: rest =>
      let st' := fst (p_step st op) in
      list_eqb pair_eqb (hlog st') (o_log ob) &&
      list_eqb view_eqb (map view (procs st')) (o_procs ob) &&
      match o_join ob with
      | None => true
      | Some (pid, ret) => Bool.eqb (Nat.eqb (p_wait (get_proc st' pid)) 0) ret
      end &&
      c04run st' rest joins
  end.

Definition c04ok (c : c04case) : bool := c04run (p_init (c04threads c)) (c04steps c) (c04join c).
