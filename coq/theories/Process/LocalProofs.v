(* Proofs about the lock-level model of process-local stores and per-process port endpoints:
   no reachable state is a deadlock; a lazy cell's initialiser runs at most once and a process sees
   at most one run per deletion of its entry; whatever a store or a port holds for a process is
   covered by a cleanup (registered exit hook, or cleanup code some thread still has to run), so in
   every state where all threads are finished a terminated process has nothing left. *)
From Coq Require Import List Arith NArith Bool Lia.
From Uf Require Import Process.Local.
Import ListNotations.

(* ---------- lists ---------- *)
Lemma nth_set_nth {A} (l : list A) t j x d :
  nth j (set_nth t x l) d = if Nat.eqb j t then (if Nat.ltb t (length l) then x else nth j l d) else nth j l d.
Proof.
  revert t j. induction l as [|a l IH]; intros t j.
  - cbn. destruct j, t; cbn; try reflexivity. destruct (Nat.eqb j t); reflexivity.
  - destruct t as [|t]; destruct j as [|j]; cbn; try reflexivity.
    rewrite IH. destruct (Nat.eqb j t); [|reflexivity].
    change (Nat.ltb (S t) (S (length l))) with (Nat.ltb t (length l)). reflexivity.
Qed.

Lemma length_set_nth {A} (l : list A) t x : length (set_nth t x l) = length l.
Proof. revert t. induction l as [|a l IH]; intros [|t]; cbn; auto. Qed.

Lemma set_nth_oob {A} (l : list A) t x : length l <= t -> set_nth t x l = l.
Proof. revert t. induction l as [|a l IH]; intros [|t] H; cbn in *; auto; try lia. f_equal. apply IH. lia. Qed.

(* ---------- association lists ---------- *)
Lemma alookup_aremove_same {A} k (l : list (nat * A)) : alookup k (aremove k l) = None.
Proof.
  induction l as [|[k' v] l IH]; cbn; auto.
  destruct (Nat.eqb k' k) eqn:E; cbn; auto.
  rewrite Nat.eqb_sym, E. exact IH.
Qed.
Lemma alookup_aremove_other {A} k k' (l : list (nat * A)) : k <> k' -> alookup k' (aremove k l) = alookup k' l.
Proof.
  intros N. induction l as [|[k2 v] l IH]; cbn; auto.
  destruct (Nat.eqb k2 k) eqn:E; cbn.
  - apply Nat.eqb_eq in E. subst. destruct (Nat.eqb k' k) eqn:E2; [apply Nat.eqb_eq in E2; congruence|exact IH].
  - destruct (Nat.eqb k' k2); [reflexivity|exact IH].
Qed.
Lemma alookup_aset_same {A} k (v : A) l : alookup k (aset k v l) = Some v.
Proof. unfold aset. cbn. rewrite Nat.eqb_refl. reflexivity. Qed.
Lemma alookup_aset_other {A} k k' (v : A) l : k <> k' -> alookup k' (aset k v l) = alookup k' l.
Proof.
  intros N. unfold aset. cbn. destruct (Nat.eqb k' k) eqn:E; [apply Nat.eqb_eq in E; congruence|].
  apply alookup_aremove_other, N.
Qed.

(* ---------- well-formed continuations ---------- *)
Definition body_ok (b : body) : Prop := match b with BStoreOld _ _ => False | _ => True end.
(* BLzDone only ever follows the initialiser inside lazy.Do; it is not the first body of a critical section *)
Definition entry_ok (b : body) : Prop := match b with BLzDone _ _ => False | _ => True end.

Inductive wf : list instr -> Prop :=
| wf_nil : wf []
| wf_acq l m b c : lock_of b = Some (l, m) -> body_ok b -> entry_ok b -> wf c -> wf (Acq l m :: Body b :: c)
| wf_body b c : lock_of b = None -> wf c -> wf (Body b :: c)
| wf_cb k c : wf c -> wf (Cb k :: c)
| wf_ret v c : wf c -> wf (Ret v :: c).

(* the continuation of a thread that holds lock l: user callbacks and returns, then either the
   body of the critical section or its release *)
Inductive inlock (l : lockid) (m : mode) : list instr -> Prop :=
| il_rel c : wf c -> inlock l m (Rel l m :: c)
| il_body b c : lock_of b = Some (l, m) -> body_ok b -> wf c -> inlock l m (Body b :: c)
| il_cb k c : inlock l m c -> inlock l m (Cb k :: c)
| il_ret v c : inlock l m c -> inlock l m (Ret v :: c).

Definition tinv (th : thread) : Prop :=
  match held th with None => wf (cont th) | Some (l, m) => inlock l m (cont th) end.

#[local] Hint Constructors wf inlock : lk.

Lemma wf_app a c : wf a -> wf c -> wf (a ++ c).
Proof. induction 1; intros; cbn; auto with lk. Qed.
Lemma inlock_app l m a c : inlock l m a -> wf c -> inlock l m (a ++ c).
Proof. induction 1; intros; cbn; auto using wf_app with lk. Qed.

Lemma wf_cbs (f : nat -> cbkind) hs c : wf c -> wf (map (fun h => Cb (f h)) hs ++ c).
Proof. induction hs; cbn; auto with lk. Qed.

Lemma wf_hook_prog p h : wf (hook_prog p h).
Proof. destruct h as [[|r]|k]; cbn; repeat constructor. Qed.
Lemma wf_hook_progs p hs : wf (flat_map (hook_prog p) hs).
Proof. induction hs; cbn; auto using wf_app, wf_hook_prog with lk. Qed.
Lemma wf_opens p l c : wf c -> wf (map (fun i => Body (BOpen0 i p)) l ++ c).
Proof. induction l; cbn; auto with lk. Qed.

Lemma wf_after_do p g c rest : wf rest -> wf (after_do p g c ++ rest).
Proof. intros. unfold after_do. destruct (c_fails c); cbn; repeat constructor; auto. Qed.

Lemma wf_template m : m <> MStoreOld (match m with MStoreOld p _ => p | _ => 0 end) (match m with MStoreOld _ v => v | _ => 0 end) ->
  wf (template m).
Proof. destruct m; cbn; intros N; try congruence; repeat constructor. Qed.

(* what a body leaves to do: inside its lock up to the release, well-formed after it *)
Lemma exec_locked b st l m c :
  lock_of b = Some (l, m) -> body_ok b -> wf c -> inlock l m (snd (exec b st) ++ c).
Proof.
  intros L OK W. destruct b; cbn in L; inversion L; subst; clear L; cbn in OK; try contradiction; cbn.
  - (* BLoad *) repeat constructor; auto.
  - (* BStore *) constructor. destruct (alookup p (eager st)); cbn.
    + rewrite <- app_assoc. apply wf_cbs with (f := fun h => CbStoreHook h v). cbn. auto with lk.
    + constructor; [reflexivity|]. rewrite <- app_assoc. apply wf_cbs with (f := fun h => CbStoreHook h v). cbn. auto with lk.
  - (* BDelete *) constructor. destruct user; cbn; auto with lk.
  - (* BLos1 *) destruct (alookup p (eager st)); cbn; repeat constructor; auto.
  - (* BLos2 *) destruct (alookup p (eager st)); cbn; [repeat constructor; auto|].
    destruct (alookup p (lazy st)); cbn; repeat constructor; auto.
  - (* BLzEnter *) destruct (c_done (get_cell st g)); cbn.
    + constructor. apply wf_after_do, W.
    + apply il_cb. apply il_body; [reflexivity|exact I|exact W].
  - (* BLzDone *) constructor. apply wf_after_do, W.
  - (* BLos3 *) constructor. constructor; [reflexivity|]. rewrite <- app_assoc.
    apply wf_cbs with (f := fun h => CbStoreHook h (c_fn (get_cell st g))). cbn. auto with lk.
  - (* BAddHook *) destruct (alookup p (eager st)); cbn; [repeat constructor; auto|].
    destruct (existsb _ _); cbn; [repeat constructor; auto|].
    constructor. destruct (match alookup p (shooks st) with Some l => l | None => [] end); cbn; repeat constructor; auto.
  - (* BRemHook *) destruct (alookup p (shooks st)); cbn; [|repeat constructor; auto].
    destruct (existsb _ _); cbn; repeat constructor; auto.
  - (* BKeys *) repeat constructor; auto.
  - (* BCloseLocal *) repeat constructor; auto.
  - (* BOpen1 *) destruct (has_pent st r p); cbn; repeat constructor; auto.
  - (* BOpen2 *) destruct (has_pent st r p); cbn; [repeat constructor; auto|].
    constructor. destruct (port_out st r); cbn.
    + rewrite <- !app_assoc. destruct (port_open st r); cbn.
      * constructor. constructor; [reflexivity|]. apply wf_opens. cbn. auto with lk.
      * constructor; [reflexivity|]. apply wf_opens. cbn. auto with lk.
    + destruct (port_open st r); cbn; repeat constructor; auto.
  - (* BPortDel *) repeat constructor; auto.
  - (* BPortClose *) destruct (port_out st r); cbn; [repeat constructor; auto|].
    constructor. rewrite <- app_assoc. destruct (port_open st r); cbn; [|auto with lk].
    induction (rev (seq 0 (length (pcfg st)))) as [|o os IH]; cbn; [auto with lk|].
    destruct (port_out st o && existsb (Nat.eqb r) (port_ins0 st o)); cbn; auto.
    constructor; auto; try reflexivity; exact I.
  - (* BUnlink *) repeat constructor; auto.
Qed.

Lemma exec_free b st c : lock_of b = None -> wf c -> wf (snd (exec b st) ++ c).
Proof.
  intros L W. destruct b; cbn in L; try discriminate; cbn.
  - destruct (alive (get_proc st p)); cbn; repeat constructor; auto.
  - destruct (alive (get_proc st p)); cbn; auto. apply wf_app; auto using wf_hook_prog.
  - destruct (alive (get_proc st p)); cbn; auto. apply wf_app; auto using wf_hook_progs.
Qed.

Lemma exec_threads b st : threads (fst (exec b st)) = threads st.
Proof.
  destruct b; cbn; try reflexivity;
    repeat match goal with
           | |- context [match ?x with _ => _ end] => destruct x; cbn; try reflexivity
           | |- context [if ?x then _ else _] => destruct x; cbn; try reflexivity
           end.
Qed.

(* ---------- invariant 1: every thread is well-formed ---------- *)
Definition TInv (st : lstate) : Prop := forall j, j < length (threads st) -> tinv (get_thread st j).

Lemma get_thread_set st t th j :
  get_thread (set_thread st t th) j =
  if Nat.eqb j t then (if Nat.ltb t (length (threads st)) then th else get_thread st j) else get_thread st j.
Proof. unfold get_thread, set_thread. cbn. apply nth_set_nth. Qed.

Lemma length_threads_set st t th : length (threads (set_thread st t th)) = length (threads st).
Proof. unfold set_thread. cbn. apply length_set_nth. Qed.

Lemma TInv_set st st' t th :
  threads st' = threads st -> TInv st -> tinv th -> TInv (set_thread st' t th).
Proof.
  intros E H T j Hj. rewrite length_threads_set, E in Hj. rewrite get_thread_set.
  assert (G : get_thread st' j = get_thread st j) by (unfold get_thread; rewrite E; reflexivity).
  destruct (Nat.eqb j t); [destruct (Nat.ltb t _)|]; auto; rewrite G; auto.
Qed.

Lemma step_TInv st t : TInv st -> TInv (step st t).
Proof.
  intros H. unfold step.
  destruct (Nat.ltb t (length (threads st))) eqn:Lt.
  2:{ apply Nat.ltb_ge in Lt. unfold get_thread. rewrite nth_overflow by exact Lt. cbn. exact H. }
  apply Nat.ltb_lt in Lt. pose proof (H t Lt) as T. unfold tinv in T.
  destruct (get_thread st t) as [hd c] eqn:TH. cbn in *.
  destruct c as [|i c]; [exact H|].
  destruct i as [l m|l m|b|k|v].
  - (* Acq *) destruct (can_acquire st l m); [|exact H].
    apply TInv_set with (st := st); auto. unfold tinv; cbn.
    destruct hd as [[l0 m0]|]; inversion T; subst. apply il_body; auto.
  - (* Rel *) apply TInv_set with (st := st); auto. unfold tinv; cbn.
    destruct hd as [[l0 m0]|]; inversion T; subst; auto.
  - (* Body *) destruct (exec b st) as [st' frag] eqn:EX.
    pose proof (exec_threads b st) as ET. rewrite EX in ET. cbn in ET.
    apply TInv_set with (st := st); auto. unfold tinv; cbn.
    destruct hd as [[l0 m0]|]; inversion T; subst.
    + change frag with (snd (st', frag)). rewrite <- EX. apply exec_locked; auto.
    + change frag with (snd (st', frag)). rewrite <- EX. apply exec_free; auto.
  - (* Cb *) apply TInv_set with (st := st); auto. unfold tinv; cbn.
    destruct hd as [[l0 m0]|]; inversion T; subst; auto.
  - (* Ret *) apply TInv_set with (st := st); auto. unfold tinv; cbn.
    destruct hd as [[l0 m0]|]; inversion T; subst; auto.
Qed.

Definition meth_ok (m : meth) : Prop := match m with MStoreOld _ _ => False | _ => True end.
Definition op_ok (op : lop) : Prop := match op with LCall _ m => meth_ok m | _ => True end.

Lemma wf_template' m : meth_ok m -> wf (template m).
Proof. destruct m; cbn; intros N; try contradiction; repeat constructor. Qed.

Lemma l_step_TInv st op : op_ok op -> TInv st -> TInv (l_step st op).
Proof.
  intros OK H. destruct op as [t m| |t]; cbn [l_step].
  - destruct (Nat.ltb t (length (threads st))) eqn:Lt; [|exact H]. apply Nat.ltb_lt in Lt.
    apply TInv_set with (st := st); auto. pose proof (H t Lt) as T. unfold tinv in *. cbn.
    destruct (held (get_thread st t)) as [[l0 m0]|].
    + apply inlock_app; auto. apply wf_template', OK.
    + apply wf_app; auto. apply wf_template', OK.
  - exact H.
  - apply step_TInv, H.
Qed.

Lemma l_init_TInv n ports : TInv (l_init n ports).
Proof.
  intros j Hj. unfold get_thread, l_init in *. cbn in *.
  assert (E : nth j (repeat (mkthr None []) n) (mkthr None []) = mkthr None []).
  { clear Hj. revert j. induction n; intros [|j]; cbn; auto. }
  rewrite E. constructor.
Qed.

Lemma l_run_TInv n ports ops : Forall op_ok ops -> TInv (l_run n ports ops).
Proof.
  unfold l_run. intros F.
  assert (G : forall st, TInv st -> TInv (fold_left l_step ops st)).
  { induction F as [|op ops OK F IH]; intros st H; cbn; auto. apply IH, l_step_TInv; auto. }
  apply G, l_init_TInv.
Qed.

(* ---------- no deadlock ---------- *)
Lemma existsb_holds_false st l :
  (forall j, j < length (threads st) -> held (get_thread st j) = None) ->
  existsb (holds l) (threads st) = false /\ existsb (holds_w l) (threads st) = false.
Proof.
  unfold get_thread. generalize (threads st). intros ts H.
  induction ts as [|th ts IH]; cbn; auto.
  assert (H0 := H 0 (Nat.lt_0_succ _)). cbn in H0.
  unfold holds at 1, holds_w at 1. rewrite H0. cbn.
  apply IH. intros j Hj. apply (H (S j)). cbn. lia.
Qed.

Lemma held_or_free (ts : list thread) :
  (exists j, j < length ts /\ held (nth j ts (mkthr None [])) <> None) \/
  (forall j, j < length ts -> held (nth j ts (mkthr None [])) = None).
Proof.
  induction ts as [|th ts IH].
  - right. cbn. intros; lia.
  - destruct (held th) eqn:E.
    + left. exists 0. cbn. split; [lia|congruence].
    + destruct IH as [[j [Hj N]]|F].
      * left. exists (S j). cbn. split; [lia|exact N].
      * right. intros [|j] Hj; cbn; auto. apply F. cbn in Hj. lia.
Qed.

Lemma inlock_enabled l m c : inlock l m c -> match c with [] => False | Acq _ _ :: _ => False | _ => True end.
Proof. destruct 1; exact I. Qed.

Theorem no_deadlock st :
  TInv st ->
  (forall j, j < length (threads st) -> cont (get_thread st j) = []) \/
  (exists t, t < length (threads st) /\ enabled st t = true).
Proof.
  intros H. destruct (held_or_free (threads st)) as [[j [Hj N]]|F].
  - (* the holder of a lock can always go on *)
    right. exists j. split; auto. pose proof (H j Hj) as T. unfold tinv in T.
    unfold get_thread in *. destruct (held (nth j (threads st) (mkthr None []))) as [[l m]|]; [|congruence].
    apply inlock_enabled in T. unfold enabled, get_thread.
    destruct (cont (nth j (threads st) (mkthr None []))) as [|[]]; try contradiction; reflexivity.
  - (* no lock is held: whoever is not finished can go on *)
    assert (D : (forall j, j < length (threads st) -> cont (get_thread st j) = []) \/
                (exists j, j < length (threads st) /\ cont (get_thread st j) <> [])).
    { unfold get_thread. generalize (threads st). induction l as [|th ts IH].
      - left. cbn. intros; lia.
      - destruct (cont th) eqn:E.
        + destruct IH as [A|[j [Hj N]]].
          * left. intros [|j] Hj; cbn; auto. apply A. cbn in Hj. lia.
          * right. exists (S j). cbn. split; [lia|exact N].
        + right. exists 0. cbn. split; [lia|congruence]. }
    destruct D as [A|[j [Hj N]]]; [left; exact A|].
    right. exists j. split; auto. unfold enabled.
    destruct (cont (get_thread st j)) as [|i c]; [congruence|].
    destruct i; auto. unfold can_acquire.
    destruct (existsb_holds_false st l F) as [E1 E2]. destruct m; [rewrite E1|rewrite E2]; reflexivity.
Qed.

(* ---------- the shape of a step ---------- *)
Lemma step_cases st t :
  step st t = st \/
  (t < length (threads st) /\ exists hd i c, get_thread st t = mkthr hd (i :: c) /\
     match i with
     | Acq l m => can_acquire st l m = true /\ step st t = set_thread st t (mkthr (Some (l, m)) c)
     | Rel l m => step st t = set_thread st t (mkthr None c)
     | Body b => step st t = set_thread (fst (exec b st)) t (mkthr hd (snd (exec b st) ++ c))
     | Cb k => step st t = set_thread (add_log st (ECb t k)) t (mkthr hd c)
     | Ret v => step st t = set_thread (add_log st (ERet t v)) t (mkthr hd c)
     end).
Proof.
  unfold step. destruct (Nat.ltb t (length (threads st))) eqn:Lt.
  2:{ apply Nat.ltb_ge in Lt. unfold get_thread. rewrite nth_overflow by exact Lt. cbn. left. reflexivity. }
  apply Nat.ltb_lt in Lt. destruct (get_thread st t) as [hd c] eqn:TH. cbn.
  destruct c as [|i c]; [left; reflexivity|].
  destruct i as [l m|l m|b|k|v].
  - destruct (can_acquire st l m) eqn:CA; [|left; reflexivity].
    right. split; auto. exists hd, (Acq l m), c. auto.
  - right. split; auto. exists hd, (Rel l m), c. auto.
  - right. split; auto. exists hd, (Body b), c. split; auto. destruct (exec b st); reflexivity.
  - right. split; auto. exists hd, (Cb k), c. auto.
  - right. split; auto. exists hd, (Ret v), c. auto.
Qed.

Lemma get_thread_threads_eq st st' j : threads st' = threads st -> get_thread st' j = get_thread st j.
Proof. intros E. unfold get_thread. rewrite E. reflexivity. Qed.

(* ---------- invariant 2: locks exclude ---------- *)
Lemma res_eqb_eq a b : res_eqb a b = true <-> a = b.
Proof.
  destruct a, b; cbn; split; intros H; try discriminate; try reflexivity.
  - apply Nat.eqb_eq in H. subst. reflexivity.
  - inversion H. apply Nat.eqb_refl.
Qed.
Lemma lockid_eqb_eq a b : lockid_eqb a b = true <-> a = b.
Proof.
  destruct a, b; cbn; split; intros H; try discriminate.
  - apply res_eqb_eq in H. subst. reflexivity.
  - inversion H. apply res_eqb_eq. reflexivity.
  - apply Nat.eqb_eq in H. subst. reflexivity.
  - inversion H. apply Nat.eqb_refl.
Qed.
Lemma lockid_eqb_refl a : lockid_eqb a a = true.
Proof. apply lockid_eqb_eq. reflexivity. Qed.

Lemma existsb_nth_false {A} f (l : list A) j d : existsb f l = false -> j < length l -> f (nth j l d) = false.
Proof.
  revert j. induction l as [|a l IH]; intros j E Hj; cbn in *; [lia|].
  apply orb_false_iff in E. destruct E as [E1 E2]. destruct j; auto. apply IH; auto. lia.
Qed.

Definition MInv (st : lstate) : Prop :=
  forall i j l m, i < length (threads st) -> j < length (threads st) -> i <> j ->
    held (get_thread st i) = Some (l, MW) -> held (get_thread st j) <> Some (l, m).

Lemma MInv_held st st2 :
  length (threads st2) = length (threads st) ->
  (forall k, held (get_thread st2 k) = held (get_thread st k)) -> MInv st -> MInv st2.
Proof. intros L E H i j l m Hi Hj N. rewrite L in *. rewrite !E. apply H; auto. Qed.

Lemma held_set_same st st' t hd c :
  threads st' = threads st -> held (get_thread st t) = hd ->
  forall k, held (get_thread (set_thread st' t (mkthr hd c)) k) = held (get_thread st k).
Proof.
  intros E Hh k. rewrite get_thread_set, (get_thread_threads_eq st st' k E).
  destruct (Nat.eqb k t) eqn:Ek; auto. apply Nat.eqb_eq in Ek. subst k.
  destruct (Nat.ltb t _); auto.
Qed.

Lemma step_MInv st t : MInv st -> MInv (step st t).
Proof.
  intros H. destruct (step_cases st t) as [E|[Lt [hd [i [c [TH S]]]]]]; [rewrite E; exact H|].
  assert (Lt' : Nat.ltb t (length (threads st)) = true) by (apply Nat.ltb_lt; exact Lt).
  destruct i as [l m|l m|b|k|v].
  - destruct S as [CA S]. rewrite S. intros i j l0 m0 Hi Hj Nij. rewrite length_threads_set in Hi, Hj.
    rewrite !get_thread_set, Lt'.
    destruct (Nat.eqb i t) eqn:Ei; destruct (Nat.eqb j t) eqn:Ej.
    + apply Nat.eqb_eq in Ei, Ej. congruence.
    + cbn. intros X Y. inversion X; subst. unfold can_acquire in CA.
      apply negb_true_iff in CA. pose proof (existsb_nth_false _ _ j (mkthr None []) CA Hj) as F.
      unfold holds in F. fold (get_thread st j) in F. rewrite Y, lockid_eqb_refl in F. discriminate.
    + cbn. intros X Y. inversion Y; subst. unfold can_acquire in CA.
      assert (W : holds_w l0 (get_thread st i) = true) by (unfold holds_w; rewrite X; apply lockid_eqb_refl).
      assert (W2 : holds l0 (get_thread st i) = true) by (unfold holds; rewrite X; apply lockid_eqb_refl).
      destruct m0; apply negb_true_iff in CA;
        pose proof (existsb_nth_false _ _ i (mkthr None []) CA Hi) as F; fold (get_thread st i) in F; congruence.
    + apply H; auto.
  - rewrite S. intros i j l0 m0 Hi Hj Nij. rewrite length_threads_set in Hi, Hj.
    rewrite !get_thread_set, Lt'.
    destruct (Nat.eqb i t) eqn:Ei; destruct (Nat.eqb j t) eqn:Ej; cbn.
    + intros X; discriminate.
    + intros X; discriminate.
    + intros _ X; discriminate.
    + apply H; auto.
  - rewrite S. eapply MInv_held; [| |exact H].
    + rewrite length_threads_set, exec_threads. reflexivity.
    + apply held_set_same; [apply exec_threads|rewrite TH; reflexivity].
  - rewrite S. eapply MInv_held; [| |exact H].
    + rewrite length_threads_set. reflexivity.
    + apply held_set_same; [reflexivity|rewrite TH; reflexivity].
  - rewrite S. eapply MInv_held; [| |exact H].
    + rewrite length_threads_set. reflexivity.
    + apply held_set_same; [reflexivity|rewrite TH; reflexivity].
Qed.

(* ---------- invariant 3: a lazy cell's initialiser runs at most once ---------- *)
Definition is_done_body (p g : nat) (i : instr) : Prop := i = Body (BLzDone p g).
Definition no_done (c : list instr) : Prop := forall p g, ~ In (Body (BLzDone p g)) c.

Lemma wf_no_done c : wf c -> no_done c.
Proof.
  induction 1; intros p g I; cbn in I.
  - exact I.
  - destruct I as [E|[E|I]]; [discriminate| |eapply IHwf; exact I].
    inversion E; subst. contradiction.
  - destruct I as [E|I]; [|eapply IHwf; exact I]. inversion E; subst. discriminate.
  - destruct I as [E|I]; [discriminate|eapply IHwf; exact I].
  - destruct I as [E|I]; [discriminate|eapply IHwf; exact I].
Qed.

Lemma no_done_cbs (f : nat -> cbkind) hs : no_done (map (fun h => Cb (f h)) hs).
Proof. intros p g I. apply in_map_iff in I. destruct I as [x [E _]]. discriminate. Qed.

Ltac in_inv H :=
  repeat (cbn in H;
          match type of H with
          | In _ [] => contradiction
          | _ = _ \/ _ => destruct H as [H|H]; [try discriminate|]
          | In _ (_ :: _) => destruct H as [H|H]; [try discriminate|]
          | In _ (_ ++ _) => apply in_app_or in H; destruct H as [H|H]
          | In _ (map _ _) => apply in_map_iff in H; destruct H as [? [H _]]; try discriminate
          | In _ (if ?x then _ else _) => destruct x eqn:?
          | In _ (match ?x with _ => _ end) => destruct x eqn:?
          | In _ (after_do _ _ _) => unfold after_do in H
          | False => contradiction
          | context [match ?x with _ => _ end] => destruct x eqn:?
          end).

(* only lazy.Do on a cell that is not done schedules the recording of a result *)
Lemma exec_done_origin b st p g :
  In (Body (BLzDone p g)) (snd (exec b st)) -> b = BLzEnter p g /\ c_done (get_cell st g) = false.
Proof.
  intros I. destruct b as [| | | | | |q g'| | | | | | | | | | | | |q h|q]; cbn in I.
  all: try (in_inv I; fail).
  - (* BLzEnter *) destruct (c_done (get_cell st g')) eqn:D; in_inv I. inversion I; subst. auto.
  - (* BPortClose *) exfalso. destruct (port_out st r); [in_inv I|]. cbn [snd] in I.
    destruct I as [I|I]; [discriminate|]. apply in_app_or in I. destruct I as [I|I]; [|in_inv I].
    destruct (port_open st r); [|contradiction].
    induction (rev (seq 0 (length (pcfg st)))) as [|o os IH]; cbn in I; [contradiction|].
    apply in_app_or in I. destruct I as [I|I]; [|auto].
    destruct (port_out st o && existsb (Nat.eqb r) (port_ins0 st o)); in_inv I.
  - (* BHook *) destruct (alive (get_proc st q)); [contradiction|]. destruct h as [[|r]|k]; in_inv I.
  - (* BExit *) destruct (alive (get_proc st q)); [|contradiction].
    exfalso. eapply wf_no_done; [apply (wf_hook_progs q (rev (phooks (get_proc st q))))|exact I].
Qed.

Definition CInv (st : lstate) : Prop :=
  (forall j p g, j < length (threads st) -> In (Body (BLzDone p g)) (cont (get_thread st j)) ->
     held (get_thread st j) = Some (LLazy g, MW) /\ c_done (get_cell st g) = false) /\
  (forall g, count_inits_cell g (log st) =
     if Nat.ltb g (length (cells st)) then (if c_done (get_cell st g) then 1 else 0) else 0).

Lemma done_false_lt st g : c_done (get_cell st g) = false -> g < length (cells st).
Proof.
  intros D. destruct (Nat.ltb g (length (cells st))) eqn:L; [apply Nat.ltb_lt; exact L|].
  apply Nat.ltb_ge in L. unfold get_cell in D. rewrite nth_overflow in D by exact L. discriminate.
Qed.

Lemma count_cell_app g l1 l2 : count_inits_cell g (l1 ++ l2) = count_inits_cell g l1 + count_inits_cell g l2.
Proof. unfold count_inits_cell. rewrite filter_app, app_length. reflexivity. Qed.
Lemma count_inits_app p l1 l2 : count_inits p (l1 ++ l2) = count_inits p l1 + count_inits p l2.
Proof. unfold count_inits. rewrite filter_app, app_length. reflexivity. Qed.
Lemma count_dels_app p l1 l2 : count_dels p (l1 ++ l2) = count_dels p l1 + count_dels p l2.
Proof. unfold count_dels. rewrite filter_app, app_length. reflexivity. Qed.

(* effect of a body on cells and log *)
Lemma exec_cells_log b st :
  (exists p g, b = BLzDone p g) \/
  ((exists es, log (fst (exec b st)) = log st ++ es /\ forall g, count_inits_cell g es = 0 /\ forall p, count_inits p es = 0) /\
   (cells (fst (exec b st)) = cells st \/
    exists p f fl, cells (fst (exec b st)) = cells st ++ [mkcell p f fl false] /\
                   alookup p (eager st) = None /\ alookup p (lazy st) = None /\
                   lazy (fst (exec b st)) = aset p (length (cells st)) (lazy st) /\ eager (fst (exec b st)) = eager st /\
                   log (fst (exec b st)) = log st)).
Proof.
  destruct b; try (left; eauto; fail); right; cbn.
  all: repeat match goal with
              | |- context [match ?x with _ => _ end] => destruct x eqn:?; cbn
              end.
  all: try (split; [exists []; rewrite app_nil_r; split; [reflexivity|intros; split; [reflexivity|intros; reflexivity]] | left; reflexivity]).
  all: try (split; [eexists [_]; split; [reflexivity|intros; split; [reflexivity|intros; reflexivity]] | left; reflexivity]).
  (* BLos2 creating a cell *)
  split; [exists []; rewrite app_nil_r; split; [reflexivity|intros; split; [reflexivity|intros; reflexivity]]|].
  right. exists p, f, fails. repeat split; auto.
Qed.

Lemma get_cell_app_lt st c g : g < length (cells st) -> nth g (cells st ++ [c]) (mkcell 0 0 false true) = get_cell st g.
Proof. intros L. unfold get_cell. apply app_nth1, L. Qed.

Lemma filter_set_nth_same {A} (f : A -> bool) g x (l : list A) d :
  f (nth g l d) = f x -> length (filter f (set_nth g x l)) = length (filter f l).
Proof.
  revert g. induction l as [|a l IH]; intros [|g] E; cbn in *; auto.
  - rewrite E. destruct (f x); reflexivity.
  - destruct (f a); cbn; auto.
Qed.
Lemma filter_set_nth_drop {A} (f : A -> bool) g x (l : list A) d :
  g < length l -> f (nth g l d) = true -> f x = false -> S (length (filter f (set_nth g x l))) = length (filter f l).
Proof.
  revert g. induction l as [|a l IH]; intros [|g] L E1 E2; cbn in *; try lia.
  - rewrite E1, E2. reflexivity.
  - destruct (f a); cbn; rewrite <- (IH g) by (auto; lia); reflexivity.
Qed.

Lemma step_CInv st t : TInv st -> MInv st -> CInv st -> CInv (step st t).
Proof.
  intros HT HM [H1 H2]. destruct (step_cases st t) as [E|[Lt [hd [i [c [TH S]]]]]]; [rewrite E; split; assumption|].
  assert (Lt' : Nat.ltb t (length (threads st)) = true) by (apply Nat.ltb_lt; exact Lt).
  pose proof (HT t Lt) as Tt. unfold tinv in Tt. rewrite TH in Tt. cbn in Tt.
  (* instructions other than bodies leave cells and log counts alone and only shorten t's continuation *)
  assert (Simple : forall st2 hd2,
             cells st2 = cells st -> (forall g, count_inits_cell g (log st2) = count_inits_cell g (log st)) ->
             threads st2 = threads st ->
             (forall p g, In (Body (BLzDone p g)) c -> hd2 = Some (LLazy g, MW)) ->
             CInv (set_thread st2 t (mkthr hd2 c))).
  { intros st2 hd2 EC EL ET HD. split.
    - intros j p g Hj I. rewrite length_threads_set, ET in Hj. rewrite get_thread_set, ET, Lt' in *.
      rewrite (get_thread_threads_eq st st2 j ET) in *.
      assert (GC : get_cell (set_thread st2 t (mkthr hd2 c)) g = get_cell st g) by (unfold get_cell; cbn; rewrite EC; reflexivity).
      rewrite GC. destruct (Nat.eqb j t) eqn:Ej.
      + cbn in *. split; [apply HD with (p := p); exact I|].
        apply Nat.eqb_eq in Ej. subst j. apply (H1 t p g Lt). rewrite TH. cbn. right. exact I.
      + apply (H1 j p g); auto.
    - intros g. cbn [log cells set_thread with_threads]. rewrite EC, EL, H2. unfold get_cell. cbn [cells set_thread with_threads]. rewrite EC. reflexivity. }
  destruct i as [l m|l m|b|k|v].
  - destruct S as [_ S]. rewrite S. apply Simple; auto.
    intros p g I. exfalso. destruct hd as [[l0 m0]|]; [inversion Tt|].
    eapply (wf_no_done _ Tt p g). right. exact I.
  - rewrite S. apply Simple; auto.
    intros p g I. exfalso. destruct hd as [[l0 m0]|]; [|inversion Tt].
    inversion Tt; subst. eapply wf_no_done; [|exact I]. assumption.
  - (* Body *)
    rewrite S. clear Simple.
    pose proof (exec_threads b st) as ET.
    destruct (exec_cells_log b st) as [[p0 [g0 EB]]|[[es [EL EZ]] EC]].
    + (* the initialiser returned: BLzDone p0 g0 *)
      subst b.
      destruct (H1 t p0 g0 Lt) as [Hh Hd]; [rewrite TH; cbn [cont]; left; reflexivity|].
      rewrite TH in Hh. cbn [held] in Hh. subst hd. inversion Tt as [| ? ? LB OKb Wc | |]; subst.
      pose proof (done_false_lt st g0 Hd) as Lg.
      assert (Lb : Nat.ltb g0 (length (cells st)) = true) by (apply Nat.ltb_lt; exact Lg).
      set (cd := mkcell (c_proc (get_cell st g0)) (c_fn (get_cell st g0)) (c_fails (get_cell st g0)) true).
      set (st1 := fst (exec (BLzDone p0 g0) st)).
      assert (C1 : cells st1 = set_nth g0 cd (cells st)) by reflexivity.
      assert (L1 : log st1 = log st ++ [EInit (c_proc (get_cell st g0)) g0 (c_fn (get_cell st g0))]) by reflexivity.
      assert (F1 : snd (exec (BLzDone p0 g0) st) = Rel (LLazy g0) MW :: after_do p0 g0 (get_cell st g0)) by reflexivity.
      assert (T1 : threads st1 = threads st) by reflexivity.
      rewrite F1. clear F1.
      split.
      * intros j p g Hj I. rewrite length_threads_set, T1 in Hj.
        rewrite get_thread_set, T1, Lt' in *. rewrite (get_thread_threads_eq st st1 j T1) in *.
        destruct (Nat.eqb j t) eqn:Ej.
        -- exfalso. cbn [cont] in I. apply in_app_or in I. destruct I as [I|I]; [|eapply wf_no_done; eauto].
           destruct I as [I|I]; [discriminate|]. unfold after_do in I. in_inv I.
        -- apply Nat.eqb_neq in Ej.
           destruct (H1 j p g Hj I) as [Hj1 Hj2]. split; auto.
           destruct (Nat.eq_dec g g0) as [->|Ng].
           ++ exfalso. apply (HM t j (LLazy g0) MW Lt Hj); auto. rewrite TH. reflexivity.
           ++ unfold get_cell. cbn [cells set_thread with_threads]. rewrite C1, nth_set_nth.
              destruct (Nat.eqb g g0) eqn:Eg; [apply Nat.eqb_eq in Eg; congruence|]. exact Hj2.
      * intros g. cbn [log cells set_thread with_threads]. unfold get_cell. cbn [cells set_thread with_threads].
        rewrite L1, C1, count_cell_app, H2, length_set_nth, nth_set_nth, Lb.
        unfold count_inits_cell at 1. cbn [filter length].
        destruct (Nat.eqb g g0) eqn:Eg.
        -- apply Nat.eqb_eq in Eg. subst g. rewrite Lb, Hd. reflexivity.
        -- cbn [length]. rewrite Nat.add_0_r. reflexivity.
    + (* any other body *)
      assert (NB : forall p g, b <> BLzDone p g).
      { intros p g ->. cbn in EL. assert (X := f_equal (@length _) EL). rewrite !app_length in X.
        destruct (EZ g) as [Z _]. destruct es as [|e es]; [cbn in X; lia|].
        apply app_inv_head in EL. inversion EL; subst. unfold count_inits_cell in Z. cbn in Z. rewrite Nat.eqb_refl in Z. discriminate. }
      assert (CellKeep : forall g, c_done (get_cell st g) = false -> c_done (get_cell (fst (exec b st)) g) = false).
      { intros g D. pose proof (done_false_lt st g D) as Lg. unfold get_cell at 1.
        destruct EC as [EC|[p [f [fl [EC _]]]]]; rewrite EC; [exact D|]. rewrite get_cell_app_lt; auto. }
      split.
      * intros j p g Hj I. rewrite length_threads_set, ET in Hj. rewrite get_thread_set, ET, Lt' in *.
        rewrite (get_thread_threads_eq st _ j ET) in *.
        assert (GC : get_cell (set_thread (fst (exec b st)) t (mkthr hd (snd (exec b st) ++ c))) g = get_cell (fst (exec b st)) g) by reflexivity.
        rewrite GC. destruct (Nat.eqb j t) eqn:Ej.
        -- cbn [cont held] in *. apply in_app_or in I. destruct I as [I|I].
           ++ destruct (exec_done_origin b st p g I) as [EB D]. subst b. split; [|apply CellKeep; exact D].
              destruct hd as [[l0 m0]|]; inversion Tt; subst.
              ** match goal with X : lock_of _ = Some _ |- _ => cbn in X; inversion X; reflexivity end.
              ** match goal with X : lock_of _ = None |- _ => cbn in X; discriminate end.
           ++ destruct (H1 t p g Lt) as [Hh Hd]; [rewrite TH; cbn [cont]; right; exact I|].
              rewrite TH in Hh. cbn [held] in Hh. split; auto.
        -- destruct (H1 j p g Hj I) as [Hj1 Hj2]. split; auto.
      * intros g.
        change (log (set_thread (fst (exec b st)) t (mkthr hd (snd (exec b st) ++ c)))) with (log (fst (exec b st))).
        change (cells (set_thread (fst (exec b st)) t (mkthr hd (snd (exec b st) ++ c)))) with (cells (fst (exec b st))).
        change (get_cell (set_thread (fst (exec b st)) t (mkthr hd (snd (exec b st) ++ c))) g) with (get_cell (fst (exec b st)) g).
        rewrite EL, count_cell_app, (proj1 (EZ g)), Nat.add_0_r, H2.
        destruct EC as [EC|[p [f [fl [EC _]]]]].
        -- unfold get_cell. rewrite EC. reflexivity.
        -- unfold get_cell at 2. rewrite EC, app_length. cbn [length].
           destruct (Nat.ltb g (length (cells st))) eqn:L1.
           ++ apply Nat.ltb_lt in L1. assert (L2 : Nat.ltb g (length (cells st) + 1) = true) by (apply Nat.ltb_lt; lia).
              rewrite L2, get_cell_app_lt; auto.
           ++ apply Nat.ltb_ge in L1. destruct (Nat.ltb g (length (cells st) + 1)) eqn:L2; [|reflexivity].
              apply Nat.ltb_lt in L2. assert (g = length (cells st)) by lia. subst g.
              rewrite app_nth2, Nat.sub_diag; auto.
  - rewrite S. apply Simple; auto.
    + intros g. cbn [log add_log]. rewrite count_cell_app. cbn. lia.
    + intros p g I. destruct (H1 t p g Lt) as [Hh _]; [rewrite TH; cbn [cont]; right; exact I|]. rewrite TH in Hh. exact Hh.
  - rewrite S. apply Simple; auto.
    + intros g. cbn [log add_log]. rewrite count_cell_app. cbn. lia.
    + intros p g I. destruct (H1 t p g Lt) as [Hh _]; [rewrite TH; cbn [cont]; right; exact I|]. rewrite TH in Hh. exact Hh.
Qed.

(* ---------- invariant 4: whatever is held for a process is covered by a cleanup ---------- *)
Definition cleanup_instr (r : res) (p : nat) (i : instr) : Prop :=
  i = Body (BHook p (HClean r)) \/
  match r with
  | RLocal => i = Body (BDelete p false)
  | RPort n => i = Body (BPortDel n p)
  end.

Definition pending (st : lstate) (r : res) (p : nat) : Prop :=
  exists j, j < length (threads st) /\ exists i, In i (cont (get_thread st j)) /\ cleanup_instr r p i.
Definition registered (st : lstate) (r : res) (p : nat) : Prop :=
  alive (get_proc st p) = true /\ In (HClean r) (phooks (get_proc st p)).
Definition RInv (st : lstate) : Prop := forall r p, present st r p -> registered st r p \/ pending st r p.

Lemma present_ext st st' r p :
  eager st' = eager st -> lazy st' = lazy st -> shooks st' = shooks st -> pents st' = pents st ->
  (present st' r p <-> present st r p).
Proof. intros E1 E2 E3 E4. unfold present, has_pent. rewrite E1, E2, E3, E4. tauto. Qed.

Lemma registered_ext st st' r p : procs st' = procs st -> (registered st' r p <-> registered st r p).
Proof. intros E. unfold registered, get_proc. rewrite E. tauto. Qed.

Lemma alookup_none_dec {A} k (l : list (nat * A)) : alookup k l = None \/ alookup k l <> None.
Proof. destruct (alookup k l); [right; congruence|left; reflexivity]. Qed.

Lemma has_pent_cons st r p r0 p0 :
  existsb (pent_eqb (r, p)) ((r0, p0) :: pents st) = true -> (r = r0 /\ p = p0) \/ has_pent st r p = true.
Proof.
  cbn. intros H. apply orb_true_iff in H. destruct H as [H|H]; [left|right; exact H].
  unfold pent_eqb in H. cbn in H. apply andb_true_iff in H. destruct H as [A B].
  apply Nat.eqb_eq in A, B. auto.
Qed.

Lemma existsb_filter_sub {A} (f g : A -> bool) l : existsb f (filter g l) = true -> existsb f l = true.
Proof.
  induction l as [|a l IH]; cbn; auto. destruct (g a); cbn; intros H.
  - apply orb_true_iff in H. apply orb_true_iff. destruct H; auto.
  - apply orb_true_iff. right. auto.
Qed.

Lemma existsb_filter_self l r p :
  existsb (pent_eqb (r, p)) (filter (fun e => negb (pent_eqb (r, p) e)) l) = false.
Proof.
  induction l as [|a l IH]; cbn; auto. destruct (pent_eqb (r, p) a) eqn:E; cbn; auto. rewrite E. exact IH.
Qed.

Ltac sp P := cbn [present exec fst snd eager lazy shooks pents with_local with_cells with_pents with_procs add_log] in P.

(* A: what is newly held comes with its cleanup in the rest of the method *)
Lemma exec_present b st r p :
  present (fst (exec b st)) r p ->
  present st r p \/ exists i, In i (snd (exec b st)) /\ cleanup_instr r p i.
Proof.
  intros P.
  destruct b as [q|q v|q v|q u|q f fl|q f fl|q g|q g|q g|q h|q h| | |n q|n q|n q|n q|n|o n|q h|q].
  all: try (left; exact P).
  - (* BStore *)
    destruct r as [|n]; [|left; exact P].
    destruct (Nat.eq_dec q p) as [->|N].
    + cbn. destruct (alookup p (eager st)) eqn:E.
      * left. left. congruence.
      * right. eexists. split; [right; left; reflexivity|left; reflexivity].
    + left. sp P. rewrite alookup_aset_other, alookup_aremove_other in P by exact N. exact P.
  - (* BStoreOld *)
    destruct r as [|n]; [|left; exact P].
    destruct (Nat.eq_dec q p) as [->|N].
    + cbn. destruct (alookup p (eager st)) eqn:E.
      * left. left. congruence.
      * right. eexists. split; [left; reflexivity|left; reflexivity].
    + left. sp P. rewrite alookup_aset_other, alookup_aremove_other in P by exact N. exact P.
  - (* BDelete *)
    destruct r as [|n]; [|left; exact P].
    destruct (Nat.eq_dec q p) as [->|N].
    + exfalso. sp P. rewrite !alookup_aremove_same in P. tauto.
    + left. sp P. rewrite !alookup_aremove_other in P by exact N. exact P.
  - (* BLos1 *) cbn in P. destruct (alookup q (eager st)); left; exact P.
  - (* BLos2 *)
    cbn in *. destruct (alookup q (eager st)) eqn:E; [left; exact P|].
    destruct (alookup q (lazy st)) eqn:E2; [left; exact P|].
    destruct r as [|n]; [|left; exact P].
    destruct (Nat.eq_dec q p) as [->|N].
    + right. eexists. split; [right; left; reflexivity|left; reflexivity].
    + left. sp P. rewrite alookup_aset_other in P by exact N. exact P.
  - (* BLzEnter *) cbn in P. destruct (c_done (get_cell st g)); left; exact P.
  - (* BLos3 *)
    destruct r as [|n]; [|left; exact P].
    destruct (Nat.eq_dec q p) as [->|N].
    + right. eexists. split; [right; left; reflexivity|left; reflexivity].
    + left. sp P. rewrite alookup_aset_other, !alookup_aremove_other in P by exact N. exact P.
  - (* BAddHook *)
    cbn in *. destruct (alookup q (eager st)) eqn:E; [left; exact P|].
    destruct (existsb (Nat.eqb h) match alookup q (shooks st) with Some l => l | None => [] end) eqn:X; [left; exact P|].
    destruct r as [|n]; [|left; exact P].
    destruct (Nat.eq_dec q p) as [->|N].
    + destruct (alookup p (shooks st)) as [[|x hs]|] eqn:E3.
      * left. right. right. congruence.
      * left. right. right. congruence.
      * right. eexists. split; [right; left; reflexivity|left; reflexivity].
    + left. sp P. rewrite alookup_aset_other in P by exact N. exact P.
  - (* BRemHook *)
    cbn in *. destruct (alookup q (shooks st)) eqn:E; [|left; exact P].
    destruct (existsb (Nat.eqb h) l); [|left; exact P].
    destruct r as [|n]; [|left; exact P].
    destruct (Nat.eq_dec q p) as [->|N].
    + left. right. right. congruence.
    + left. sp P. rewrite alookup_aset_other in P by exact N. exact P.
  - (* BCloseLocal *)
    destruct r as [|n]; [|left; exact P]. exfalso. cbn in P. tauto.
  - (* BOpen0 *) cbn in P. destruct (alive (get_proc st q)); left; exact P.
  - (* BOpen1 *) cbn in P. destruct (has_pent st n q); left; exact P.
  - (* BOpen2 *)
    cbn in *. destruct (has_pent st n q) eqn:E; [left; exact P|].
    destruct r as [|n']; [left; exact P|]. cbn in P. unfold has_pent in P. cbn [pents with_pents] in P.
    apply has_pent_cons in P. destruct P as [[-> ->]|P]; [|left; exact P].
    right. exists (Body (BHook q (HClean (RPort n)))). split; [|left; reflexivity].
    right. apply in_or_app. left. destruct (port_out st n).
    + apply in_or_app. right. left. reflexivity.
    + left. reflexivity.
  - (* BPortDel *)
    destruct r as [|n']; [left; exact P|]. left. cbn in *. unfold has_pent in *. cbn [pents with_pents] in P.
    eapply existsb_filter_sub, P.
  - (* BPortClose *)
    left. cbn [exec] in P. destruct (port_out st n); [exact P|].
    destruct r as [|n']; [exact P|]. cbn in *. unfold has_pent in *. cbn [pents with_pents with_pdyn] in P.
    eapply existsb_filter_sub, P.
  - (* BHook *) cbn in P. destruct (alive (get_proc st q)); left; exact P.
  - (* BExit *) cbn in P. destruct (alive (get_proc st q)); left; exact P.
Qed.

Lemma get_proc_set st q pr p :
  get_proc (with_procs st (set_nth q pr (procs st))) p =
  if Nat.eqb p q then (if Nat.ltb q (length (procs st)) then pr else get_proc st p) else get_proc st p.
Proof. unfold get_proc. cbn [procs with_procs]. apply nth_set_nth. Qed.

Lemma alive_lt st q : alive (get_proc st q) = true -> Nat.ltb q (length (procs st)) = true.
Proof.
  intros A. destruct (Nat.ltb q (length (procs st))) eqn:L; auto.
  apply Nat.ltb_ge in L. unfold get_proc in A. rewrite nth_overflow in A by exact L. discriminate.
Qed.

Lemma cleanup_in_hook_prog p r : exists i, In i (hook_prog p (HClean r)) /\ cleanup_instr r p i.
Proof.
  destruct r as [|n]; cbn; eexists; (split; [right; left; reflexivity|right; reflexivity]).
Qed.

Lemma cleanup_in_hook_progs p r hs :
  In (HClean r) hs -> exists i, In i (flat_map (hook_prog p) hs) /\ cleanup_instr r p i.
Proof.
  intros I. destruct (cleanup_in_hook_prog p r) as [i [I1 I2]]. exists i. split; auto.
  apply in_flat_map. exists (HClean r). auto.
Qed.

(* B: a registered cleanup stays registered, or the exiting thread has it to run *)
Lemma exec_registered b st r p :
  registered st r p ->
  registered (fst (exec b st)) r p \/ exists i, In i (snd (exec b st)) /\ cleanup_instr r p i.
Proof.
  intros [A I].
  assert (Keep : procs (fst (exec b st)) = procs st -> registered (fst (exec b st)) r p).
  { intros E. apply (registered_ext st); auto. split; assumption. }
  destruct b as [q|q v|q v|q u|q f fl|q f fl|q g|q g|q g|q h|q h| | |n q|n q|n q|n q|n|o n|q h|q].
  all: try (left; apply Keep; cbn;
            repeat match goal with |- context [match ?x with _ => _ end] => destruct x; cbn end; reflexivity).
  - (* BHook *)
    cbn [exec]. destruct (alive (get_proc st q)) eqn:Aq; [|left; exact (conj A I)].
    left. unfold registered. cbn [fst]. rewrite !get_proc_set.
    destruct (Nat.eqb p q) eqn:E; [|exact (conj A I)].
    apply Nat.eqb_eq in E. subst q. rewrite (alive_lt st p Aq). cbn. split; auto. apply in_or_app. left. exact I.
  - (* BExit *)
    cbn [exec]. destruct (alive (get_proc st q)) eqn:Aq; [|left; exact (conj A I)].
    destruct (Nat.eqb p q) eqn:E.
    + apply Nat.eqb_eq in E. subst q. right. cbn [snd]. apply cleanup_in_hook_progs. apply in_rev. rewrite rev_involutive. exact I.
    + left. unfold registered. cbn [fst]. rewrite !get_proc_set, E. exact (conj A I).
Qed.

(* C: when a cleanup instruction runs, the entry is gone, or the cleanup is registered, or it is what the thread does next *)
Lemma exec_cleanup b st r p :
  cleanup_instr r p (Body b) -> present (fst (exec b st)) r p ->
  registered (fst (exec b st)) r p \/ exists i, In i (snd (exec b st)) /\ cleanup_instr r p i.
Proof.
  intros [E|E] P.
  - inversion E; subst. cbn [exec] in *. destruct (alive (get_proc st p)) eqn:A.
    + left. unfold registered. cbn [fst]. rewrite !get_proc_set, Nat.eqb_refl, (alive_lt st p A).
      cbn. split; auto. apply in_or_app. right. left. reflexivity.
    + right. cbn [snd]. apply cleanup_in_hook_prog.
  - destruct r as [|n]; inversion E; subst; exfalso.
    + sp P. rewrite !alookup_aremove_same in P. tauto.
    + sp P. unfold has_pent in P. cbn [pents with_pents] in P. rewrite existsb_filter_self in P. discriminate.
Qed.

Lemma pending_set st st' t th r p :
  threads st' = threads st -> t < length (threads st) ->
  (exists i, In i (cont th) /\ cleanup_instr r p i) -> pending (set_thread st' t th) r p.
Proof.
  intros E Lt [i [I C]]. exists t. rewrite length_threads_set, E. split; auto.
  rewrite get_thread_set, E, Nat.eqb_refl. apply Nat.ltb_lt in Lt. rewrite Lt. eauto.
Qed.

Lemma pending_other st st' t th r p j i :
  threads st' = threads st -> j < length (threads st) -> j <> t ->
  In i (cont (get_thread st j)) -> cleanup_instr r p i -> pending (set_thread st' t th) r p.
Proof.
  intros E Lj N I C. exists j. rewrite length_threads_set, E. split; auto.
  rewrite get_thread_set, (get_thread_threads_eq st st' j E).
  destruct (Nat.eqb j t) eqn:Ej; [apply Nat.eqb_eq in Ej; congruence|]. eauto.
Qed.

Lemma not_cleanup_simple r p i : (forall b, i <> Body b) -> ~ cleanup_instr r p i.
Proof. intros N [E|E]; [eapply N; exact E|]. destruct r; eapply N; exact E. Qed.

Lemma step_RInv st t : RInv st -> RInv (step st t).
Proof.
  intros H. destruct (step_cases st t) as [E|[Lt [hd [i [c [TH S]]]]]]; [rewrite E; exact H|].
  (* instructions that are not bodies: maps and processes unchanged, t's continuation loses a non-cleanup *)
  assert (Simple : forall st2 hd2,
             eager st2 = eager st -> lazy st2 = lazy st -> shooks st2 = shooks st -> pents st2 = pents st ->
             procs st2 = procs st -> threads st2 = threads st -> (forall b, i <> Body b) ->
             RInv (set_thread st2 t (mkthr hd2 c))).
  { intros st2 hd2 E1 E2 E3 E4 E5 E6 NB r p P.
    assert (P0 : present st r p).
    { apply (present_ext st (set_thread st2 t (mkthr hd2 c))); auto. }
    destruct (H r p P0) as [R|[j [Lj [i0 [I C]]]]].
    - left. apply (registered_ext st (set_thread st2 t (mkthr hd2 c))); auto.
    - right. destruct (Nat.eq_dec j t) as [->|N].
      + apply pending_set with (st := st); auto. exists i0. split; auto. rewrite TH in I. cbn in I.
        destruct I as [<-|I]; [exfalso; eapply not_cleanup_simple; eauto|exact I].
      + eapply pending_other; eauto. }
  destruct i as [l m|l m|b|k|v].
  - destruct S as [_ S]. rewrite S. apply Simple; auto; discriminate.
  - rewrite S. apply Simple; auto; discriminate.
  - rewrite S. clear Simple. pose proof (exec_threads b st) as ET.
    intros r p P.
    assert (P1 : present (fst (exec b st)) r p).
    { apply (present_ext (fst (exec b st)) (set_thread (fst (exec b st)) t (mkthr hd (snd (exec b st) ++ c)))); auto. }
    assert (Frag : (exists i, In i (snd (exec b st)) /\ cleanup_instr r p i) ->
                   pending (set_thread (fst (exec b st)) t (mkthr hd (snd (exec b st) ++ c))) r p).
    { intros [i [I C]]. apply pending_set with (st := st); auto. exists i. split; auto. cbn. apply in_or_app. left. exact I. }
    assert (Reg : registered (fst (exec b st)) r p ->
                  registered (set_thread (fst (exec b st)) t (mkthr hd (snd (exec b st) ++ c))) r p).
    { intros R. apply (registered_ext (fst (exec b st)) (set_thread (fst (exec b st)) t (mkthr hd (snd (exec b st) ++ c)))); auto. }
    destruct (exec_present b st r p P1) as [P0|F]; [|right; apply Frag, F].
    destruct (H r p P0) as [R|[j [Lj [i0 [I C]]]]].
    + destruct (exec_registered b st r p R) as [R'|F]; [left; apply Reg, R'|right; apply Frag, F].
    + destruct (Nat.eq_dec j t) as [->|N].
      * rewrite TH in I. cbn in I. destruct I as [<-|I].
        -- destruct (exec_cleanup b st r p C P1) as [R'|F]; [left; apply Reg, R'|right; apply Frag, F].
        -- right. apply pending_set with (st := st); auto. exists i0. split; auto. cbn. apply in_or_app. right. exact I.
      * right. eapply pending_other; eauto.
  - rewrite S. apply Simple; auto; discriminate.
  - rewrite S. apply Simple; auto; discriminate.
Qed.

(* ---------- invariant 5: per process, at most one initialiser run per deletion of its entry ---------- *)
Definition undone (p : nat) (cs : list cell) : nat :=
  length (filter (fun c => Nat.eqb (c_proc c) p && negb (c_done c)) cs).
Definition ind (st : lstate) (p : nat) : nat :=
  match alookup p (eager st), alookup p (lazy st) with None, None => 0 | _, _ => 1 end.
Definition PInv (st : lstate) : Prop :=
  forall p, count_inits p (log st) + undone p (cells st) <= count_dels p (log st) + ind st p.

Lemma ind_le1 st p : ind st p <= 1.
Proof. unfold ind. destruct (alookup p (eager st)), (alookup p (lazy st)); lia. Qed.

Lemma ind_eager st p v : alookup p (eager st) = Some v -> ind st p = 1.
Proof. unfold ind. intros ->. reflexivity. Qed.

Ltac spi := cbn [exec fst snd eager lazy shooks pents log cells with_local with_cells with_pents with_procs add_log].

Lemma exec_dels_ind b st p :
  (forall p0 g0, b <> BLzDone p0 g0) -> cells (fst (exec b st)) = cells st ->
  count_dels p (log st) + ind st p <= count_dels p (log (fst (exec b st))) + ind (fst (exec b st)) p.
Proof.
  intros NB EC.
  destruct b as [q|q v|q v|q u|q f fl|q f fl|q g|q g|q g|q h|q h| | |n q|n q|n q|n q|n|o n|q h|q].
  all: try (spi; repeat match goal with |- context [match ?x with _ => _ end] => destruct x; spi end; apply Nat.le_refl).
  - (* BStore *) spi. destruct (Nat.eq_dec q p) as [->|N].
    + pose proof (ind_le1 st p). unfold ind at 2. spi. rewrite alookup_aset_same. lia.
    + unfold ind. spi. rewrite alookup_aset_other by exact N. lia.
  - (* BStoreOld *) spi. destruct (Nat.eq_dec q p) as [->|N].
    + pose proof (ind_le1 st p). unfold ind at 2. spi. rewrite alookup_aset_same. lia.
    + unfold ind. spi. rewrite alookup_aset_other by exact N. lia.
  - (* BDelete *) spi. rewrite count_dels_app. destruct (Nat.eq_dec q p) as [->|N].
    + pose proof (ind_le1 st p). unfold count_dels at 3. cbn. rewrite Nat.eqb_refl. cbn. lia.
    + unfold ind. spi. rewrite !alookup_aremove_other by exact N. lia.
  - (* BLos2 *) revert EC. spi.
    destruct (alookup q (eager st)) eqn:E1; spi; [intros _; apply Nat.le_refl|].
    destruct (alookup q (lazy st)) eqn:E2; spi; [intros _; apply Nat.le_refl|].
    intros EC. exfalso. assert (X := f_equal (@length _) EC). rewrite app_length in X. cbn in X. lia.
  - (* BLzDone *) exfalso. eapply NB. reflexivity.
  - (* BLos3 *) spi. destruct (Nat.eq_dec q p) as [->|N].
    + pose proof (ind_le1 st p). unfold ind at 2. spi. rewrite alookup_aset_same. lia.
    + unfold ind. spi. rewrite alookup_aset_other, alookup_aremove_other by exact N. lia.
  - (* BCloseLocal *) spi. rewrite count_dels_app. pose proof (ind_le1 st p). unfold count_dels at 3. cbn. lia.
Qed.

Lemma undone_app p cs c : undone p (cs ++ [c]) = undone p cs + (if Nat.eqb (c_proc c) p && negb (c_done c) then 1 else 0).
Proof. unfold undone. rewrite filter_app, app_length. cbn. destruct (_ && _); reflexivity. Qed.

Lemma step_PInv st t : CInv st -> PInv st -> PInv (step st t).
Proof.
  intros [H1 H2] H. destruct (step_cases st t) as [E|[Lt [hd [i [c [TH HS]]]]]]; [rewrite E; exact H|].
  destruct i as [l m|l m|b|k|v].
  - destruct HS as [_ HS]. rewrite HS. exact H.
  - rewrite HS. exact H.
  - rewrite HS. intros p.
    change (count_inits p (log (fst (exec b st))) + undone p (cells (fst (exec b st))) <=
            count_dels p (log (fst (exec b st))) + ind (fst (exec b st)) p).
    destruct (exec_cells_log b st) as [[p0 [g0 EB]]|[[es [EL EZ]] EC]].
    + (* BLzDone: one more run, one cell fewer to run *)
      subst b. destruct (H1 t p0 g0 Lt) as [_ Hd]; [rewrite TH; left; reflexivity|].
      pose proof (done_false_lt st g0 Hd) as Lg. spi. rewrite count_inits_app, count_dels_app.
      change (ind _ p) with (ind st p). specialize (H p). unfold undone in *.
      set (cd := mkcell (c_proc (get_cell st g0)) (c_fn (get_cell st g0)) (c_fails (get_cell st g0)) true).
      destruct (Nat.eqb (c_proc (get_cell st g0)) p) eqn:Ep.
      * assert (X : S (length (filter (fun c0 => Nat.eqb (c_proc c0) p && negb (c_done c0)) (set_nth g0 cd (cells st)))) =
                    length (filter (fun c0 => Nat.eqb (c_proc c0) p && negb (c_done c0)) (cells st))).
        { apply filter_set_nth_drop with (d := mkcell 0 0 false true); auto.
          - change (nth g0 (cells st) (mkcell 0 0 false true)) with (get_cell st g0). rewrite Ep, Hd. reflexivity.
          - cbn. apply andb_false_r. }
        unfold count_inits at 2, count_dels at 2. cbn. rewrite Nat.eqb_sym, Ep. cbn. lia.
      * assert (X : length (filter (fun c0 => Nat.eqb (c_proc c0) p && negb (c_done c0)) (set_nth g0 cd (cells st))) =
                    length (filter (fun c0 => Nat.eqb (c_proc c0) p && negb (c_done c0)) (cells st))).
        { apply filter_set_nth_same with (d := mkcell 0 0 false true).
          change (nth g0 (cells st) (mkcell 0 0 false true)) with (get_cell st g0). cbn. rewrite Ep. reflexivity. }
        unfold count_inits at 2, count_dels at 2. cbn. rewrite Nat.eqb_sym, Ep. cbn. lia.
    + assert (NB : forall p0 g0, b <> BLzDone p0 g0).
      { intros p0 g0 ->. cbn in EL. destruct (EZ g0) as [Z _]. destruct es as [|e es].
        - assert (X := f_equal (@length _) EL). rewrite !app_length in X. cbn in X. lia.
        - apply app_inv_head in EL. inversion EL; subst. unfold count_inits_cell in Z. cbn in Z. rewrite Nat.eqb_refl in Z. discriminate. }
      rewrite EL at 1. rewrite count_inits_app, (proj2 (EZ 0) p), Nat.add_0_r.
      destruct EC as [EC|[q [f [fl [EC [E1 [E2 [E3 [E4 E5]]]]]]]]].
      * rewrite EC. pose proof (exec_dels_ind b st p NB EC). specialize (H p). lia.
      * rewrite EC, undone_app, E5. cbn [c_proc c_done negb]. rewrite andb_true_r. specialize (H p).
        destruct (Nat.eqb q p) eqn:Eq.
        -- apply Nat.eqb_eq in Eq. subst q. unfold ind in *. rewrite E1, E2 in H. rewrite E4, E3, E1, alookup_aset_same. lia.
        -- apply Nat.eqb_neq in Eq. unfold ind in *. rewrite E4, E3, alookup_aset_other by exact Eq. lia.
  - rewrite HS. intros p. specialize (H p). cbn [log cells set_thread with_threads add_log].
    rewrite count_inits_app, count_dels_app. unfold ind in *. cbn. lia.
  - rewrite HS. intros p. specialize (H p). cbn [log cells set_thread with_threads add_log].
    rewrite count_inits_app, count_dels_app. unfold ind in *. cbn. lia.
Qed.

(* ---------- histories ---------- *)
Lemma template_no_done m : no_done (template m).
Proof. intros p g I. destruct m; cbn in I; in_inv I. Qed.

Lemma l_step_MInv st op : MInv st -> MInv (l_step st op).
Proof.
  intros H. destruct op as [t m| |t]; cbn [l_step].
  - destruct (Nat.ltb t (length (threads st))) eqn:Lt; [|exact H].
    eapply MInv_held; [| |exact H].
    + rewrite length_threads_set. reflexivity.
    + apply held_set_same; reflexivity.
  - exact H.
  - apply step_MInv, H.
Qed.

Lemma l_step_CInv st op : TInv st -> MInv st -> CInv st -> CInv (l_step st op).
Proof.
  intros HT HM [H1 H2]. destruct op as [t m| |t]; cbn [l_step].
  - destruct (Nat.ltb t (length (threads st))) eqn:Lt; [|split; assumption].
    split; [|exact H2].
    intros j p g Hj I. rewrite length_threads_set in Hj. rewrite get_thread_set, Lt in *.
    change (get_cell (set_thread st t (mkthr (held (get_thread st t)) (cont (get_thread st t) ++ template m))) g) with (get_cell st g).
    destruct (Nat.eqb j t) eqn:Ej; [|apply (H1 j p g); auto].
    apply Nat.eqb_eq in Ej. subst j. cbn [cont held] in *.
    apply in_app_or in I. destruct I as [I|I]; [apply (H1 t p g); auto|].
    exfalso. eapply template_no_done, I.
  - split; assumption.
  - apply step_CInv; auto. split; assumption.
Qed.

Lemma l_step_RInv st op : RInv st -> RInv (l_step st op).
Proof.
  intros H. destruct op as [t m| |t]; cbn [l_step].
  - destruct (Nat.ltb t (length (threads st))) eqn:Lt; [|exact H]. apply Nat.ltb_lt in Lt.
    intros r p P. destruct (H r p P) as [R|[j [Lj [i [I C]]]]]; [left; exact R|right].
    destruct (Nat.eq_dec j t) as [->|N].
    + apply pending_set with (st := st); auto. exists i. split; auto. cbn. apply in_or_app. left. exact I.
    + eapply pending_other; eauto.
  - intros r p P. destruct (H r p P) as [[A I]|Pe]; [left|right; exact Pe].
    assert (Lp : p < length (procs st)).
    { destruct (Nat.ltb p (length (procs st))) eqn:L; [apply Nat.ltb_lt; exact L|].
      apply Nat.ltb_ge in L. unfold get_proc in A. rewrite nth_overflow in A by exact L. discriminate. }
    unfold registered, get_proc. cbn [procs with_procs]. rewrite app_nth1 by exact Lp. split; assumption.
  - apply step_RInv, H.
Qed.

Lemma l_step_PInv st op : CInv st -> PInv st -> PInv (l_step st op).
Proof.
  intros HC H. destruct op as [t m| |t]; cbn [l_step].
  - destruct (Nat.ltb t (length (threads st))); exact H.
  - exact H.
  - apply step_PInv; auto.
Qed.

Definition Inv (st : lstate) : Prop := TInv st /\ MInv st /\ CInv st /\ RInv st /\ PInv st.

Lemma l_step_Inv st op : op_ok op -> Inv st -> Inv (l_step st op).
Proof.
  intros OK [HT [HM [HC [HR HP]]]]. split; [|split; [|split; [|split]]].
  - apply l_step_TInv; auto.
  - apply l_step_MInv; auto.
  - apply (l_step_CInv st op HT HM HC).
  - apply l_step_RInv; auto.
  - apply l_step_PInv; auto.
Qed.

Lemma nth_repeat {A} (x : A) n j : nth j (repeat x n) x = x.
Proof. revert j. induction n; intros [|j]; cbn; auto. Qed.

Lemma l_init_Inv n ports : Inv (l_init n ports).
Proof.
  split; [|split; [|split; [split|split]]].
  - apply l_init_TInv.
  - intros i j l m _ _ _ Hh. unfold get_thread, l_init in Hh. cbn in Hh. rewrite nth_repeat in Hh. discriminate.
  - intros j p g _ I. unfold get_thread, l_init in I. cbn in I. rewrite nth_repeat in I. contradiction.
  - intros g. cbn. destruct g; reflexivity.
  - intros r p P. exfalso. destruct r; cbn in P; [tauto|discriminate].
  - intros p. cbn. lia.
Qed.

Lemma l_run_Inv n ports ops : Forall op_ok ops -> Inv (l_run n ports ops).
Proof.
  unfold l_run. intros F.
  assert (G : forall st, Inv st -> Inv (fold_left l_step ops st)).
  { induction F as [|op ops OK F IH]; intros st H; cbn; auto. apply IH, l_step_Inv; auto. }
  apply G, l_init_Inv.
Qed.

(* ---------- the statements ---------- *)
Theorem run_no_deadlock n ports ops :
  Forall op_ok ops ->
  let st := l_run n ports ops in
  (forall j, j < length (threads st) -> cont (get_thread st j) = []) \/
  (exists t, t < length (threads st) /\ enabled st t = true).
Proof. intros F. apply no_deadlock. apply (l_run_Inv n ports ops F). Qed.

Theorem run_mutex n ports ops :
  Forall op_ok ops -> MInv (l_run n ports ops).
Proof. intros F. apply (l_run_Inv n ports ops F). Qed.

Theorem run_cell_once n ports ops g :
  Forall op_ok ops -> count_inits_cell g (log (l_run n ports ops)) <= 1.
Proof.
  intros F. destruct (l_run_Inv n ports ops F) as [_ [_ [[_ H2] _]]]. rewrite H2.
  destruct (Nat.ltb _ _); [destruct (c_done _)|]; lia.
Qed.

Lemma finished_no_pending st r p :
  (forall j, j < length (threads st) -> cont (get_thread st j) = []) -> ~ pending st r p.
Proof. intros F [j [Lj [i [I _]]]]. rewrite (F j Lj) in I. exact I. Qed.

Theorem run_no_residue n ports ops r p :
  Forall op_ok ops ->
  let st := l_run n ports ops in
  (forall j, j < length (threads st) -> cont (get_thread st j) = []) ->
  alive (get_proc st p) = false -> ~ present st r p.
Proof.
  intros F st Fin D P. destruct (l_run_Inv n ports ops F) as [_ [_ [_ [HR _]]]].
  destruct (HR r p P) as [[A _]|Pe].
  - fold st in A. congruence.
  - eapply finished_no_pending; eauto.
Qed.

Theorem run_proc_once n ports ops p :
  Forall op_ok ops ->
  count_inits p (log (l_run n ports ops)) <= count_dels p (log (l_run n ports ops)) + 1.
Proof.
  intros F. destruct (l_run_Inv n ports ops F) as [_ [_ [_ [_ HP]]]].
  specialize (HP p). pose proof (ind_le1 (l_run n ports ops) p). lia.
Qed.
