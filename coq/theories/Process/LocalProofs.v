(* Proofs about the lock-level model of process-local stores and per-process port endpoints:
   no reachable state is a deadlock; a lazy cell's initialiser runs at most once and a process sees
   at most one run per deletion of its entry; whatever a store or a port holds for a process is
   covered by a cleanup (registered exit hook, or cleanup code some thread still has to run), so in
   every state where all threads are finished a terminated process has nothing left. *)
From Coq Require Import List NArith Bool Lia.
From Uf Require Import Process.Local.
Import ListNotations.

(* ---------- lists ---------- *)
Lemma nth_set_nth {A} (l : list A) t j x d :
  nth j (set_nth t x l) d = if Nat.eqb j t then (if Nat.ltb t (length l) then x else nth j l d) else nth j l d.
Proof.
  revert t j. induction l as [|a l IH]; intros t j; cbn.
  - destruct (Nat.eqb j t); reflexivity.
  - destruct t as [|t]; destruct j as [|j]; cbn; try reflexivity.
    rewrite IH. destruct (Nat.eqb j t); [|reflexivity].
    change (Nat.ltb (S t) (S (length l))) with (Nat.ltb t (length l)). reflexivity.
Qed.

Lemma length_set_nth {A} (l : list A) t x : length (set_nth t x l) = length l.
Proof. revert t. induction l as [|a l IH]; intros [|t]; cbn; auto. Qed.

Lemma set_nth_oob {A} (l : list A) t x : length l <= t -> set_nth t x l = l.
Proof. revert t. induction l as [|a l IH]; intros [|t] H; cbn in *; auto; try lia. f_equal. apply IH. lia. Qed.

(* ---------- association lists ---------- *)
Lemma alookup_aremove_same {A} k (l : list (nat * A)) : alookup k (aremove k l) = None.
Proof.
  induction l as [|[k' v] l IH]; cbn; auto.
  destruct (Nat.eqb k' k) eqn:E; cbn; auto.
  rewrite Nat.eqb_sym, E. exact IH.
Qed.
Lemma alookup_aremove_other {A} k k' (l : list (nat * A)) : k <> k' -> alookup k' (aremove k l) = alookup k' l.
Proof.
  intros N. induction l as [|[k2 v] l IH]; cbn; auto.
  destruct (Nat.eqb k2 k) eqn:E; cbn.
  - apply Nat.eqb_eq in E. subst. destruct (Nat.eqb k' k) eqn:E2; [apply Nat.eqb_eq in E2; congruence|exact IH].
  - rewrite IH. reflexivity.
Qed.
Lemma alookup_aset_same {A} k (v : A) l : alookup k (aset k v l) = Some v.
Proof. unfold aset. cbn. rewrite Nat.eqb_refl. reflexivity. Qed.
Lemma alookup_aset_other {A} k k' (v : A) l : k <> k' -> alookup k' (aset k v l) = alookup k' l.
Proof.
  intros N. unfold aset. cbn. destruct (Nat.eqb k' k) eqn:E; [apply Nat.eqb_eq in E; congruence|].
  apply alookup_aremove_other, N.
Qed.

(* ---------- well-formed continuations ---------- *)
Definition body_ok (b : body) : Prop := match b with BStoreOld _ _ => False | _ => True end.

Inductive wf : list instr -> Prop :=
| wf_nil : wf []
| wf_acq l m b c : lock_of b = Some (l, m) -> body_ok b -> wf c -> wf (Acq l m :: Body b :: c)
| wf_body b c : lock_of b = None -> wf c -> wf (Body b :: c)
| wf_cb k c : wf c -> wf (Cb k :: c)
| wf_ret v c : wf c -> wf (Ret v :: c).

(* the continuation of a thread that holds lock l: user callbacks and returns, then either the
   body of the critical section or its release *)
Inductive inlock (l : lockid) (m : mode) : list instr -> Prop :=
| il_rel c : wf c -> inlock l m (Rel l m :: c)
| il_body b c : lock_of b = Some (l, m) -> body_ok b -> wf c -> inlock l m (Body b :: c)
| il_cb k c : inlock l m c -> inlock l m (Cb k :: c)
| il_ret v c : inlock l m c -> inlock l m (Ret v :: c).

Definition tinv (th : thread) : Prop :=
  match held th with None => wf (cont th) | Some (l, m) => inlock l m (cont th) end.

#[local] Hint Constructors wf inlock : lk.

Lemma wf_app a c : wf a -> wf c -> wf (a ++ c).
Proof. induction 1; intros; cbn; auto with lk. Qed.
Lemma inlock_app l m a c : inlock l m a -> wf c -> inlock l m (a ++ c).
Proof. induction 1; intros; cbn; auto using wf_app with lk. Qed.

Lemma wf_cbs (f : nat -> cbkind) hs c : wf c -> wf (map (fun h => Cb (f h)) hs ++ c).
Proof. induction hs; cbn; auto with lk. Qed.

Lemma wf_hook_prog p h : wf (hook_prog p h).
Proof. destruct h as [[|r]|k]; cbn; repeat constructor. Qed.
Lemma wf_hook_progs p hs : wf (flat_map (hook_prog p) hs).
Proof. induction hs; cbn; auto using wf_app, wf_hook_prog with lk. Qed.
Lemma wf_opens p l c : wf c -> wf (map (fun i => Body (BOpen0 i p)) l ++ c).
Proof. induction l; cbn; auto with lk. Qed.

Lemma wf_after_do p g c rest : wf rest -> wf (after_do p g c ++ rest).
Proof. intros. unfold after_do. destruct (c_fails c); cbn; repeat constructor; auto. Qed.

Lemma wf_template m : m <> MStoreOld (match m with MStoreOld p _ => p | _ => 0 end) (match m with MStoreOld _ v => v | _ => 0 end) ->
  wf (template m).
Proof. destruct m; cbn; intros N; try congruence; repeat constructor. Qed.

(* what a body leaves to do: inside its lock up to the release, well-formed after it *)
Lemma exec_locked b st l m c :
  lock_of b = Some (l, m) -> body_ok b -> wf c -> inlock l m (snd (exec b st) ++ c).
Proof.
  intros L OK W. destruct b; cbn in L; inversion L; subst; clear L; cbn in OK; try contradiction; cbn.
  - (* BLoad *) repeat constructor; auto.
  - (* BStore *) constructor. destruct (alookup p (eager st)); cbn.
    + rewrite <- app_assoc. apply wf_cbs with (f := fun h => CbStoreHook h v). cbn. auto with lk.
    + constructor; [reflexivity|]. rewrite <- app_assoc. apply wf_cbs with (f := fun h => CbStoreHook h v). cbn. auto with lk.
  - (* BDelete *) constructor. destruct user; cbn; auto with lk.
  - (* BLos1 *) destruct (alookup p (eager st)); cbn; repeat constructor; auto.
  - (* BLos2 *) destruct (alookup p (eager st)); cbn; [repeat constructor; auto|].
    destruct (alookup p (lazy st)); cbn; repeat constructor; auto.
  - (* BLzEnter *) destruct (c_done (get_cell st g)); cbn.
    + constructor. apply wf_after_do, W.
    + apply il_cb. apply il_body; [reflexivity|exact I|exact W].
  - (* BLzDone *) constructor. apply wf_after_do, W.
  - (* BLos3 *) constructor. constructor; [reflexivity|]. rewrite <- app_assoc.
    apply wf_cbs with (f := fun h => CbStoreHook h (c_fn (get_cell st g))). cbn. auto with lk.
  - (* BAddHook *) destruct (alookup p (eager st)); cbn; [repeat constructor; auto|].
    destruct (existsb _ _); cbn; [repeat constructor; auto|].
    constructor. destruct (match alookup p (shooks st) with Some l => l | None => [] end); cbn; repeat constructor; auto.
  - (* BRemHook *) destruct (alookup p (shooks st)); cbn; [|repeat constructor; auto].
    destruct (existsb _ _); cbn; repeat constructor; auto.
  - (* BKeys *) repeat constructor; auto.
  - (* BCloseLocal *) repeat constructor; auto.
  - (* BOpen1 *) destruct (has_pent st r p); cbn; repeat constructor; auto.
  - (* BOpen2 *) destruct (has_pent st r p); cbn; [repeat constructor; auto|].
    constructor. destruct (port_out st r); cbn.
    + constructor. constructor; [reflexivity|]. rewrite <- app_assoc. apply wf_opens. cbn. auto with lk.
    + repeat constructor; auto.
  - (* BPortDel *) repeat constructor; auto.
  - (* BPortClose *) repeat constructor; auto.
Qed.

Lemma exec_free b st c : lock_of b = None -> wf c -> wf (snd (exec b st) ++ c).
Proof.
  intros L W. destruct b; cbn in L; try discriminate; cbn.
  - destruct (alive (get_proc st p)); cbn; repeat constructor; auto.
  - destruct (alive (get_proc st p)); cbn; auto. apply wf_app; auto using wf_hook_prog.
  - destruct (alive (get_proc st p)); cbn; auto. apply wf_app; auto using wf_hook_progs.
Qed.

Lemma exec_threads b st : threads (fst (exec b st)) = threads st.
Proof.
  destruct b; cbn; try reflexivity;
    repeat match goal with
           | |- context [match ?x with _ => _ end] => destruct x; cbn; try reflexivity
           | |- context [if ?x then _ else _] => destruct x; cbn; try reflexivity
           end.
Qed.

(* ---------- invariant 1: every thread is well-formed ---------- *)
Definition TInv (st : lstate) : Prop := forall j, j < length (threads st) -> tinv (get_thread st j).

Lemma get_thread_set st t th j :
  get_thread (set_thread st t th) j =
  if Nat.eqb j t then (if Nat.ltb t (length (threads st)) then th else get_thread st j) else get_thread st j.
Proof. unfold get_thread, set_thread. cbn. apply nth_set_nth. Qed.

Lemma length_threads_set st t th : length (threads (set_thread st t th)) = length (threads st).
Proof. unfold set_thread. cbn. apply length_set_nth. Qed.

Lemma TInv_set st st' t th :
  threads st' = threads st -> TInv st -> tinv th -> TInv (set_thread st' t th).
Proof.
  intros E H T j Hj. rewrite length_threads_set, E in Hj. rewrite get_thread_set.
  assert (G : get_thread st' j = get_thread st j) by (unfold get_thread; rewrite E; reflexivity).
  destruct (Nat.eqb j t); [destruct (Nat.ltb t _)|]; auto; rewrite G; auto.
Qed.

Lemma step_TInv st t : TInv st -> TInv (step st t).
Proof.
  intros H. unfold step.
  destruct (Nat.ltb t (length (threads st))) eqn:Lt.
  2:{ apply Nat.ltb_ge in Lt. unfold get_thread. rewrite nth_overflow by exact Lt. cbn. exact H. }
  apply Nat.ltb_lt in Lt. pose proof (H t Lt) as T. unfold tinv in T.
  destruct (get_thread st t) as [hd c] eqn:TH. cbn in *.
  destruct c as [|i c]; [exact H|].
  destruct i as [l m|l m|b|k|v].
  - (* Acq *) destruct (can_acquire st l m); [|exact H].
    apply TInv_set; auto. unfold tinv; cbn.
    destruct hd as [[l0 m0]|]; inversion T; subst. apply il_body; auto.
  - (* Rel *) apply TInv_set; auto. unfold tinv; cbn.
    destruct hd as [[l0 m0]|]; inversion T; subst; auto.
  - (* Body *) destruct (exec b st) as [st' frag] eqn:EX.
    pose proof (exec_threads b st) as ET. rewrite EX in ET. cbn in ET.
    apply TInv_set; auto. unfold tinv; cbn.
    destruct hd as [[l0 m0]|]; inversion T; subst.
    + change frag with (snd (st', frag)). rewrite <- EX. apply exec_locked; auto.
    + change frag with (snd (st', frag)). rewrite <- EX. apply exec_free; auto.
  - (* Cb *) apply TInv_set with (st := st); auto. unfold tinv; cbn.
    destruct hd as [[l0 m0]|]; inversion T; subst; auto.
  - (* Ret *) apply TInv_set with (st := st); auto. unfold tinv; cbn.
    destruct hd as [[l0 m0]|]; inversion T; subst; auto.
Qed.

Definition meth_ok (m : meth) : Prop := match m with MStoreOld _ _ => False | _ => True end.
Definition op_ok (op : lop) : Prop := match op with LCall _ m => meth_ok m | _ => True end.

Lemma wf_template' m : meth_ok m -> wf (template m).
Proof. destruct m; cbn; intros N; try contradiction; repeat constructor. Qed.

Lemma l_step_TInv st op : op_ok op -> TInv st -> TInv (l_step st op).
Proof.
  intros OK H. destruct op as [t m| |t]; cbn.
  - destruct (Nat.ltb t (length (threads st))) eqn:Lt; [|exact H]. apply Nat.ltb_lt in Lt.
    apply TInv_set; auto. pose proof (H t Lt) as T. unfold tinv in *. cbn.
    destruct (held (get_thread st t)) as [[l0 m0]|].
    + apply inlock_app; auto. apply wf_template', OK.
    + apply wf_app; auto. apply wf_template', OK.
  - exact H.
  - apply step_TInv, H.
Qed.

Lemma l_init_TInv n ports : TInv (l_init n ports).
Proof.
  intros j Hj. unfold get_thread, l_init in *. cbn in *.
  assert (E : nth j (repeat (mkthr None []) n) (mkthr None []) = mkthr None []).
  { clear Hj. revert j. induction n; intros [|j]; cbn; auto. }
  rewrite E. constructor.
Qed.

Lemma l_run_TInv n ports ops : Forall op_ok ops -> TInv (l_run n ports ops).
Proof.
  unfold l_run. intros F.
  assert (G : forall st, TInv st -> TInv (fold_left l_step ops st)).
  { induction F as [|op ops OK F IH]; intros st H; cbn; auto. apply IH, l_step_TInv; auto. }
  apply G, l_init_TInv.
Qed.

(* ---------- no deadlock ---------- *)
Lemma existsb_holds_false st l :
  (forall j, j < length (threads st) -> held (get_thread st j) = None) ->
  existsb (holds l) (threads st) = false /\ existsb (holds_w l) (threads st) = false.
Proof.
  unfold get_thread. generalize (threads st). intros ts H.
  induction ts as [|th ts IH]; cbn; auto.
  assert (H0 := H 0 (Nat.lt_0_succ _)). cbn in H0.
  unfold holds at 1, holds_w at 1. rewrite H0. cbn.
  apply IH. intros j Hj. apply (H (S j)). cbn. lia.
Qed.

Lemma held_or_free (ts : list thread) :
  (exists j, j < length ts /\ held (nth j ts (mkthr None [])) <> None) \/
  (forall j, j < length ts -> held (nth j ts (mkthr None [])) = None).
Proof.
  induction ts as [|th ts IH].
  - right. cbn. intros; lia.
  - destruct (held th) eqn:E.
    + left. exists 0. cbn. split; [lia|congruence].
    + destruct IH as [[j [Hj N]]|F].
      * left. exists (S j). cbn. split; [lia|exact N].
      * right. intros [|j] Hj; cbn; auto. apply F. cbn in Hj. lia.
Qed.

Lemma inlock_enabled l m c : inlock l m c -> match c with [] => False | Acq _ _ :: _ => False | _ => True end.
Proof. destruct 1; exact I. Qed.

Theorem no_deadlock st :
  TInv st ->
  (forall j, j < length (threads st) -> cont (get_thread st j) = []) \/
  (exists t, t < length (threads st) /\ enabled st t = true).
Proof.
  intros H. destruct (held_or_free (threads st)) as [[j [Hj N]]|F].
  - (* the holder of a lock can always go on *)
    right. exists j. split; auto. pose proof (H j Hj) as T. unfold tinv in T.
    unfold get_thread in *. destruct (held (nth j (threads st) (mkthr None []))) as [[l m]|]; [|congruence].
    apply inlock_enabled in T. unfold enabled, get_thread.
    destruct (cont (nth j (threads st) (mkthr None []))) as [|[]]; try contradiction; reflexivity.
  - (* no lock is held: whoever is not finished can go on *)
    assert (D : (forall j, j < length (threads st) -> cont (get_thread st j) = []) \/
                (exists j, j < length (threads st) /\ cont (get_thread st j) <> [])).
    { unfold get_thread. generalize (threads st). induction l as [|th ts IH].
      - left. cbn. intros; lia.
      - destruct (cont th) eqn:E.
        + destruct IH as [A|[j [Hj N]]].
          * left. intros [|j] Hj; cbn; auto. apply A. cbn in Hj. lia.
          * right. exists (S j). cbn. split; [lia|exact N].
        + right. exists 0. cbn. split; [lia|congruence]. }
    destruct D as [A|[j [Hj N]]]; [left; exact A|].
    right. exists j. split; auto. unfold enabled.
    destruct (cont (get_thread st j)) as [|i c]; [congruence|].
    destruct i; auto. unfold can_acquire.
    destruct (existsb_holds_false st l F) as [E1 E2]. destruct m; [rewrite E1|rewrite E2]; reflexivity.
Qed.
