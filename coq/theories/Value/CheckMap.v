(* Correspondence checker for C15: run the map model on a harness-written history and compare
   with what the implementation showed after every operation. *)
From Coq Require Import List NArith ZArith Bool.
From Uf Require Import Base.Fnv Base.Order Value.Value Value.Check Value.VMap.
Import ListNotations.

(* what the harness observes after one operation *)
Record obs15 := mkobs15 {
  o_handle : nat;                                                   (* handle of the returned map *)
  o_maps : list (bool * nat * list (option value * option value));  (* per handle: mutable?, Len(), Range() *)
  o_probes : list (list (nat * option value))    (* per handle: (index, Get) of every probe key with Has = true *)
}.

Record c15case := mk15 { c15probes : list (option value); c15steps : list (mop * obs15) }.

Definition view (o : mapobj) : bool * nat * list (option value * option value) :=
  (mo_mut o, t_len (mo_tab o), t_range (mo_tab o)).

Definition view_eqb (a b : bool * nat * list (option value * option value)) : bool :=
  Bool.eqb (fst (fst a)) (fst (fst b)) && Nat.eqb (snd (fst a)) (snd (fst b)) &&
  list_eqb pair_eqb (snd a) (snd b).

Fixpoint probe_from (i : nat) (keys : list (option value)) (o : mapobj) : list (nat * option value) :=
  match keys with
  | [] => []
  | k :: rest =>
      if t_has k (mo_tab o) then (i, t_get k (mo_tab o)) :: probe_from (S i) rest o
      else probe_from (S i) rest o
  end.
Definition probe := probe_from 0.

Definition probe_eqb (a b : nat * option value) : bool :=
  Nat.eqb (fst a) (fst b) && oveqb (snd a) (snd b).

Fixpoint c15run (keys : list (option value)) (st : store) (steps : list (mop * obs15)) : bool :=
  match steps with
  | [] => true
  | (op, ob) :: rest =>
      let '(st', h) := m_step st op in
      Nat.eqb h (o_handle ob) &&
      list_eqb view_eqb (map view st') (o_maps ob) &&
      list_eqb (list_eqb probe_eqb) (map (probe keys) st') (o_probes ob) &&
      c15run keys st' rest
  end.

Definition c15ok (c : c15case) : bool := c15run (c15probes c) [] (c15steps c).
