(* Algebraic laws of Equal / Compare / Hash on the value model (property C14). *)
From Coq Require Import List NArith ZArith Bool Lia.
From Uf Require Import Base.Fnv Base.Order Value.Value.
Import ListNotations.

(* ---- induction principle for the nested type ---- *)
Section value_ind2.
  Variable P : value -> Prop.
  Definition Pop (o : option value) : Prop := match o with None => True | Some v => P v end.
  Definition Ppair (p : pair_t) : Prop := Pop (fst p) /\ Pop (snd p).
  Definition Pbucket (he : N * bucket_t) : Prop := Forall Ppair (snd he).
  Hypothesis HBinary : forall x, P (VBinary x).
  Hypothesis HBuffer : forall x, P (VBuffer x).
  Hypothesis HBool : forall x, P (VBool x).
  Hypothesis HError : forall x, P (VError x).
  Hypothesis HInt : forall w x, P (VInt w x).
  Hypothesis HUint : forall w x, P (VUint w x).
  Hypothesis HF32 : forall x, P (VF32 x).
  Hypothesis HF64 : forall x, P (VF64 x).
  Hypothesis HString : forall x, P (VString x).
  Hypothesis HSlice : forall l, Forall Pop l -> P (VSlice l).
  Hypothesis HMap : forall t, Forall Pbucket t -> P (VMap t).

  Fixpoint value_ind2 (v : value) : P v :=
    match v return P v with
    | VBinary x => HBinary x
    | VBuffer x => HBuffer x
    | VBool x => HBool x
    | VError x => HError x
    | VInt w x => HInt w x
    | VUint w x => HUint w x
    | VF32 x => HF32 x
    | VF64 x => HF64 x
    | VString x => HString x
    | VSlice l =>
        HSlice l ((fix go (l : list (option value)) : Forall Pop l :=
                     match l return Forall Pop l with
                     | [] => Forall_nil _
                     | o :: t => Forall_cons o
                                   (match o return Pop o with None => I | Some u => value_ind2 u end)
                                   (go t)
                     end) l)
    | VMap t =>
        HMap t ((fix gob (t : table_t) : Forall Pbucket t :=
                   match t return Forall Pbucket t with
                   | [] => Forall_nil _
                   | he :: t' =>
                       Forall_cons he
                         ((fix gop (e : bucket_t) : Forall Ppair e :=
                             match e return Forall Ppair e with
                             | [] => Forall_nil _
                             | kv :: q =>
                                 Forall_cons kv
                                   (conj
                                      (match fst kv as o return Pop o with None => I | Some u => value_ind2 u end)
                                      (match snd kv as o return Pop o with None => I | Some u => value_ind2 u end))
                                   (gop q)
                             end) (snd he))
                         (gob t')
                   end) t)
    end.
End value_ind2.

(* ---- the container cases of cmp / seq / hash through generic combinators ---- *)
Definition pcmp (p p' : pair_t) : comparison := thenc (ocmp (fst p) (fst p')) (ocmp (snd p) (snd p')).
Definition bcmp (b b' : N * bucket_t) : comparison :=
  thenc (N.compare (fst b) (fst b'))
 (thenc (Nat.compare (length (snd b)) (length (snd b'))) (lexl pcmp (snd b) (snd b'))).

Lemma ocmp_optc o o' : ocmp o o' = optc cmp o o'.
Proof. destruct o, o'; reflexivity. Qed.

Lemma cmp_slice x : forall y, cmp (VSlice x) (VSlice y) = lexl ocmp x y.
Proof.
  induction x as [|a x IH]; intros [|b y]; try reflexivity.
  specialize (IH y). simpl in *. rewrite <- IH. reflexivity.
Qed.

Lemma cmp_bucket_aux (e : bucket_t) : forall e',
  (fix gop (p p' : bucket_t) : comparison :=
     match p, p' with
     | [], [] => Eq
     | [], _ => Lt
     | _, [] => Gt
     | (k, v) :: q, (k', v') :: q' => thenc (ocmp k k') (thenc (ocmp v v') (gop q q'))
     end) e e' = lexl pcmp e e'.
Proof.
  induction e as [|[k v] e IH]; intros [|[k' v'] e']; try reflexivity.
  simpl. rewrite IH. unfold pcmp. simpl. destruct (ocmp k k'); reflexivity.
Qed.

Lemma cmp_map_aux (x : table_t) : forall y,
  (fix gob (l l' : table_t) : comparison :=
         match l, l' with
         | [], [] => Eq
         | [], _ => Lt
         | _, [] => Gt
         | (h, e) :: t, (h', e') :: t' =>
             thenc (N.compare h h')
            (thenc (Nat.compare (length e) (length e'))
            (thenc ((fix gop (p p' : bucket_t) : comparison :=
                       match p, p' with
                       | [], [] => Eq
                       | [], _ => Lt
                       | _, [] => Gt
                       | (k, v) :: q, (k', v') :: q' =>
                           thenc (ocmp k k') (thenc (ocmp v v') (gop q q'))
                       end) e e')
                   (gob t t')))
         end) x y = lexl bcmp x y.
Proof.
  induction x as [|[h e] x IH]; intros [|[h' e'] y]; try reflexivity.
  simpl. rewrite IH, cmp_bucket_aux. unfold bcmp. simpl.
  destruct (N.compare h h'); simpl; auto.
  destruct (Nat.compare (length e) (length e')); simpl; auto.
Qed.

Lemma cmp_map x y :
  cmp (VMap x) (VMap y) = thenc (Nat.compare (length x) (length y)) (lexl bcmp x y).
Proof. simpl. f_equal. apply cmp_map_aux. Qed.

(* ---- kinds ---- *)
Lemma cmp_kind_ne a b : kind a <> kind b -> cmp a b = N.compare (kind a) (kind b).
Proof.
  destruct a, b; intros H; try reflexivity; try (exfalso; apply H; reflexivity).
  - simpl. destruct (width_eqb w w0) eqn:E; auto. exfalso. apply H. destruct w, w0; try discriminate; reflexivity.
  - simpl. destruct (width_eqb w w0) eqn:E; auto. exfalso. apply H. destruct w, w0; try discriminate; reflexivity.
Qed.

Lemma width_eqb_refl w : width_eqb w w = true.
Proof. destruct w; reflexivity. Qed.

Lemma width_eqb_eq w w' : width_eqb w w' = true -> w = w'.
Proof. destruct w, w'; simpl; congruence. Qed.

Definition same_shape (a b : value) : Prop :=
  match a with
  | VBinary _ => exists y, b = VBinary y
  | VBuffer _ => exists y, b = VBuffer y
  | VBool _ => exists y, b = VBool y
  | VError _ => exists y, b = VError y
  | VInt w _ => exists y, b = VInt w y
  | VUint w _ => exists y, b = VUint w y
  | VF32 _ => exists y, b = VF32 y
  | VF64 _ => exists y, b = VF64 y
  | VMap _ => exists y, b = VMap y
  | VSlice _ => exists y, b = VSlice y
  | VString _ => exists y, b = VString y
  end.

Lemma kind_eq_shape a b : kind a = kind b -> same_shape a b.
Proof.
  destruct a, b; simpl; intros H; try (eexists; reflexivity);
    try (destruct w; simpl in H; discriminate);
    try (destruct w; destruct w0; simpl in H; try discriminate; eexists; reflexivity);
    try discriminate.
Qed.

Lemma cmp_kind_eq a b : cmp a b = Eq -> kind a = kind b.
Proof.
  intros H. destruct (N.eq_dec (kind a) (kind b)) as [E|E]; auto.
  rewrite (cmp_kind_ne a b E) in H. apply N.compare_eq in H. contradiction.
Qed.

Lemma cmp_lt_kind a b : cmp a b = Lt -> (kind a <= kind b)%N.
Proof.
  intros H. destruct (N.eq_dec (kind a) (kind b)) as [E|E]; [lia|].
  rewrite (cmp_kind_ne a b E) in H. rewrite N.compare_lt_iff in H. lia.
Qed.

(* goodness of cmp at a, given it for same-shaped opponents *)
Lemma good_by_kind a :
  cmp a a = Eq ->
  (forall b, same_shape a b -> cmp a b = CompOpp (cmp b a)) ->
  (forall b d, same_shape a b -> same_shape a d -> cmp a b = Eq -> cmp b d = cmp a d) ->
  (forall b d, same_shape a b -> same_shape a d -> cmp b d = Eq -> cmp a b = cmp a d) ->
  (forall b d, same_shape a b -> same_shape a d -> cmp a b = Lt -> cmp b d = Lt -> cmp a d = Lt) ->
  good cmp a.
Proof.
  intros R AN EL ER LT. constructor.
  - exact R.
  - intros b. destruct (N.eq_dec (kind a) (kind b)) as [E|E].
    + apply AN, kind_eq_shape, E.
    + rewrite (cmp_kind_ne a b E), (cmp_kind_ne b a) by congruence. apply N.compare_antisym.
  - intros b d H. pose proof (cmp_kind_eq _ _ H) as Kab.
    destruct (N.eq_dec (kind a) (kind d)) as [E|E].
    + apply EL; auto using kind_eq_shape.
    + rewrite (cmp_kind_ne a d E), (cmp_kind_ne b d) by congruence. congruence.
  - intros b d H. pose proof (cmp_kind_eq _ _ H) as Kbd.
    destruct (N.eq_dec (kind a) (kind b)) as [E|E].
    + apply ER; auto. apply kind_eq_shape, E. apply kind_eq_shape. congruence.
    + rewrite (cmp_kind_ne a b E), (cmp_kind_ne a d) by congruence. congruence.
  - intros b d H1 H2.
    destruct (N.eq_dec (kind a) (kind b)) as [E1|E1]; destruct (N.eq_dec (kind a) (kind d)) as [E2|E2].
    + apply (LT b d); auto using kind_eq_shape.
    + pose proof (cmp_lt_kind _ _ H2). rewrite (cmp_kind_ne a d E2). rewrite N.compare_lt_iff. lia.
    + pose proof (cmp_lt_kind _ _ H1). pose proof (cmp_lt_kind _ _ H2). lia.
    + pose proof (cmp_lt_kind _ _ H1). pose proof (cmp_lt_kind _ _ H2).
      rewrite (cmp_kind_ne a d E2). rewrite N.compare_lt_iff. lia.
Qed.

(* transport: if cmp restricted to a constructor is a good comparator on the payload *)
Lemma good_payload {A} (mk : A -> value) (c : A -> A -> comparison) (x : A) :
  (forall u v, cmp (mk u) (mk v) = c u v) ->
  (forall b, same_shape (mk x) b -> exists y, b = mk y) ->
  good c x -> good cmp (mk x).
Proof.
  intros E S [r an el er lt]. apply good_by_kind.
  - rewrite E. exact r.
  - intros b Hb. destruct (S b Hb) as [y ->]. rewrite !E. apply an.
  - intros b d Hb Hd. destruct (S b Hb) as [y ->]. destruct (S d Hd) as [z ->]. rewrite !E. apply el.
  - intros b d Hb Hd. destruct (S b Hb) as [y ->]. destruct (S d Hd) as [z ->]. rewrite !E. apply er.
  - intros b d Hb Hd. destruct (S b Hb) as [y ->]. destruct (S d Hd) as [z ->]. rewrite !E. apply lt.
Qed.

Lemma good_okey a : good okey_cmp a.
Proof.
  pose proof (good_opt Z.compare a) as G.
  apply (good_ext (optc Z.compare)).
  - intros [x|] [y|]; reflexivity.
  - apply G. destruct a; simpl; auto using good_Z.
Qed.

Lemma good_lexN x : good lexN x.
Proof. apply good_lexl. apply Forall_forall. intros. apply good_N. Qed.

Lemma good_ocmp o : Pop (good cmp) o -> good ocmp o.
Proof.
  intros H. apply (good_ext (optc cmp)).
  - intros; symmetry; apply ocmp_optc.
  - apply good_opt. destruct o; simpl in *; auto.
Qed.

Lemma good_pcmp p : Ppair (good cmp) p -> good pcmp p.
Proof.
  intros [Hk Hv]. unfold pcmp.
  apply (good_then (fun x y => ocmp (fst x) (fst y)) (fun x y => ocmp (snd x) (snd y))).
  - apply (good_pull fst ocmp). apply good_ocmp, Hk.
  - apply (good_pull snd ocmp). apply good_ocmp, Hv.
Qed.

Lemma good_bcmp b : Pbucket (good cmp) b -> good bcmp b.
Proof.
  intros H. unfold bcmp.
  apply (good_then (fun x y => N.compare (fst x) (fst y))
           (fun x y => thenc (Nat.compare (length (snd x)) (length (snd y))) (lexl pcmp (snd x) (snd y)))).
  - apply (good_pull fst N.compare), good_N.
  - apply (good_then (fun x y => Nat.compare (length (snd x)) (length (snd y)))
             (fun x y => lexl pcmp (snd x) (snd y))).
    + apply (good_pull (fun x => length (snd x)) Nat.compare), good_nat.
    + apply (good_pull snd (lexl pcmp)). apply good_lexl.
      unfold Pbucket in H. eapply Forall_impl; [|exact H]. apply good_pcmp.
Qed.

Theorem cmp_good : forall a, good cmp a.
Proof.
  apply value_ind2.
  - intros x. apply (good_payload VBinary lexN); [reflexivity | intros b Hb; exact Hb | apply good_lexN].
  - intros x. apply (good_payload VBuffer N.compare); [reflexivity | intros b Hb; exact Hb | apply good_N].
  - intros x. apply (good_payload VBool bool_cmp); [reflexivity | intros b Hb; exact Hb | apply good_bool].
  - intros x. apply (good_payload VError lexN); [reflexivity | intros b Hb; exact Hb | apply good_lexN].
  - intros w x. apply (good_payload (VInt w) Z.compare);
      [intros; simpl; rewrite width_eqb_refl; reflexivity | intros b Hb; exact Hb | apply good_Z].
  - intros w x. apply (good_payload (VUint w) N.compare);
      [intros; simpl; rewrite width_eqb_refl; reflexivity | intros b Hb; exact Hb | apply good_N].
  - intros x. apply (good_payload VF32 (fun u v => okey_cmp (fkey32 u) (fkey32 v)));
      [reflexivity | intros b Hb; exact Hb | apply (good_pull fkey32 okey_cmp), good_okey].
  - intros x. apply (good_payload VF64 (fun u v => okey_cmp (fkey64 u) (fkey64 v)));
      [reflexivity | intros b Hb; exact Hb | apply (good_pull fkey64 okey_cmp), good_okey].
  - intros x. apply (good_payload VString lexN); [reflexivity | intros b Hb; exact Hb | apply good_lexN].
  - intros l Hl. apply (good_payload VSlice (lexl ocmp));
      [intros; apply cmp_slice | intros b Hb; exact Hb |].
    apply good_lexl. eapply Forall_impl; [|exact Hl]. apply good_ocmp.
  - intros t Ht.
    apply (good_payload VMap (fun x y => thenc (Nat.compare (length x) (length y)) (lexl bcmp x y)));
      [intros; apply cmp_map | intros b Hb; exact Hb |].
    apply (good_then (fun x y => Nat.compare (length x) (length y)) (lexl bcmp)).
    + apply (good_pull (@length _) Nat.compare), good_nat.
    + apply good_lexl. eapply Forall_impl; [|exact Ht]. apply good_bcmp.
Qed.

Lemma ocmp_good o : good ocmp o.
Proof. apply good_ocmp. destruct o; simpl; auto using cmp_good. Qed.

(* ---- seq is "cmp = Eq" ---- *)
Lemma oseq_spec_of (o o' : ovalue) :
  Pop (fun a => forall b, seq a b = is_eq (cmp a b)) o -> oseq o o' = is_eq (ocmp o o').
Proof. destruct o, o'; simpl; auto. Qed.

Lemma seq_slice_aux x : forall y,
  (fix go (l l' : list (option value)) : bool :=
     match l, l' with
     | [], [] => true
     | o :: t, o' :: t' => oseq o o' && go t t'
     | _, _ => false
     end) x y = all2 oseq x y.
Proof. induction x as [|a x IH]; intros [|b y]; simpl; auto. rewrite IH. reflexivity. Qed.

Definition pseq (p p' : pair_t) : bool := oseq (fst p) (fst p') && oseq (snd p) (snd p').
Definition bseq (b b' : N * bucket_t) : bool := N.eqb (fst b) (fst b') && all2 pseq (snd b) (snd b').

Lemma seq_bucket_aux e : forall e',
  (fix gop (p p' : bucket_t) : bool :=
     match p, p' with
     | [] , [] => true
     | (k, v) :: q, (k', v') :: q' => oseq k k' && oseq v v' && gop q q'
     | _, _ => false
     end) e e' = all2 pseq e e'.
Proof.
  induction e as [|[k v] e IH]; intros [|[k' v'] e']; try reflexivity.
  specialize (IH e'). simpl in *. rewrite IH. reflexivity.
Qed.

Lemma seq_map_aux x : forall y,
  (fix gob (l l' : table_t) : bool :=
         match l, l' with
         | [], [] => true
         | (h, e) :: t, (h', e') :: t' =>
             N.eqb h h' &&
             (fix gop (p p' : bucket_t) : bool :=
                match p, p' with
                | [], [] => true
                | (k, v) :: q, (k', v') :: q' => oseq k k' && oseq v v' && gop q q'
                | _, _ => false
                end) e e' &&
             gob t t'
         | _, _ => false
         end) x y = all2 bseq x y.
Proof.
  induction x as [|[h e] x IH]; intros [|[h' e'] y]; try reflexivity.
  specialize (IH y). pose proof (seq_bucket_aux e e') as B. simpl in *. rewrite IH, B. reflexivity.
Qed.

Lemma seq_slice x y : seq (VSlice x) (VSlice y) = all2 oseq x y.
Proof. simpl. apply seq_slice_aux. Qed.
Lemma seq_map x y : seq (VMap x) (VMap y) = all2 bseq x y.
Proof. simpl. apply seq_map_aux. Qed.

Lemma is_eq_thenc_len {A} (c : A -> A -> comparison) x y :
  is_eq (thenc (Nat.compare (length x) (length y)) (lexl c x y)) = is_eq (lexl c x y).
Proof.
  destruct (lexl c x y) eqn:E.
  - rewrite (lexl_eq_length c x y E), Nat.compare_refl. reflexivity.
  - destruct (Nat.compare _ _); reflexivity.
  - destruct (Nat.compare _ _); reflexivity.
Qed.

Ltac cross := try reflexivity;
  try solve [repeat match goal with w : width |- _ => destruct w end; reflexivity].

Theorem seq_spec : forall a b, seq a b = is_eq (cmp a b).
Proof.
  apply (value_ind2 (fun a => forall b, seq a b = is_eq (cmp a b))).
  - intros x [] ; cross.
  - intros x [] ; cross. simpl. destruct (N.compare_spec x addr); subst;
      rewrite ?N.eqb_refl; auto; apply N.eqb_neq; lia.
  - intros x [] ; cross. destruct x, b; reflexivity.
  - intros x [] ; cross.
  - intros w x [] ; cross.
    simpl. destruct (width_eqb w w0) eqn:E.
    + simpl. destruct (Z.compare_spec x z); subst; rewrite ?Z.eqb_refl; auto; apply Z.eqb_neq; lia.
    + destruct w, w0; try discriminate; reflexivity.
  - intros w x [] ; cross.
    simpl. destruct (width_eqb w w0) eqn:E.
    + simpl. destruct (N.compare_spec x n); subst; rewrite ?N.eqb_refl; auto; apply N.eqb_neq; lia.
    + destruct w, w0; try discriminate; reflexivity.
  - intros x [] ; cross.
  - intros x [] ; cross.
  - intros x [] ; cross.
  - intros l Hl [] ; cross.
    rewrite seq_slice, cmp_slice. apply all2_lexl.
    eapply Forall_impl; [|exact Hl]. intros o Ho o'. apply oseq_spec_of, Ho.
  - intros t Ht [] ; cross.
    rewrite seq_map, cmp_map, is_eq_thenc_len. apply all2_lexl.
    eapply Forall_impl; [|exact Ht]. intros [h e] He [h' e']. unfold bseq, bcmp. simpl.
    unfold Pbucket in He. simpl in He.
    destruct (N.compare_spec h h') as [->|Hlt|Hgt].
    + rewrite N.eqb_refl. simpl. rewrite is_eq_thenc_len. apply all2_lexl.
      eapply Forall_impl; [|exact He]. intros [k v] [Hk Hv] [k' v']. unfold pseq, pcmp. simpl in *.
      rewrite (oseq_spec_of k k' Hk), (oseq_spec_of v v' Hv). destruct (ocmp k k'); reflexivity.
    + replace (N.eqb h h') with false by (symmetry; apply N.eqb_neq; lia). reflexivity.
    + replace (N.eqb h h') with false by (symmetry; apply N.eqb_neq; lia). reflexivity.
Qed.

Lemma oseq_spec o o' : oseq o o' = is_eq (ocmp o o').
Proof. apply oseq_spec_of. destruct o; simpl; auto. intros; apply seq_spec. Qed.

(* ---- equal values hash alike ---- *)
Lemma fkey_canon eb mb nan x y :
  okey_cmp (fkey eb mb x) (fkey eb mb y) = Eq -> fcanon eb mb nan x = fcanon eb mb nan y.
Proof.
  unfold fcanon. destruct (fkey eb mb x), (fkey eb mb y); simpl; intros H; try discriminate; auto.
  apply Z.compare_eq in H. subst. reflexivity.
Qed.

Lemma flat_map_all2 {A} (f : A -> A -> bool) (g : A -> list N) x :
  Forall (fun a => forall b, f a b = true -> g a = g b) x ->
  forall y, all2 f x y = true -> flat_map g x = flat_map g y.
Proof.
  induction 1 as [|a x Ha Hx IH]; intros [|b y]; simpl; intros H; try discriminate; auto.
  apply andb_prop in H. destruct H as [H1 H2]. rewrite (Ha b H1), (IH y H2). reflexivity.
Qed.

Lemma ohash_of (o o' : ovalue) :
  Pop (fun a => forall b, seq a b = true -> hash a = hash b) o -> oseq o o' = true -> ohash o = ohash o'.
Proof. destruct o, o'; simpl; intros; try discriminate; auto. Qed.

Lemma hash_slice l : hash (VSlice l) = fnv (flat_map (fun o => be8 (ohash o)) l).
Proof. reflexivity. Qed.

Lemma hash_map t : hash (VMap t) =
  fnv (flat_map (fun he : N * bucket_t =>
         flat_map (fun kv : pair_t => be8 (ohash (fst kv)) ++ be8 (ohash (snd kv))) (snd he)) t).
Proof. reflexivity. Qed.

Theorem seq_hash : forall a b, seq a b = true -> hash a = hash b.
Proof.
  apply (value_ind2 (fun a => forall b, seq a b = true -> hash a = hash b)).
  - intros x [] H; try discriminate. simpl in *. f_equal. apply lexl_N_eq.
    unfold lexN in H. destruct (lexl N.compare x bs); try discriminate; reflexivity.
  - intros x [] H; try discriminate. simpl in *. apply N.eqb_eq in H. exact H.
  - intros x [] H; try discriminate. simpl in *. apply eqb_prop in H. subst. reflexivity.
  - intros x [] H; try discriminate. simpl in *. f_equal. apply lexl_N_eq.
    unfold lexN in H. destruct (lexl N.compare x msg); try discriminate; reflexivity.
  - intros w x [] H; try discriminate. simpl in H. apply andb_prop in H. destruct H as [H1 H2].
    apply width_eqb_eq in H1. apply Z.eqb_eq in H2. subst. reflexivity.
  - intros w x [] H; try discriminate. simpl in H. apply andb_prop in H. destruct H as [H1 H2].
    apply width_eqb_eq in H1. apply N.eqb_eq in H2. subst. reflexivity.
  - intros x [] H; try discriminate.
    assert (E : fcanon 8 23 nan32 x = fcanon 8 23 nan32 bits).
    { apply fkey_canon. simpl in H. unfold fkey32 in H.
      destruct (okey_cmp (fkey 8 23 x) (fkey 8 23 bits)); try discriminate; reflexivity. }
    unfold hash. rewrite E. reflexivity.
  - intros x [] H; try discriminate.
    assert (E : fcanon 11 52 nan64 x = fcanon 11 52 nan64 bits).
    { apply fkey_canon. simpl in H. unfold fkey64 in H.
      destruct (okey_cmp (fkey 11 52 x) (fkey 11 52 bits)); try discriminate; reflexivity. }
    unfold hash. rewrite E. reflexivity.
  - intros x [] H; try discriminate. simpl in *. f_equal. apply lexl_N_eq.
    unfold lexN in H. destruct (lexl N.compare x s); try discriminate; reflexivity.
  - intros l Hl [] H; try discriminate. rewrite seq_slice in H. rewrite !hash_slice. f_equal.
    eapply flat_map_all2; [|exact H].
    eapply Forall_impl; [|exact Hl]. intros o Ho o' Hs. simpl. f_equal. apply ohash_of; auto.
  - intros t Ht [] H; try discriminate. rewrite seq_map in H. rewrite !hash_map. f_equal.
    eapply flat_map_all2; [|exact H].
    eapply Forall_impl; [|exact Ht]. intros [h e] He [h' e'] Hs. unfold bseq in Hs. simpl in *.
    apply andb_prop in Hs. destruct Hs as [_ Hs].
    eapply flat_map_all2; [|exact Hs].
    eapply Forall_impl; [|exact He]. intros [k v] [Hk Hv] [k' v'] Hp. unfold pseq in Hp. simpl in *.
    apply andb_prop in Hp. destruct Hp as [Hp1 Hp2].
    rewrite (ohash_of k k' Hk Hp1), (ohash_of v v' Hv Hp2). reflexivity.
Qed.

Theorem equal_seq a b : equal a b = seq a b.
Proof.
  unfold equal. destruct (seq a b) eqn:E.
  - rewrite (seq_hash a b E), N.eqb_refl. simpl. rewrite andb_false_r. reflexivity.
  - destruct (_ && _); reflexivity.
Qed.

Theorem equal_spec a b : equal a b = is_eq (cmp a b).
Proof. rewrite equal_seq. apply seq_spec. Qed.

Lemma oequal_spec o o' : oequal o o' = is_eq (ocmp o o').
Proof. destruct o, o'; simpl; auto. apply equal_spec. Qed.

(* ---- the laws (stated on possibly-nil values, as the package-level Equal/Compare/HashOf) ---- *)
Theorem law_eq_refl o : oequal o o = true.
Proof. rewrite oequal_spec, (g_refl _ _ (ocmp_good o)). reflexivity. Qed.

Theorem law_eq_sym a b : oequal a b = oequal b a.
Proof. rewrite !oequal_spec, (g_anti _ _ (ocmp_good a) b). destruct (ocmp b a); reflexivity. Qed.

Theorem law_eq_trans a b c : oequal a b = true -> oequal b c = true -> oequal a c = true.
Proof.
  rewrite !oequal_spec. intros H1 H2.
  destruct (ocmp a b) eqn:E1; try discriminate. destruct (ocmp b c) eqn:E2; try discriminate.
  rewrite (eq_trans ocmp ocmp_good a b c E1 E2). reflexivity.
Qed.

Theorem law_cmp_antisym a b : ocmp a b = CompOpp (ocmp b a).
Proof. apply (g_anti _ _ (ocmp_good a)). Qed.

Theorem law_cmp_trans a b c : ocmp a b <> Gt -> ocmp b c <> Gt -> ocmp a c <> Gt.
Proof. apply le_trans, ocmp_good. Qed.

Theorem law_eq_cmp a b : oequal a b = true -> ocmp a b = Eq.
Proof. rewrite oequal_spec. destruct (ocmp a b); simpl; congruence. Qed.

Theorem law_cmp_eq a b : ocmp a b = Eq -> oequal a b = true.
Proof. rewrite oequal_spec. intros ->. reflexivity. Qed.

Theorem law_eq_hash a b : oequal a b = true -> ohash a = ohash b.
Proof.
  destruct a, b; simpl; intros H; try discriminate; auto.
  rewrite equal_seq in H. apply seq_hash, H.
Qed.

(* strict part is transitive too, and equal values are interchangeable *)
Theorem law_cmp_lt_trans a b c : ocmp a b = Lt -> ocmp b c = Lt -> ocmp a c = Lt.
Proof. apply (g_lt _ _ (ocmp_good a)). Qed.

Theorem law_eq_congr a b c : oequal a b = true -> ocmp a c = ocmp b c /\ ocmp c a = ocmp c b.
Proof.
  intros H. apply law_eq_cmp in H. split.
  - symmetry. apply (g_eql _ _ (ocmp_good a)), H.
  - apply (g_eqr _ _ (ocmp_good c)), H.
Qed.
