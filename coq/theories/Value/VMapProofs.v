(* Proofs about the map model: buckets stay sorted, binary search = linear find,
   dictionary laws, refinement to the reference dictionary (property C15). *)
From Coq Require Import List NArith ZArith Bool Lia Sorting.Sorted.
From Uf Require Import Base.Fnv Base.Order Value.Value Value.Laws Value.VMap.
Import ListNotations.

(* ---- facts about ocmp ---- *)
Lemma oc_refl a : ocmp a a = Eq.
Proof. apply (g_refl _ _ (ocmp_good a)). Qed.
Lemma oc_anti a b : ocmp a b = CompOpp (ocmp b a).
Proof. apply (g_anti _ _ (ocmp_good a)). Qed.
Lemma oc_eql a b d : ocmp a b = Eq -> ocmp b d = ocmp a d.
Proof. apply (g_eql _ _ (ocmp_good a)). Qed.
Lemma oc_eqr a b d : ocmp b d = Eq -> ocmp a b = ocmp a d.
Proof. apply (g_eqr _ _ (ocmp_good a)). Qed.
Lemma oc_lt a b d : ocmp a b = Lt -> ocmp b d = Lt -> ocmp a d = Lt.
Proof. apply (g_lt _ _ (ocmp_good a)). Qed.
Lemma oc_gt_lt a b : ocmp a b = Gt -> ocmp b a = Lt.
Proof. intros H. rewrite oc_anti, H. reflexivity. Qed.
Lemma oc_lt_gt a b : ocmp a b = Lt -> ocmp b a = Gt.
Proof. intros H. rewrite oc_anti, H. reflexivity. Qed.
Lemma oc_eq_sym a b : ocmp a b = Eq -> ocmp b a = Eq.
Proof. intros H. rewrite oc_anti, H. reflexivity. Qed.
Lemma oc_eq_hash a b : ocmp a b = Eq -> ohash a = ohash b.
Proof. intros H. apply law_eq_hash, law_cmp_eq, H. Qed.
Lemma oeq_cmp a b : oequal a b = is_eq (ocmp a b).
Proof. apply oequal_spec. Qed.

(* ---- buckets ---- *)
Definition klt (p q : pair_t) : Prop := ocmp (fst p) (fst q) = Lt.
Definition bsorted (b : bucket_t) : Prop := StronglySorted klt b.

Definition b_getv (k : ovalue) (b : bucket_t) : option ovalue := option_map snd (b_find k b).

Lemma b_set_keys k v b p : In p (b_set k v b) -> fst p = k \/ exists q, In q b /\ fst q = fst p.
Proof.
  induction b as [|[k' v'] b IH]; simpl.
  - intros [<-|[]]. auto.
  - destruct (ocmp k' k).
    + intros [<-|H]; right; [exists (k', v')|exists p]; simpl; auto.
    + intros [<-|H].
      * right. exists (k', v'). simpl. auto.
      * destruct (IH H) as [E|[q [Hq E]]]; auto. right. exists q. auto.
    + intros [<-|[<-|H]]; auto; right; [exists (k', v')|exists p]; simpl; auto.
Qed.

Lemma b_del_keys k b p : In p (b_del k b) -> In p b.
Proof.
  induction b as [|[k' v'] b IH]; simpl; auto.
  destruct (ocmp k' k); simpl; auto. intros [<-|H]; auto.
Qed.

Lemma b_set_sorted k v b : bsorted b -> bsorted (b_set k v b).
Proof.
  unfold bsorted. induction 1 as [|[k' v'] b Hs IH Hf]; simpl.
  - repeat constructor.
  - destruct (ocmp k' k) eqn:E.
    + constructor; auto.
    + constructor; auto. apply Forall_forall. intros p Hp.
      destruct (b_set_keys _ _ _ _ Hp) as [Ek|[q [Hq Ek]]]; unfold klt; simpl.
      * rewrite Ek. exact E.
      * rewrite <- Ek. rewrite Forall_forall in Hf. apply (Hf q Hq).
    + constructor; [constructor; auto|]. constructor.
      * unfold klt. simpl. apply oc_gt_lt, E.
      * apply Forall_forall. intros q Hq. unfold klt. simpl.
        rewrite Forall_forall in Hf. eapply oc_lt; [apply oc_gt_lt, E|]. apply (Hf q Hq).
Qed.

Lemma b_del_sorted k b : bsorted b -> bsorted (b_del k b).
Proof.
  unfold bsorted. induction 1 as [|[k' v'] b Hs IH Hf]; simpl.
  - constructor.
  - destruct (ocmp k' k) eqn:E; auto.
    + constructor; auto. apply Forall_forall. intros p Hp. rewrite Forall_forall in Hf.
      apply Hf, (b_del_keys _ _ _ Hp).
    + constructor; auto.
Qed.

Lemma b_find_nil k : b_find k [] = None.
Proof. reflexivity. Qed.
Lemma b_find_cons k k1 v1 b :
  b_find k ((k1, v1) :: b) = if is_eq (ocmp k1 k) then Some (k1, v1) else b_find k b.
Proof. reflexivity. Qed.

Lemma b_getv_set k v k' b :
  b_getv k' (b_set k v b) = if is_eq (ocmp k k') then Some v else b_getv k' b.
Proof.
  unfold b_getv. induction b as [|[k1 v1] b IH]; cbn [b_set].
  - rewrite b_find_cons, b_find_nil. destruct (ocmp k k'); reflexivity.
  - destruct (ocmp k1 k) eqn:E; rewrite !b_find_cons.
    + rewrite (oc_eql k1 k k' E). destruct (ocmp k1 k'); reflexivity.
    + destruct (ocmp k1 k') eqn:E1; simpl; auto.
      destruct (ocmp k k') eqn:E2; simpl; auto.
      rewrite (oc_eqr k1 k k' E2) in E. congruence.
    + destruct (ocmp k k'); reflexivity.
Qed.

(* in a sorted bucket nothing after a larger-or-equal head matches *)
Lemma sorted_tail_nomatch k k1 b :
  Forall (fun q : pair_t => ocmp k1 (fst q) = Lt) b -> ocmp k1 k <> Lt -> b_find k b = None.
Proof.
  intros Hf Hk. induction b as [|[k2 v2] b IH]; auto.
  inversion Hf as [|? ? H1 H2]; subst. simpl in H1. rewrite b_find_cons.
  destruct (ocmp k2 k) eqn:E; simpl; auto.
  exfalso. apply Hk. rewrite <- (oc_eqr k1 k2 k E). exact H1.
Qed.

Lemma b_getv_del k k' b : bsorted b ->
  b_getv k' (b_del k b) = if is_eq (ocmp k k') then None else b_getv k' b.
Proof.
  unfold b_getv, bsorted. induction 1 as [|[k1 v1] b Hs IH Hf]; cbn [b_del].
  - destruct (ocmp k k'); reflexivity.
  - destruct (ocmp k1 k) eqn:E; rewrite !b_find_cons.
    + rewrite (oc_eql k1 k k' E). destruct (ocmp k1 k') eqn:E1; simpl; auto.
      rewrite (sorted_tail_nomatch k' k1 b); auto. congruence.
    + destruct (ocmp k1 k') eqn:E1; simpl; auto.
      destruct (ocmp k k') eqn:E2; simpl; auto.
      rewrite (oc_eqr k1 k k' E2) in E. congruence.
    + destruct (ocmp k k') eqn:E2; simpl; auto.
      assert (E1 : ocmp k1 k' = Gt) by (rewrite <- (oc_eqr k1 k k' E2); exact E).
      rewrite E1. simpl. rewrite (sorted_tail_nomatch k' k1 b); auto. congruence.
Qed.

Lemma b_set_length k v b : bsorted b ->
  length (b_set k v b) = match b_getv k b with Some _ => length b | None => S (length b) end.
Proof.
  unfold b_getv, bsorted. induction 1 as [|[k1 v1] b Hs IH Hf]; cbn [b_set]; auto.
  rewrite b_find_cons. destruct (ocmp k1 k) eqn:E; simpl; auto.
  - rewrite IH. destruct (b_find k b); reflexivity.
  - rewrite (sorted_tail_nomatch k k1 b); auto. congruence.
Qed.

Lemma b_del_length k b : bsorted b ->
  length (b_del k b) = match b_getv k b with Some _ => pred (length b) | None => length b end.
Proof.
  unfold b_getv, bsorted. induction 1 as [|[k1 v1] b Hs IH Hf]; cbn [b_del]; auto.
  rewrite b_find_cons. destruct (ocmp k1 k) eqn:E; simpl; auto.
  - rewrite IH. destruct (b_find k b) eqn:F; simpl; auto.
    destruct b; simpl in *; [discriminate|reflexivity].
  - rewrite (sorted_tail_nomatch k k1 b); auto. congruence.
Qed.

(* ---- binary search = linear find on sorted buckets ---- *)
Lemma sorted_nth b : bsorted b -> forall i j p q, i < j ->
  nth_error b i = Some p -> nth_error b j = Some q -> klt p q.
Proof.
  unfold bsorted. induction 1 as [|a b Hs IH Hf]; intros i j p q Hij Hi Hj.
  - destruct i; discriminate.
  - destruct j as [|j]; [lia|]. simpl in Hj. destruct i as [|i]; simpl in Hi.
    + injection Hi as <-. rewrite Forall_forall in Hf. apply Hf. eapply nth_error_In, Hj.
    + apply (IH i j); auto. lia.
Qed.

Lemma b_find_none k b : (forall p, In p b -> ocmp (fst p) k <> Eq) -> b_find k b = None.
Proof.
  induction b as [|[k1 v1] b IH]; intros H; auto. rewrite b_find_cons.
  destruct (ocmp k1 k) eqn:E; simpl.
  - exfalso. apply (H (k1, v1)); simpl; auto.
  - apply IH. intros p Hp. apply H. simpl. auto.
  - apply IH. intros p Hp. apply H. simpl. auto.
Qed.

Lemma b_find_at k b : bsorted b -> forall i p,
  nth_error b i = Some p -> ocmp (fst p) k = Eq -> b_find k b = Some p.
Proof.
  unfold bsorted. induction 1 as [|[k1 v1] b Hs IH Hf]; intros i p Hi Hp.
  - destruct i; discriminate.
  - rewrite b_find_cons. destruct i as [|i]; simpl in Hi.
    + injection Hi as <-. simpl in Hp. rewrite Hp. reflexivity.
    + assert (L : ocmp k1 (fst p) = Lt).
      { rewrite Forall_forall in Hf. apply (Hf p). eapply nth_error_In, Hi. }
      rewrite (oc_eqr k1 (fst p) k Hp) in L. rewrite L. simpl. apply (IH i); auto.
Qed.

Lemma bsearch_ok k b : bsorted b -> forall fuel lo hi,
  (0 <= lo)%Z -> (hi < Z.of_nat (length b))%Z -> (hi - lo + 1 <= Z.of_nat fuel)%Z ->
  (forall i p, (Z.of_nat i < lo)%Z -> nth_error b i = Some p -> ocmp (fst p) k = Lt) ->
  (forall i p, (hi < Z.of_nat i)%Z -> nth_error b i = Some p -> ocmp (fst p) k = Gt) ->
  b_bsearch fuel k b lo hi = b_find k b.
Proof.
  intros Hs. assert (NONE : forall lo hi, (hi < lo)%Z ->
    (forall i p, (Z.of_nat i < lo)%Z -> nth_error b i = Some p -> ocmp (fst p) k = Lt) ->
    (forall i p, (hi < Z.of_nat i)%Z -> nth_error b i = Some p -> ocmp (fst p) k = Gt) ->
    b_find k b = None).
  { intros lo hi Hlt HL HG. apply b_find_none. intros p Hp E.
    destruct (In_nth_error _ _ Hp) as [i Hi].
    destruct (Z_lt_ge_dec (Z.of_nat i) lo) as [A|A].
    - rewrite (HL i p A Hi) in E. discriminate.
    - rewrite (HG i p ltac:(lia) Hi) in E. discriminate. }
  induction fuel as [|fuel IH]; intros lo hi H0 Hh Hf HL HG; simpl.
  - symmetry. apply (NONE lo hi); auto. lia.
  - destruct (Z.ltb_spec hi lo) as [A|A].
    + symmetry. apply (NONE lo hi); auto.
    + set (mid := (lo + (hi - lo) / 2)%Z).
      assert (Hm : (lo <= mid <= hi)%Z).
      { unfold mid. pose proof (Z.div_pos (hi - lo) 2 ltac:(lia) ltac:(lia)).
        pose proof (Z.div_le_upper_bound (hi - lo) 2 (hi - lo) ltac:(lia) ltac:(lia)). lia. }
      destruct (nth_error b (Z.to_nat mid)) as [p|] eqn:Hn.
      2:{ apply nth_error_None in Hn. lia. }
      destruct (ocmp (fst p) k) eqn:E.
      * symmetry. apply (b_find_at k b Hs (Z.to_nat mid) p); auto.
      * apply IH; try lia.
        -- intros i q Hi Hq. destruct (Z_lt_ge_dec (Z.of_nat i) lo) as [B|B]; [apply (HL i q B Hq)|].
           destruct (Nat.eq_dec i (Z.to_nat mid)) as [->|Ne].
           ++ rewrite Hn in Hq. injection Hq as <-. exact E.
           ++ eapply oc_lt; [|exact E]. apply (sorted_nth b Hs i (Z.to_nat mid)); auto. lia.
        -- intros i q Hi Hq. apply (HG i q); auto.
      * apply IH; try lia.
        -- intros i q Hi Hq. apply (HL i q); auto.
        -- intros i q Hi Hq. destruct (Z_lt_ge_dec hi (Z.of_nat i)) as [B|B]; [apply (HG i q B Hq)|].
           destruct (Nat.eq_dec i (Z.to_nat mid)) as [->|Ne].
           ++ rewrite Hn in Hq. injection Hq as <-. exact E.
           ++ apply oc_lt_gt. eapply oc_lt; [apply oc_gt_lt, E|].
              apply (sorted_nth b Hs (Z.to_nat mid) i); auto. lia.
Qed.

Theorem b_search_find k b : bsorted b -> b_search k b = b_find k b.
Proof.
  intros Hs. unfold b_search. apply bsearch_ok; auto; try lia.
  intros i p Hi Hp. assert (i < length b) by (apply nth_error_Some; congruence). lia.
Qed.

(* ---- tables ---- *)
Definition hlt (x y : N * list (option value * option value)) : Prop := (fst x < fst y)%N.
Definition hashed (h : N) (b : list (option value * option value)) : Prop :=
  Forall (fun p => ohash (fst p) = h) b.
Definition bwf (hb : N * list (option value * option value)) : Prop :=
  bsorted (snd hb) /\ snd hb <> [] /\ hashed (fst hb) (snd hb).
Definition twf (t : table_t) : Prop := StronglySorted hlt t /\ Forall bwf t.

Definition tb (h : N) (t : table_t) : list (option value * option value) :=
  match t_find h t with Some b => b | None => [] end.
Definition t_getv (k : ovalue) (t : table_t) : option ovalue := option_map snd (t_lookup k t).

Lemma twf_nil : twf [].
Proof. split; constructor. Qed.

Lemma t_find_above h t : Forall (fun y : N * list (option value * option value) => (h < fst y)%N) t -> t_find h t = None.
Proof.
  induction 1 as [|[h' b] t H1 H2 IH]; simpl; auto. simpl in H1.
  replace (N.eqb h h') with false by (symmetry; apply N.eqb_neq; lia). exact IH.
Qed.

Lemma sorted_above h h' (t : table_t) :
  (h < h')%N -> Forall (hlt (h', @nil (option value * option value))) t -> Forall (fun y => (h < fst y)%N) t.
Proof. intros L H. eapply Forall_impl; [|exact H]. unfold hlt. simpl. intros; lia. Qed.

Lemma hlt_irrel h b b' (t : table_t) : Forall (hlt (h, b)) t -> Forall (hlt (h, b')) t.
Proof. intros H. eapply Forall_impl; [|exact H]. unfold hlt. simpl. auto. Qed.

Lemma tb_upd_same h f t : StronglySorted hlt t -> tb h (t_upd h f t) = f (tb h t).
Proof.
  unfold tb. induction 1 as [|[h' b] t Hs IH Hf]; simpl.
  - destruct (f []) eqn:F; simpl; auto. rewrite N.eqb_refl. reflexivity.
  - destruct (N.compare_spec h h') as [->|L|G].
    + rewrite N.eqb_refl. destruct (f b) eqn:F; simpl.
      * rewrite t_find_above; auto.
      * rewrite N.eqb_refl. reflexivity.
    + replace (N.eqb h h') with false by (symmetry; apply N.eqb_neq; lia).
      assert (A : t_find h t = None).
      { apply t_find_above. eapply Forall_impl; [|exact Hf]. unfold hlt. simpl. intros; lia. }
      rewrite A. destruct (f []) eqn:F; simpl.
      * replace (N.eqb h h') with false by (symmetry; apply N.eqb_neq; lia). rewrite A. reflexivity.
      * rewrite N.eqb_refl. reflexivity.
    + simpl. replace (N.eqb h h') with false by (symmetry; apply N.eqb_neq; lia). exact IH.
Qed.

Lemma tb_upd_other h h' f t : h <> h' -> tb h' (t_upd h f t) = tb h' t.
Proof.
  intros Ne. unfold tb. induction t as [|[h1 b] t IH]; simpl.
  - destruct (f []); simpl; auto.
    replace (N.eqb h' h) with false by (symmetry; apply N.eqb_neq; lia). reflexivity.
  - destruct (N.compare_spec h h1) as [->|L|G].
    + replace (N.eqb h' h1) with false by (symmetry; apply N.eqb_neq; lia).
      destruct (f b); simpl; auto.
      replace (N.eqb h' h1) with false by (symmetry; apply N.eqb_neq; lia). reflexivity.
    + destruct (f []); simpl; auto.
      replace (N.eqb h' h) with false by (symmetry; apply N.eqb_neq; lia). reflexivity.
    + simpl. destruct (N.eqb h' h1); auto.
Qed.

Lemma t_upd_heads h f t x :
  Forall (hlt x) t -> (fst x < h)%N -> Forall (hlt x) (t_upd h f t).
Proof.
  intros Hf Hx. induction Hf as [|[h' b] t H1 H2 IH]; simpl.
  - destruct (f []); repeat constructor. exact Hx.
  - destruct (N.compare h h').
    + destruct (f b); try constructor; auto.
    + destruct (f []); repeat constructor; auto.
    + constructor; auto.
Qed.

Lemma bwf_mk h b : bsorted b -> b <> [] -> hashed h b -> bwf (h, b).
Proof. intros; repeat split; auto. Qed.

Lemma t_upd_wf h f t :
  twf t ->
  (forall b, bsorted b -> hashed h b -> bsorted (f b) /\ hashed h (f b)) ->
  twf (t_upd h f t).
Proof.
  intros [Hs Hb] Hfun. revert Hb. induction Hs as [|[h' b] t Hs IH Hf]; intros Hb; simpl.
  - destruct (Hfun [] (SSorted_nil _) (Forall_nil _)) as [S1 S2].
    destruct (f []) as [|p l] eqn:F; [apply twf_nil|].
    split.
    + constructor; constructor.
    + constructor; [|constructor]. apply bwf_mk; auto. discriminate.
  - inversion Hb as [|? ? [B1 [B2 B3]] Hb']; subst. simpl in *.
    destruct (N.compare_spec h h') as [->|L|G].
    + destruct (Hfun b B1 B3) as [S1 S2]. destruct (f b) as [|p l] eqn:F.
      * split; auto.
      * split.
        -- constructor; auto; eapply hlt_irrel, Hf.
        -- constructor; auto. apply bwf_mk; auto. discriminate.
    + destruct (Hfun [] (SSorted_nil _) (Forall_nil _)) as [S1 S2].
      destruct (f []) as [|p l] eqn:F.
      * split; constructor; auto. apply bwf_mk; auto.
      * split.
        -- constructor; [constructor; auto|]. constructor; [exact L|].
           eapply Forall_impl; [|exact Hf]. unfold hlt; simpl; intros; lia.
        -- constructor; [apply bwf_mk; auto; discriminate|]. constructor; auto. apply bwf_mk; auto.
    + destruct (IH Hb') as [T1 T2]. split.
      * constructor; auto. apply t_upd_heads; auto.
      * constructor; auto. apply bwf_mk; auto.
Qed.

Lemma b_set_hashed k v b : hashed (ohash k) b -> hashed (ohash k) (b_set k v b).
Proof.
  unfold hashed. intros H. apply Forall_forall. intros p Hp.
  destruct (b_set_keys _ _ _ _ Hp) as [->|[q [Hq E]]]; auto.
  rewrite <- E. rewrite Forall_forall in H. auto.
Qed.

Lemma b_del_hashed h k b : hashed h b -> hashed h (b_del k b).
Proof.
  unfold hashed. intros H. apply Forall_forall. intros p Hp.
  rewrite Forall_forall in H. apply H, (b_del_keys _ _ _ Hp).
Qed.

Theorem t_set_wf k v t : twf t -> twf (t_set k v t).
Proof.
  intros H. apply t_upd_wf; auto. intros b B1 B2. split; [apply b_set_sorted|apply b_set_hashed]; auto.
Qed.

Theorem t_del_wf k t : twf t -> twf (t_del k t).
Proof.
  intros H. apply t_upd_wf; auto. intros b B1 B2. split; [apply b_del_sorted|apply b_del_hashed]; auto.
Qed.

Lemma tb_sorted h t : twf t -> bsorted (tb h t).
Proof.
  intros [_ Hb]. unfold tb. induction Hb as [|[h' b] t [B1 _] _ IH]; simpl; [constructor|].
  destruct (N.eqb h h'); auto.
Qed.

Lemma b_search_nil k : b_search k [] = None.
Proof. reflexivity. Qed.

Lemma t_getv_tb k t : twf t -> t_getv k t = b_getv k (tb (ohash k) t).
Proof.
  intros W. unfold t_getv, t_lookup, b_getv. pose proof (tb_sorted (ohash k) t W) as S.
  unfold tb in *. destruct (t_find (ohash k) t); [|reflexivity].
  rewrite b_search_find; auto.
Qed.

Theorem t_getv_set k v k' t : twf t ->
  t_getv k' (t_set k v t) = if is_eq (ocmp k k') then Some v else t_getv k' t.
Proof.
  intros W. rewrite !t_getv_tb; auto using t_set_wf. unfold t_set.
  destruct (N.eq_dec (ohash k) (ohash k')) as [E|E].
  - rewrite <- E, tb_upd_same by apply W. apply b_getv_set.
  - rewrite tb_upd_other by exact E.
    destruct (ocmp k k') eqn:C; auto. apply oc_eq_hash in C. contradiction.
Qed.

Theorem t_getv_del k k' t : twf t ->
  t_getv k' (t_del k t) = if is_eq (ocmp k k') then None else t_getv k' t.
Proof.
  intros W. rewrite !t_getv_tb; auto using t_del_wf. unfold t_del.
  destruct (N.eq_dec (ohash k) (ohash k')) as [E|E].
  - rewrite <- E, tb_upd_same by apply W. apply b_getv_del, tb_sorted, W.
  - rewrite tb_upd_other by exact E.
    destruct (ocmp k k') eqn:C; auto. apply oc_eq_hash in C. contradiction.
Qed.

Lemma t_getv_nil k : t_getv k [] = None.
Proof. reflexivity. Qed.

(* lengths *)
Lemma t_len_upd h f t : StronglySorted hlt t ->
  t_len (t_upd h f t) + length (tb h t) = t_len t + length (f (tb h t)).
Proof.
  unfold t_len, t_range, tb. induction 1 as [|[h' b] t Hs IH Hf]; simpl.
  - destruct (f []) eqn:F; simpl; rewrite ?app_nil_r; lia.
  - destruct (N.compare_spec h h') as [->|L|G].
    + rewrite N.eqb_refl. destruct (f b) eqn:F; simpl; rewrite ?app_length; simpl; lia.
    + replace (N.eqb h h') with false by (symmetry; apply N.eqb_neq; lia).
      assert (A : t_find h t = None).
      { apply t_find_above. eapply Forall_impl; [|exact Hf]. unfold hlt. simpl. intros; lia. }
      rewrite A. destruct (f []) eqn:F; simpl; rewrite ?app_length; simpl; lia.
    + replace (N.eqb h h') with false by (symmetry; apply N.eqb_neq; lia).
      simpl. rewrite !app_length. lia.
Qed.

Theorem t_len_set k v t : twf t ->
  t_len (t_set k v t) = match t_getv k t with Some _ => t_len t | None => S (t_len t) end.
Proof.
  intros W. pose proof (t_len_upd (ohash k) (b_set k v) t (proj1 W)) as L.
  rewrite b_set_length in L by apply tb_sorted, W. rewrite t_getv_tb by exact W.
  unfold t_set. destruct (b_getv k (tb (ohash k) t)); lia.
Qed.

Theorem t_len_del k t : twf t ->
  t_len (t_del k t) = match t_getv k t with Some _ => pred (t_len t) | None => t_len t end.
Proof.
  intros W. pose proof (t_len_upd (ohash k) (b_del k) t (proj1 W)) as L.
  rewrite b_del_length in L by apply tb_sorted, W. rewrite t_getv_tb by exact W.
  unfold t_del. destruct (b_getv k (tb (ohash k) t)) eqn:G; try lia.
  assert (length (tb (ohash k) t) <> 0).
  { unfold b_getv in G. destruct (b_find k (tb (ohash k) t)) eqn:F; [|discriminate].
    destruct (tb (ohash k) t); [discriminate|simpl; lia]. }
  lia.
Qed.

(* ---- listings ---- *)
Lemma t_find_in h b t : StronglySorted hlt t -> In (h, b) t -> t_find h t = Some b.
Proof.
  induction 1 as [|[h' b'] t Hs IH Hf]; simpl; [intros []|].
  intros [E|Hin].
  - injection E as -> ->. rewrite N.eqb_refl. reflexivity.
  - rewrite Forall_forall in Hf. pose proof (Hf _ Hin) as L. unfold hlt in L. simpl in L.
    replace (N.eqb h h') with false by (symmetry; apply N.eqb_neq; lia). auto.
Qed.

Theorem t_range_getv t p : twf t -> In p (t_range t) -> t_getv (fst p) t = Some (snd p).
Proof.
  intros W Hin. unfold t_range in Hin. apply in_flat_map in Hin. destruct Hin as [[h b] [Hb Hp]].
  simpl in Hp. destruct W as [Ws Wb]. pose proof Wb as Wb0. rewrite Forall_forall in Wb.
  destruct (Wb _ Hb) as [B1 [B2 B3]]. simpl in *.
  unfold hashed in B3. rewrite Forall_forall in B3. pose proof (B3 p Hp) as Hh.
  rewrite t_getv_tb by (split; assumption). unfold tb. rewrite Hh, (t_find_in h b t Ws Hb).
  unfold b_getv. destruct (In_nth_error _ _ Hp) as [i Hi].
  rewrite (b_find_at (fst p) b B1 i p Hi (oc_refl _)). reflexivity.
Qed.

Definition kdistinct (p q : option value * option value) : Prop := oequal (fst p) (fst q) = false.

Lemma fop_app {A} (R : A -> A -> Prop) l1 l2 :
  ForallOrdPairs R l1 -> ForallOrdPairs R l2 -> (forall a b, In a l1 -> In b l2 -> R a b) ->
  ForallOrdPairs R (l1 ++ l2).
Proof.
  induction 1 as [|a l1 Ha H1 IH]; simpl; intros H2 Hc; auto.
  constructor.
  - apply Forall_app. split; auto. apply Forall_forall. intros b Hb. apply Hc; simpl; auto.
  - apply IH; auto.
Qed.

Lemma bsorted_distinct b : bsorted b -> ForallOrdPairs kdistinct b.
Proof.
  unfold bsorted. induction 1 as [|a b Hs IH Hf]; constructor; auto.
  eapply Forall_impl; [|exact Hf]. intros q Hq. unfold kdistinct, klt in *.
  rewrite oeq_cmp, Hq. reflexivity.
Qed.

Theorem t_range_distinct t : twf t -> ForallOrdPairs kdistinct (t_range t).
Proof.
  intros [Ws Wb]. unfold t_range. revert Wb. induction Ws as [|[h b] t Hs IH Hf]; intros Wb; simpl.
  - constructor.
  - inversion Wb as [|? ? [B1 [B2 B3]] Wb']; subst. simpl in *.
    apply fop_app; auto using bsorted_distinct.
    intros p q Hp Hq. apply in_flat_map in Hq. destruct Hq as [[h' b'] [Hb' Hq]]. simpl in Hq.
    unfold kdistinct. destruct (oequal (fst p) (fst q)) eqn:E; auto. exfalso.
    apply law_eq_hash in E.
    unfold hashed in B3. rewrite Forall_forall in B3. rewrite (B3 p Hp) in E.
    rewrite Forall_forall in Wb'. destruct (Wb' _ Hb') as [_ [_ B3']]. simpl in B3'.
    unfold hashed in B3'. rewrite Forall_forall in B3'. rewrite (B3' q Hq) in E.
    rewrite Forall_forall in Hf. pose proof (Hf _ Hb') as L. unfold hlt in L. simpl in L. lia.
Qed.

(* Range order: ascending hash, then ascending key order inside a bucket *)
Definition range_lt (p q : option value * option value) : Prop :=
  (ohash (fst p) < ohash (fst q))%N \/ (ohash (fst p) = ohash (fst q) /\ ocmp (fst p) (fst q) = Lt).

Theorem t_range_sorted t : twf t -> StronglySorted range_lt (t_range t).
Proof.
  intros [Ws Wb]. unfold t_range. revert Wb. induction Ws as [|[h b] t Hs IH Hf]; intros Wb; simpl.
  - constructor.
  - inversion Wb as [|? ? [B1 [B2 B3]] Wb']; subst. simpl in *.
    specialize (IH Wb'). clear B2 Wb. unfold bsorted in B1. unfold hashed in B3.
    induction B1 as [|a b Bs IHb Bf]; simpl; auto.
    inversion B3 as [|? ? Ha B3']; subst.
    constructor; [apply IHb; auto; eapply hlt_irrel, Hf|]. apply Forall_app. split.
    + rewrite Forall_forall in *. intros q Hq. right. split; [symmetry; apply (B3' q Hq)|apply (Bf q Hq)].
    + apply Forall_forall. intros q Hq. left. apply in_flat_map in Hq. destruct Hq as [[h' b'] [Hb' Hq]].
      simpl in Hq. rewrite Forall_forall in Wb'. destruct (Wb' _ Hb') as [_ [_ B3'']]. simpl in B3''.
      unfold hashed in B3''. rewrite Forall_forall in B3''. rewrite (B3'' q Hq).
      rewrite Forall_forall in Hf. apply (Hf _ Hb').
Qed.

(* ---- the reference dictionary ---- *)
Definition d_getv (k : ovalue) (d : dict) : option ovalue := option_map snd (d_lookup k d).
Definition dnodup (d : dict) : Prop := ForallOrdPairs kdistinct d.

Lemma oeq_congr_l a b c : oequal a b = true -> oequal a c = oequal b c.
Proof.
  rewrite !oeq_cmp. intros H. destruct (ocmp a b) eqn:E; try discriminate.
  rewrite (oc_eql a b c E). reflexivity.
Qed.

Lemma oeq_sym a b : oequal a b = oequal b a.
Proof. apply law_eq_sym. Qed.

Lemma oeq_meet a b c : oequal a c = true -> oequal b c = true -> oequal a b = true.
Proof. intros H1 H2. rewrite (oeq_congr_l a c b H1), oeq_sym. exact H2. Qed.

Lemma d_getv_set k v k' d :
  d_getv k' (d_set k v d) = if oequal k k' then Some v else d_getv k' d.
Proof.
  unfold d_getv, d_lookup. induction d as [|[k1 v1] d IH]; simpl.
  - destruct (oequal k k'); reflexivity.
  - destruct (oequal k1 k) eqn:E; simpl.
    + rewrite (oeq_congr_l k1 k k' E). destruct (oequal k k'); reflexivity.
    + destruct (oequal k1 k') eqn:E1; simpl; auto.
      destruct (oequal k k') eqn:E2; simpl; auto.
      rewrite (oeq_meet k1 k k' E1 E2) in E. discriminate.
Qed.

Lemma d_find_none k d :
  Forall (fun q : option value * option value => oequal k (fst q) = false) d ->
  find (fun p : option value * option value => oequal (fst p) k) d = None.
Proof.
  induction 1 as [|[k1 v1] d H1 H2 IH]; simpl; auto. simpl in H1. rewrite oeq_sym, H1. exact IH.
Qed.

Lemma d_getv_del k k' d : dnodup d ->
  d_getv k' (d_del k d) = if oequal k k' then None else d_getv k' d.
Proof.
  unfold d_getv, d_lookup, dnodup. induction 1 as [|[k1 v1] d Hf Hs IH]; simpl.
  - destruct (oequal k k'); reflexivity.
  - destruct (oequal k1 k) eqn:E; simpl.
    + rewrite (oeq_congr_l k1 k k' E). destruct (oequal k k') eqn:E2; simpl; auto.
      rewrite d_find_none; auto. eapply Forall_impl; [|exact Hf]. intros q Hq. unfold kdistinct in Hq. simpl in Hq.
      rewrite <- (oeq_congr_l k1 k' (fst q)); auto. rewrite (oeq_congr_l k1 k k' E). exact E2.
    + destruct (oequal k1 k') eqn:E1; simpl; auto.
      destruct (oequal k k') eqn:E2; simpl; auto.
      rewrite (oeq_meet k1 k k' E1 E2) in E. discriminate.
Qed.

Lemma d_set_keys k v d p : In p (d_set k v d) -> fst p = k \/ exists q, In q d /\ fst q = fst p.
Proof.
  induction d as [|[k' v'] d IH]; simpl.
  - intros [<-|[]]. auto.
  - destruct (oequal k' k).
    + intros [<-|H]; right; [exists (k', v')|exists p]; simpl; auto.
    + intros [<-|H].
      * right. exists (k', v'). simpl. auto.
      * destruct (IH H) as [E|[q [Hq E]]]; auto. right. exists q. auto.
Qed.

Lemma d_del_keys k d p : In p (d_del k d) -> In p d.
Proof.
  induction d as [|[k' v'] d IH]; simpl; auto.
  destruct (oequal k' k); simpl; auto. intros [<-|H]; auto.
Qed.

Lemma d_set_nodup k v d : dnodup d -> dnodup (d_set k v d).
Proof.
  unfold dnodup. induction 1 as [|[k1 v1] d Hf Hs IH]; simpl.
  - repeat constructor.
  - destruct (oequal k1 k) eqn:E.
    + constructor; auto.
    + constructor; auto. apply Forall_forall. intros p Hp. unfold kdistinct. simpl.
      destruct (d_set_keys _ _ _ _ Hp) as [->|[q [Hq Eq]]]; auto.
      rewrite <- Eq. rewrite Forall_forall in Hf. apply (Hf q Hq).
Qed.

Lemma d_del_nodup k d : dnodup d -> dnodup (d_del k d).
Proof.
  unfold dnodup. induction 1 as [|[k1 v1] d Hf Hs IH]; simpl.
  - constructor.
  - destruct (oequal k1 k); auto. constructor; auto.
    apply Forall_forall. intros p Hp. rewrite Forall_forall in Hf. apply Hf, (d_del_keys _ _ _ Hp).
Qed.

Lemma d_set_length k v d :
  length (d_set k v d) = match d_getv k d with Some _ => length d | None => S (length d) end.
Proof.
  unfold d_getv, d_lookup. induction d as [|[k1 v1] d IH]; simpl; auto.
  destruct (oequal k1 k); simpl; auto. rewrite IH. destruct (find _ d); reflexivity.
Qed.

Lemma d_del_length k d :
  length (d_del k d) = match d_getv k d with Some _ => pred (length d) | None => length d end.
Proof.
  unfold d_getv, d_lookup. induction d as [|[k1 v1] d IH]; simpl; auto.
  destruct (oequal k1 k); simpl; auto. rewrite IH. destruct (find _ d) eqn:F; simpl; auto.
  destruct d; simpl in *; [discriminate|reflexivity].
Qed.

(* ---- refinement: handle stores ---- *)
Definition orel (o : mapobj) (r : dictobj) : Prop :=
  mo_mut o = do_mut r /\ twf (mo_tab o) /\ dnodup (do_dict r) /\
  (forall k, t_getv k (mo_tab o) = d_getv k (do_dict r)) /\
  t_len (mo_tab o) = length (do_dict r).
Definition srel (st : store) (rst : list dictobj) : Prop := Forall2 orel st rst.

Lemma t_has_getv k t : t_has k t = match t_getv k t with Some _ => true | None => false end.
Proof. unfold t_has, t_getv. destruct (t_lookup k t); reflexivity. Qed.
Lemma t_get_getv k t : t_get k t = match t_getv k t with Some v => v | None => None end.
Proof. unfold t_get, t_getv. destruct (t_lookup k t); reflexivity. Qed.
Lemma d_has_getv k d : d_has k d = match d_getv k d with Some _ => true | None => false end.
Proof. unfold d_has, d_getv. destruct (d_lookup k d); reflexivity. Qed.
Lemma d_get_getv k d : d_get k d = match d_getv k d with Some v => v | None => None end.
Proof. unfold d_get, d_getv. destruct (d_lookup k d); reflexivity. Qed.

Lemma orel_set m t d k v :
  orel {| mo_mut := m; mo_tab := t |} {| do_mut := m; do_dict := d |} ->
  orel {| mo_mut := m; mo_tab := t_set k v t |} {| do_mut := m; do_dict := d_set k v d |}.
Proof.
  intros [_ [W [Nd [G L]]]]. simpl in *.
  split; [reflexivity|]. split; [apply t_set_wf, W|]. split; [apply d_set_nodup, Nd|]. split; simpl.
  - intros k'. rewrite t_getv_set, d_getv_set, oeq_cmp, G; auto.
  - rewrite t_len_set, d_set_length, G, L; auto.
Qed.

Lemma orel_del m t d k :
  orel {| mo_mut := m; mo_tab := t |} {| do_mut := m; do_dict := d |} ->
  orel {| mo_mut := m; mo_tab := t_del k t |} {| do_mut := m; do_dict := d_del k d |}.
Proof.
  intros [_ [W [Nd [G L]]]]. simpl in *.
  split; [reflexivity|]. split; [apply t_del_wf, W|]. split; [apply d_del_nodup, Nd|]. split; simpl.
  - intros k'. rewrite t_getv_del, d_getv_del, oeq_cmp, G; auto.
  - rewrite t_len_del, d_del_length, G, L; auto.
Qed.

Lemma orel_empty m : orel {| mo_mut := m; mo_tab := [] |} {| do_mut := m; do_dict := [] |}.
Proof.
  split; [reflexivity|]. split; [apply twf_nil|]. split; [constructor|]. split; simpl; auto.
Qed.

Lemma orel_flag m o r : orel o r ->
  orel {| mo_mut := m; mo_tab := mo_tab o |} {| do_mut := m; do_dict := do_dict r |}.
Proof. intros [_ H]. split; auto. Qed.

Lemma orel_eta o r : orel o r ->
  orel {| mo_mut := mo_mut o; mo_tab := mo_tab o |} {| do_mut := mo_mut o; do_dict := do_dict r |}.
Proof. apply orel_flag. Qed.

Lemma F2_nth {A B} (R : A -> B -> Prop) l l' n :
  Forall2 R l l' ->
  match nth_error l n, nth_error l' n with
  | Some a, Some b => R a b
  | None, None => True
  | _, _ => False
  end.
Proof.
  intros H. revert n. induction H as [|a b l l' Hab H IH]; intros [|n]; simpl; auto. apply IH.
Qed.

Lemma F2_replace {A B} (R : A -> B -> Prop) l l' n a b :
  Forall2 R l l' -> R a b -> Forall2 R (replace_nth n a l) (replace_nth n b l').
Proof.
  intros H Hab. revert n. induction H as [|x y l l' Hxy H IH]; intros [|n]; simpl; constructor; auto.
Qed.

Lemma F2_snoc {A B} (R : A -> B -> Prop) l l' a b :
  Forall2 R l l' -> R a b -> Forall2 R (l ++ [a]) (l' ++ [b]).
Proof. intros H Hab. apply Forall2_app; auto. Qed.

Lemma F2_len {A B} (R : A -> B -> Prop) l l' : Forall2 R l l' -> length l = length l'.
Proof. induction 1; simpl; auto. Qed.

Theorem step_refines st rst op :
  srel st rst ->
  srel (fst (m_step st op)) (fst (r_step rst op)) /\ snd (m_step st op) = snd (r_step rst op).
Proof.
  unfold srel. intros H. pose proof (F2_len _ _ _ H) as Len.
  destruct op as [h k v|h k|h|h|h|m]; simpl;
    try (pose proof (F2_nth _ _ _ h H) as N;
         destruct (nth_error st h) as [o|], (nth_error rst h) as [r|]; try contradiction; [|split; auto];
         pose proof N as [Mut [W [Nd [G L]]]]; rewrite <- Mut; destruct (mo_mut o) eqn:Mo).
  - (* Set, mutable *)
    simpl. split; auto. apply F2_replace; auto. apply orel_set. rewrite <- Mo at 1 2.
    destruct o, r; simpl in *; subst. exact N.
  - (* Set, immutable *)
    rewrite t_has_getv, t_get_getv, d_has_getv, d_get_getv, G.
    destruct (match d_getv k (do_dict r) with Some _ => true | None => false end &&
              oequal match d_getv k (do_dict r) with Some v0 => v0 | None => None end v); simpl.
    + split; auto.
    + rewrite Len. split; auto. apply F2_snoc; auto. apply orel_set.
      destruct o, r; simpl in *; subst. exact N.
  - (* Delete, mutable *)
    simpl. split; auto. apply F2_replace; auto. apply orel_del.
    destruct o, r; simpl in *; subst. exact N.
  - (* Delete, immutable *)
    rewrite t_has_getv, d_has_getv, G.
    destruct (negb match d_getv k (do_dict r) with Some _ => true | None => false end); simpl.
    + split; auto.
    + rewrite Len. split; auto. apply F2_snoc; auto. apply orel_del.
      destruct o, r; simpl in *; subst. exact N.
  - simpl. split; auto. apply F2_replace; auto. apply orel_empty.
  - simpl. rewrite Len. split; auto. apply F2_snoc; auto. apply orel_empty.
  - simpl. split; auto.
  - simpl. rewrite Len. split; auto. apply F2_snoc; auto. apply (orel_flag true o r N).
  - simpl. rewrite Len. split; auto. apply F2_snoc; auto. apply (orel_flag false o r N).
  - simpl. split; auto.
  - rewrite Len. split; auto. apply F2_snoc; auto. apply orel_empty.
Qed.

Theorem run_refines ops : srel (m_run ops) (r_run ops).
Proof.
  unfold m_run, r_run. assert (G : forall st rst, srel st rst ->
    srel (fold_left (fun st op => fst (m_step st op)) ops st)
         (fold_left (fun st op => fst (r_step st op)) ops rst)).
  { induction ops as [|op ops IH]; simpl; auto. intros st rst H. apply IH, step_refines, H. }
  apply G. constructor.
Qed.

(* every operation returns the same handle in model and reference *)
Theorem run_handles ops op :
  snd (m_step (m_run ops) op) = snd (r_step (r_run ops) op).
Proof. apply step_refines, run_refines. Qed.

(* frame: an operation changes at most the mutable object it targets; everything else,
   in particular every immutable map and every snapshot, keeps its contents *)
Definition target (op : mop) : option nat :=
  match op with
  | MSet h _ _ | MDelete h _ | MClear h => Some h
  | _ => None
  end.

Lemma nth_replace_other {A} (l : list A) n m x : n <> m -> nth_error (replace_nth n x l) m = nth_error l m.
Proof.
  revert n m. induction l as [|a l IH]; intros [|n] [|m] H; simpl; auto; try congruence.
Qed.

Lemma nth_replace_same {A} (l : list A) n x : n < length l -> nth_error (replace_nth n x l) n = Some x.
Proof.
  revert n. induction l as [|a l IH]; intros [|n] H; simpl in *; auto; try lia. apply IH. lia.
Qed.

Theorem step_frame st op h o :
  nth_error st h = Some o ->
  (mo_mut o = false \/ target op <> Some h) ->
  nth_error (fst (m_step st op)) h = Some o.
Proof.
  intros Hn Hc. assert (Hl : h < length st) by (apply nth_error_Some; congruence).
  assert (App : forall x, nth_error (st ++ [x]) h = Some o) by (intros; rewrite nth_error_app1; auto).
  destruct op as [g k v|g k|g|g|g|m]; simpl; auto;
    destruct (nth_error st g) as [o'|] eqn:Hg; simpl; auto;
    destruct (mo_mut o') eqn:Mo; simpl; auto;
    try (destruct (_ && _); simpl; auto); try (destruct (negb _); simpl; auto);
    try (destruct (Nat.eq_dec g h) as [->|Ne];
         [rewrite Hn in Hg; injection Hg as <-; destruct Hc as [Hc|Hc]; [congruence|exfalso; apply Hc; reflexivity]
         |rewrite nth_replace_other; auto]).
Qed.
