(* Model of pkg/types/map.go (repaired tree): the hash table of a map as hash-ordered buckets,
   each bucket kept sorted by Compare; Set / Delete / Clear / Get / Has / Len / Range;
   and a handle store that models object identity and in-place mutation of mutable maps. *)
From Coq Require Import List NArith ZArith Bool Lia.
From Uf Require Import Base.Fnv Base.Order Value.Value.
Import ListNotations.

(* ---- one bucket: [][2]Value sorted by Compare on the key ---- *)
Fixpoint b_set (k v : ovalue) (b : bucket_t) : bucket_t :=
  match b with
  | [] => [(k, v)]
  | (k', v') :: b' =>
      match ocmp k' k with
      | Eq => (k', v) :: b'               (* overwrite: the stored key is kept, the value replaced *)
      | Lt => (k', v') :: b_set k v b'
      | Gt => (k, v) :: b
      end
  end.

Fixpoint b_del (k : ovalue) (b : bucket_t) : bucket_t :=
  match b with
  | [] => []
  | (k', v') :: b' =>
      match ocmp k' k with
      | Eq => b'
      | Lt => (k', v') :: b_del k b'
      | Gt => b
      end
  end.

Definition b_find (k : ovalue) (b : bucket_t) : option pair_t :=
  find (fun p => is_eq (ocmp (fst p) k)) b.

(* the binary search of Has/Get, literally: low/high window over the bucket, with fuel *)
Fixpoint b_bsearch (fuel : nat) (k : ovalue) (b : bucket_t) (low high : Z) : option pair_t :=
  match fuel with
  | O => None
  | S fuel' =>
      if (high <? low)%Z then None
      else
        let mid := (low + (high - low) / 2)%Z in
        match nth_error b (Z.to_nat mid) with
        | None => None
        | Some p =>
            match ocmp (fst p) k with
            | Eq => Some p
            | Lt => b_bsearch fuel' k b (mid + 1) high
            | Gt => b_bsearch fuel' k b low (mid - 1)
            end
        end
  end.

Definition b_search (k : ovalue) (b : bucket_t) : option pair_t :=
  b_bsearch (S (length b)) k b 0 (Z.of_nat (length b) - 1).

(* ---- the table ---- *)
Fixpoint t_find (h : N) (t : table_t) : option bucket_t :=
  match t with
  | [] => None
  | (h', b) :: t' => if N.eqb h h' then Some b else t_find h t'
  end.

(* replace bucket h by f(bucket) (f [] when absent); drop the bucket when it becomes empty *)
Fixpoint t_upd (h : N) (f : bucket_t -> bucket_t) (t : table_t) : table_t :=
  match t with
  | [] => match f [] with [] => [] | b => [(h, b)] end
  | (h', b) :: t' =>
      match N.compare h h' with
      | Eq => match f b with [] => t' | b2 => (h, b2) :: t' end
      | Lt => match f [] with [] => t | b2 => (h, b2) :: t end
      | Gt => (h', b) :: t_upd h f t'
      end
  end.

Definition t_set (k v : ovalue) (t : table_t) : table_t := t_upd (ohash k) (b_set k v) t.
Definition t_del (k : ovalue) (t : table_t) : table_t := t_upd (ohash k) (b_del k) t.

Definition t_lookup (k : ovalue) (t : table_t) : option pair_t :=
  match t_find (ohash k) t with
  | Some b => b_search k b
  | None => None
  end.

Definition t_has (k : ovalue) (t : table_t) : bool :=
  match t_lookup k t with Some _ => true | None => false end.
(* Get returns nil both for an absent key and for a stored nil *)
Definition t_get (k : ovalue) (t : table_t) : ovalue :=
  match t_lookup k t with Some p => snd p | None => None end.

Definition t_range (t : table_t) : list pair_t := flat_map snd t.
Definition t_len (t : table_t) : nat := length (t_range t).

(* ---- handle store: objects with identity ---- *)
Record mapobj := { mo_mut : bool; mo_tab : table_t }.
Definition store := list mapobj.

Inductive mop :=
| MSet (h : nat) (k v : ovalue)
| MDelete (h : nat) (k : ovalue)
| MClear (h : nat)
| MMutable (h : nat)
| MImmutable (h : nat)
| MNew (mut : bool).              (* NewMapWithSize / NewMap() *)

Fixpoint replace_nth {A} (n : nat) (x : A) (l : list A) : list A :=
  match l, n with
  | [], _ => []
  | _ :: t, O => x :: t
  | a :: t, S n' => a :: replace_nth n' x t
  end.

(* result: new store and the handle of the returned map *)
Definition m_step (st : store) (op : mop) : store * nat :=
  let fresh := length st in
  match op with
  | MNew mut => (st ++ [{| mo_mut := mut; mo_tab := [] |}], fresh)
  | MSet h k v =>
      match nth_error st h with
      | None => (st, h)
      | Some o =>
          if mo_mut o then (replace_nth h {| mo_mut := true; mo_tab := t_set k v (mo_tab o) |} st, h)
          else if t_has k (mo_tab o) && oequal (t_get k (mo_tab o)) v then (st, h)
          else (st ++ [{| mo_mut := false; mo_tab := t_set k v (mo_tab o) |}], fresh)
      end
  | MDelete h k =>
      match nth_error st h with
      | None => (st, h)
      | Some o =>
          if mo_mut o then (replace_nth h {| mo_mut := true; mo_tab := t_del k (mo_tab o) |} st, h)
          else if negb (t_has k (mo_tab o)) then (st, h)
          else (st ++ [{| mo_mut := false; mo_tab := t_del k (mo_tab o) |}], fresh)
      end
  | MClear h =>
      match nth_error st h with
      | None => (st, h)
      | Some o =>
          if mo_mut o then (replace_nth h {| mo_mut := true; mo_tab := [] |} st, h)
          else (st ++ [{| mo_mut := false; mo_tab := [] |}], fresh)
      end
  | MMutable h =>
      match nth_error st h with
      | None => (st, h)
      | Some o =>
          if mo_mut o then (st, h)
          else (st ++ [{| mo_mut := true; mo_tab := mo_tab o |}], fresh)
      end
  | MImmutable h =>
      match nth_error st h with
      | None => (st, h)
      | Some o =>
          if mo_mut o then (st ++ [{| mo_mut := false; mo_tab := mo_tab o |}], fresh)
          else (st, h)
      end
  end.

Definition m_run (ops : list mop) : store := fold_left (fun st op => fst (m_step st op)) ops [].

(* ---- reference dictionary keyed by value equality ---- *)
Definition dict := list pair_t.

Fixpoint d_set (k v : ovalue) (d : dict) : dict :=
  match d with
  | [] => [(k, v)]
  | (k', v') :: d' => if oequal k' k then (k', v) :: d' else (k', v') :: d_set k v d'
  end.

Fixpoint d_del (k : ovalue) (d : dict) : dict :=
  match d with
  | [] => []
  | (k', v') :: d' => if oequal k' k then d' else (k', v') :: d_del k d'
  end.

Definition d_lookup (k : ovalue) (d : dict) : option pair_t := find (fun p => oequal (fst p) k) d.
Definition d_has (k : ovalue) (d : dict) : bool := match d_lookup k d with Some _ => true | None => false end.
Definition d_get (k : ovalue) (d : dict) : ovalue := match d_lookup k d with Some p => snd p | None => None end.

Record dictobj := { do_mut : bool; do_dict : dict }.

Definition r_step (st : list dictobj) (op : mop) : list dictobj * nat :=
  let fresh := length st in
  match op with
  | MNew mut => (st ++ [{| do_mut := mut; do_dict := [] |}], fresh)
  | MSet h k v =>
      match nth_error st h with
      | None => (st, h)
      | Some o =>
          if do_mut o then (replace_nth h {| do_mut := true; do_dict := d_set k v (do_dict o) |} st, h)
          else if d_has k (do_dict o) && oequal (d_get k (do_dict o)) v then (st, h)
          else (st ++ [{| do_mut := false; do_dict := d_set k v (do_dict o) |}], fresh)
      end
  | MDelete h k =>
      match nth_error st h with
      | None => (st, h)
      | Some o =>
          if do_mut o then (replace_nth h {| do_mut := true; do_dict := d_del k (do_dict o) |} st, h)
          else if negb (d_has k (do_dict o)) then (st, h)
          else (st ++ [{| do_mut := false; do_dict := d_del k (do_dict o) |}], fresh)
      end
  | MClear h =>
      match nth_error st h with
      | None => (st, h)
      | Some o =>
          if do_mut o then (replace_nth h {| do_mut := true; do_dict := [] |} st, h)
          else (st ++ [{| do_mut := false; do_dict := [] |}], fresh)
      end
  | MMutable h =>
      match nth_error st h with
      | None => (st, h)
      | Some o =>
          if do_mut o then (st, h)
          else (st ++ [{| do_mut := true; do_dict := do_dict o |}], fresh)
      end
  | MImmutable h =>
      match nth_error st h with
      | None => (st, h)
      | Some o =>
          if do_mut o then (st ++ [{| do_mut := false; do_dict := do_dict o |}], fresh)
          else (st, h)
      end
  end.

Definition r_run (ops : list mop) : list dictobj := fold_left (fun st op => fst (r_step st op)) ops [].
