(* Correspondence checkers: run the model on harness-written cases. *)
From Coq Require Import List NArith ZArith Bool.
From Uf Require Import Base.Fnv Value.Value.
Import ListNotations.

Fixpoint mismatches_from {A} (ok : A -> bool) (i : nat) (l : list A) : list nat :=
  match l with
  | [] => []
  | c :: t => if ok c then mismatches_from ok (S i) t else i :: mismatches_from ok (S i) t
  end.
Definition mismatches {A} (ok : A -> bool) (l : list A) : list nat := mismatches_from ok 0 l.

Record c14case := mk14 { c14a : ovalue; c14b : ovalue; c14eq : bool; c14cmp : Z; c14ha : N; c14hb : N }.

Definition c14ok (c : c14case) : bool :=
  Bool.eqb (oequal (c14a c) (c14b c)) (c14eq c) &&
  Z.eqb (cmp_int (ocmp (c14a c) (c14b c))) (c14cmp c) &&
  N.eqb (ohash (c14a c)) (c14ha c) &&
  N.eqb (ohash (c14b c)) (c14hb c).
