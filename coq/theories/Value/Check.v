(* Correspondence checkers: run the model on harness-written cases. *)
From Coq Require Import List NArith ZArith Bool.
From Uf Require Import Base.Fnv Value.Value.
Import ListNotations.

Fixpoint mismatches_from {A} (ok : A -> bool) (i : nat) (l : list A) : list nat :=
  match l with
  | [] => []
  | c :: t => if ok c then mismatches_from ok (S i) t else i :: mismatches_from ok (S i) t
  end.
Definition mismatches {A} (ok : A -> bool) (l : list A) : list nat := mismatches_from ok 0 l.

Record c14case := mk14 { c14a : ovalue; c14b : ovalue; c14eq : bool; c14cmp : Z; c14ha : N; c14hb : N }.

Definition c14ok (c : c14case) : bool :=
  Bool.eqb (oequal (c14a c) (c14b c)) (c14eq c) &&
  Z.eqb (cmp_int (ocmp (c14a c) (c14b c))) (c14cmp c) &&
  N.eqb (ohash (c14a c)) (c14ha c) &&
  N.eqb (ohash (c14b c)) (c14hb c).

(* ---- structural (syntactic) equality on values, used only to compare observed listings ---- *)
Definition list_eqb {A} (f : A -> A -> bool) := fix go (l l' : list A) : bool :=
  match l, l' with
  | [], [] => true
  | a :: t, b :: t' => f a b && go t t'
  | _, _ => false
  end.

Fixpoint veqb (a b : value) {struct a} : bool :=
  let oeqb := fun (o o' : option value) =>
    match o, o' with
    | None, None => true
    | Some u, Some u' => veqb u u'
    | _, _ => false
    end in
  match a, b with
  | VBinary x, VBinary y => list_eqb N.eqb x y
  | VBuffer x, VBuffer y => N.eqb x y
  | VBool x, VBool y => Bool.eqb x y
  | VError x, VError y => list_eqb N.eqb x y
  | VInt w x, VInt w' y => width_eqb w w' && Z.eqb x y
  | VUint w x, VUint w' y => width_eqb w w' && N.eqb x y
  | VF32 x, VF32 y => N.eqb x y
  | VF64 x, VF64 y => N.eqb x y
  | VString x, VString y => list_eqb N.eqb x y
  | VSlice x, VSlice y =>
      (fix go (l l' : list (option value)) : bool :=
         match l, l' with
         | [], [] => true
         | o :: t, o' :: t' => oeqb o o' && go t t'
         | _, _ => false
         end) x y
  | VMap x, VMap y =>
      (fix gob (l l' : table_t) : bool :=
         match l, l' with
         | [], [] => true
         | (h, e) :: t, (h', e') :: t' =>
             N.eqb h h' &&
             (fix gop (p p' : bucket_t) : bool :=
                match p, p' with
                | [], [] => true
                | (k, v) :: q, (k', v') :: q' => oeqb k k' && oeqb v v' && gop q q'
                | _, _ => false
                end) e e' &&
             gob t t'
         | _, _ => false
         end) x y
  | _, _ => false
  end.

Definition oveqb (o o' : ovalue) : bool :=
  match o, o' with
  | None, None => true
  | Some u, Some u' => veqb u u'
  | _, _ => false
  end.

Definition pair_eqb (p q : option value * option value) : bool :=
  oveqb (fst p) (fst q) && oveqb (snd p) (snd q).
