(* Model of pkg/types values: Kind, Hash, Equal, Compare.
   Transcribed from value.go, integer.go, uinteger.go, float.go, string.go,
   binary.go, boolean.go, error.go, buffer.go, slice.go, map.go (repaired tree).

   Representation
   - integers: width tag + mathematical value
   - floats: IEEE-754 bit patterns (binary32 / binary64)
   - strings, errors, binaries: byte lists
   - buffers: the address of the buffer object (identity)
   - slices: list of possibly-nil elements
   - maps: the Go table map[uint64][][2]Value as an association list
     hash -> bucket, listed in ascending hash order (the only order the code
     ever iterates in when order matters); keys and values may be nil.
     Mutable and immutable maps have the same Equal/Compare/Hash (a mutable
     map answers through its immutable view), so mutability is not part of
     the value; it lives in the handle store of VMap.v. *)
From Coq Require Import List NArith ZArith Bool Lia.
From Uf Require Import Base.Fnv Base.Order.
Import ListNotations.

Inductive width := W0 | W8 | W16 | W32 | W64.   (* W0 = int / uint (64 bit here) *)

Inductive value :=
| VBinary (bs : list N)
| VBuffer (addr : N)
| VBool (b : bool)
| VError (msg : list N)
| VInt (w : width) (z : Z)
| VUint (w : width) (n : N)
| VF32 (bits : N)
| VF64 (bits : N)
| VMap (bk : list (N * list (option value * option value)))
| VSlice (l : list (option value))
| VString (s : list N).

Notation ovalue := (option value) (only parsing).
Notation pair_t := (option value * option value)%type (only parsing).
Notation bucket_t := (list (option value * option value)) (only parsing).
Notation table_t := (list (N * list (option value * option value))) (only parsing).

(* ---- kinds (value.go) ---- *)
Definition width_kind (base : N) (w : width) : N :=
  (base + match w with W0 => 0 | W8 => 1 | W16 => 2 | W32 => 3 | W64 => 4 end)%N.

Definition kind (v : value) : N :=
  match v with
  | VBinary _ => 1 | VBuffer _ => 2 | VBool _ => 3 | VError _ => 4
  | VInt w _ => width_kind 5 w
  | VUint w _ => width_kind 10 w
  | VF32 _ => 15 | VF64 _ => 16
  | VMap _ => 17 | VSlice _ => 18 | VString _ => 19
  end%N.

Definition okind (o : ovalue) : N := match o with None => 0%N | Some v => kind v end.

Definition width_bytes (w : width) : nat :=
  match w with W0 => 8 | W8 => 1 | W16 => 2 | W32 => 4 | W64 => 8 end.

(* ---- floats: order key of a bit pattern; None = NaN ---- *)
Definition fkey (ebits mbits : N) (bits : N) : option Z :=
  let sign := N.testbit bits (ebits + mbits) in
  let mag := (bits mod 2 ^ (ebits + mbits))%N in
  let e := (mag / 2 ^ mbits)%N in
  let m := (mag mod 2 ^ mbits)%N in
  if (N.eqb e (2 ^ ebits - 1) && negb (N.eqb m 0))%bool then None
  else Some (if sign then (- Z.of_N mag)%Z else Z.of_N mag).

Definition fkey32 := fkey 8 23.
Definition fkey64 := fkey 11 52.

Definition okey_cmp (a b : option Z) : comparison :=
  match a, b with
  | None, None => Eq
  | None, Some _ => Lt
  | Some _, None => Gt
  | Some x, Some y => Z.compare x y
  end.

(* the bits Hash() feeds to FNV (float.go, repaired): -0 -> +0, NaN -> canonical *)
Definition fcanon (ebits mbits : N) (nan : N) (bits : N) : N :=
  match fkey ebits mbits bits with
  | None => nan
  | Some z => if Z.ltb z 0 then (2 ^ (ebits + mbits) + Z.to_N (- z))%N else Z.to_N z
  end.
Definition nan32 : N := 2143289344.             (* 0x7FC00000 = float32(math.NaN()) *)
Definition nan64 : N := 9221120237041090561.    (* 0x7FF8000000000001 = math.NaN() *)

Definition lexN := lexl N.compare.

Definition width_eqb (a b : width) : bool :=
  match a, b with
  | W0, W0 | W8, W8 | W16, W16 | W32, W32 | W64, W64 => true
  | _, _ => false
  end.

(* ---- Compare ---- *)
Fixpoint cmp (a b : value) {struct a} : comparison :=
  let ocmp := fun (o o' : option value) =>
    match o, o' with
    | None, None => Eq
    | None, Some _ => Lt
    | Some _, None => Gt
    | Some u, Some u' => cmp u u'
    end in
  match a, b with
  | VBinary x, VBinary y => lexN x y
  | VBuffer x, VBuffer y => N.compare x y
  | VBool x, VBool y => bool_cmp x y
  | VError x, VError y => lexN x y
  | VInt w x, VInt w' y => if width_eqb w w' then Z.compare x y else N.compare (kind a) (kind b)
  | VUint w x, VUint w' y => if width_eqb w w' then N.compare x y else N.compare (kind a) (kind b)
  | VF32 x, VF32 y => okey_cmp (fkey32 x) (fkey32 y)
  | VF64 x, VF64 y => okey_cmp (fkey64 x) (fkey64 y)
  | VString x, VString y => lexN x y
  | VSlice x, VSlice y =>
      (fix go (l l' : list (option value)) : comparison :=
         match l, l' with
         | [], [] => Eq
         | [], _ => Lt
         | _, [] => Gt
         | o :: t, o' :: t' => thenc (ocmp o o') (go t t')
         end) x y
  | VMap x, VMap y =>
      thenc (Nat.compare (length x) (length y))
      ((fix gob (l l' : table_t) : comparison :=
         match l, l' with
         | [], [] => Eq
         | [], _ => Lt
         | _, [] => Gt
         | (h, e) :: t, (h', e') :: t' =>
             thenc (N.compare h h')
            (thenc (Nat.compare (length e) (length e'))
            (thenc ((fix gop (p p' : bucket_t) : comparison :=
                       match p, p' with
                       | [], [] => Eq
                       | [], _ => Lt
                       | _, [] => Gt
                       | (k, v) :: q, (k', v') :: q' =>
                           thenc (ocmp k k') (thenc (ocmp v v') (gop q q'))
                       end) e e')
                   (gob t t')))
         end) x y)
  | _, _ => N.compare (kind a) (kind b)
  end.

Definition ocmp (o o' : ovalue) : comparison :=
  match o, o' with
  | None, None => Eq
  | None, Some _ => Lt
  | Some _, None => Gt
  | Some u, Some u' => cmp u u'
  end.

(* ---- Hash ---- *)
Fixpoint hash (a : value) : N :=
  let ohash := fun (o : option value) => match o with None => 0%N | Some u => hash u end in
  match a with
  | VBinary x => fnv x
  | VBuffer x => x
  | VBool b => fnv [if b then 1%N else 0%N]
  | VError x => fnv x
  | VInt w z => fnv (le_bytes (width_bytes w) (twos (width_bytes w) z))
  | VUint w n => fnv (le_bytes (width_bytes w) n)
  | VF32 x => fnv (le_bytes 4 (fcanon 8 23 nan32 x))
  | VF64 x => fnv (le_bytes 8 (fcanon 11 52 nan64 x))
  | VString x => fnv x
  | VSlice l => fnv (flat_map (fun o => be8 (ohash o)) l)
  | VMap t =>
      fnv (flat_map (fun he : N * bucket_t =>
             flat_map (fun kv : pair_t => be8 (ohash (fst kv)) ++ be8 (ohash (snd kv))) (snd he)) t)
  end.

Definition ohash (o : ovalue) : N := match o with None => 0%N | Some u => hash u end.

(* ---- Equal ---- *)
(* structural part of Equal (what the code checks after the hash shortcut) *)
Fixpoint seq (a b : value) {struct a} : bool :=
  let oseq := fun (o o' : option value) =>
    match o, o' with
    | None, None => true
    | Some u, Some u' => seq u u'
    | _, _ => false
    end in
  match a, b with
  | VBinary x, VBinary y => match lexN x y with Eq => true | _ => false end
  | VBuffer x, VBuffer y => N.eqb x y
  | VBool x, VBool y => Bool.eqb x y
  | VError x, VError y => match lexN x y with Eq => true | _ => false end
  | VInt w x, VInt w' y => width_eqb w w' && Z.eqb x y
  | VUint w x, VUint w' y => width_eqb w w' && N.eqb x y
  | VF32 x, VF32 y => match okey_cmp (fkey32 x) (fkey32 y) with Eq => true | _ => false end
  | VF64 x, VF64 y => match okey_cmp (fkey64 x) (fkey64 y) with Eq => true | _ => false end
  | VString x, VString y => match lexN x y with Eq => true | _ => false end
  | VSlice x, VSlice y =>
      (fix go (l l' : list (option value)) : bool :=
         match l, l' with
         | [], [] => true
         | o :: t, o' :: t' => oseq o o' && go t t'
         | _, _ => false
         end) x y
  | VMap x, VMap y =>
      (fix gob (l l' : table_t) : bool :=
         match l, l' with
         | [], [] => true
         | (h, e) :: t, (h', e') :: t' =>
             N.eqb h h' &&
             (fix gop (p p' : bucket_t) : bool :=
                match p, p' with
                | [], [] => true
                | (k, v) :: q, (k', v') :: q' => oseq k k' && oseq v v' && gop q q'
                | _, _ => false
                end) e e' &&
             gob t t'
         | _, _ => false
         end) x y
  | _, _ => false
  end.

Definition oseq (o o' : ovalue) : bool :=
  match o, o' with
  | None, None => true
  | Some u, Some u' => seq u u'
  | _, _ => false
  end.

(* Equal as the code computes it: kind test, hash shortcut for binary, slice and
   map (they compare cached hashes first), then the structural comparison. *)
Definition uses_hash_shortcut (a : value) : bool :=
  match a with VBinary _ | VSlice _ | VMap _ => true | _ => false end.

Definition equal (a b : value) : bool :=
  if uses_hash_shortcut a && negb (N.eqb (hash a) (hash b)) && N.eqb (kind a) (kind b)
  then false else seq a b.

Definition oequal (o o' : ovalue) : bool :=
  match o, o' with
  | None, None => true
  | Some u, Some u' => equal u u'
  | _, _ => false
  end.

(* comparison as Go's int *)
Definition cmp_int (c : comparison) : Z := match c with Lt => (-1)%Z | Eq => 0%Z | Gt => 1%Z end.
