(* Model of pkg/packet writer.go / reader.go / packet.go (repaired tree): one Writer, any number
   of Readers, at the granularity of the property's alphabet.  Every step is one critical section
   of the code; the goroutine that Reader.Close spawns per pending request is an explicit
   "deferred drop notice", delivered by its own step.

   Ghost data (never inspected by a step): each accepted write gets a serial number, carried by
   its row and by the readers' owed queues, so that theorems can say which write an answer was
   filed under. *)
From Coq Require Import List NArith ZArith Bool Lia.
Import ListNotations.

(* ---- payloads and packets ---- *)
Inductive pay :=
| PNil                       (* nil payload *)
| PAtom (z : Z)              (* any non-error value *)
| PErr (l : list Z)          (* an error; joined errors concatenate their atoms; [0] = dropped packet *)
| PSlice (l : list pay).

Inductive pkt := PNone | Pk (p : pay).   (* PNone is the packet.None object, which Join skips by identity *)

Definition dropped : pkt := Pk (PErr [0%Z]).

(* packet.Join *)
Definition join (ps : list pkt) : pkt :=
  match ps with
  | [] => PNone
  | [p] => p
  | _ =>
      let errs := flat_map (fun p => match p with Pk (PErr l) => l | _ => [] end) ps in
      let has_err := existsb (fun p => match p with Pk (PErr _) => true | _ => false end) ps in
      let pls := flat_map (fun p => match p with Pk (PErr _) => [] | Pk q => [q] | PNone => [] end) ps in
      if has_err then Pk (PErr errs)
      else match pls with
           | [] => PNone
           | [q] => Pk q
           | _ => Pk (PSlice pls)
           end
  end.

(* ---- state ---- *)
Notation cell := (option pkt) (only parsing).   (* None = nil: answer pending *)

Record row := mkrow { r_serial : nat; r_cells : list (option pkt) }.

Record reader := mkreader { rd_owed : list nat; rd_done : bool; rd_inbox : list pay }.
(* rd_owed: Reader.writers restricted to this writer, as the serials of the requests it still owes
   (ghost); only its length matters to the code.  rd_inbox: request payloads pushed into r.in *)

Record wstate := mkw {
  w_readers : list nat;              (* Writer.readers: reader ids in link order *)
  w_rows : list row;                 (* Writer.receives *)
  w_done : bool;
  w_emitted : list (nat * pkt);      (* what was pushed into w.in: (serial (ghost), packet) *)
  w_next : nat;                      (* ghost: next serial *)
  w_rds : list reader;               (* all readers, by id *)
  w_deferred : list nat;             (* drop notices handed to goroutines by Reader.Close: reader ids *)
  w_crash : bool                     (* an index went out of range (a panic in Go) *)
}.

Inductive wop :=
| WLink (r : nat)
| WUnlink (r : nat)
| WWrite (p : pay)
| WAnswer (r : nat) (p : pkt)       (* reader r answers its oldest pending request *)
| WCloseReader (r : nat)
| WDeliverDrop (i : nat)            (* the i-th outstanding drop notice is delivered *)
| WCloseWriter.

Inductive wres := WBool (b : bool) | WCount (n : nat) | WUnit.

Definition w_init (nreaders : nat) : wstate :=
  mkw [] [] false [] 0 (repeat (mkreader [] false []) nreaders) [] false.

Fixpoint index_of (r : nat) (l : list nat) (i : nat) : option nat :=
  match l with
  | [] => None
  | x :: l' => if Nat.eqb x r then Some i else index_of r l' (S i)
  end.

Definition upd_reader (st : wstate) (r : nat) (f : reader -> reader) : list reader :=
  map (fun ir : nat * reader => if Nat.eqb (fst ir) r then f (snd ir) else snd ir)
      (combine (seq 0 (length (w_rds st))) (w_rds st)).

Definition get_reader (st : wstate) (r : nat) : reader := nth r (w_rds st) (mkreader [] true []).

Definition row_complete (rw : row) : bool := forallb (fun c : option pkt => match c with None => false | Some _ => true end) (r_cells rw).

Definition cells_pkts (cs : list (option pkt)) : list pkt := flat_map (fun c : option pkt => match c with Some p => [p] | None => [] end) cs.

(* pop and emit every completed row at the head (the loop of Unlink and of the repaired receive) *)
Fixpoint flush (rows : list row) (emitted : list (nat * pkt)) (unlink : bool) : list row * list (nat * pkt) :=
  match rows with
  | [] => ([], emitted)
  | rw :: rest =>
      if row_complete rw then
        let p := match r_cells rw with
                 | [] => if unlink then dropped else join []
                 | cs => join (cells_pkts cs)
                 end in
        flush rest (emitted ++ [(r_serial rw, p)]) unlink
      else (rows, emitted)
  end.

Fixpoint remove_at {A} (i : nat) (l : list A) : list A :=
  match l, i with
  | [], _ => []
  | _ :: t, O => t
  | a :: t, S i' => a :: remove_at i' t
  end.

Fixpoint set_at {A} (i : nat) (x : A) (l : list A) : list A :=
  match l, i with
  | [], _ => []
  | _ :: t, O => x :: t
  | a :: t, S i' => a :: set_at i' x t
  end.

(* indexOfHead: the first row that has column [idx] and holds nil there *)
Fixpoint head_of (idx : nat) (rows : list row) (i : nat) : option nat :=
  match rows with
  | [] => None
  | rw :: rest =>
      if Nat.leb (length (r_cells rw)) idx then head_of idx rest (S i)
      else match nth idx (r_cells rw) None with
           | None => Some i
           | Some _ => head_of idx rest (S i)
           end
  end.

(* Writer.receive(pck, reader) *)
Definition w_receive (st : wstate) (r : nat) (p : pkt) : wstate * bool :=
  if w_done st then (st, false) else
  match index_of r (w_readers st) 0 with
  | None => (st, false)
  | Some idx =>
      match head_of idx (w_rows st) 0 with
      | None => (st, false)
      | Some h =>
          let rows1 := map (fun irw : nat * row =>
                              if Nat.eqb (fst irw) h then mkrow (r_serial (snd irw)) (set_at idx (Some p) (r_cells (snd irw))) else snd irw)
                           (combine (seq 0 (length (w_rows st))) (w_rows st)) in
          let '(rows2, em) := flush rows1 (w_emitted st) false in
          (mkw (w_readers st) rows2 false em (w_next st) (w_rds st) (w_deferred st) (w_crash st), true)
      end
  end.

Definition w_step (st : wstate) (op : wop) : wstate * wres :=
  if w_crash st then (st, WUnit) else
  match op with
  | WLink r =>
      if w_done st then (st, WBool false)
      else match index_of r (w_readers st) 0 with
           | Some _ => (st, WBool false)
           | None => (mkw (w_readers st ++ [r]) (w_rows st) false (w_emitted st) (w_next st) (w_rds st) (w_deferred st) false, WBool true)
           end
  | WUnlink r =>
      if w_done st then (st, WBool false)
      else match index_of r (w_readers st) 0 with
           | None => (st, WBool false)
           | Some i =>
               let rows1 := map (fun rw => mkrow (r_serial rw) (if Nat.ltb i (length (r_cells rw)) then remove_at i (r_cells rw) else r_cells rw)) (w_rows st) in
               let '(rows2, em) := flush rows1 (w_emitted st) true in
               (mkw (remove_at i (w_readers st)) rows2 false em (w_next st) (w_rds st) (w_deferred st) false, WBool true)
           end
  | WWrite p =>
      if w_done st then (st, WCount 0)
      else match w_readers st with
           | [] => (st, WCount 0)
           | rs =>
               let accepts := map (fun r => negb (rd_done (get_reader st r))) rs in
               let count := length (filter (fun b : bool => b) accepts) in
               let cells := map (fun b : bool => if b then None else Some PNone) accepts in
               let serial := w_next st in
               let rds := map (fun ir : nat * reader =>
                                 if existsb (Nat.eqb (fst ir)) rs && negb (rd_done (snd ir))
                                 then mkreader (rd_owed (snd ir) ++ [serial]) false (rd_inbox (snd ir) ++ [p])
                                 else snd ir)
                              (combine (seq 0 (length (w_rds st))) (w_rds st)) in
               if Nat.eqb count 0 then (st, WCount 0)
               else (mkw rs (w_rows st ++ [mkrow serial cells]) false (w_emitted st) (S serial) rds (w_deferred st) false, WCount count)
           end
  | WAnswer r p =>
      let rd := get_reader st r in
      match rd_owed rd with
      | [] => (st, WBool false)
      | _ :: owed' =>
          let st1 := mkw (w_readers st) (w_rows st) (w_done st) (w_emitted st) (w_next st)
                         (upd_reader st r (fun x => mkreader owed' (rd_done x) (rd_inbox x))) (w_deferred st) false in
          let '(st2, ok) := w_receive st1 r p in (st2, WBool ok)
      end
  | WCloseReader r =>
      let rd := get_reader st r in
      if rd_done rd then (st, WUnit)
      else (mkw (w_readers st) (w_rows st) (w_done st) (w_emitted st) (w_next st)
                (upd_reader st r (fun x => mkreader [] true (rd_inbox x)))
                (w_deferred st ++ repeat r (length (rd_owed rd))) false, WUnit)
  | WDeliverDrop i =>
      match nth_error (w_deferred st) i with
      | None => (st, WUnit)
      | Some r =>
          let st1 := mkw (w_readers st) (w_rows st) (w_done st) (w_emitted st) (w_next st) (w_rds st)
                         (remove_at i (w_deferred st)) false in
          let '(st2, _) := w_receive st1 r dropped in (st2, WUnit)
      end
  | WCloseWriter =>
      if w_done st then (st, WUnit)
      else (mkw [] [] true (w_emitted st ++ map (fun rw => (r_serial rw, dropped)) (w_rows st)) (w_next st) (w_rds st) (w_deferred st) false, WUnit)
  end.

Definition w_run (n : nat) (ops : list wop) : wstate := fold_left (fun st op => fst (w_step st op)) ops (w_init n).
