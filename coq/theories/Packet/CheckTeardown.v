(* Correspondence checker for C03 at writer level: everything the consumer drained from
   Writer.Receive(), and whether the channel was closed at the end. *)
From Coq Require Import List Arith NArith ZArith Bool.
From Uf Require Import Packet.Writer Node.CheckTracer.
Import ListNotations.

Definition c3case := (nat * list wop * list pkt * bool)%type.

Definition c3ok (c : c3case) : bool :=
  let '(n, ops, observed, closed) := c in
  let st := w_run n ops in
  negb (w_crash st) && list_eqb pkt_eqb (map snd (w_emitted st)) observed && Bool.eqb (w_done st) closed.
