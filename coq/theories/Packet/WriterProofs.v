(* Theorems about the writer model (C01): every accepted write is answered exactly once and in
   order; responses are joins; index accesses are in range. *)
From Coq Require Import List NArith ZArith Bool Lia.
From Uf Require Import Packet.Writer.
Import ListNotations.

(* ---- Join ---- *)
Definition is_err (p : pkt) : bool := match p with Pk (PErr _) => true | _ => false end.
Definition err_atoms (ps : list pkt) : list Z := flat_map (fun p => match p with Pk (PErr l) => l | _ => [] end) ps.
Definition payloads (ps : list pkt) : list pay :=
  flat_map (fun p => match p with Pk (PErr _) => [] | Pk q => [q] | PNone => [] end) ps.

Lemma join_nil : join [] = PNone.
Proof. reflexivity. Qed.

Lemma join_one p : join [p] = p.
Proof. reflexivity. Qed.

(* errors dominate: with two or more inputs, if any is an error the result is the error made of
   all error atoms in input order *)
Lemma join_errors p q ps : existsb is_err (p :: q :: ps) = true ->
  join (p :: q :: ps) = Pk (PErr (err_atoms (p :: q :: ps))).
Proof. intros H. unfold is_err in H. unfold join. rewrite H. reflexivity. Qed.

(* otherwise empty answers vanish and the remaining payloads form a list in input order *)
Lemma join_payloads p q ps : existsb is_err (p :: q :: ps) = false ->
  join (p :: q :: ps) = match payloads (p :: q :: ps) with
                        | [] => PNone
                        | [x] => Pk x
                        | l => Pk (PSlice l)
                        end.
Proof.
  intros H. unfold is_err in H. unfold join. rewrite H. unfold payloads.
  destruct (flat_map _ (p :: q :: ps)) as [|x [|y l]]; reflexivity.
Qed.

(* ---- exactly once, in order ---- *)
Definition serials (st : wstate) : list nat := map fst (w_emitted st) ++ map r_serial (w_rows st).
Definition ledger (st : wstate) : Prop := serials st = seq 0 (w_next st).

Lemma flush_serials rows : forall em u rows' em',
  flush rows em u = (rows', em') ->
  map fst em' ++ map r_serial rows' = map fst em ++ map r_serial rows.
Proof.
  induction rows as [|rw rows IH]; intros em u rows' em' H; cbn [flush] in H.
  - injection H as <- <-. reflexivity.
  - destruct (row_complete rw).
    + rewrite (IH _ _ _ _ H). rewrite map_app. cbn. rewrite <- app_assoc. reflexivity.
    + injection H as <- <-. reflexivity.
Qed.

Lemma map_serial_upd (f : nat * row -> row) (rows : list row) n :
  (forall irw, r_serial (f irw) = r_serial (snd irw)) ->
  map r_serial (map f (combine (seq n (length rows)) rows)) = map r_serial rows.
Proof.
  intros Hf. revert n. induction rows as [|rw rows IH]; intros n; cbn; auto.
  rewrite Hf. cbn. f_equal. apply IH.
Qed.

Lemma w_receive_ledger st r p : ledger st -> ledger (fst (w_receive st r p)).
Proof.
  unfold ledger, serials, w_receive. intros H. destruct (w_done st); auto.
  destruct (index_of r (w_readers st) 0) as [idx|]; auto.
  destruct (head_of idx (w_rows st) 0) as [h|]; auto.
  destruct (flush _ _ _) as [rows2 em] eqn:F. cbn [fst w_emitted w_rows w_next].
  rewrite (flush_serials _ _ _ _ _ F). rewrite map_serial_upd; auto.
  intros [i rw]. cbn. destruct (Nat.eqb i h); reflexivity.
Qed.

Lemma w_receive_next st r p : w_next (fst (w_receive st r p)) = w_next st.
Proof.
  unfold w_receive. destruct (w_done st); auto.
  destruct (index_of r (w_readers st) 0); auto. destruct (head_of _ _ _); auto.
  destruct (flush _ _ _). reflexivity.
Qed.

Theorem w_step_ledger st op : ledger st -> ledger (fst (w_step st op)).
Proof.
  intros H. unfold w_step. destruct (w_crash st); auto. destruct op.
  - destruct (w_done st); auto. destruct (index_of _ _ _); auto.
  - destruct (w_done st); auto. destruct (index_of r (w_readers st) 0) as [i|]; auto.
    destruct (flush _ _ _) as [rows2 em] eqn:F. unfold ledger, serials in *. cbn [fst w_emitted w_rows w_next].
    rewrite (flush_serials _ _ _ _ _ F). rewrite map_map. cbn [r_serial]. rewrite <- H. reflexivity.
  - destruct (w_done st); auto. destruct (w_readers st) as [|r0 rs] eqn:R; auto.
    destruct (Nat.eqb _ 0); auto. unfold ledger, serials in *. cbn [fst w_emitted w_rows w_next].
    rewrite map_app, app_assoc, H. cbn [map r_serial]. rewrite seq_S. reflexivity.
  - destruct (rd_owed (get_reader st r)); auto.
    match goal with |- context [w_receive ?s ?a ?b] =>
      pose proof (w_receive_ledger s a b) as L; destruct (w_receive s a b) as [st2 ok] end.
    cbn [fst] in *. apply L. exact H.
  - destruct (rd_done (get_reader st r)); auto.
  - destruct (nth_error (w_deferred st) i); auto.
    match goal with |- context [w_receive ?s ?a ?b] =>
      pose proof (w_receive_ledger s a b) as L; destruct (w_receive s a b) as [st2 ok] end.
    cbn [fst] in *. apply L. exact H.
  - destruct (w_done st); auto. unfold ledger, serials in *. cbn [fst w_emitted w_rows w_next].
    rewrite map_app, map_map. cbn [fst map app]. rewrite app_nil_r. rewrite <- H. reflexivity.
Qed.

Theorem w_run_ledger n ops : ledger (w_run n ops).
Proof.
  unfold w_run. assert (G : forall st, ledger st -> ledger (fold_left (fun st op => fst (w_step st op)) ops st)).
  { induction ops as [|op ops IH]; intros st H; cbn [fold_left]; auto. apply IH, w_step_ledger, H. }
  apply G. reflexivity.
Qed.

(* the number of serials handed out is the number of writes that reported at least one reader *)
Definition accepted (res : wres) : nat := match res with WCount (S _) => 1 | _ => 0 end.

Lemma w_step_next st op :
  w_next (fst (w_step st op)) = w_next st + match op with WWrite _ => accepted (snd (w_step st op)) | _ => 0 end.
Proof.
  unfold w_step. destruct (w_crash st); [destruct op; cbn; lia|]. destruct op; cbn [fst snd].
  - destruct (w_done st); [cbn; lia|]. destruct (index_of _ _ _); cbn; lia.
  - destruct (w_done st); [cbn; lia|]. destruct (index_of _ _ _); [|cbn; lia]. destruct (flush _ _ _). cbn. lia.
  - destruct (w_done st); [cbn; lia|]. destruct (w_readers st); [cbn; lia|].
    destruct (length _) eqn:L; cbn [Nat.eqb fst snd accepted w_next]; lia.
  - destruct (rd_owed _); [cbn; lia|].
    match goal with |- context [w_receive ?s ?a ?b] =>
      pose proof (w_receive_next s a b) as L; destruct (w_receive s a b) as [st2 ok] end. cbn in *. lia.
  - destruct (rd_done _); cbn; lia.
  - destruct (nth_error _ _); [|cbn; lia].
    match goal with |- context [w_receive ?s ?a ?b] =>
      pose proof (w_receive_next s a b) as L; destruct (w_receive s a b) as [st2 ok] end. cbn in *. lia.
  - destruct (w_done st); cbn; lia.
Qed.

(* ---- index accesses are in range ---- *)
Lemma head_of_in_range idx rows : forall i h, head_of idx rows i = Some h ->
  exists rw, nth_error rows (h - i) = Some rw /\ idx < length (r_cells rw) /\ nth idx (r_cells rw) None = None /\ i <= h.
Proof.
  induction rows as [|rw rows IH]; intros i h H; cbn [head_of] in H; [discriminate|].
  destruct (Nat.leb (length (r_cells rw)) idx) eqn:L.
  - destruct (IH _ _ H) as [rw' [A [B [C D]]]]. exists rw'. replace (h - i) with (S (h - S i)) by lia. cbn. auto with arith.
  - apply Nat.leb_gt in L. destruct (nth idx (r_cells rw) None) eqn:N.
    + destruct (IH _ _ H) as [rw' [A [B [C D]]]]. exists rw'. replace (h - i) with (S (h - S i)) by lia. cbn. auto with arith.
    + injection H as <-. exists rw. rewrite Nat.sub_diag. cbn. auto.
Qed.
