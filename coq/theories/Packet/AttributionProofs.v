(* Attribution (C01): an answer is filed under the write it answers.
   Writer.receive matches an answer to a row by POSITION: the first row that has a column for the reader
   and still holds nil there.  The ghost serials show that this is the right row: for every linked reader
   that is still open, the rows pending in its column are, in order, exactly the writes it still owes
   (its FIFO of owed serials); so the row an answer lands in is the one of the oldest owed write.
   The one way to break this - linking a reader again while it still owes answers from before its
   unlink (finding F-C01-d) - is excluded by the hypothesis on histories (ok_hist). *)
From Coq Require Import List Arith NArith ZArith Bool Lia.
From Uf Require Import Packet.Writer Packet.WriterProofs.
Import ListNotations.

Definition cell_open (idx : nat) (rw : row) : bool :=
  Nat.ltb idx (length (r_cells rw)) && match nth idx (r_cells rw) None with None => true | Some _ => false end.

(* the serials of the rows still waiting for the reader in column idx, oldest first *)
Definition pend (idx : nat) (rows : list row) : list nat := map r_serial (filter (cell_open idx) rows).

Fixpoint count (r : nat) (l : list nat) : nat :=
  match l with [] => 0 | x :: t => (if Nat.eqb x r then 1 else 0) + count r t end.

Definition AInv (st : wstate) : Prop :=
  NoDup (w_readers st) /\
  forall i r, nth_error (w_readers st) i = Some r ->
    r < length (w_rds st) /\
    if rd_done (get_reader st r) then length (pend i (w_rows st)) <= count r (w_deferred st)
    else pend i (w_rows st) = rd_owed (get_reader st r).

(* ---- pend under the updates of the model ---- *)
Lemma pend_app idx rows rw : pend idx (rows ++ [rw]) = pend idx rows ++ (if cell_open idx rw then [r_serial rw] else []).
Proof. unfold pend. rewrite filter_app, map_app. cbn. destruct (cell_open idx rw); reflexivity. Qed.

Lemma complete_not_open idx rw : row_complete rw = true -> cell_open idx rw = false.
Proof.
  unfold row_complete, cell_open. intros H. destruct (Nat.ltb idx (length (r_cells rw))) eqn:L; [|reflexivity].
  apply Nat.ltb_lt in L. rewrite forallb_forall in H. specialize (H (nth idx (r_cells rw) None) (nth_In _ _ L)).
  destruct (nth idx (r_cells rw) None); [reflexivity|discriminate].
Qed.

Lemma pend_flush idx rows : forall em u, pend idx (fst (flush rows em u)) = pend idx rows.
Proof.
  induction rows as [|rw rows IH]; intros em u; cbn [flush]; [reflexivity|].
  destruct (row_complete rw) eqn:C; [|reflexivity].
  rewrite IH. unfold pend. cbn [filter]. rewrite (complete_not_open idx rw C). reflexivity.
Qed.

(* head_of finds the first open row of the column *)
Lemma head_of_spec idx rows : forall i,
  match head_of idx rows i with
  | None => filter (cell_open idx) rows = []
  | Some h => exists pre rw post, rows = pre ++ rw :: post /\ h = i + length pre /\
                filter (cell_open idx) pre = [] /\ cell_open idx rw = true
  end.
Proof.
  induction rows as [|rw rows IH]; intros i; cbn [head_of]; [reflexivity|].
  assert (E : cell_open idx rw = negb (Nat.leb (length (r_cells rw)) idx) && match nth idx (r_cells rw) None with None => true | Some _ => false end).
  { unfold cell_open. f_equal. rewrite Nat.ltb_antisym. reflexivity. }
  destruct (Nat.leb (length (r_cells rw)) idx) eqn:L.
  - cbn in E. specialize (IH (S i)). destruct (head_of idx rows (S i)) as [h|].
    + destruct IH as [pre [rw' [post [R [H [F O]]]]]]. exists (rw :: pre), rw', post. subst rows. split; [reflexivity|]. split; [cbn; lia|]. split; [cbn [filter]; rewrite E; exact F|exact O].
    + cbn [filter]. rewrite E. exact IH.
  - cbn [negb andb] in E. destruct (nth idx (r_cells rw) None) eqn:N.
    + specialize (IH (S i)). destruct (head_of idx rows (S i)) as [h|].
      * destruct IH as [pre [rw' [post [R [H [F O]]]]]]. exists (rw :: pre), rw', post. subst rows. split; [reflexivity|]. split; [cbn; lia|]. split; [cbn [filter]; rewrite E; exact F|exact O].
      * cbn [filter]. rewrite E. exact IH.
    + exists [], rw, rows. split; [reflexivity|]. split; [cbn; lia|]. split; [reflexivity|exact E].
Qed.

Lemma set_at_length {A} i (x : A) l : length (set_at i x l) = length l.
Proof. revert i. induction l as [|a l IH]; intros [|i]; cbn; auto. Qed.
Lemma set_at_nth_same {A} i (x d : A) l : i < length l -> nth i (set_at i x l) d = x.
Proof. revert i. induction l as [|a l IH]; intros [|i] H; cbn in *; try lia; auto. apply IH. lia. Qed.
Lemma set_at_nth_other {A} i j (x d : A) l : i <> j -> nth j (set_at i x l) d = nth j l d.
Proof. revert i j. induction l as [|a l IH]; intros [|i] [|j] H; cbn; auto; try congruence. Qed.

Lemma map_upd_at (f : row -> row) pre x post : forall s,
  map (fun irw : nat * row => if Nat.eqb (fst irw) (s + length pre) then f (snd irw) else snd irw)
      (combine (seq s (length (pre ++ x :: post))) (pre ++ x :: post)) = pre ++ f x :: post.
Proof.
  induction pre as [|a pre IH]; intros s; cbn [app length seq combine map fst snd].
  - rewrite Nat.add_0_r, Nat.eqb_refl. f_equal.
    assert (G : forall l t, s < t -> map (fun irw : nat * row => if Nat.eqb (fst irw) s then f (snd irw) else snd irw) (combine (seq t (length l)) l) = l).
    { induction l as [|b l IHl]; intros t Ht; cbn; [reflexivity|].
      destruct (Nat.eqb t s) eqn:E; [apply Nat.eqb_eq in E; lia|]. f_equal. apply IHl. lia. }
    apply G. lia.
  - destruct (Nat.eqb s (s + S (length pre))) eqn:E; [apply Nat.eqb_eq in E; lia|]. f_equal.
    replace (s + S (length pre)) with (S s + length pre) by lia. apply IH.
Qed.

Lemma map_upd_at0 (f : row -> row) pre x post :
  map (fun irw : nat * row => if Nat.eqb (fst irw) (length pre) then f (snd irw) else snd irw)
      (combine (seq 0 (length (pre ++ x :: post))) (pre ++ x :: post)) = pre ++ f x :: post.
Proof. exact (map_upd_at f pre x post 0). Qed.

Lemma cell_open_set_same idx p rw : cell_open idx (mkrow (r_serial rw) (set_at idx (Some p) (r_cells rw))) = false.
Proof.
  unfold cell_open. cbn [r_cells]. rewrite set_at_length. destruct (Nat.ltb idx (length (r_cells rw))) eqn:L; [|reflexivity].
  apply Nat.ltb_lt in L. rewrite set_at_nth_same by exact L. reflexivity.
Qed.
Lemma cell_open_set_other idx j p rw : idx <> j -> cell_open j (mkrow (r_serial rw) (set_at idx (Some p) (r_cells rw))) = cell_open j rw.
Proof. intros N. unfold cell_open. cbn [r_cells]. rewrite set_at_length, set_at_nth_other by exact N. reflexivity. Qed.

Lemma pend_split idx pre rw post : pend idx (pre ++ rw :: post) = pend idx pre ++ (if cell_open idx rw then [r_serial rw] else []) ++ pend idx post.
Proof. unfold pend. rewrite filter_app, map_app. cbn [filter]. destruct (cell_open idx rw); cbn; reflexivity. Qed.

(* the effect of Writer.receive on the pending serials of every column: the answering reader's column loses
   its oldest pending serial, which is the serial of the row that was filled; the others are untouched *)
Lemma w_receive_pend st r p idx :
  w_done st = false -> index_of r (w_readers st) 0 = Some idx ->
  match pend idx (w_rows st) with
  | [] => fst (w_receive st r p) = st
  | k :: rest =>
      pend idx (w_rows (fst (w_receive st r p))) = rest /\
      (forall j, j <> idx -> pend j (w_rows (fst (w_receive st r p))) = pend j (w_rows st)) /\
      (exists pre rw post, w_rows st = pre ++ rw :: post /\ r_serial rw = k /\ head_of idx (w_rows st) 0 = Some (length pre))
  end /\
  w_readers (fst (w_receive st r p)) = w_readers st /\ w_rds (fst (w_receive st r p)) = w_rds st /\
  w_deferred (fst (w_receive st r p)) = w_deferred st /\ w_done (fst (w_receive st r p)) = false.
Proof.
  intros D I. unfold w_receive. rewrite D, I.
  pose proof (head_of_spec idx (w_rows st) 0) as HS.
  destruct (head_of idx (w_rows st) 0) as [h|].
  - destruct HS as [pre [rw [post [R [H [F O]]]]]]. cbn in H. subst h.
    rewrite R. rewrite (map_upd_at0 (fun rw0 => mkrow (r_serial rw0) (set_at idx (Some p) (r_cells rw0))) pre rw post).
    destruct (flush (pre ++ mkrow (r_serial rw) (set_at idx (Some p) (r_cells rw)) :: post) (w_emitted st) false) as [rows2 em] eqn:FL.
    cbn [fst w_rows w_readers w_rds w_deferred w_done].
    assert (P2 : forall j, pend j rows2 = pend j (pre ++ mkrow (r_serial rw) (set_at idx (Some p) (r_cells rw)) :: post)).
    { intros j. pose proof (pend_flush j (pre ++ mkrow (r_serial rw) (set_at idx (Some p) (r_cells rw)) :: post) (w_emitted st) false) as X. rewrite FL in X. exact X. }
    split; [|auto].
    rewrite pend_split, O. unfold pend at 1. rewrite F. cbn [map app].
    split; [|split].
    + rewrite P2, pend_split, cell_open_set_same. unfold pend at 1. rewrite F. reflexivity.
    + intros j N. rewrite P2, !pend_split. rewrite cell_open_set_other by congruence. reflexivity.
    + exists pre, rw, post. auto.
  - cbn [fst]. unfold pend. rewrite HS. cbn. auto.
Qed.

(* ---- readers ---- *)
Lemma nth_map_combine_seq (f : reader -> reader) r l d : forall s j,
  nth j (map (fun ir : nat * reader => if Nat.eqb (fst ir) r then f (snd ir) else snd ir) (combine (seq s (length l)) l)) d =
  if Nat.ltb j (length l) then (if Nat.eqb (s + j) r then f (nth j l d) else nth j l d) else d.
Proof.
  induction l as [|a l IH]; intros s j; cbn [length seq combine map].
  - destruct j; reflexivity.
  - destruct j as [|j]; cbn [nth fst snd].
    + rewrite Nat.add_0_r. reflexivity.
    + rewrite IH. change (Nat.ltb (S j) (S (length l))) with (Nat.ltb j (length l)).
      replace (S s + j) with (s + S j) by lia. reflexivity.
Qed.

Definition with_rds (st : wstate) rds : wstate :=
  mkw (w_readers st) (w_rows st) (w_done st) (w_emitted st) (w_next st) rds (w_deferred st) false.

Lemma get_reader_upd st r f r' :
  nth r' (upd_reader st r f) (mkreader [] true []) =
  if Nat.eqb r' r then (if Nat.ltb r (length (w_rds st)) then f (get_reader st r) else get_reader st r') else get_reader st r'.
Proof.
  unfold upd_reader, get_reader. rewrite (nth_map_combine_seq f r (w_rds st) (mkreader [] true []) 0 r'). cbn [plus].
  destruct (Nat.eqb r' r) eqn:E.
  - apply Nat.eqb_eq in E. subst r'. destruct (Nat.ltb r (length (w_rds st))) eqn:L; [reflexivity|].
    apply Nat.ltb_ge in L. rewrite nth_overflow by exact L. reflexivity.
  - destruct (Nat.ltb r' (length (w_rds st))) eqn:L; [reflexivity|]. apply Nat.ltb_ge in L. rewrite nth_overflow by exact L. reflexivity.
Qed.

Lemma upd_reader_length st r f : length (upd_reader st r f) = length (w_rds st).
Proof. unfold upd_reader. rewrite map_length, combine_length, seq_length. lia. Qed.

(* ---- lists ---- *)
Lemma count_app r a b : count r (a ++ b) = count r a + count r b.
Proof. induction a; cbn; auto. rewrite IHa. lia. Qed.
Lemma count_repeat r x n : count r (repeat x n) = if Nat.eqb x r then n else 0.
Proof. induction n; cbn; [destruct (Nat.eqb x r); reflexivity|]. rewrite IHn. destruct (Nat.eqb x r); lia. Qed.
Lemma count_remove_at r i l x : nth_error l i = Some x ->
  count r (remove_at i l) + (if Nat.eqb x r then 1 else 0) = count r l.
Proof.
  revert i. induction l as [|a l IH]; intros [|i] H; cbn in *; try discriminate.
  - inversion H; subst. lia.
  - specialize (IH i H). lia.
Qed.

Lemma index_of_spec r l : forall s,
  match index_of r l s with
  | Some i => s <= i /\ nth_error l (i - s) = Some r
  | None => ~ In r l
  end.
Proof.
  induction l as [|x l IH]; intros s; cbn [index_of]; [tauto|].
  destruct (Nat.eqb x r) eqn:E.
  - apply Nat.eqb_eq in E. subst. rewrite Nat.sub_diag. cbn. auto.
  - specialize (IH (S s)). destruct (index_of r l (S s)) as [i|].
    + destruct IH as [L N]. split; [lia|]. replace (i - s) with (S (i - S s)) by lia. exact N.
    + intros [->|I]; [rewrite Nat.eqb_refl in E; discriminate|tauto].
Qed.

Lemma nodup_nth_inj {A} (l : list A) i j x : NoDup l -> nth_error l i = Some x -> nth_error l j = Some x -> i = j.
Proof.
  intros N. revert i j. induction N as [|a l Na N IH]; intros [|i] [|j] H1 H2; cbn in *; try discriminate; auto.
  - inversion H1; subst. exfalso. apply Na. eapply nth_error_In; eauto.
  - inversion H2; subst. exfalso. apply Na. eapply nth_error_In; eauto.
Qed.

Lemma nth_error_remove_at {A} (l : list A) i j :
  nth_error (remove_at i l) j = if Nat.ltb j i then nth_error l j else nth_error l (S j).
Proof.
  revert i j. induction l as [|a l IH]; intros i j.
  - destruct i, j; cbn; try reflexivity; match goal with |- context [if ?c then _ else _] => destruct c end; reflexivity.
  - destruct i as [|i], j as [|j]; cbn [remove_at nth_error]; try reflexivity.
    rewrite IH. change (Nat.ltb (S j) (S i)) with (Nat.ltb j i). reflexivity.
Qed.

Lemma remove_at_length {A} (l : list A) i : i < length l -> S (length (remove_at i l)) = length l.
Proof. revert i. induction l as [|a l IH]; intros [|i] H; cbn in *; try lia. rewrite IH; lia. Qed.

Lemma in_remove_at {A} (l : list A) i x : In x (remove_at i l) -> In x l.
Proof.
  revert i. induction l as [|b l IH]; intros i I; [destruct i; exact I|].
  destruct i as [|i]; cbn in *; [right; exact I|]. destruct I as [E|I]; [left; exact E|right; eapply IH; exact I].
Qed.

Lemma nodup_remove_at {A} (l : list A) i : NoDup l -> NoDup (remove_at i l).
Proof.
  intros N. revert i. induction N as [|a l Na N IH]; intros i; [destruct i; constructor|].
  destruct i as [|i]; cbn; [exact N|]. constructor; [|apply IH]. intros I. apply Na. eapply in_remove_at; exact I.
Qed.

Lemma nth_remove_at {A} (l : list A) i j d : nth j (remove_at i l) d = if Nat.ltb j i then nth j l d else nth (S j) l d.
Proof.
  revert i j. induction l as [|a l IH]; intros i j.
  - destruct i, j; cbn; try reflexivity; match goal with |- context [if ?c then _ else _] => destruct c end; reflexivity.
  - destruct i as [|i], j as [|j]; cbn [remove_at nth]; try reflexivity.
    rewrite IH. change (Nat.ltb (S j) (S i)) with (Nat.ltb j i). reflexivity.
Qed.

(* ---- removing a column (Unlink) ---- *)
Definition rmcol (i : nat) (rw : row) : row :=
  mkrow (r_serial rw) (if Nat.ltb i (length (r_cells rw)) then remove_at i (r_cells rw) else r_cells rw).

Lemma ltb_eq a b c d : (a < b <-> c < d) -> Nat.ltb a b = Nat.ltb c d.
Proof.
  intros H. destruct (Nat.ltb a b) eqn:E1; destruct (Nat.ltb c d) eqn:E2; auto.
  - apply Nat.ltb_lt in E1. apply Nat.ltb_ge in E2. apply H in E1. lia.
  - apply Nat.ltb_ge in E1. apply Nat.ltb_lt in E2. apply H in E2. lia.
Qed.

Lemma cell_open_rmcol i j rw : j <> i ->
  cell_open (if Nat.ltb j i then j else j - 1) (rmcol i rw) = cell_open j rw.
Proof.
  intros N. unfold cell_open, rmcol. cbn [r_cells].
  destruct (Nat.ltb i (length (r_cells rw))) eqn:Li.
  - apply Nat.ltb_lt in Li. pose proof (remove_at_length (r_cells rw) i Li) as RL. rewrite nth_remove_at.
    destruct (Nat.ltb j i) eqn:Lj.
    + rewrite Lj. apply Nat.ltb_lt in Lj. f_equal. apply ltb_eq. lia.
    + apply Nat.ltb_ge in Lj. assert (J : i < j) by lia.
      assert (E : Nat.ltb (j - 1) i = false) by (apply Nat.ltb_ge; lia). rewrite E.
      replace (S (j - 1)) with j by lia. f_equal. apply ltb_eq. lia.
  - apply Nat.ltb_ge in Li. destruct (Nat.ltb j i) eqn:Lj; [reflexivity|].
    apply Nat.ltb_ge in Lj.
    assert (E1 : Nat.ltb (j - 1) (length (r_cells rw)) = false) by (apply Nat.ltb_ge; lia).
    assert (E2 : Nat.ltb j (length (r_cells rw)) = false) by (apply Nat.ltb_ge; lia).
    rewrite E1, E2. reflexivity.
Qed.

Lemma pend_rmcol i j rows : j <> i ->
  pend (if Nat.ltb j i then j else j - 1) (map (rmcol i) rows) = pend j rows.
Proof.
  intros N. unfold pend. induction rows as [|rw rows IH]; [reflexivity|]. cbn [map filter].
  rewrite (cell_open_rmcol i j rw N). destruct (cell_open j rw); cbn [map]; rewrite IH; reflexivity.
Qed.

Lemma rmcol_map i rows :
  map (fun rw => mkrow (r_serial rw) (if Nat.ltb i (length (r_cells rw)) then remove_at i (r_cells rw) else r_cells rw)) rows = map (rmcol i) rows.
Proof. reflexivity. Qed.

(* ---- the invariant ---- *)
Definition FInv (st : wstate) : Prop :=
  NoDup (w_readers st) /\
  (forall rw, In rw (w_rows st) -> length (r_cells rw) <= length (w_readers st)) /\
  (w_done st = true -> w_readers st = [] /\ w_rows st = []) /\
  (forall r, rd_done (get_reader st r) = true -> rd_owed (get_reader st r) = []) /\
  (forall r, In r (w_deferred st) -> rd_done (get_reader st r) = true) /\
  (forall i r, nth_error (w_readers st) i = Some r ->
     if rd_done (get_reader st r) then length (pend i (w_rows st)) <= count r (w_deferred st)
     else pend i (w_rows st) = rd_owed (get_reader st r)).

(* the hypothesis on histories: a reader is not linked (again) while it still owes answers *)
Definition ok_op (st : wstate) (op : wop) : Prop :=
  match op with
  | WLink r => rd_done (get_reader st r) = false -> rd_owed (get_reader st r) = []
  | _ => True
  end.

Lemma pend_beyond n rows : (forall rw, In rw rows -> length (r_cells rw) <= n) -> pend n rows = [].
Proof.
  intros H. unfold pend. induction rows as [|rw rows IH]; [reflexivity|]. cbn [filter].
  assert (C : cell_open n rw = false).
  { unfold cell_open. assert (E : Nat.ltb n (length (r_cells rw)) = false) by (apply Nat.ltb_ge; apply H; left; reflexivity). rewrite E. reflexivity. }
  rewrite C. apply IH. intros x I. apply H. right. exact I.
Qed.

Lemma step_link st r : FInv st -> ok_op st (WLink r) -> w_crash st = false -> FInv (fst (w_step st (WLink r))).
Proof.
  intros H OK C. pose proof H as [ND [RL [DN [DO [DD PR]]]]]. unfold w_step. rewrite C. destruct (w_done st) eqn:D; [exact H|].
  pose proof (index_of_spec r (w_readers st) 0) as IS. destruct (index_of r (w_readers st) 0) as [i|]; [exact H|].
  cbn [fst]. split; [|split; [|split; [|split; [|split]]]]; cbn [w_readers w_rows w_done w_rds w_deferred].
  - clear - ND IS. induction (w_readers st) as [|a l IH]; cbn; [constructor; [tauto|constructor]|].
    inversion ND; subst. constructor.
    + intros I. apply in_app_or in I. destruct I as [I|[E|[]]]; [tauto|]. subst. apply IS. left. reflexivity.
    + apply IH; auto. intros I. apply IS. right. exact I.
  - intros rw I. rewrite app_length. pose proof (RL rw I). lia.
  - discriminate.
  - exact DO.
  - exact DD.
  - intros i r' N. destruct (Nat.lt_ge_cases i (length (w_readers st))) as [L|L].
    + rewrite nth_error_app1 in N by exact L. exact (PR i r' N).
    + rewrite nth_error_app2 in N by exact L. destruct (i - length (w_readers st)) as [|k] eqn:E; cbn in N; [|destruct k; discriminate].
      inversion N; subst r'. assert (i = length (w_readers st)) by lia. subst i.
      rewrite (pend_beyond _ _ RL). change (get_reader (mkw (w_readers st ++ [r]) (w_rows st) false (w_emitted st) (w_next st) (w_rds st) (w_deferred st) false) r) with (get_reader st r).
      destruct (rd_done (get_reader st r)) eqn:Dr; [cbn; lia|]. symmetry. apply OK. exact Dr.
Qed.

Lemma flush_sub rows : forall em u rw, In rw (fst (flush rows em u)) -> In rw rows.
Proof.
  induction rows as [|x rows IH]; intros em u rw I; cbn [flush] in I; [exact I|].
  destruct (row_complete x); [right; eapply IH; exact I|exact I].
Qed.

Lemma step_unlink st r : FInv st -> w_crash st = false -> FInv (fst (w_step st (WUnlink r))).
Proof.
  intros H C. pose proof H as [ND [RL [DN [DO [DD PR]]]]]. unfold w_step. rewrite C. destruct (w_done st) eqn:D; [exact H|].
  pose proof (index_of_spec r (w_readers st) 0) as IS. destruct (index_of r (w_readers st) 0) as [i|]; [|exact H].
  destruct IS as [_ Ni]. rewrite Nat.sub_0_r in Ni.
  assert (Li : i < length (w_readers st)) by (apply nth_error_Some; congruence).
  rewrite rmcol_map.
  pose proof (flush_sub (map (rmcol i) (w_rows st)) (w_emitted st) true) as FS.
  pose proof (fun j => pend_flush j (map (rmcol i) (w_rows st)) (w_emitted st) true) as PF.
  destruct (flush (map (rmcol i) (w_rows st)) (w_emitted st) true) as [rows2 em] eqn:FL. cbn [fst] in *.
  pose proof (remove_at_length (w_readers st) i Li) as RLen.
  split; [|split; [|split; [|split; [|split]]]]; cbn [w_readers w_rows w_done w_rds w_deferred].
  - apply nodup_remove_at, ND.
  - intros rw I. apply FS in I. apply in_map_iff in I. destruct I as [rw0 [<- I0]]. pose proof (RL rw0 I0) as L0.
    unfold rmcol. cbn [r_cells]. destruct (Nat.ltb i (length (r_cells rw0))) eqn:Lc.
    + apply Nat.ltb_lt in Lc. pose proof (remove_at_length (r_cells rw0) i Lc). lia.
    + apply Nat.ltb_ge in Lc. lia.
  - discriminate.
  - exact DO.
  - exact DD.
  - intros j' r' N. rewrite nth_error_remove_at in N.
    change (get_reader (mkw (remove_at i (w_readers st)) rows2 false em (w_next st) (w_rds st) (w_deferred st) false) r') with (get_reader st r').
    rewrite PF.
    destruct (Nat.ltb j' i) eqn:Lj.
    + apply Nat.ltb_lt in Lj. assert (Nj : j' <> i) by lia. pose proof (pend_rmcol i j' (w_rows st) Nj) as X.
      assert (E : Nat.ltb j' i = true) by (apply Nat.ltb_lt; exact Lj). rewrite E in X. rewrite X. exact (PR j' r' N).
    + apply Nat.ltb_ge in Lj. assert (Nj : S j' <> i) by lia. pose proof (pend_rmcol i (S j') (w_rows st) Nj) as X.
      assert (E : Nat.ltb (S j') i = false) by (apply Nat.ltb_ge; lia). rewrite E in X. replace (S j' - 1) with j' in X by lia.
      rewrite X. exact (PR (S j') r' N).
Qed.

Lemma nth_map_combine_seq_gen (F : nat * reader -> reader) l d : forall s j,
  nth j (map F (combine (seq s (length l)) l)) d = if Nat.ltb j (length l) then F (s + j, nth j l d) else d.
Proof.
  induction l as [|a l IH]; intros s j; cbn [length seq combine map].
  - destruct j; reflexivity.
  - destruct j as [|j]; cbn [nth].
    + rewrite Nat.add_0_r. reflexivity.
    + rewrite IH. change (Nat.ltb (S j) (S (length l))) with (Nat.ltb j (length l)).
      replace (S s + j) with (s + S j) by lia. reflexivity.
Qed.

Lemma existsb_eqb_in r l : existsb (Nat.eqb r) l = true <-> In r l.
Proof.
  rewrite existsb_exists. split.
  - intros [x [I E]]. apply Nat.eqb_eq in E. subst. exact I.
  - intros I. exists r. split; auto. apply Nat.eqb_refl.
Qed.

Lemma step_write st p : FInv st -> w_crash st = false -> FInv (fst (w_step st (WWrite p))).
Proof.
  intros H C. pose proof H as [ND [RL [DN [DO [DD PR]]]]]. unfold w_step. rewrite C. destruct (w_done st) eqn:D; [exact H|].
  destruct (w_readers st) as [|r0 rs0] eqn:RS; [exact H|]. rewrite <- RS in *.
  set (rs := w_readers st) in *.
  set (accepts := map (fun r => negb (rd_done (get_reader st r))) rs).
  fold accepts. destruct (Nat.eqb (length (filter (fun b : bool => b) accepts)) 0) eqn:CZ; [exact H|]. cbn [fst].
  set (serial := w_next st).
  set (F := fun ir : nat * reader =>
              if existsb (Nat.eqb (fst ir)) rs && negb (rd_done (snd ir))
              then mkreader (rd_owed (snd ir) ++ [serial]) false (rd_inbox (snd ir) ++ [p]) else snd ir).
  set (st' := mkw rs (w_rows st ++ [mkrow serial (map (fun b : bool => if b then None else Some PNone) accepts)]) false (w_emitted st) (S serial)
                  (map F (combine (seq 0 (length (w_rds st))) (w_rds st))) (w_deferred st) false).
  assert (GR : forall r, get_reader st' r =
                 if existsb (Nat.eqb r) rs && negb (rd_done (get_reader st r))
                 then mkreader (rd_owed (get_reader st r) ++ [serial]) false (rd_inbox (get_reader st r) ++ [p]) else get_reader st r).
  { intros r. unfold get_reader at 1. unfold st'. cbn [w_rds]. rewrite (nth_map_combine_seq_gen F (w_rds st) (mkreader [] true []) 0 r). cbn [plus].
    destruct (Nat.ltb r (length (w_rds st))) eqn:L; [reflexivity|].
    apply Nat.ltb_ge in L. unfold get_reader. rewrite nth_overflow by exact L. cbn. rewrite andb_false_r. reflexivity. }
  assert (GD : forall r, rd_done (get_reader st' r) = rd_done (get_reader st r)).
  { intros r. rewrite GR. destruct (existsb (Nat.eqb r) rs && negb (rd_done (get_reader st r))) eqn:E; [|reflexivity].
    apply andb_true_iff in E. destruct E as [_ E]. apply negb_true_iff in E. cbn. auto. }
  change (FInv st'). unfold FInv.
  assert (E1 : w_readers st' = rs) by reflexivity. assert (E2 : w_rows st' = w_rows st ++ [mkrow serial (map (fun b : bool => if b then None else Some PNone) accepts)]) by reflexivity.
  assert (E3 : w_done st' = false) by reflexivity. assert (E4 : w_deferred st' = w_deferred st) by reflexivity.
  rewrite E1, E2, E3, E4. clearbody st'.
  split; [|split; [|split; [|split; [|split]]]].
  - exact ND.
  - intros rw I. apply in_app_or in I. destruct I as [I|[<-|[]]]; [apply RL; exact I|].
    cbn [r_cells]. unfold accepts. rewrite !map_length. lia.
  - discriminate.
  - intros r Dr. rewrite GD in Dr. rewrite GR. rewrite Dr. cbn [negb]. rewrite andb_false_r. apply DO. exact Dr.
  - intros r I. rewrite GD. apply DD. exact I.
  - intros j r N. rewrite GD. rewrite pend_app.
    assert (Lj : j < length rs) by (apply nth_error_Some; congruence).
    assert (CO : cell_open j (mkrow serial (map (fun b : bool => if b then None else Some PNone) accepts)) = negb (rd_done (get_reader st r))).
    { unfold cell_open. cbn [r_cells]. unfold accepts. rewrite !map_length.
      assert (E : Nat.ltb j (length rs) = true) by (apply Nat.ltb_lt; exact Lj). rewrite E. cbn [andb].
      assert (NE : nth_error (map (fun b : bool => if b then None else Some PNone) (map (fun r1 => negb (rd_done (get_reader st r1))) rs)) j =
                   Some (if negb (rd_done (get_reader st r)) then None else Some PNone)).
      { apply map_nth_error with (f := fun b : bool => if b then None else Some PNone).
        apply map_nth_error with (f := fun r1 => negb (rd_done (get_reader st r1))). exact N. }
      rewrite (nth_error_nth _ j None NE). destruct (rd_done (get_reader st r)); reflexivity. }
    rewrite CO. pose proof (PR j r N) as P0. destruct (rd_done (get_reader st r)) eqn:Dr; cbn [negb].
    + rewrite app_nil_r. exact P0.
    + rewrite GR, Dr. assert (E : existsb (Nat.eqb r) rs = true) by (apply existsb_eqb_in; eapply nth_error_In; exact N).
      rewrite E. cbn [andb negb rd_owed r_serial]. rewrite P0. reflexivity.
Qed.

Lemma in_map_combine_len (F : nat * row -> row) rows :
  (forall irw, length (r_cells (F irw)) = length (r_cells (snd irw))) ->
  forall s rw, In rw (map F (combine (seq s (length rows)) rows)) -> exists rw0, In rw0 rows /\ length (r_cells rw) = length (r_cells rw0).
Proof.
  intros HF. induction rows as [|a rows IH]; intros s rw I; cbn in I; [contradiction|].
  destruct I as [<-|I]; [exists a; split; [left; reflexivity|apply HF]|].
  destruct (IH (S s) rw I) as [rw0 [I0 E]]. exists rw0. split; [right; exact I0|exact E].
Qed.

Lemma w_receive_rowlen st r p n :
  (forall rw, In rw (w_rows st) -> length (r_cells rw) <= n) ->
  forall rw, In rw (w_rows (fst (w_receive st r p))) -> length (r_cells rw) <= n.
Proof.
  intros H rw. unfold w_receive. destruct (w_done st); [apply H|].
  destruct (index_of r (w_readers st) 0) as [idx|]; [|apply H]. destruct (head_of idx (w_rows st) 0) as [h|]; [|apply H].
  match goal with |- context [flush ?rows1 ?em ?u] => pose proof (flush_sub rows1 em u) as FS; destruct (flush rows1 em u) as [rows2 em2] eqn:FL end.
  cbn [fst w_rows] in *. intros I. apply FS in I.
  apply in_map_combine_len in I.
  - destruct I as [rw0 [I0 E]]. rewrite E. apply H. exact I0.
  - intros [i rw0]. cbn [fst snd]. destruct (Nat.eqb i h); [cbn [r_cells]; apply set_at_length|reflexivity].
Qed.

Lemma w_receive_fields st r p :
  w_readers (fst (w_receive st r p)) = w_readers st /\ w_rds (fst (w_receive st r p)) = w_rds st /\
  w_deferred (fst (w_receive st r p)) = w_deferred st /\ w_done (fst (w_receive st r p)) = w_done st.
Proof.
  unfold w_receive. destruct (w_done st) eqn:D; [auto|].
  destruct (index_of r (w_readers st) 0); [|auto]. destruct (head_of _ _ _); [|auto].
  destruct (flush _ _ _). cbn. auto.
Qed.

(* Writer.receive restores the invariant when the answering reader's column is allowed to lose its oldest pending serial *)
Lemma receive_FInv st1 r p :
  NoDup (w_readers st1) ->
  (forall rw, In rw (w_rows st1) -> length (r_cells rw) <= length (w_readers st1)) ->
  (w_done st1 = true -> w_readers st1 = [] /\ w_rows st1 = []) ->
  (forall r', rd_done (get_reader st1 r') = true -> rd_owed (get_reader st1 r') = []) ->
  (forall r', In r' (w_deferred st1) -> rd_done (get_reader st1 r') = true) ->
  (forall i r', nth_error (w_readers st1) i = Some r' -> r' <> r ->
     if rd_done (get_reader st1 r') then length (pend i (w_rows st1)) <= count r' (w_deferred st1)
     else pend i (w_rows st1) = rd_owed (get_reader st1 r')) ->
  (forall i, nth_error (w_readers st1) i = Some r ->
     if rd_done (get_reader st1 r) then length (tl (pend i (w_rows st1))) <= count r (w_deferred st1)
     else tl (pend i (w_rows st1)) = rd_owed (get_reader st1 r)) ->
  FInv (fst (w_receive st1 r p)).
Proof.
  intros ND RL DN DO DD PRo PRr.
  destruct (w_receive_fields st1 r p) as [F1 [F2 [F3 F4]]].
  assert (GR : forall x, get_reader (fst (w_receive st1 r p)) x = get_reader st1 x) by (intros x; unfold get_reader; rewrite F2; reflexivity).
  split; [rewrite F1; exact ND|]. split; [rewrite F1; apply w_receive_rowlen; exact RL|].
  split.
  { rewrite F4, F1. intros D. destruct (DN D) as [E1 E2]. split; auto.
    unfold w_receive. rewrite D. exact E2. }
  split; [intros x; rewrite GR; apply DO|]. split; [intros x; rewrite F3, GR; apply DD|].
  rewrite F1, F3. intros i r' N. rewrite GR.
  destruct (w_done st1) eqn:D.
  { destruct (DN eq_refl) as [E1 _]. rewrite E1 in N. destruct i; discriminate. }
  pose proof (index_of_spec r (w_readers st1) 0) as IS.
  destruct (index_of r (w_readers st1) 0) as [idx|] eqn:IX.
  - destruct IS as [_ Nr]. rewrite Nat.sub_0_r in Nr.
    pose proof (w_receive_pend st1 r p idx D IX) as [WP _].
    destruct (pend idx (w_rows st1)) as [|k rest] eqn:PE.
    + rewrite WP. destruct (Nat.eq_dec r' r) as [->|Nrr].
      * assert (i = idx) by (eapply nodup_nth_inj; eauto). subst i. specialize (PRr idx Nr). rewrite PE in PRr. cbn [tl] in PRr. rewrite PE. exact PRr.
      * apply PRo; auto.
    + destruct WP as [W1 [W2 _]]. destruct (Nat.eq_dec i idx) as [->|Ni].
      * assert (r' = r) by congruence. subst r'. rewrite W1. specialize (PRr idx Nr). rewrite PE in PRr. exact PRr.
      * rewrite (W2 i Ni). apply PRo; auto. intros ->. apply Ni. eapply nodup_nth_inj; eauto.
  - assert (E : fst (w_receive st1 r p) = st1) by (unfold w_receive; rewrite D, IX; reflexivity). rewrite E.
    apply PRo; auto. intros ->. apply IS. eapply nth_error_In; eauto.
Qed.

Lemma get_reader_with_rds st rds r : get_reader (mkw (w_readers st) (w_rows st) (w_done st) (w_emitted st) (w_next st) rds (w_deferred st) false) r = nth r rds (mkreader [] true []).
Proof. reflexivity. Qed.

Lemma owed_in_range st r k l : rd_owed (get_reader st r) = k :: l -> Nat.ltb r (length (w_rds st)) = true.
Proof.
  intros H. destruct (Nat.ltb r (length (w_rds st))) eqn:L; [reflexivity|]. apply Nat.ltb_ge in L.
  unfold get_reader in H. rewrite nth_overflow in H by exact L. discriminate.
Qed.

Lemma step_answer st r p : FInv st -> w_crash st = false -> FInv (fst (w_step st (WAnswer r p))).
Proof.
  intros H C. pose proof H as [ND [RL [DN [DO [DD PR]]]]]. unfold w_step. rewrite C.
  destruct (rd_owed (get_reader st r)) as [|k owed'] eqn:OW; [exact H|].
  set (f := fun x : reader => mkreader owed' (rd_done x) (rd_inbox x)).
  set (st1 := mkw (w_readers st) (w_rows st) (w_done st) (w_emitted st) (w_next st) (upd_reader st r f) (w_deferred st) false).
  pose proof (owed_in_range st r k owed' OW) as Lr.
  assert (GR : forall x, get_reader st1 x = if Nat.eqb x r then f (get_reader st r) else get_reader st x).
  { intros x. unfold st1. rewrite get_reader_with_rds, get_reader_upd, Lr. reflexivity. }
  assert (GD : forall x, rd_done (get_reader st1 x) = rd_done (get_reader st x)).
  { intros x. rewrite GR. destruct (Nat.eqb x r) eqn:E; [apply Nat.eqb_eq in E; subst; reflexivity|reflexivity]. }
  assert (NDr : rd_done (get_reader st r) = false).
  { destruct (rd_done (get_reader st r)) eqn:Dr; [|reflexivity]. rewrite (DO r Dr) in OW. discriminate. }
  destruct (w_receive st1 r p) as [st2 ok] eqn:WR. cbn [fst].
  change st2 with (fst (st2, ok)). rewrite <- WR.
  apply receive_FInv; cbn [w_readers w_rows w_done w_deferred st1]; auto.
  - intros x Dx. rewrite GD in Dx. rewrite GR. destruct (Nat.eqb x r) eqn:E; [apply Nat.eqb_eq in E; subst; congruence|apply DO; exact Dx].
  - intros x I. rewrite GD. apply DD. exact I.
  - intros i x N Nx. rewrite GD, GR. destruct (Nat.eqb x r) eqn:E; [apply Nat.eqb_eq in E; congruence|]. exact (PR i x N).
  - intros i N. rewrite GD, NDr, GR, Nat.eqb_refl. cbn [f rd_owed]. pose proof (PR i r N) as P0. rewrite NDr, OW in P0. rewrite P0. reflexivity.
Qed.

Lemma step_close_reader st r : FInv st -> w_crash st = false -> FInv (fst (w_step st (WCloseReader r))).
Proof.
  intros H C. pose proof H as [ND [RL [DN [DO [DD PR]]]]]. unfold w_step. rewrite C.
  destruct (rd_done (get_reader st r)) eqn:Dr; [exact H|]. cbn [fst].
  set (f := fun x : reader => mkreader [] true (rd_inbox x)).
  set (n := length (rd_owed (get_reader st r))).
  assert (GR : forall x, get_reader (mkw (w_readers st) (w_rows st) (w_done st) (w_emitted st) (w_next st) (upd_reader st r f) (w_deferred st ++ repeat r n) false) x =
                 if Nat.eqb x r then (if Nat.ltb r (length (w_rds st)) then f (get_reader st r) else get_reader st x) else get_reader st x).
  { intros x. unfold get_reader at 1. cbn [w_rds]. apply get_reader_upd. }
  assert (Lr : Nat.ltb r (length (w_rds st)) = true).
  { destruct (Nat.ltb r (length (w_rds st))) eqn:L; [reflexivity|]. apply Nat.ltb_ge in L. unfold get_reader in Dr. rewrite nth_overflow in Dr by exact L. discriminate. }
  split; [exact ND|]. split; [exact RL|]. split; [exact DN|]. cbn [w_readers w_rows w_deferred].
  split; [|split].
  - intros x Dx. rewrite GR in *. destruct (Nat.eqb x r) eqn:E; [rewrite Lr; reflexivity|apply DO; exact Dx].
  - intros x I. rewrite GR. destruct (Nat.eqb x r) eqn:E; [rewrite Lr; reflexivity|].
    apply in_app_or in I. destruct I as [I|I]; [apply DD; exact I|]. apply repeat_spec in I. subst. rewrite Nat.eqb_refl in E. discriminate.
  - intros i x N. rewrite GR, count_app, count_repeat. pose proof (PR i x N) as P0.
    destruct (Nat.eqb x r) eqn:E.
    + apply Nat.eqb_eq in E. subst x. rewrite Lr. cbn [f rd_done]. rewrite Nat.eqb_refl. rewrite Dr in P0. rewrite P0. unfold n. lia.
    + rewrite Nat.eqb_sym, E, Nat.add_0_r. exact P0.
Qed.

Lemma step_deliver st i : FInv st -> w_crash st = false -> FInv (fst (w_step st (WDeliverDrop i))).
Proof.
  intros H C. pose proof H as [ND [RL [DN [DO [DD PR]]]]]. unfold w_step. rewrite C.
  destruct (nth_error (w_deferred st) i) as [r|] eqn:NE; [|exact H].
  set (st1 := mkw (w_readers st) (w_rows st) (w_done st) (w_emitted st) (w_next st) (w_rds st) (remove_at i (w_deferred st)) false).
  destruct (w_receive st1 r dropped) as [st2 ok] eqn:WR. cbn [fst]. change st2 with (fst (st2, ok)). rewrite <- WR.
  pose proof (DD r (nth_error_In _ _ NE)) as Dr.
  apply receive_FInv; cbn [w_readers w_rows w_done w_deferred st1]; auto.
  - intros x I. apply (DD x). eapply in_remove_at; exact I.
  - intros j x N Nx. change (get_reader st1 x) with (get_reader st x). pose proof (PR j x N) as P0.
    destruct (rd_done (get_reader st x)); [|exact P0].
    pose proof (count_remove_at x i (w_deferred st) r NE) as CR.
    destruct (Nat.eqb r x) eqn:E; [apply Nat.eqb_eq in E; congruence|]. lia.
  - intros j N. change (get_reader st1 r) with (get_reader st r). rewrite Dr. pose proof (PR j r N) as P0. rewrite Dr in P0.
    pose proof (count_remove_at r i (w_deferred st) r NE) as CR. rewrite Nat.eqb_refl in CR.
    destruct (pend j (w_rows st)); cbn [tl length] in *; lia.
Qed.

Lemma step_close_writer st : FInv st -> w_crash st = false -> FInv (fst (w_step st WCloseWriter)).
Proof.
  intros H C. pose proof H as [ND [RL [DN [DO [DD PR]]]]]. unfold w_step. rewrite C.
  destruct (w_done st); [exact H|]. cbn [fst].
  split; [constructor|]. split; [intros rw []|]. split; [auto|]. split; [exact DO|]. split; [exact DD|].
  intros i r N. destruct i; discriminate.
Qed.

Theorem w_step_FInv st op : FInv st -> ok_op st op -> FInv (fst (w_step st op)).
Proof.
  intros H OK. destruct (w_crash st) eqn:C; [unfold w_step; rewrite C; exact H|].
  destruct op; [apply step_link|apply step_unlink|apply step_write|apply step_answer|apply step_close_reader|apply step_deliver|apply step_close_writer]; auto.
Qed.

Fixpoint ok_hist (st : wstate) (ops : list wop) : Prop :=
  match ops with
  | [] => True
  | op :: r => ok_op st op /\ ok_hist (fst (w_step st op)) r
  end.

Lemma nth_repeat_reader n j : nth j (repeat (mkreader [] false []) n) (mkreader [] true []) = mkreader [] false [] \/
                              nth j (repeat (mkreader [] false []) n) (mkreader [] true []) = mkreader [] true [].
Proof. revert j. induction n; intros [|j]; cbn; auto. Qed.

Lemma fold_FInv ops : forall st, FInv st -> ok_hist st ops -> FInv (fold_left (fun st op => fst (w_step st op)) ops st).
Proof.
  induction ops as [|op ops IH]; intros st H O; cbn [fold_left]; [exact H|]. destruct O as [O1 O2]. apply IH; auto. apply w_step_FInv; auto.
Qed.

Theorem w_run_FInv n ops : ok_hist (w_init n) ops -> FInv (w_run n ops).
Proof.
  unfold w_run. intros OK. apply fold_FInv; auto. split; [constructor|]. split; [intros rw []|]. split; [discriminate|].
  split; [|split].
  - intros r _. unfold get_reader, w_init. cbn [w_rds]. destruct (nth_repeat_reader n r) as [E|E]; rewrite E; reflexivity.
  - intros r [].
  - intros i r N. destruct i; discriminate.
Qed.

(* Attribution: when reader r answers, the row the answer is filed in is the row of the oldest write r still owes *)
Theorem answer_filed_under_oldest_owed st r idx k rest :
  FInv st -> w_done st = false ->
  nth_error (w_readers st) idx = Some r -> rd_done (get_reader st r) = false -> rd_owed (get_reader st r) = k :: rest ->
  exists pre rw post, w_rows st = pre ++ rw :: post /\ r_serial rw = k /\ head_of idx (w_rows st) 0 = Some (length pre) /\
    cell_open idx rw = true /\ filter (cell_open idx) pre = [].
Proof.
  intros [ND [_ [_ [_ [_ PR]]]]] D N Dr OW. pose proof (PR idx r N) as P0. rewrite Dr, OW in P0.
  pose proof (head_of_spec idx (w_rows st) 0) as HS. destruct (head_of idx (w_rows st) 0) as [h|].
  - destruct HS as [pre [rw [post [R [Hh [F O]]]]]]. exists pre, rw, post. cbn in Hh. subst h.
    repeat split; auto. rewrite R, pend_split, O in P0. unfold pend at 1 in P0. rewrite F in P0. cbn in P0. congruence.
  - unfold pend in P0. rewrite HS in P0. discriminate.
Qed.
