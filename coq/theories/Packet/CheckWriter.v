(* Correspondence checker for C01: replay a harness-written history on the writer model. *)
From Coq Require Import List NArith ZArith Bool.
From Uf Require Import Packet.Writer.
Import ListNotations.

Fixpoint pay_eqb (a b : pay) {struct a} : bool :=
  match a, b with
  | PNil, PNil => true
  | PAtom x, PAtom y => Z.eqb x y
  | PErr x, PErr y =>
      (fix go (l l' : list Z) : bool :=
         match l, l' with [], [] => true | u :: t, v :: t' => Z.eqb u v && go t t' | _, _ => false end) x y
  | PSlice x, PSlice y =>
      (fix go (l l' : list pay) : bool :=
         match l, l' with [], [] => true | u :: t, v :: t' => pay_eqb u v && go t t' | _, _ => false end) x y
  | _, _ => false
  end.

Definition pkt_eqb (a b : pkt) : bool :=
  match a, b with
  | PNone, PNone => true
  | Pk x, Pk y => pay_eqb x y
  | _, _ => false
  end.

Definition wres_eqb (a b : wres) : bool :=
  match a, b with
  | WBool x, WBool y => Bool.eqb x y
  | WCount x, WCount y => Nat.eqb x y
  | WUnit, WUnit => true
  | _, _ => false
  end.

Fixpoint list_eqb {A} (f : A -> A -> bool) (l l' : list A) : bool :=
  match l, l' with
  | [], [] => true
  | a :: t, b :: t' => f a b && list_eqb f t t'
  | _, _ => false
  end.

(* a history: number of readers, steps with the observed results, the observed response stream
   (inbound hook of the writer), the request payloads each reader received *)
Record c01case := mk01 {
  c01n : nat;
  c01steps : list (wop * wres);
  c01emitted : list pkt;
  c01inbox : list (list pay)
}.

Fixpoint c01run (st : wstate) (steps : list (wop * wres)) : option wstate :=
  match steps with
  | [] => Some st
  | (op, ob) :: rest =>
      let '(st', r) := w_step st op in
      if wres_eqb r ob then c01run st' rest else None
  end.

Definition c01ok (c : c01case) : bool :=
  match c01run (w_init (c01n c)) (c01steps c) with
  | None => false
  | Some st =>
      negb (w_crash st) &&
      list_eqb pkt_eqb (map snd (w_emitted st)) (c01emitted c) &&
      list_eqb (list_eqb pay_eqb) (map rd_inbox (w_rds st)) (c01inbox c)
  end.

Fixpoint mismatches_from {A} (ok : A -> bool) (i : nat) (l : list A) : list nat :=
  match l with
  | [] => []
  | c :: t => if ok c then mismatches_from ok (S i) t else i :: mismatches_from ok (S i) t
  end.
Definition mismatches {A} (ok : A -> bool) (l : list A) : list nat := mismatches_from ok 0 l.
