(* C03 at the level of one writer: the writer of Packet/Writer.v together with the goroutine that
   pumps its responses to Writer.Receive() (repaired: it hands over everything queued before it
   closes the channel) and a consumer - the requester - that takes responses whenever it likes.

   The pump is a lossless FIFO, so what the consumer can take is w_emitted, in order; the channel
   reports closed once the writer is closed and everything has been taken. *)
From Coq Require Import List Arith NArith ZArith Bool Lia.
From Uf Require Import Packet.Writer Packet.WriterProofs.
Import ListNotations.

Inductive take := Got (p : pkt) | Blocked | Closed.

Record tdstate := mktd { td_w : wstate; td_taken : nat }.

Inductive tdop := TdW (op : wop) | TdTake.

Definition td_step (st : tdstate) (op : tdop) : tdstate * option take :=
  match op with
  | TdW o => (mktd (fst (w_step (td_w st) o)) (td_taken st), None)
  | TdTake =>
      match nth_error (w_emitted (td_w st)) (td_taken st) with
      | Some (_, p) => (mktd (td_w st) (S (td_taken st)), Some (Got p))
      | None => (st, Some (if w_done (td_w st) then Closed else Blocked))
      end
  end.

Fixpoint td_run (st : tdstate) (ops : list tdop) : tdstate * list take :=
  match ops with
  | [] => (st, [])
  | op :: ops' =>
      let '(st1, o) := td_step st op in
      let '(st2, os) := td_run st1 ops' in
      (st2, match o with Some t => t :: os | None => os end)
  end.

Definition td_init (n : nat) : tdstate := mktd (w_init n) 0.

(* ---- a closed writer has no pending write left, and stays as it is ---- *)
Definition closed_ok (st : wstate) : Prop := w_done st = true -> w_rows st = [].

Lemma w_receive_closed st r p : closed_ok st -> closed_ok (fst (w_receive st r p)).
Proof.
  unfold closed_ok, w_receive. intros H. destruct (w_done st) eqn:D; cbn; auto.
  destruct (index_of _ _ _); cbn; [|rewrite D; intros X; discriminate X].
  destruct (head_of _ _ _); cbn; [|rewrite D; intros X; discriminate X].
  destruct (flush _ _ _). cbn. intros X. discriminate X.
Qed.

Lemma w_step_closed st op : closed_ok st -> closed_ok (fst (w_step st op)).
Proof.
  intros H. unfold w_step. destruct (w_crash st); auto. destruct op.
  - destruct (w_done st) eqn:D; auto. destruct (index_of _ _ _); cbn [fst]; auto.
    unfold closed_ok. cbn. intros X. discriminate X.
  - destruct (w_done st) eqn:D; auto. destruct (index_of _ _ _); cbn [fst]; auto. destruct (flush _ _ _).
    unfold closed_ok. cbn. intros X. discriminate X.
  - destruct (w_done st) eqn:D; auto. destruct (w_readers st); cbn [fst]; auto. destruct (Nat.eqb _ 0); cbn [fst]; auto.
    unfold closed_ok. cbn. intros X. discriminate X.
  - destruct (rd_owed _); cbn [fst]; auto.
    match goal with |- context [w_receive ?s ?a ?b] => pose proof (w_receive_closed s a b) as L; destruct (w_receive s a b) as [st2 ok] end.
    cbn [fst] in *. apply L. exact H.
  - destruct (rd_done _); cbn [fst]; auto.
  - destruct (nth_error _ _); cbn [fst]; auto.
    match goal with |- context [w_receive ?s ?a ?b] => pose proof (w_receive_closed s a b) as L; destruct (w_receive s a b) as [st2 ok] end.
    cbn [fst] in *. apply L. exact H.
  - destruct (w_done st) eqn:D; cbn [fst]; auto. unfold closed_ok. cbn. reflexivity.
Qed.

Lemma w_run_closed n ops : closed_ok (w_run n ops).
Proof.
  unfold w_run. assert (G : forall st, closed_ok st -> closed_ok (fold_left (fun st op => fst (w_step st op)) ops st)).
  { induction ops as [|op ops IH]; intros st H; cbn [fold_left]; auto. apply IH, w_step_closed, H. }
  apply G. intros H. discriminate H.
Qed.

(* once the writer is closed, every write it ever accepted has its response queued: one per
   accepted write, in the order of the writes *)
Theorem closed_all_answered n ops :
  w_done (w_run n ops) = true -> map fst (w_emitted (w_run n ops)) = seq 0 (w_next (w_run n ops)).
Proof.
  intros D. pose proof (w_run_ledger n ops) as L. pose proof (w_run_closed n ops D) as R.
  unfold ledger, serials in L. rewrite R in L. cbn in L. rewrite app_nil_r in L. exact L.
Qed.

(* ---- the consumer: takes are the queued responses, in order, each exactly once ---- *)
Definition wops (ops : list tdop) : list wop := flat_map (fun o => match o with TdW w => [w] | TdTake => [] end) ops.
Definition gots (ts : list take) : list pkt := flat_map (fun t => match t with Got p => [p] | _ => [] end) ts.

Lemma w_step_emitted_prefix st op : exists l, w_emitted (fst (w_step st op)) = w_emitted st ++ l.
Proof.
  assert (F : forall rows em u rows' em', flush rows em u = (rows', em') -> exists l, em' = em ++ l).
  { induction rows as [|rw rows IH]; intros em u rows' em' H; cbn in H.
    - injection H as <- <-. exists []. rewrite app_nil_r. reflexivity.
    - destruct (row_complete rw).
      + apply IH in H as [l ->]. eexists. rewrite <- app_assoc. reflexivity.
      + injection H as <- <-. exists []. rewrite app_nil_r. reflexivity. }
  assert (R : forall s r p, exists l, w_emitted (fst (w_receive s r p)) = w_emitted s ++ l).
  { intros s r p. unfold w_receive. destruct (w_done s); [exists []; rewrite app_nil_r; reflexivity|].
    destruct (index_of _ _ _); [|exists []; rewrite app_nil_r; reflexivity].
    destruct (head_of _ _ _); [|exists []; rewrite app_nil_r; reflexivity].
    destruct (flush _ _ _) as [rows2 em] eqn:E. apply F in E as [l ->]. exists l. reflexivity. }
  unfold w_step. destruct (w_crash st); [exists []; rewrite app_nil_r; reflexivity|]. destruct op.
  - destruct (w_done st); [exists []; rewrite app_nil_r; reflexivity|]. destruct (index_of _ _ _); exists []; rewrite app_nil_r; reflexivity.
  - destruct (w_done st); [exists []; rewrite app_nil_r; reflexivity|]. destruct (index_of _ _ _); [|exists []; rewrite app_nil_r; reflexivity].
    destruct (flush _ _ _) as [rows2 em] eqn:E. apply F in E as [l ->]. exists l. reflexivity.
  - destruct (w_done st); [exists []; rewrite app_nil_r; reflexivity|]. destruct (w_readers st); [exists []; rewrite app_nil_r; reflexivity|].
    destruct (Nat.eqb _ 0); exists []; rewrite app_nil_r; reflexivity.
  - destruct (rd_owed _); [exists []; rewrite app_nil_r; reflexivity|].
    match goal with |- context [w_receive ?s ?a ?b] => destruct (R s a b) as [l0 Hl]; destruct (w_receive s a b) as [st2 ok] end.
    cbn in *. exists l0. exact Hl.
  - destruct (rd_done _); exists []; rewrite app_nil_r; reflexivity.
  - destruct (nth_error _ _); [|exists []; rewrite app_nil_r; reflexivity].
    match goal with |- context [w_receive ?s ?a ?b] => destruct (R s a b) as [l0 Hl]; destruct (w_receive s a b) as [st2 ok] end.
    cbn in *. exists l0. exact Hl.
  - destruct (w_done st); [exists []; rewrite app_nil_r; reflexivity|]. cbn. eexists. reflexivity.
Qed.

(* whatever the interleaving of takes with the writer's operations, what the consumer got so far is
   the first td_taken responses of the queue, and it never gets more than is queued *)
Theorem takes_are_queue_prefix : forall ops st st' ts,
  td_taken st <= length (w_emitted (td_w st)) ->
  td_run st ops = (st', ts) ->
  td_taken st' <= length (w_emitted (td_w st'))
  /\ firstn (td_taken st') (map snd (w_emitted (td_w st'))) = firstn (td_taken st) (map snd (w_emitted (td_w st))) ++ gots ts
  /\ td_w st' = fold_left (fun s o => fst (w_step s o)) (wops ops) (td_w st).
Proof.
  induction ops as [|op ops IH]; intros st st' ts Hle H; cbn [td_run] in H.
  - injection H as <- <-. cbn. rewrite app_nil_r. auto.
  - destruct (td_step st op) as [st1 o] eqn:S1. destruct (td_run st1 ops) as [st2 os] eqn:S2. injection H as <- <-.
    destruct op as [wo|]; cbn [td_step] in S1.
    + injection S1 as <- <-. destruct (w_step_emitted_prefix (td_w st) wo) as [l Hl].
      apply IH in S2 as [A [B C]]; cbn [td_w td_taken] in *.
      * split; [exact A|]. split; [|exact C]. rewrite B, Hl, map_app, firstn_app.
        replace (td_taken st - length (map snd (w_emitted (td_w st)))) with 0 by (rewrite map_length; lia).
        cbn. rewrite app_nil_r. reflexivity.
      * rewrite Hl, app_length. lia.
    + destruct (nth_error (w_emitted (td_w st)) (td_taken st)) as [[s p]|] eqn:N.
      * injection S1 as <- <-. apply IH in S2 as [A [B C]]; cbn [td_w td_taken] in *.
        -- split; [exact A|]. split; [|exact C]. rewrite B. cbn [gots flat_map app].
           assert (Hn : nth_error (map snd (w_emitted (td_w st))) (td_taken st) = Some p) by (rewrite nth_error_map, N; reflexivity).
           clear - Hn. revert Hn. generalize (map snd (w_emitted (td_w st))) as l. generalize (td_taken st) as k.
           induction k as [|k IHk]; intros [|x l] Hn; cbn in *; try discriminate.
           ++ injection Hn as ->. reflexivity.
           ++ rewrite (IHk l Hn). reflexivity.
        -- apply nth_error_Some. rewrite N. discriminate.
      * injection S1 as <- <-. apply IH in S2 as [A [B C]]; auto. split; [exact A|]. split; [|exact C].
        rewrite B. cbn [gots flat_map]. destruct (w_done (td_w st)); reflexivity.
Qed.
