(* Model of pkg/runtime/runtime.go (repaired tree): Load, and the two event handlers of Reconcile,
   over abstract spec and value stores.  What a spec "is" is cut down to what Load looks at:
   id, namespace, kind (0 = no registered type, 1 = registered with a working codec, 2 = registered
   but the codec refuses), a body version, environment references, and one templated field that
   copies an environment variable (so that Build is covered).

   Each Load is one atomic step (the repaired Runtime serialises Loads). *)
From Coq Require Import List NArith Bool Lia.
Import ListNotations.

Record eref := mkeref { e_key : nat; e_id : nat; e_name : nat }.          (* 0 = not given *)
Record rspec := mkspec { p_id : nat; p_ns : nat; p_kind : nat; p_body : nat; p_env : list eref; p_copy : nat }.
(* p_copy: index into p_env of the variable that the templated field refers to (out of range = no such field) *)
Record rval := mkval { v_id : nat; v_ns : nat; v_name : nat; v_data : nat }.

(* an environment entry as it stands in the table: after a successful match it carries the value's
   id, name and data; otherwise it is as written in the spec *)
Record bent := mkbent { b_key : nat; b_id : nat; b_name : nat; b_data : option nat }.
Record tsym := mktsym {
  y_id : nat; y_ns : nat; y_kind : nat; y_body : nat;
  y_env : list bent; y_copy : option (option nat);
  y_ok : bool;      (* Bind, Build and Decode all succeeded *)
  y_node : bool     (* the symbol has a node: it is loaded / unloaded with notifications *)
}.

Record rcfg := mkcfg { c_ns : nat; c_env : option nat }.   (* namespace; data of Config.Environment if non-empty *)

Inductive ev := ELoad (id : nat) | EUnload (id : nat).

Inductive lfilter := FAll | FIds (ids : list nat).
Definition fmatch (f : lfilter) (id : nat) : bool :=
  match f with FAll => true | FIds l => existsb (Nat.eqb id) l end.

(* ---- Bind ---- *)
Definition identified (e : eref) : bool := negb (Nat.eqb (e_id e) 0) || negb (Nat.eqb (e_name e) 0).

(* Value.Is(example) with example = {ID: e.id, Namespace: ns, Name: e.name} *)
Definition val_match (ns : nat) (e : eref) (v : rval) : bool :=
  Nat.eqb (v_ns v) ns && (Nat.eqb (e_id e) 0 || Nat.eqb (v_id v) (e_id e)) && (Nat.eqb (e_name e) 0 || Nat.eqb (v_name v) (e_name e)).

Definition resolve (cfg : rcfg) (vals : list rval) (ns : nat) (e : eref) : bent * bool :=
  if identified e then
    match find (val_match ns e) vals with
    | Some v => (mkbent (e_key e) (v_id v) (v_name v) (Some (v_data v)), true)
    | None => (mkbent (e_key e) (e_id e) (e_name e) None, false)
    end
  else match c_env cfg with
       | Some d => (mkbent (e_key e) 0 0 (Some d), true)
       | None => (mkbent (e_key e) 0 0 None, true)
       end.

Definition bind (cfg : rcfg) (vals : list rval) (p : rspec) : tsym :=
  let rs := map (resolve cfg vals (p_ns p)) (p_env p) in
  let ok := forallb snd rs in
  let env := map fst rs in
  mktsym (p_id p) (p_ns p) (p_kind p) (p_body p) env
         (if ok then option_map b_data (nth_error env (p_copy p)) else None)
         ok (ok && Nat.eqb (p_kind p) 1).

(* ---- the table ---- *)
Definition t_lookup (id : nat) (tab : list tsym) : option tsym := find (fun y => Nat.eqb (y_id y) id) tab.
Definition t_remove (id : nat) (tab : list tsym) : list tsym := filter (fun y => negb (Nat.eqb (y_id y) id)) tab.
Definition t_insert (y : tsym) (tab : list tsym) : list tsym := t_remove (y_id y) tab ++ [y].

Definition oeqb (a b : option nat) : bool :=
  match a, b with Some x, Some y => Nat.eqb x y | None, None => true | _, _ => false end.
Definition bent_eqb (a b : bent) : bool :=
  Nat.eqb (b_key a) (b_key b) && Nat.eqb (b_id a) (b_id b) && Nat.eqb (b_name a) (b_name b) && oeqb (b_data a) (b_data b).
Fixpoint list_eqb {A B} (eqb : A -> B -> bool) (l1 : list A) (l2 : list B) : bool :=
  match l1, l2 with
  | [], [] => true
  | a :: l1', b :: l2' => eqb a b && list_eqb eqb l1' l2'
  | _, _ => false
  end.
Definition ooeqb (a b : option (option nat)) : bool :=
  match a, b with Some x, Some y => oeqb x y | None, None => true | _, _ => false end.
Definition tsym_eqb (a b : tsym) : bool :=
  Nat.eqb (y_id a) (y_id b) && Nat.eqb (y_ns a) (y_ns b) && Nat.eqb (y_kind a) (y_kind b) && Nat.eqb (y_body a) (y_body b)
  && list_eqb bent_eqb (y_env a) (y_env b) && ooeqb (y_copy a) (y_copy b) && Bool.eqb (y_ok a) (y_ok b) && Bool.eqb (y_node a) (y_node b).

Definition evs_of (y : tsym) (mk : nat -> ev) : list ev := if y_node y then [mk (y_id y)] else [].

(* ---- Load ---- *)
Definition load_one (cfg : rcfg) (vals : list rval) (acc : list tsym * list ev) (p : rspec) : list tsym * list ev :=
  let '(tab, log) := acc in
  let y := bind cfg vals p in
  match t_lookup (p_id p) tab with
  | Some old => if tsym_eqb old y then (tab, log)
                else (t_insert y tab, log ++ evs_of old EUnload ++ evs_of y ELoad)
  | None => (t_insert y tab, log ++ evs_of y ELoad)
  end.

Definition selected (cfg : rcfg) (f : lfilter) (specs : list rspec) : list rspec :=
  filter (fun p => Nat.eqb (p_ns p) (c_ns cfg) && fmatch f (p_id p)) specs.

Definition is_stale (cfg : rcfg) (f : lfilter) (sel : list rspec) (y : tsym) : bool :=
  Nat.eqb (y_ns y) (c_ns cfg) && fmatch f (y_id y) && negb (existsb (fun p => Nat.eqb (p_id p) (y_id y)) sel).

Definition load (cfg : rcfg) (f : lfilter) (specs : list rspec) (vals : list rval) (tab : list tsym) : list tsym * list ev :=
  let sel := selected cfg f specs in
  let '(tab1, log1) := fold_left (load_one cfg vals) sel (tab, []) in
  (filter (fun y => negb (is_stale cfg f sel y)) tab1,
   log1 ++ flat_map (fun y => evs_of y EUnload) (filter (is_stale cfg f sel) tab1)).

(* ---- stores, streams and Reconcile ---- *)
Record rstate := mkr {
  r_specs : list rspec; r_vals : list rval; r_tab : list tsym;
  r_sq : list nat;      (* spec stream: ids of pending events, oldest first *)
  r_vq : list nat       (* value stream *)
}.

Definition r_init : rstate := mkr [] [] [] [] [].

Definition put_spec (p : rspec) (l : list rspec) : list rspec :=
  if existsb (fun q => Nat.eqb (p_id q) (p_id p)) l
  then map (fun q => if Nat.eqb (p_id q) (p_id p) then p else q) l
  else l ++ [p].
Definition put_val (v : rval) (l : list rval) : list rval :=
  if existsb (fun q => Nat.eqb (v_id q) (v_id v)) l
  then map (fun q => if Nat.eqb (v_id q) (v_id v) then v else q) l
  else l ++ [v].

(* Meta.IsBound(values...) as Reconcile calls it: values = the stored values with the event's id,
   plus the bare {ID: vid} *)
Definition is_bound (vs : list rval) (vid : nat) (y : tsym) : bool :=
  existsb (fun b =>
    (negb (Nat.eqb (b_id b) 0) && Nat.eqb (b_id b) vid)
    || (negb (Nat.eqb (b_name b) 0) && existsb (fun v => Nat.eqb (v_ns v) (y_ns y) && Nat.eqb (v_name v) (b_name b)) vs))
    (y_env y).

Definition proc_spec (cfg : rcfg) (st : rstate) (id : nat) : rstate * list ev :=
  let '(tab, log) := load cfg (FIds [id]) (r_specs st) (r_vals st) (r_tab st) in
  (mkr (r_specs st) (r_vals st) tab (r_sq st) (r_vq st), log).

Definition proc_val (cfg : rcfg) (st : rstate) (vid : nat) : rstate * list ev :=
  let vs := filter (fun v => Nat.eqb (v_id v) vid) (r_vals st) in
  let ids := map y_id (filter (is_bound vs vid) (r_tab st)) in
  match ids with
  | [] => (st, [])
  | _ => let '(tab, log) := load cfg (FIds ids) (r_specs st) (r_vals st) (r_tab st) in
         (mkr (r_specs st) (r_vals st) tab (r_sq st) (r_vq st), log)
  end.

Inductive rop :=
| OSpecPut (p : rspec)        (* insert, or update in place when the id is already stored *)
| OSpecDel (id : nat)
| OValPut (v : rval)
| OValDel (id : nat)
| OLoad (f : lfilter)
| OProcSpec                   (* Reconcile handles the oldest pending spec event *)
| OProcVal
| ODrain.                     (* ... handles everything pending: spec events, then value events *)

Definition spec_ns (id : nat) (l : list rspec) : option nat := option_map p_ns (find (fun q => Nat.eqb (p_id q) id) l).
Definition val_ns (id : nat) (l : list rval) : option nat := option_map v_ns (find (fun q => Nat.eqb (v_id q) id) l).

Fixpoint drain_specs (cfg : rcfg) (q : list nat) (st : rstate) (log : list ev) : rstate * list ev :=
  match q with
  | [] => (st, log)
  | id :: q' => let '(st1, l1) := proc_spec cfg st id in drain_specs cfg q' st1 (log ++ l1)
  end.
Fixpoint drain_vals (cfg : rcfg) (q : list nat) (st : rstate) (log : list ev) : rstate * list ev :=
  match q with
  | [] => (st, log)
  | id :: q' => let '(st1, l1) := proc_val cfg st id in drain_vals cfg q' st1 (log ++ l1)
  end.

Definition set_queues (st : rstate) (sq vq : list nat) : rstate := mkr (r_specs st) (r_vals st) (r_tab st) sq vq.

Definition r_step (cfg : rcfg) (st : rstate) (op : rop) : rstate * list ev :=
  match op with
  | OSpecPut p =>
      (mkr (put_spec p (r_specs st)) (r_vals st) (r_tab st)
           (if Nat.eqb (p_ns p) (c_ns cfg) then r_sq st ++ [p_id p] else r_sq st) (r_vq st), [])
  | OSpecDel id =>
      (mkr (filter (fun q => negb (Nat.eqb (p_id q) id)) (r_specs st)) (r_vals st) (r_tab st)
           (match spec_ns id (r_specs st) with
            | Some ns => if Nat.eqb ns (c_ns cfg) then r_sq st ++ [id] else r_sq st
            | None => r_sq st end) (r_vq st), [])
  | OValPut v =>
      (mkr (r_specs st) (put_val v (r_vals st)) (r_tab st) (r_sq st)
           (if Nat.eqb (v_ns v) (c_ns cfg) then r_vq st ++ [v_id v] else r_vq st), [])
  | OValDel id =>
      (mkr (r_specs st) (filter (fun q => negb (Nat.eqb (v_id q) id)) (r_vals st)) (r_tab st) (r_sq st)
           (match val_ns id (r_vals st) with
            | Some ns => if Nat.eqb ns (c_ns cfg) then r_vq st ++ [id] else r_vq st
            | None => r_vq st end), [])
  | OLoad f =>
      let '(tab, log) := load cfg f (r_specs st) (r_vals st) (r_tab st) in
      (mkr (r_specs st) (r_vals st) tab (r_sq st) (r_vq st), log)
  | OProcSpec =>
      match r_sq st with
      | [] => (st, [])
      | id :: q => proc_spec cfg (set_queues st q (r_vq st)) id
      end
  | OProcVal =>
      match r_vq st with
      | [] => (st, [])
      | id :: q => proc_val cfg (set_queues st (r_sq st) q) id
      end
  | ODrain =>
      let '(st1, l1) := drain_specs cfg (r_sq st) (set_queues st [] (r_vq st)) [] in
      drain_vals cfg (r_vq st1) (set_queues st1 [] []) l1
  end.

Fixpoint r_run (cfg : rcfg) (st : rstate) (ops : list rop) : list (list tsym * list ev) :=
  match ops with
  | [] => []
  | op :: ops' => let '(st1, log) := r_step cfg st op in (r_tab st1, log) :: r_run cfg st1 ops'
  end.
